#!/usr/bin/env python3
# C10 driver for the Python SDK range mapper.
#
# usage: c10_ranges_driver.py <repo>/sdk/python/arvados
# protocol: one JSON object per line on stdin, one JSON object per line on stdout.
#
# The Python SDK cannot be imported in this sandbox (modules `future`,
# `pycurl` are missing), so:
#   * REAL code, loaded by file path from the repository under test:
#       arvados/_ranges.py            (Range, locators_and_ranges, first_block)
#       arvados/_normalize_stream.py  (escape, normalize_stream)
#   * MIRRORED here (kept line-by-line close to the original, marked MIRROR):
#       Collection._import_manifest / _unescape_manifest_path   (tokenizer, collection.py)
#       ArvadosFile._add_segment / readfrom's range lookup      (arvfile.py)
#       RichCollectionBase.find_or_create / _get_manifest_text  (tree + per-directory normalize)
# Anything the mirror decides (tokenizing, tree conflicts) is reported with
# where="tokenizer" and is never judged as the code under test.

import sys, os, json, base64, re, hashlib, types, traceback, importlib.util

EMPTY = 'd41d8cd98f00b204e9800998ecf8427e+0'


def load_real(sdkdir):
    pkg = types.ModuleType('arvados')
    pkg.__path__ = [sdkdir]
    sys.modules['arvados'] = pkg
    cfg = types.ModuleType('arvados.config')
    cfg.EMPTY_BLOCK_LOCATOR = EMPTY
    sys.modules['arvados.config'] = cfg
    pkg.config = cfg

    def loadmod(name):
        spec = importlib.util.spec_from_file_location('arvados.' + name, os.path.join(sdkdir, name + '.py'))
        mod = importlib.util.module_from_spec(spec)
        sys.modules['arvados.' + name] = mod
        spec.loader.exec_module(mod)
        return mod
    return loadmod('_ranges'), loadmod('_normalize_stream')


class MirrorSyntaxError(Exception):
    pass


class RealCodeError(Exception):
    def __init__(self, where, exc, trace):
        Exception.__init__(self, exc)
        self.where, self.exc, self.trace = where, exc, trace


# ---- MIRROR collection.py: Collection._token_re etc.
_token_re = re.compile(r'(\S+)(\s+|$)')
_block_re = re.compile(r'[0-9a-f]{32}\+(\d+)(\+\S+)*')
_segment_re = re.compile(r'(\d+):(\d+):(\S+)')


def _unescape_manifest_path(path):
    return re.sub('\\\\([0-3][0-7][0-7])', lambda m: chr(int(m.group(1), 8)), path)


class File(object):
    def __init__(self):
        self.segments = []   # list of real _ranges.Range


class Dir(object):
    def __init__(self):
        self.items = {}

    # ---- MIRROR RichCollectionBase.find_or_create
    def find_or_create(self, path, want_file):
        pathcomponents = path.split("/", 1)
        if pathcomponents[0]:
            item = self.items.get(pathcomponents[0])
            if len(pathcomponents) == 1:
                if item is None:
                    item = File() if want_file else Dir()
                    self.items[pathcomponents[0]] = item
                return item
            else:
                if item is None:
                    item = Dir()
                    self.items[pathcomponents[0]] = item
                if isinstance(item, Dir):
                    return item.find_or_create(pathcomponents[1], want_file)
                else:
                    raise MirrorSyntaxError("ENOTDIR %s" % pathcomponents[0])
        else:
            return self


def root_find_or_create(root, path, want_file):
    # ---- MIRROR Collection.find_or_create
    if path == ".":
        return root
    return root.find_or_create(path[2:] if path.startswith("./") else path, want_file)


def real(where, fn, *args):
    try:
        return fn(*args)
    except Exception as e:
        raise RealCodeError(where, "%s: %s" % (type(e).__name__, e), traceback.format_exc())


def import_manifest(R, manifest_text):
    """MIRROR Collection._import_manifest; add_segment calls the REAL locators_and_ranges."""
    root = Dir()
    STREAM_NAME, BLOCKS, SEGMENTS = 0, 1, 2
    stream_name = None
    state = STREAM_NAME
    for token_and_separator in _token_re.finditer(manifest_text):
        tok = token_and_separator.group(1)
        sep = token_and_separator.group(2)
        if state == STREAM_NAME:
            stream_name = _unescape_manifest_path(tok)
            blocks = []
            streamoffset = 0
            state = BLOCKS
            root_find_or_create(root, stream_name, False)
            continue
        if state == BLOCKS:
            block_locator = _block_re.match(tok)
            if block_locator:
                blocksize = int(block_locator.group(1))
                blocks.append(R.Range(tok, streamoffset, blocksize, 0))
                streamoffset += blocksize
            else:
                state = SEGMENTS
        if state == SEGMENTS:
            file_segment = _segment_re.match(tok)
            if file_segment:
                pos = int(file_segment.group(1))
                size = int(file_segment.group(2))
                name = _unescape_manifest_path(file_segment.group(3))
                if name.split('/')[-1] == '.':
                    if len(name) > 2:
                        root_find_or_create(root, os.path.join(stream_name, name[:-2]), False)
                else:
                    filepath = os.path.join(stream_name, name)
                    afile = root_find_or_create(root, filepath, True)
                    if isinstance(afile, File):
                        # ---- MIRROR ArvadosFile._add_segment
                        for lr in real("ranges", R.locators_and_ranges, blocks, pos, size):
                            last = afile.segments[-1] if afile.segments else R.Range(0, 0, 0, 0)
                            r = R.Range(lr.locator, last.range_start + last.range_size, lr.segment_size, lr.segment_offset)
                            afile.segments.append(r)
                    else:
                        raise MirrorSyntaxError("File %s conflicts with stream of the same name." % filepath)
            else:
                raise MirrorSyntaxError("Invalid manifest format, expected file segment but did not match format: '%s'" % tok)
        if sep == "\n":
            stream_name = None
            state = STREAM_NAME
    return root


def file_size(f):
    if f.segments:
        n = f.segments[-1]
        return n.range_start + n.range_size
    return 0


def walk(d, prefix, out):
    for name in sorted(d.items.keys()):
        it = d.items[name]
        p = prefix + "/" + name
        if isinstance(it, File):
            out.append((p, it))
        else:
            walk(it, p, out)


def get_manifest_text(R, N, d, stream_name, top=True):
    """MIRROR RichCollectionBase._get_manifest_text(normalize=True, strip=False);
    normalize_stream is REAL."""
    if not top and len(d.items) == 0:
        # MIRROR Subcollection._get_manifest_text
        return "%s %s 0:0:\\056\n" % (real("normalize", N.escape, stream_name), EMPTY)
    stream = {}
    buf = []
    sorted_keys = sorted(d.items.keys())
    for filename in [s for s in sorted_keys if isinstance(d.items[s], File)]:
        arvfile = d.items[filename]
        filestream = []
        for segment in arvfile.segments:
            loc = segment.locator
            # KeepLocator(loc).size
            blocksize = int(loc.split('+')[1])
            filestream.append(R.LocatorAndRange(loc, blocksize, segment.segment_offset, segment.range_size))
        stream[filename] = filestream
    if stream:
        buf.append(" ".join(real("normalize", N.normalize_stream, stream_name, stream)) + "\n")
    for dirname in [s for s in sorted_keys if isinstance(d.items[s], Dir)]:
        buf.append(get_manifest_text(R, N, d.items[dirname], os.path.join(stream_name, dirname), False))
    return "".join(buf)


def reads_for(R, f):
    """MIRROR of the lookup in ArvadosFile.readfrom: locators_and_ranges(self._segments, offset, size)."""
    size = file_size(f)
    pairs = [(0, size), (1, size - 1), (0, size - 1), (size // 2, size - size // 2), (0, size // 2)]
    for s in f.segments:
        b = s.range_start
        pairs += [(b, 1), (b - 1, 2), (b, size - b)]
    out = []
    seen = set()
    for off, n in pairs:
        if off < 0 or n <= 0 or off + n > size or (off, n) in seen or len(out) >= 12:
            continue
        seen.add((off, n))
        lrs = real("ranges", R.locators_and_ranges, f.segments, off, n)
        out.append([off, n, [[lr.locator, lr.segment_offset, lr.segment_size] for lr in lrs]])
    return out


def pdh(text):
    """Independent portable-data-hash computation (hashlib)."""
    out = []
    for line in text.split("\n")[:-1]:
        toks = line.split(" ")
        res = [toks[0]]
        infiles = False
        for t in toks[1:]:
            if not infiles and ":" not in t:
                res.append("+".join(t.split("+")[:2]))
            else:
                infiles = True
                res.append(t)
        out.append(" ".join(res) + "\n")
    s = "".join(out).encode("utf-8")
    return "%s+%d" % (hashlib.md5(s).hexdigest(), len(s))


def b64(s):
    return base64.b64encode(s.encode("utf-8", "surrogatepass")).decode("ascii")


def handle(R, N, req):
    raw = base64.b64decode(req["text_b64"])
    try:
        text = raw.decode("utf-8")
    except UnicodeDecodeError as e:
        return {"ok": False, "where": "driver", "exc": "undecodable: %s" % e}
    try:
        root = import_manifest(R, text)
        files = []
        walk(root, ".", files)
        res = {"ok": True,
               "files": [[b64(p), [[s.locator, s.segment_offset, s.range_size] for s in f.segments]] for p, f in files]}
        if req.get("reads"):
            res["ranges"] = [[b64(p), reads_for(R, f)] for p, f in files]
        res["norm"] = get_manifest_text(R, N, root, ".")
        res["pdh"] = pdh(text)
        return res
    except MirrorSyntaxError as e:
        return {"ok": False, "where": "tokenizer", "exc": str(e)}
    except RealCodeError as e:
        return {"ok": False, "where": e.where, "exc": e.exc, "trace": e.trace[-1500:]}
    except Exception as e:
        return {"ok": False, "where": "tokenizer", "exc": "%s: %s" % (type(e).__name__, e), "trace": traceback.format_exc()[-1500:]}


def main():
    R, N = load_real(sys.argv[1])
    out = sys.stdout
    for line in sys.stdin:
        line = line.strip()
        if not line:
            continue
        try:
            req = json.loads(line)
            if req.get("op") == "ping":
                res = {"ok": True, "where": "ping"}
            else:
                res = handle(R, N, req)
        except Exception as e:
            res = {"ok": False, "where": "driver", "exc": "%s: %s" % (type(e).__name__, e), "trace": traceback.format_exc()[-1500:]}
        out.write(json.dumps(res) + "\n")
        out.flush()


if __name__ == "__main__":
    main()
