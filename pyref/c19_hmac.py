#!/usr/bin/env python3
"""C19 reference: hex HMAC-SHA1(key=secret, msg=remote cluster id).

Reads JSON lines {"secret_hex": <hex of the secret bytes>, "remote_hex": <hex of the remote id bytes>}
on stdin and writes one line per input: the 40-digit lower-case hex digest computed
with Python's hmac/hashlib (an implementation independent of Go's crypto/hmac and of
sdk/go/auth/salt.go).  Used by harness/sdk/go/auth/c19_test.go to cross-check the
Go-stdlib reference the C19 oracles are built on.
"""
import hashlib
import hmac
import json
import sys


def main():
    out = []
    for line in sys.stdin:
        line = line.strip()
        if not line:
            continue
        d = json.loads(line)
        key = bytes.fromhex(d["secret_hex"])
        msg = bytes.fromhex(d["remote_hex"])
        out.append(hmac.new(key, msg, hashlib.sha1).hexdigest())
    sys.stdout.write("\n".join(out) + ("\n" if out else ""))


if __name__ == "__main__":
    main()
