#!/usr/bin/env python3
"""C07 reference oracle: Arvados blob signatures, transcribed from
services/api/app/models/blob.rb (Blob.sign_locator, Blob.verify_signature!,
Blob.generate_signature) using only Python's hmac/hashlib.

Ruby cannot be executed in this sandbox, so the three methods are transcribed
statement by statement (Ruby's String#split semantics included, see rsplit_*).

Protocol (used by harness/sdk/go/arvados/c07_test.go): one JSON document per
input line, one JSON document per output line (flushed), until EOF.

  request  {"items":[ITEM,...]}
  ITEM     {"op":"sign",  "loc":str, "token":str, "key":hex, "expire":int, "ttl":int}
           {"op":"verify","loc":str, "token":str, "key":hex, "now":int,    "ttl":int}
           {"op":"hmac",  "key":hex, "msg":hex}
  response {"results":[RESULT,...]}
  RESULT   sign   -> {"signed":str, "signature":str, "message":str}
           verify -> {"ok":bool, "why":str}
           hmac   -> {"hex":str}

"ttl" is Rails.configuration.Collections.BlobSigningTTL.to_i (whole seconds).
"""
import hashlib
import hmac
import json
import re
import sys


def ruby_split(s, sep):
    """Ruby's String#split(sep) with a string separator and no limit:
    like Python's split, but trailing empty fields are dropped, and the
    empty string splits into []."""
    if s == "":
        return []
    parts = s.split(sep)
    while parts and parts[-1] == "":
        parts.pop()
    return parts


def ruby_first(a):
    return a[0] if a else None


def ruby_last(a):
    return a[-1] if a else None


def to_s16(n):
    """Integer#to_s(16)"""
    return ("-" if n < 0 else "") + format(abs(n), "x")


def generate_signature(key, blob_hash, api_token, timestamp, blob_signature_ttl):
    # OpenSSL::HMAC.hexdigest('sha1', key,
    #   [blob_hash, api_token, timestamp, blob_signature_ttl].join('@'))
    msg = "@".join([blob_hash, api_token, timestamp, blob_signature_ttl])
    return hmac.new(key, msg.encode("utf-8"), hashlib.sha1).hexdigest(), msg


def sign_locator(blob_locator, api_token, key, expire, ttl_seconds):
    # blob_hash = blob_locator.split('+').first
    blob_hash = ruby_first(ruby_split(blob_locator, "+"))
    # timestamp = opts[:expire]; timestamp_hex = timestamp.to_s(16)
    timestamp_hex = to_s16(expire)
    # blob_signature_ttl = ...BlobSigningTTL.to_i.to_s(16)
    blob_signature_ttl = to_s16(ttl_seconds)
    signature, msg = generate_signature(key, blob_hash, api_token, timestamp_hex, blob_signature_ttl)
    # blob_locator + '+A' + signature + '@' + timestamp_hex
    return blob_locator + "+A" + signature + "@" + timestamp_hex, signature, msg


_ts_re = re.compile(r"^[\da-f]+$", re.M)  # Ruby ^/$ are line anchors


def ruby_to_i16(s):
    """String#to_i(16): longest valid prefix (optional sign, optional 0x,
    hex digits, single underscores between digits); 0 if none."""
    m = re.match(r"\s*([+-]?)(?:0[xX])?([0-9a-fA-F]+(?:_[0-9a-fA-F]+)*)", s)
    if not m:
        return 0
    v = int(m.group(2).replace("_", ""), 16)
    return -v if m.group(1) == "-" else v


def verify_signature(signed_blob_locator, api_token, key, now, ttl_seconds):
    # blob_hash = signed_blob_locator.split('+').first
    blob_hash = ruby_first(ruby_split(signed_blob_locator, "+"))
    # given_signature, timestamp = signed_blob_locator.
    #   split('+A').last.split('+').first.split('@')
    a = ruby_last(ruby_split(signed_blob_locator, "+A"))
    if a is None:
        return False, "No signature provided."
    b = ruby_first(ruby_split(a, "+"))
    if b is None:
        return False, "No signature provided."
    c = ruby_split(b, "@")
    given_signature = c[0] if len(c) > 0 else None
    timestamp = c[1] if len(c) > 1 else None
    if not timestamp:
        return False, "No signature provided."
    if not _ts_re.search(timestamp):
        return False, "Timestamp is not a base16 number."
    if ruby_to_i16(timestamp) < now:
        return False, "Signature expiry time has passed."
    blob_signature_ttl = to_s16(ttl_seconds)
    my_signature, _ = generate_signature(key, blob_hash or "", api_token, timestamp, blob_signature_ttl)
    if my_signature != given_signature:
        return False, "Signature is invalid."
    return True, ""


def handle(item):
    op = item.get("op")
    if op == "hmac":
        return {"hex": hmac.new(bytes.fromhex(item["key"]), bytes.fromhex(item["msg"]), hashlib.sha1).hexdigest()}
    key = bytes.fromhex(item["key"])
    if op == "sign":
        signed, sig, msg = sign_locator(item["loc"], item["token"], key, int(item["expire"]), int(item["ttl"]))
        return {"signed": signed, "signature": sig, "message": msg}
    if op == "verify":
        ok, why = verify_signature(item["loc"], item["token"], key, int(item["now"]), int(item["ttl"]))
        return {"ok": ok, "why": why}
    return {"error": "unknown op %r" % (op,)}


def main():
    out = sys.stdout
    for line in sys.stdin:
        line = line.strip()
        if not line:
            continue
        try:
            req = json.loads(line)
            res = {"results": [handle(it) for it in req.get("items", [])]}
        except Exception as e:  # reported to the harness, which turns it into "inconclusive"
            res = {"error": "%s: %s" % (type(e).__name__, e)}
        out.write(json.dumps(res) + "\n")
        out.flush()


if __name__ == "__main__":
    main()
