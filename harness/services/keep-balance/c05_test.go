//go:build verif

package main

// C05 — keep-balance never trashes a replica that is still needed or too new.
// See /verif/DESIGN.md §5 C05.
//
// The harness builds Balancer.KeepServices/mounts by hand, calls the real
// cleanupMounts, BlockStateMap.AddReplicas/IncreaseDesired, setupLookupTables
// and balanceBlock, serialises the resulting ChangeSets with their real
// MarshalJSON (what keepstore would receive) and judges them against a
// physical-device model built from the *case description only*:
//
//	device  = class of mounts with equal non-blank DeviceID (a blank id is a
//	          device of its own); a device has one replication level, holds
//	          the block or not, and its copy has one mtime that is seen
//	          through every mount of the device
//	B1 no trash of a replica with mtime >= MinMtime
//	B2 no trash on a read-only mount / a mount of a read-only service
//	B3 some class with desired > Σ replication(distinct devices holding the
//	   block and serving the class)  ⇒  no trash at all
//	B4 after applying every trash to the device model (no pull succeeds)
//	   every class keeps >= min(desired, before)
//	B5 a pull targets a writable mount whose device lacks the block and names
//	   a source service one of whose mounts has it
//	B6 desired > 0 and no copy anywhere ⇒ balanceResult.lost
//
// Nothing of balance.go is used to compute an expected value.

import (
	"crypto/md5"
	"encoding/json"
	"fmt"
	"io/ioutil"
	"math/big"
	"runtime"
	"runtime/debug"
	"sort"
	"strings"
	"testing"

	"git.arvados.org/arvados.git/internal/verifkit"
	"git.arvados.org/arvados.git/sdk/go/arvados"
	"github.com/sirupsen/logrus"
)

// MinMtime of every case: a constant, far from the wall clock.
const c05MinMtime = int64(1600000000) * 1000000000

const (
	c05Hour = int64(3600) * 1000000000
	c05Sec  = int64(1000000000)
)

type c05Mount struct {
	UUID string   `json:"uuid"`
	Dev  string   `json:"dev,omitempty"` // DeviceID; "" = blank
	RO   bool     `json:"ro,omitempty"`
	Repl int      `json:"repl"`
	Cls  []string `json:"cls,omitempty"` // empty = no StorageClasses (implicit "default")
	Has  bool     `json:"has,omitempty"` // the device behind this mount holds the block
	Off  int64    `json:"mtime_minus_minmtime_ns,omitempty"`
}

type c05Svc struct {
	ID     int        `json:"id"` // UUID = zzzzz-bi6l4-%015x
	RO     bool       `json:"ro,omitempty"`
	Mounts []c05Mount `json:"mounts"`
}

type c05Coll struct {
	Cls  []string `json:"cls,omitempty"` // empty = default
	Repl int      `json:"repl"`
}

type c05Case struct {
	Kind  string    `json:"kind"`
	Blk   string    `json:"blk"` // 32 hex digits
	Svcs  []c05Svc  `json:"svcs"`
	Colls []c05Coll `json:"colls"`
	Shuf  uint64    `json:"shuffle_seed"` // order in which replicas/collections are fed
}

var c05SvcStr = func() (t [64][3]string) {
	for id := range t {
		t[id] = [3]string{fmt.Sprintf("zzzzz-bi6l4-%015x", id), fmt.Sprintf("keep%d.verif.example", id), fmt.Sprintf("http://keep%d.verif.example:25107", id)}
	}
	return
}()

func c05SvcUUID(id int) string { return c05SvcStr[id][0] }
func c05SvcHost(id int) string { return c05SvcStr[id][1] }
func c05SvcURL(id int) string  { return c05SvcStr[id][2] }

func (c *c05Case) clone() *c05Case {
	n := &c05Case{Kind: c.Kind, Blk: c.Blk, Shuf: c.Shuf}
	for _, s := range c.Svcs {
		ns := c05Svc{ID: s.ID, RO: s.RO}
		for _, m := range s.Mounts {
			nm := m
			nm.Cls = append([]string(nil), m.Cls...)
			ns.Mounts = append(ns.Mounts, nm)
		}
		n.Svcs = append(n.Svcs, ns)
	}
	for _, cl := range c.Colls {
		n.Colls = append(n.Colls, c05Coll{Cls: append([]string(nil), cl.Cls...), Repl: cl.Repl})
	}
	return n
}

// normalize makes the description physically consistent: a non-blank device
// id appears at most once per service; all mounts of one device agree on
// replication, on holding the block and on the copy's mtime (taken from the
// first mount of the device). Storage classes stay per mount.
func (c *c05Case) normalize() {
	type da struct {
		repl int
		has  bool
		off  int64
	}
	first := map[string]da{}
	for si := range c.Svcs {
		seen := map[string]bool{}
		for mi := range c.Svcs[si].Mounts {
			m := &c.Svcs[si].Mounts[mi]
			if m.Repl < 1 {
				m.Repl = 1
			}
			if m.Repl > 3 {
				m.Repl = 3
			}
			if m.Dev != "" && seen[m.Dev] {
				m.Dev = ""
			}
			if m.Dev != "" {
				seen[m.Dev] = true
				if d, ok := first[m.Dev]; ok {
					m.Repl, m.Has, m.Off = d.repl, d.has, d.off
				} else {
					first[m.Dev] = da{m.Repl, m.Has, m.Off}
				}
			}
			if !m.Has {
				m.Off = 0
			}
			sort.Strings(m.Cls)
		}
	}
}

// ------------------------------------------------------------ device model

type c05MM struct {
	s, m    int
	mt      *c05Mount
	svcRO   bool
	dev     int
	visible bool // not a read-only view of a device that is mounted read-write elsewhere
}

func (m *c05MM) classes() []string {
	if len(m.mt.Cls) == 0 {
		return []string{"default"}
	}
	return m.mt.Cls
}

func (m *c05MM) serves(class string) bool {
	for _, c := range m.classes() {
		if c == class {
			return true
		}
	}
	return false
}

type c05MD struct {
	key     string
	repl    int
	cls     map[string]bool // union over all mounts of the device
	has     bool
	mtime   int64
	mounts  []int
	trashed bool
}

type c05Model struct {
	mounts   []c05MM
	devs     []c05MD
	byUUID   map[string]int
	svcByURL map[string]int // URLBase -> index into c.Svcs
	desired  map[string]int
	classes  []string // keys of desired, sorted
}

func c05BuildModel(c *c05Case) *c05Model {
	md := &c05Model{byUUID: map[string]int{}, svcByURL: map[string]int{}, desired: map[string]int{}}
	devIdx := map[string]int{}
	rwDev := map[string]bool{}
	for si := range c.Svcs {
		md.svcByURL[c05SvcURL(c.Svcs[si].ID)] = si
		for mi := range c.Svcs[si].Mounts {
			m := &c.Svcs[si].Mounts[mi]
			key := "id:" + m.Dev
			if m.Dev == "" {
				key = "mount:" + m.UUID
			} else if !m.RO {
				rwDev[m.Dev] = true
			}
			di, ok := devIdx[key]
			if !ok {
				di = len(md.devs)
				devIdx[key] = di
				md.devs = append(md.devs, c05MD{key: key, repl: m.Repl, cls: map[string]bool{}, has: m.Has, mtime: c05MinMtime + m.Off})
			}
			idx := len(md.mounts)
			md.mounts = append(md.mounts, c05MM{s: si, m: mi, mt: m, svcRO: c.Svcs[si].RO, dev: di})
			md.byUUID[m.UUID] = idx
			md.devs[di].mounts = append(md.devs[di].mounts, idx)
			for _, cl := range md.mounts[idx].classes() {
				md.devs[di].cls[cl] = true
			}
		}
	}
	for i := range md.mounts {
		m := &md.mounts[i]
		m.visible = !(m.mt.RO && m.mt.Dev != "" && rwDev[m.mt.Dev])
	}
	for _, cl := range c.Colls {
		cls := cl.Cls
		if len(cls) == 0 {
			cls = []string{"default"}
		}
		for _, k := range cls {
			if d, ok := md.desired[k]; !ok || d < cl.Repl {
				md.desired[k] = cl.Repl
			}
		}
	}
	for k := range md.desired {
		md.classes = append(md.classes, k)
	}
	sort.Strings(md.classes)
	return md
}

// classKnown: the class is "default" or listed by at least one visible mount.
func (md *c05Model) classKnown(class string) bool {
	if class == "default" {
		return true
	}
	for i := range md.mounts {
		if md.mounts[i].visible && md.mounts[i].serves(class) {
			return true
		}
	}
	return false
}

// devRepl: Σ replication over distinct devices that hold the block and serve
// the class (skipTrashed: only those not trashed).
func (md *c05Model) devRepl(class string, skipTrashed bool) int {
	n := 0
	for i := range md.devs {
		d := &md.devs[i]
		if d.has && d.cls[class] && !(skipTrashed && d.trashed) {
			n += d.repl
		}
	}
	return n
}

// mountRepl is the *naive* accounting, one unit per visible mount (a shared
// device counted once per mount, a trash only removing the named mount's
// view). It is used only to name the root cause in a signature, never for a
// verdict.
func (md *c05Model) mountRepl(class string, trashedMount map[int]bool) int {
	n := 0
	for i := range md.mounts {
		m := &md.mounts[i]
		if m.visible && md.devs[m.dev].has && m.serves(class) && !trashedMount[i] {
			n += m.mt.Repl
		}
	}
	return n
}

// ------------------------------------------------------------ observation

type c05TrashObs struct {
	Svc     int    `json:"svc_id"`
	Locator string `json:"locator"`
	Mtime   int64  `json:"block_mtime"`
	Mount   string `json:"mount_uuid"`
}

type c05PullObs struct {
	Svc     int      `json:"svc_id"`
	Locator string   `json:"locator"`
	Servers []string `json:"servers"`
	Mount   string   `json:"mount_uuid"`
}

type c05Obs struct {
	Trashes []c05TrashObs `json:"trashes"`
	Pulls   []c05PullObs  `json:"pulls"`
	Lost    bool          `json:"lost"`
	// surviving mounts after the real cleanupMounts
	Surviving []string `json:"-"`
	Err       string   `json:"err,omitempty"`
}

var c05Logger = func() logrus.FieldLogger {
	l := logrus.New()
	l.Out = ioutil.Discard
	l.Level = logrus.PanicLevel
	return l
}()

// c05Run drives the real code on one case.
func c05Run(c *c05Case) *c05Obs {
	obs := &c05Obs{}
	blkid := arvados.SizedDigest(c.Blk + "+64")
	bal := &Balancer{
		Logger:        c05Logger,
		KeepServices:  map[string]*KeepService{},
		MinMtime:      c05MinMtime,
		BlockStateMap: NewBlockStateMap(),
	}
	var srvs []*KeepService
	for _, s := range c.Svcs {
		srv := &KeepService{
			KeepService: arvados.KeepService{
				UUID:        c05SvcUUID(s.ID),
				ServiceHost: c05SvcHost(s.ID),
				ServicePort: 25107,
				ServiceType: "disk",
				ReadOnly:    s.RO,
			},
			ChangeSet: &ChangeSet{},
		}
		for _, m := range s.Mounts {
			km := &KeepMount{
				KeepMount: arvados.KeepMount{
					UUID:        m.UUID,
					DeviceID:    m.Dev,
					ReadOnly:    m.RO,
					Replication: m.Repl,
				},
				KeepService: srv,
			}
			if len(m.Cls) > 0 {
				km.StorageClasses = map[string]bool{}
				for _, cl := range m.Cls {
					km.StorageClasses[cl] = true
				}
			}
			srv.mounts = append(srv.mounts, km)
		}
		srvs = append(srvs, srv)
		bal.KeepServices[srv.UUID] = srv
	}
	bal.cleanupMounts()

	// what GetCurrentState does with the indexes: every surviving mount of
	// a device that holds the block gets the same index entry; the order in
	// which mounts/collections arrive is arbitrary.
	has := map[string]*c05Mount{}
	for si := range c.Svcs {
		for mi := range c.Svcs[si].Mounts {
			m := &c.Svcs[si].Mounts[mi]
			has[m.UUID] = m
		}
	}
	var feed []*KeepMount
	for _, srv := range srvs {
		for _, km := range srv.mounts {
			obs.Surviving = append(obs.Surviving, km.UUID)
			if has[km.UUID].Has {
				feed = append(feed, km)
			}
		}
	}
	rng := verifkit.NewRand(c.Shuf)
	for _, i := range rng.Perm(len(feed)) {
		km := feed[i]
		bal.BlockStateMap.AddReplicas(km, []arvados.KeepServiceIndexEntry{{SizedDigest: blkid, Mtime: c05MinMtime + has[km.UUID].Off}})
	}
	for _, i := range rng.Perm(len(c.Colls)) {
		cl := c.Colls[i]
		bal.BlockStateMap.IncreaseDesired("", cl.Cls, cl.Repl, []arvados.SizedDigest{blkid})
	}
	bal.setupLookupTables()
	res := bal.balanceBlock(blkid, bal.BlockStateMap.get(blkid))
	obs.Lost = res.lost

	for si, srv := range srvs {
		if len(srv.ChangeSet.Trashes) > 0 {
			b, err := json.Marshal(srv.ChangeSet.Trashes)
			var l []c05TrashObs
			if err == nil {
				err = json.Unmarshal(b, &l)
			}
			if err != nil {
				obs.Err = "trash list of " + srv.UUID + ": " + err.Error()
			}
			for _, t := range l {
				t.Svc = c.Svcs[si].ID
				obs.Trashes = append(obs.Trashes, t)
			}
		}
		if len(srv.ChangeSet.Pulls) > 0 {
			b, err := json.Marshal(srv.ChangeSet.Pulls)
			var l []c05PullObs
			if err == nil {
				err = json.Unmarshal(b, &l)
			}
			if err != nil {
				obs.Err = "pull list of " + srv.UUID + ": " + err.Error()
			}
			for _, p := range l {
				p.Svc = c.Svcs[si].ID
				obs.Pulls = append(obs.Pulls, p)
			}
		}
	}
	return obs
}

// ------------------------------------------------------------ oracle

type c05Finding struct {
	Sig    string
	Detail string
}

type c05Info struct {
	evals          int
	replicaDevs    int
	sharedHeld     int // devices with >=2 visible mounts that hold the block
	sharedEmpty    int
	roWithReplica  int
	underrep       bool
	posClasses     int
	unknownDesired bool
	dropped        int
	cleanupDiffers bool
	pullSameDevice int
	trashNoReplica int
	trashMtimeDiff int
	lostWithCopies bool
	hetero         bool
	failed         map[string][]string // clause ("B3","B4") -> classes for which it fails
}

func c05Join(set map[string]bool) string {
	uniq := map[string]bool{}
	for k := range set {
		for _, p := range strings.Split(k, "+") {
			uniq[p] = true
		}
	}
	var l []string
	for k := range uniq {
		l = append(l, k)
	}
	sort.Strings(l)
	return strings.Join(l, "+")
}

// c05Judge evaluates B1-B6 on one observed execution. The verdict depends
// only on the case description and the observed requests. With attribute set,
// a failing B3/B4 is additionally given a root-cause label for its signature
// (see c05Cause); labels never change a verdict.
func c05Judge(c *c05Case, obs *c05Obs, attribute bool) ([]c05Finding, c05Info) {
	md := c05BuildModel(c)
	var fs []c05Finding
	var in c05Info
	in.failed = map[string][]string{}
	add := func(sig, f string, a ...interface{}) {
		fs = append(fs, c05Finding{Sig: sig, Detail: fmt.Sprintf(f, a...)})
	}
	if obs.Err != "" {
		add("C05:W:changeset-json-undecodable", "%s", obs.Err)
	}

	// ---- facts about the layout (for features / signatures)
	svcIdx := map[int]int{}
	for si := range c.Svcs {
		svcIdx[c.Svcs[si].ID] = si
	}
	anyWritable := false
	visibleCount := 0
	for i := range md.mounts {
		m := &md.mounts[i]
		if !m.visible {
			in.dropped++
			continue
		}
		visibleCount++
		if !m.mt.RO && !m.svcRO {
			anyWritable = true
		}
		if (m.mt.RO || m.svcRO) && md.devs[m.dev].has {
			in.roWithReplica++
		}
	}
	for i := range md.devs {
		d := &md.devs[i]
		if d.has {
			in.replicaDevs++
		}
		vis := 0
		var cl0 string
		for k, mi := range d.mounts {
			if md.mounts[mi].visible {
				vis++
			}
			s := strings.Join(md.mounts[mi].classes(), ",")
			if k == 0 {
				cl0 = s
			} else if s != cl0 {
				in.hetero = true
			}
		}
		if vis >= 2 {
			if d.has {
				in.sharedHeld++
			} else {
				in.sharedEmpty++
			}
		}
	}
	// cross-check (observation only): the real cleanupMounts kept exactly the visible mounts
	{
		surv := map[string]bool{}
		for _, u := range obs.Surviving {
			surv[u] = true
		}
		for i := range md.mounts {
			if md.mounts[i].visible != surv[md.mounts[i].mt.UUID] {
				in.cleanupDiffers = true
			}
		}
	}

	// ---- resolve trash requests
	type tr struct {
		o     c05TrashObs
		mount int // index in md.mounts, -1 unresolvable
	}
	var trs []tr
	trashedMount := map[int]bool{}
	for _, t := range obs.Trashes {
		mi, ok := md.byUUID[t.Mount]
		if !ok || c.Svcs[md.mounts[mi].s].ID != t.Svc {
			add("C05:W:trash-request-names-no-mount-of-that-service", "trash request sent to service %d names mount %q which is not one of its mounts", t.Svc, t.Mount)
			trs = append(trs, tr{t, -1})
			continue
		}
		if t.Locator != c.Blk {
			add("C05:W:trash-request-for-another-locator", "trash request locator %q, block is %q", t.Locator, c.Blk)
			continue
		}
		trs = append(trs, tr{t, mi})
		trashedMount[mi] = true
	}

	// ---- B1, B2 and the effect of each trash on the device model
	for _, t := range trs {
		if t.mount < 0 {
			continue
		}
		m := &md.mounts[t.mount]
		d := &md.devs[m.dev]
		in.evals += 2
		if !d.has {
			in.trashNoReplica++
			continue
		}
		if t.o.Mtime != d.mtime {
			in.trashMtimeDiff++
		}
		if d.mtime >= c05MinMtime || t.o.Mtime >= c05MinMtime {
			kind := "newer"
			if d.mtime == c05MinMtime {
				kind = "mtime-equals-min-mtime"
			}
			add("C05:B1:trash-of-replica-not-older-than-min-mtime:"+kind, "trash on mount %s (service %d): replica mtime = MinMtime%+dns, request block_mtime = MinMtime%+dns", m.mt.UUID, t.o.Svc, d.mtime-c05MinMtime, t.o.Mtime-c05MinMtime)
		}
		if m.mt.RO {
			add("C05:B2:trash-on-readonly:mount-flag", "trash on read-only mount %s (service %d)", m.mt.UUID, t.o.Svc)
		} else if m.svcRO {
			add("C05:B2:trash-on-readonly:service-flag", "trash on mount %s of read-only service %d", m.mt.UUID, t.o.Svc)
		}
		d.trashed = true
	}

	// ---- B3 / B4 per class
	anyPositive := false
	allPositiveUnknown := true
	b3causes := map[string]bool{}
	var b3txt []string
	b4causes := map[string]bool{}
	var b4txt []string
	for _, class := range md.classes {
		want := md.desired[class]
		if want > 0 {
			anyPositive = true
			in.posClasses++
			if md.classKnown(class) {
				allPositiveUnknown = false
			} else {
				in.unknownDesired = true
			}
		}
		before := md.devRepl(class, false)
		after := md.devRepl(class, true)
		in.evals += 2
		if before < want {
			in.underrep = true
			if len(trs) > 0 {
				in.failed["B3"] = append(in.failed["B3"], class)
				if attribute {
					b3causes[c05Cause(c, md, &in, "B3", class, md.mountRepl(class, nil) >= want, false, false)] = true
				}
				b3txt = append(b3txt, fmt.Sprintf("class %q: desired %d, physical replication %d (counted per mount: %d)", class, want, before, md.mountRepl(class, nil)))
			}
		}
		need := want
		if before < need {
			need = before
		}
		if after < need {
			in.failed["B4"] = append(in.failed["B4"], class)
			pmBefore := md.mountRepl(class, nil)
			pmNeed := want
			if pmBefore < pmNeed {
				pmNeed = pmBefore
			}
			pmOK := md.mountRepl(class, trashedMount) >= pmNeed
			outKept := false
			for i := range md.devs {
				d := &md.devs[i]
				if d.has && !d.trashed && !d.cls[class] {
					outKept = true
				}
			}
			// R2's other necessary feature: some trashed replica of this class
			// sits on a service that has a second mount in the class (which is
			// why the distinct-servers pass skipped it)
			if outKept {
				outKept = false
				for i := range md.mounts {
					m := &md.mounts[i]
					if !m.visible || !md.devs[m.dev].trashed || !m.serves(class) {
						continue
					}
					for k := range md.mounts {
						o := &md.mounts[k]
						if k != i && o.visible && o.s == m.s && o.dev != m.dev && o.serves(class) {
							outKept = true
						}
					}
				}
			}
			// a device serving this class was trashed through one mount while
			// another mount of it, which the balancer also looks at, was not
			aliasHere := false
			for i := range md.devs {
				d := &md.devs[i]
				if !d.trashed || !d.cls[class] {
					continue
				}
				for _, mi := range d.mounts {
					if md.mounts[mi].visible && !trashedMount[mi] {
						aliasHere = true
					}
				}
			}
			if attribute {
				b4causes[c05Cause(c, md, &in, "B4", class, pmOK, outKept, aliasHere)] = true
			}
			b4txt = append(b4txt, fmt.Sprintf("class %q: desired %d, physical replication before %d, after the trashes %d (counted per mount: before %d, after %d)", class, want, before, after, pmBefore, md.mountRepl(class, trashedMount)))
		}
	}
	if len(b3causes) > 0 {
		add("C05:B3:trash-while-underreplicated:"+c05Join(b3causes), "%d trash request(s) although %s", len(trs), strings.Join(b3txt, "; "))
	}
	if len(b4causes) > 0 {
		add("C05:B4:trashes-reduce-class-replication:"+c05Join(b4causes), "%s", strings.Join(b4txt, "; "))
	}

	// ---- B5
	pullDev := map[int]int{}
	for _, p := range obs.Pulls {
		in.evals++
		mi, ok := md.byUUID[p.Mount]
		if !ok || c.Svcs[md.mounts[mi].s].ID != p.Svc {
			add("C05:W:pull-request-names-no-mount-of-that-service", "pull request sent to service %d names mount %q which is not one of its mounts", p.Svc, p.Mount)
			continue
		}
		if p.Locator != c.Blk {
			add("C05:W:pull-request-for-another-locator", "pull request locator %q, block is %q", p.Locator, c.Blk)
			continue
		}
		m := &md.mounts[mi]
		d := &md.devs[m.dev]
		pullDev[m.dev]++
		if m.mt.RO {
			add("C05:B5:pull-to-readonly:mount-flag", "pull targets read-only mount %s (service %d)", m.mt.UUID, p.Svc)
		} else if m.svcRO {
			add("C05:B5:pull-to-readonly:service-flag", "pull targets mount %s of read-only service %d", m.mt.UUID, p.Svc)
		}
		if d.has {
			add("C05:B5:pull-to-device-that-already-has-the-block", "pull targets mount %s (service %d) whose device %s already holds the block", m.mt.UUID, p.Svc, d.key)
		}
		if len(p.Servers) == 0 {
			add("C05:B5:pull-without-source", "pull to %s names no source", m.mt.UUID)
		}
		for _, u := range p.Servers {
			si, ok := md.svcByURL[u]
			if !ok {
				add("C05:B5:pull-source-is-no-known-service", "pull to %s names source %q", m.mt.UUID, u)
				continue
			}
			srcHas := false
			for k := range md.mounts {
				if md.mounts[k].s == si && md.devs[md.mounts[k].dev].has {
					srcHas = true
				}
			}
			if !srcHas {
				add("C05:B5:pull-source-has-no-replica", "pull to %s names source service %d, none of whose mounts has the block", m.mt.UUID, c.Svcs[si].ID)
			}
		}
	}
	for _, n := range pullDev {
		if n > 1 {
			in.pullSameDevice += n - 1
		}
	}

	// ---- B6
	in.evals++
	if anyPositive && in.replicaDevs == 0 && !obs.Lost {
		causes := map[string]bool{}
		if allPositiveUnknown {
			causes["desired-class-on-no-mount"] = true
		}
		if !anyWritable {
			causes["no-writable-mount"] = true
		}
		if len(causes) == 0 {
			causes["although-a-writable-mount-exists"] = true
		}
		add("C05:B6:lost-block-not-reported:"+c05Join(causes), "desired %v, no replica on any device, balanceResult.lost=false", md.desired)
	}
	if obs.Lost && in.replicaDevs > 0 {
		in.lostWithCopies = true
	}
	return fs, in
}

// ------------------------------------------------------------ root-cause labels

// c05StillFails re-runs the real code on a transformed case and tells whether
// the clause still fails for the class.
func c05StillFails(n *c05Case, clause, class string) bool {
	n.normalize()
	for k := 0; k < 2; k++ { // twice: map iteration order inside the balancer
		_, in := c05Judge(n, c05Run(n), false)
		for _, cl := range in.failed[clause] {
			if cl == class {
				return true
			}
		}
	}
	return false
}

// c05CollapseShared leaves exactly one mount (a writable one if there is one)
// of every device that is mounted more than once and is selected by only
// (nil = all such devices; keys are c05MD.key).
func c05CollapseShared(c *c05Case, only map[string]bool) *c05Case {
	md := c05BuildModel(c)
	drop := map[string]bool{}
	for i := range md.devs {
		d := &md.devs[i]
		if len(d.mounts) < 2 || (only != nil && !only[d.key]) {
			continue
		}
		keep := -1
		for _, mi := range d.mounts {
			m := &md.mounts[mi]
			if m.visible && !m.mt.RO && !m.svcRO {
				keep = mi
				break
			}
		}
		for _, mi := range d.mounts {
			if keep < 0 && md.mounts[mi].visible {
				keep = mi
			}
		}
		for _, mi := range d.mounts {
			if mi != keep {
				drop[md.mounts[mi].mt.UUID] = true
			}
		}
	}
	n := c.clone()
	for si := range n.Svcs {
		var ms []c05Mount
		for _, m := range n.Svcs[si].Mounts {
			if !drop[m.UUID] {
				ms = append(ms, m)
			}
		}
		n.Svcs[si].Mounts = ms
	}
	return n
}

// c05DropOutOfClass removes the replicas from all devices that do not serve
// the class.
func c05DropOutOfClass(c *c05Case, class string) *c05Case {
	md := c05BuildModel(c)
	n := c.clone()
	for i := range md.devs {
		d := &md.devs[i]
		if d.has && !d.cls[class] {
			for _, mi := range d.mounts {
				m := &md.mounts[mi]
				n.Svcs[m.s].Mounts[m.m].Has = false
			}
		}
	}
	return n
}

// c05Cause names the root cause of a failing B3/B4 for one class by the input
// features that are necessary for it: a feature is necessary when the case has
// it and the failure disappears once the feature is taken away (the real code
// is re-run on the transformed case; this labels, it never judges).
//
//	desired-class-on-no-mount
//	    the failing class is offered by no mount the balancer looks at
//	device-trashed-through-one-mount-kept-through-another
//	    (B4) a device serving the class is trashed through one of its mounts
//	    while another of its mounts carries no trash request, and the failure
//	    disappears when the trashed devices are reduced to one mount
//	shared-device-replica-counted-once-per-mount
//	    a device seen through >= 2 mounts holds a replica that is kept, the
//	    naive one-unit-per-mount accounting is satisfied, and the failure
//	    disappears when every such device is reduced to one mount
//	replica-outside-class-protected-instead-of-replica-in-class
//	    a replica that is kept does not serve the class, a trashed replica of
//	    the class sits on a service with a second mount in the class, and the
//	    failure disappears when the replicas outside the class are taken away
//
// If neither feature alone is necessary but the failure disappears when both
// are taken away, both labels are given (joined with "+", like the labels of
// several failing classes of one case).
func c05Cause(c *c05Case, md *c05Model, in *c05Info, clause, class string, perMountOK, outKept, alias bool) string {
	if !md.classKnown(class) {
		return "desired-class-on-no-mount"
	}
	const r1 = "shared-device-replica-counted-once-per-mount"
	const r2 = "replica-outside-class-protected-instead-of-replica-in-class"
	// shared devices whose replica stays (the ones that can be counted twice
	// as protection) / devices that are trashed
	keptShared, trashedDevs := map[string]bool{}, map[string]bool{}
	for i := range md.devs {
		d := &md.devs[i]
		vis := 0
		for _, mi := range d.mounts {
			if md.mounts[mi].visible {
				vis++
			}
		}
		// B4: the shared devices whose replica stays are the ones that can be
		// counted twice as protection; B3: every shared device with a replica
		// in the class can be counted twice by the under-replication guard
		if d.has && vis >= 2 && ((clause == "B4" && !d.trashed) || (clause == "B3" && d.cls[class])) {
			keptShared[d.key] = true
		}
		if d.trashed {
			trashedDevs[d.key] = true
		}
	}
	shared := len(keptShared) > 0 && perMountOK
	if outKept && !c05StillFails(c05DropOutOfClass(c, class), clause, class) {
		return r2
	}
	if shared && !c05StillFails(c05CollapseShared(c, keptShared), clause, class) {
		return r1
	}
	if shared && !alias && !c05StillFails(c05CollapseShared(c, nil), clause, class) {
		// (with one shared device reduced, another one took over its role)
		return r1
	}
	if alias && !c05StillFails(c05CollapseShared(c, trashedDevs), clause, class) {
		return "device-trashed-through-one-mount-kept-through-another"
	}
	if shared && outKept && !c05StillFails(c05DropOutOfClass(c05CollapseShared(c, keptShared), class), clause, class) {
		// neither feature alone is necessary, together they are: both causes are at work
		return r2 + "+" + r1
	}
	if in.sharedHeld > 0 && !c05StillFails(c05CollapseShared(c, nil), clause, class) {
		return "shared-device-seen-through-several-mounts"
	}
	if clause == "B3" {
		return "class-short-of-desired"
	}
	return "protected-set-does-not-cover-class"
}

// ------------------------------------------------------------ rendering

// c05Rank: position of each service in rendezvous order (own computation,
// for display only).
func c05Rank(c *c05Case) map[int]int {
	type w struct {
		id int
		w  string
	}
	var l []w
	for _, s := range c.Svcs {
		u := c05SvcUUID(s.ID)
		l = append(l, w{s.ID, fmt.Sprintf("%x", md5.Sum([]byte(c.Blk+u[12:])))})
	}
	sort.Slice(l, func(i, j int) bool { return l[i].w > l[j].w })
	r := map[int]int{}
	for i, e := range l {
		r[e.id] = i
	}
	return r
}

func c05OffStr(off int64) string {
	switch {
	case off == 0:
		return "MinMtime"
	case off%c05Sec == 0:
		return fmt.Sprintf("MinMtime%+ds", off/c05Sec)
	default:
		return fmt.Sprintf("MinMtime%+dns", off)
	}
}

func c05Describe(c *c05Case, obs *c05Obs) string {
	var sb strings.Builder
	rank := c05Rank(c)
	order := make([]int, len(c.Svcs))
	for i := range order {
		order[i] = i
	}
	sort.Slice(order, func(i, j int) bool { return rank[c.Svcs[order[i]].ID] < rank[c.Svcs[order[j]].ID] })
	fmt.Fprintf(&sb, "block %s; services in rendezvous order:\n", c.Blk)
	for _, si := range order {
		s := c.Svcs[si]
		ro := ""
		if s.RO {
			ro = " READ-ONLY"
		}
		fmt.Fprintf(&sb, "  #%d service %d%s:", rank[s.ID], s.ID, ro)
		for _, m := range s.Mounts {
			dev := m.Dev
			if dev == "" {
				dev = `""`
			}
			cls := "-"
			if len(m.Cls) > 0 {
				cls = strings.Join(m.Cls, ",")
			}
			mro := "rw"
			if m.RO {
				mro = "ro"
			}
			rep := "empty"
			if m.Has {
				rep = "replica@" + c05OffStr(m.Off)
			}
			fmt.Fprintf(&sb, "  [%s dev=%s %s repl=%d classes=%s %s]", m.UUID, dev, mro, m.Repl, cls, rep)
		}
		sb.WriteString("\n")
	}
	sb.WriteString("  collections:")
	if len(c.Colls) == 0 {
		sb.WriteString(" none (unreferenced block)")
	}
	for _, cl := range c.Colls {
		cls := "default(implicit)"
		if len(cl.Cls) > 0 {
			cls = strings.Join(cl.Cls, ",")
		}
		fmt.Fprintf(&sb, " {classes=%s replication=%d}", cls, cl.Repl)
	}
	sb.WriteString("\n")
	if obs != nil {
		fmt.Fprintf(&sb, "  computed: lost=%v", obs.Lost)
		for _, t := range obs.Trashes {
			fmt.Fprintf(&sb, " TRASH(service %d mount %s mtime %s)", t.Svc, t.Mount, c05OffStr(t.Mtime-c05MinMtime))
		}
		for _, p := range obs.Pulls {
			fmt.Fprintf(&sb, " PULL(service %d mount %s from %v)", p.Svc, p.Mount, p.Servers)
		}
		sb.WriteString("\n")
	}
	return sb.String()
}

// ------------------------------------------------------------ shrinking

func c05HasSig(c *c05Case, sig string) (bool, *c05Obs, string) {
	obs := c05Run(c)
	fs, _ := c05Judge(c, obs, true)
	for _, f := range fs {
		if f.Sig == sig {
			return true, obs, f.Detail
		}
	}
	return false, obs, ""
}

// c05Shrink greedily simplifies a failing case while the same signature keeps
// being produced by the real code.
func c05Shrink(c *c05Case, sig string) (*c05Case, int) {
	cur := c.clone()
	steps := 0
	try := func(mut func(n *c05Case) bool) bool {
		n := cur.clone()
		if !mut(n) {
			return false
		}
		n.normalize()
		if len(n.Svcs) == 0 {
			return false
		}
		// the verdict must not depend on map iteration order: ask three times
		for k := 0; k < 3; k++ {
			if ok, _, _ := c05HasSig(n, sig); !ok {
				return false
			}
		}
		cur = n
		steps++
		return true
	}
	for progress := true; progress && steps < 400; {
		progress = false
		for si := 0; si < len(cur.Svcs); si++ {
			if try(func(n *c05Case) bool {
				n.Svcs = append(n.Svcs[:si:si], n.Svcs[si+1:]...)
				return true
			}) {
				progress = true
				si--
			}
		}
		for si := 0; si < len(cur.Svcs); si++ {
			for mi := 0; mi < len(cur.Svcs[si].Mounts); mi++ {
				if len(cur.Svcs[si].Mounts) > 1 && try(func(n *c05Case) bool {
					ms := n.Svcs[si].Mounts
					n.Svcs[si].Mounts = append(ms[:mi:mi], ms[mi+1:]...)
					return true
				}) {
					progress = true
					mi--
				}
			}
		}
		for ci := 0; ci < len(cur.Colls); ci++ {
			if try(func(n *c05Case) bool {
				n.Colls = append(n.Colls[:ci:ci], n.Colls[ci+1:]...)
				return true
			}) {
				progress = true
				ci--
			}
		}
		for ci := 0; ci < len(cur.Colls); ci++ {
			for try(func(n *c05Case) bool {
				if n.Colls[ci].Repl == 0 {
					return false
				}
				n.Colls[ci].Repl--
				return true
			}) {
				progress = true
			}
			for k := 0; k < len(cur.Colls[ci].Cls); k++ {
				if try(func(n *c05Case) bool {
					cl := n.Colls[ci].Cls
					n.Colls[ci].Cls = append(cl[:k:k], cl[k+1:]...)
					return true
				}) {
					progress = true
					k--
				}
			}
		}
		for si := 0; si < len(cur.Svcs); si++ {
			if try(func(n *c05Case) bool {
				if !n.Svcs[si].RO {
					return false
				}
				n.Svcs[si].RO = false
				return true
			}) {
				progress = true
			}
			for mi := 0; mi < len(cur.Svcs[si].Mounts); mi++ {
				muts := []func(m *c05Mount) bool{
					func(m *c05Mount) bool {
						if !m.RO {
							return false
						}
						m.RO = false
						return true
					},
					func(m *c05Mount) bool {
						if !m.Has {
							return false
						}
						m.Has = false
						return true
					},
					func(m *c05Mount) bool {
						if m.Dev == "" {
							return false
						}
						m.Dev = ""
						return true
					},
					func(m *c05Mount) bool {
						if len(m.Cls) == 0 {
							return false
						}
						m.Cls = nil
						return true
					},
					func(m *c05Mount) bool {
						if len(m.Cls) < 2 {
							return false
						}
						m.Cls = m.Cls[:1]
						return true
					},
					func(m *c05Mount) bool {
						if m.Repl <= 1 {
							return false
						}
						m.Repl--
						return true
					},
					func(m *c05Mount) bool {
						// a plain old, distinct timestamp (unless it is one already)
						if !m.Has || (m.Off < -2*c05Hour && m.Off > -3*c05Hour) {
							return false
						}
						var k int64
						fmt.Sscanf(m.UUID[len(m.UUID)-6:], "%d", &k)
						m.Off = -2*c05Hour - (k+1)*c05Sec
						return true
					},
				}
				for _, mu := range muts {
					mu := mu
					if try(func(n *c05Case) bool {
						m := &n.Svcs[si].Mounts[mi]
						if !mu(m) {
							return false
						}
						// device-wide attributes follow the first mount of the
						// device: apply the change to every mount of the device
						if m.Dev != "" {
							for a := range n.Svcs {
								for b := range n.Svcs[a].Mounts {
									o := &n.Svcs[a].Mounts[b]
									if o.Dev == m.Dev {
										o.Has, o.Repl, o.Off = m.Has, m.Repl, m.Off
									}
								}
							}
						}
						return true
					}) {
						progress = true
					}
				}
			}
		}
	}
	return cur, steps
}

// ------------------------------------------------------------ generators

var c05ClassSets = [][]string{nil, {"default"}, {"a"}, {"b"}, {"a", "b"}, {"a", "default"}}

var c05EnumBlks = []string{
	"37b51d194a7513e45b56f6524f2d51f2", // md5("bar")
	"acbd18db4cc2f85cedef654fccc4a4d8", // md5("foo")
	"d41d8cd98f00b204e9800998ecf8427e", // md5("")
	"900150983cd24fb0d6963f7d28e17f72", // md5("abc")
}

func c05MtimeOff(kind, idx int) int64 {
	switch kind {
	case 0: // old, distinct
		return -2*c05Hour - int64(idx+1)*c05Sec
	case 1: // old, colliding with every other replica of this kind
		return -3 * c05Hour
	case 2: // oldest timestamp that is still too old by 1ns
		return -1
	case 3: // exactly MinMtime
		return 0
	case 4: // new, distinct
		return c05Hour + int64(idx+1)*c05Sec
	default: // new, colliding
		return 2 * c05Hour
	}
}

// shapes: 1-4 services with 1-2 mounts each.
type c05Shape struct {
	per     []int
	mounts  int
	radices []int
	n       *big.Int
	stride  *big.Int
	first   int // first case index of this shape in the "enum" stream
	count   int
}

func c05Shapes() []*c05Shape {
	var out []*c05Shape
	for ns := 1; ns <= 4; ns++ {
		for mask := 0; mask < 1<<uint(ns); mask++ {
			sh := &c05Shape{}
			for s := 0; s < ns; s++ {
				k := 1
				if mask&(1<<uint(s)) != 0 {
					k = 2
				}
				sh.per = append(sh.per, k)
				sh.mounts += k
			}
			// digits: blk | per service: ro | per mount: dev ro repl cls has mtime | desired default,a,b (0-4), z (a class no mount offers: absent x4, 1, 2)
			sh.radices = append(sh.radices, len(c05EnumBlks))
			for range sh.per {
				sh.radices = append(sh.radices, 2)
			}
			for i := 0; i < sh.mounts; i++ {
				sh.radices = append(sh.radices, 4, 2, 3, len(c05ClassSets), 2, 6)
			}
			sh.radices = append(sh.radices, 5, 5, 5, 6)
			sh.n = big.NewInt(1)
			for _, r := range sh.radices {
				sh.n.Mul(sh.n, big.NewInt(int64(r)))
			}
			// fixed stride ≈ n/φ, made coprime to n: the walk i ↦ start+i·stride
			// is one fixed cyclic order over the whole sub-space
			st := new(big.Int).Mul(sh.n, big.NewInt(618033988))
			st.Div(st, big.NewInt(1000000000))
			st.Or(st, big.NewInt(1))
			one := big.NewInt(1)
			for new(big.Int).GCD(nil, nil, st, sh.n).Cmp(one) != 0 {
				st.Add(st, big.NewInt(2))
			}
			sh.stride = st
			out = append(out, sh)
		}
	}
	return out
}

// c05Allot distributes n enumeration cases over the shapes, ∝ mounts².
func c05Allot(shapes []*c05Shape, n int) {
	tw := 0
	for _, sh := range shapes {
		tw += sh.mounts * sh.mounts
	}
	first := 0
	for _, sh := range shapes {
		sh.count = n * sh.mounts * sh.mounts / tw
		if sh.count < 1 {
			sh.count = 1
		}
		sh.first = first
		first += sh.count
	}
}

func c05EnumCase(sh *c05Shape, idx *big.Int) *c05Case {
	rest := new(big.Int).Set(idx)
	q := new(big.Int)
	r := new(big.Int)
	pos := 0
	next := func() int {
		q.DivMod(rest, big.NewInt(int64(sh.radices[pos])), r)
		rest.Set(q)
		pos++
		return int(r.Int64())
	}
	c := &c05Case{Blk: c05EnumBlks[next()]}
	var kind []string
	for s, k := range sh.per {
		c.Svcs = append(c.Svcs, c05Svc{ID: s, RO: next() == 1})
		kind = append(kind, fmt.Sprint(k))
	}
	c.Kind = "enum:" + strings.Join(kind, "+")
	flat := 0
	firstOf := map[string]*c05Mount{}
	for s, k := range sh.per {
		for m := 0; m < k; m++ {
			dev, ro, repl, cls, has, mt := next(), next(), next(), next(), next(), next()
			mm := c05Mount{
				UUID: fmt.Sprintf("zzzzz-nyw5e-%013d%02d", s, m),
				RO:   ro == 1,
				Repl: repl + 1,
				Cls:  append([]string(nil), c05ClassSets[cls]...),
				Has:  has == 1,
			}
			if dev > 0 {
				mm.Dev = fmt.Sprintf("D%d", dev-1)
			}
			if mm.Has {
				mm.Off = c05MtimeOff(mt, flat)
			}
			if f := firstOf[mm.Dev]; mm.Dev != "" && f != nil {
				// a further mount of a shared device: same volume, so same
				// classes, except in 1 of 6 combinations of its otherwise unused digits
				if !(has == 1 && repl == 2) {
					mm.Cls = append([]string(nil), f.Cls...)
				}
			}
			c.Svcs[s].Mounts = append(c.Svcs[s].Mounts, mm)
			if mm.Dev != "" && firstOf[mm.Dev] == nil {
				firstOf[mm.Dev] = &c.Svcs[s].Mounts[m]
			}
			flat++
		}
	}
	if d := next(); d > 0 {
		c.Colls = append(c.Colls, c05Coll{Repl: d})
	}
	if d := next(); d > 0 {
		c.Colls = append(c.Colls, c05Coll{Cls: []string{"a"}, Repl: d})
	}
	if d := next(); d > 0 {
		c.Colls = append(c.Colls, c05Coll{Cls: []string{"b"}, Repl: d})
	}
	if d := next(); d >= 4 {
		c.Colls = append(c.Colls, c05Coll{Cls: []string{"z"}, Repl: d - 3})
	}
	c.normalize()
	return c
}

func c05BigFromRand(rng *verifkit.Rand, n *big.Int) *big.Int {
	b := rng.Bytes((n.BitLen()+7)/8 + 8)
	v := new(big.Int).SetBytes(b)
	return v.Mod(v, n)
}

// c05Sample draws a layout of up to 16 services x 3 mounts.
func c05Sample(rng *verifkit.Rand) *c05Case {
	c := &c05Case{Kind: "sampled", Blk: rng.Hex(32)}
	var ns int
	switch rng.Intn(4) {
	case 0:
		ns = rng.Range(1, 4)
	case 1:
		ns = rng.Range(3, 6)
	case 2:
		ns = rng.Range(5, 10)
	default:
		ns = rng.Range(8, 16)
	}
	nShared := rng.Range(0, 3)
	hasNum := rng.PickInt(1, 2, 4, 6)
	pShared := rng.PickInt(1, 3, 5)
	extraClass := rng.Chance(1, 5)
	uniq := 0
	flat := 0
	type devAttr struct{ cls []string }
	sharedCls := map[string][]string{}
	for s := 0; s < ns; s++ {
		sv := c05Svc{ID: s, RO: rng.Chance(1, 6)}
		nm := 1
		switch r := rng.Intn(10); {
		case r >= 8:
			nm = 3
		case r >= 5:
			nm = 2
		}
		for m := 0; m < nm; m++ {
			mm := c05Mount{UUID: fmt.Sprintf("zzzzz-nyw5e-%013d%02d", s, m)}
			switch {
			case nShared > 0 && rng.Chance(pShared, 10):
				mm.Dev = fmt.Sprintf("D%d", rng.Intn(nShared))
			case rng.Chance(1, 4):
				mm.Dev = fmt.Sprintf("U%d", uniq)
				uniq++
			}
			mm.RO = rng.Chance(1, 5)
			switch r := rng.Intn(10); {
			case r >= 9:
				mm.Repl = 3
			case r >= 7:
				mm.Repl = 2
			default:
				mm.Repl = 1
			}
			if extraClass && rng.Chance(1, 6) {
				mm.Cls = []string{"c"}
			} else {
				mm.Cls = append([]string(nil), c05ClassSets[rng.Intn(len(c05ClassSets))]...)
			}
			if mm.Dev != "" {
				if cl, ok := sharedCls[mm.Dev]; ok {
					if !rng.Chance(1, 8) {
						mm.Cls = append([]string(nil), cl...)
					}
				} else {
					sharedCls[mm.Dev] = mm.Cls
				}
			}
			mm.Has = rng.Chance(hasNum, 8)
			if mm.Has {
				k := 0
				switch r := rng.Intn(20); {
				case r < 9:
					k = 0
				case r < 13:
					k = 1
				case r < 14:
					k = 2
				case r < 16:
					k = 3
				case r < 19:
					k = 4
				default:
					k = 5
				}
				mm.Off = c05MtimeOff(k, flat)
			}
			sv.Mounts = append(sv.Mounts, mm)
			flat++
		}
		c.Svcs = append(c.Svcs, sv)
	}
	for k := rng.Range(0, 3); k > 0; k-- {
		var cl c05Coll
		switch r := rng.Intn(20); {
		case r < 7:
		case r < 10:
			cl.Cls = []string{"default"}
		case r < 13:
			cl.Cls = []string{"a"}
		case r < 15:
			cl.Cls = []string{"b"}
		case r < 17:
			cl.Cls = []string{"a", "b"}
		case r < 18:
			cl.Cls = []string{"a", "default"}
		case r < 19:
			cl.Cls = []string{"c"}
		default:
			cl.Cls = []string{"z"}
		}
		switch r := rng.Intn(20); {
		case r < 2:
			cl.Repl = 0
		case r < 7:
			cl.Repl = 1
		case r < 14:
			cl.Repl = 2
		case r < 18:
			cl.Repl = 3
		default:
			cl.Repl = 4
		}
		c.Colls = append(c.Colls, cl)
	}
	c.normalize()
	return c
}

// c05SampleShared draws a one-class layout built around devices that are
// mounted on several services: 3-8 services x 1-2 mounts, every mount in the
// implicit default class, 1-2 shared devices, many empty writable slots, one
// collection. (Without storage classes the only thing that can go wrong with
// the replica count is how shared devices are counted.)
func c05SampleShared(rng *verifkit.Rand) *c05Case {
	c := &c05Case{Kind: "sampled-shared", Blk: rng.Hex(32)}
	ns := rng.Range(3, 8)
	nShared := rng.Range(1, 2)
	hasNum := rng.PickInt(2, 3, 4)
	flat := 0
	for s := 0; s < ns; s++ {
		sv := c05Svc{ID: s, RO: rng.Chance(1, 12)}
		nm := 1
		if rng.Chance(1, 4) {
			nm = 2
		}
		for m := 0; m < nm; m++ {
			mm := c05Mount{UUID: fmt.Sprintf("zzzzz-nyw5e-%013d%02d", s, m), Repl: 1}
			if rng.Chance(2, 5) {
				mm.Dev = fmt.Sprintf("D%d", rng.Intn(nShared))
			}
			mm.RO = rng.Chance(1, 10)
			if rng.Chance(1, 5) {
				mm.Repl = rng.Range(2, 3)
			}
			mm.Has = rng.Chance(hasNum, 8) || (mm.Dev != "" && rng.Chance(1, 2))
			if mm.Has {
				k := 0
				switch r := rng.Intn(10); {
				case r < 7:
				case r < 8:
					k = 1
				case r < 9:
					k = 3
				default:
					k = 4
				}
				mm.Off = c05MtimeOff(k, flat)
			}
			sv.Mounts = append(sv.Mounts, mm)
			flat++
		}
		c.Svcs = append(c.Svcs, sv)
	}
	c.Colls = []c05Coll{{Repl: rng.Range(1, 3)}}
	if rng.Chance(1, 4) {
		c.Colls[0].Cls = []string{"default"}
	}
	c.normalize()
	return c
}

// ------------------------------------------------------------ entry point

func c05Bucket(n int, edges ...int) string {
	for _, e := range edges {
		if n <= e {
			return fmt.Sprint(e)
		}
	}
	return fmt.Sprintf(">%d", edges[len(edges)-1])
}

func TestVerifC05(t *testing.T) {
	run := verifkit.Start(t, "C05")
	defer run.Finish()
	// many tiny short-lived cases on one goroutine, 16 such processes side by side
	defer debug.SetGCPercent(debug.SetGCPercent(800))
	defer runtime.GOMAXPROCS(runtime.GOMAXPROCS(4))

	shrunk := map[string]int{}
	seen := map[string]int{}
	var sawTrash, sawPull, sawLost, sawShared, sawROReplica, sawUnderrep, cleanupDiffers int
	defer func() {
		if cleanupDiffers > 0 {
			// not a clause of the property, but the oracle's view of which mounts
			// the balancer looks at (and so which replicas it was told about) no
			// longer applies: nothing can be concluded from the silent cases
			run.Inconclusive(fmt.Sprintf("cleanupMounts kept another set of mounts than \"all but the read-only views of a device that is mounted read-write elsewhere\" in %d cases", cleanupDiffers))
		}
		if run.Replaying() {
			return
		}
		for name, n := range map[string]int{"trash request": sawTrash, "pull request": sawPull, "block reported lost": sawLost,
			"shared device holding a replica": sawShared, "read-only view of a replica": sawROReplica, "under-replicated block": sawUnderrep} {
			if n == 0 {
				run.Inconclusive("batch " + fmt.Sprint(run.BatchK()) + " never observed a " + name)
			}
		}
	}()
	check := func(i int, c *c05Case) {
		run.Input(c, false)
		obs := c05Run(c)
		fs, in := c05Judge(c, obs, true)
		run.Eval(in.evals)

		nm := 0
		for _, s := range c.Svcs {
			nm += len(s.Mounts)
		}
		run.Count("trash_requests", len(obs.Trashes))
		run.Count("pull_requests", len(obs.Pulls))
		if len(obs.Trashes) > 0 {
			run.Count("cases_with_trash", 1)
			sawTrash++
		}
		if len(obs.Pulls) > 0 {
			run.Count("cases_with_pull", 1)
			sawPull++
		}
		if obs.Lost {
			run.Count("cases_reported_lost", 1)
			sawLost++
		}
		if in.underrep {
			run.Count("cases_underreplicated_in_model", 1)
			sawUnderrep++
		}
		if in.roWithReplica > 0 {
			sawROReplica++
		}
		if in.sharedHeld > 0 {
			sawShared++
			run.Count("cases_shared_device_holding_replica", 1)
			if len(obs.Trashes) > 0 {
				run.Count("cases_shared_device_holding_replica_and_trash", 1)
			}
		}
		if in.sharedEmpty > 0 {
			run.Count("cases_shared_device_empty", 1)
		}
		if in.roWithReplica > 0 {
			run.Count("cases_readonly_view_of_replica", 1)
		}
		if in.dropped > 0 {
			run.Count("cases_mount_dropped_by_cleanup", 1)
		}
		if in.hetero {
			run.Count("cases_shared_device_with_differing_classes", 1)
		}
		if in.unknownDesired {
			run.Count("cases_desired_class_on_no_mount", 1)
		}
		if in.cleanupDiffers {
			run.Count("cleanup_differs_from_model", 1)
			cleanupDiffers++
		}
		run.Count("pulls_to_second_mount_of_same_device", in.pullSameDevice)
		run.Count("trash_requests_for_mount_without_replica", in.trashNoReplica)
		run.Count("trash_requests_with_other_mtime_than_replica", in.trashMtimeDiff)
		if in.lostWithCopies {
			run.Count("lost_reported_although_copies_exist", 1)
		}
		run.CountMax("max_services", len(c.Svcs))
		run.CountMax("max_mounts", nm)

		if in.replicaDevs == 0 && in.posClasses == 0 {
			run.Trivial()
		} else {
			run.Feature(fmt.Sprintf("svc<=%s mnt<=%s sharedheld=%s replicas=%s ro=%v classes=%d trash=%s pull=%s lost=%v underrep=%v",
				c05Bucket(len(c.Svcs), 1, 2, 3, 4, 8, 16), c05Bucket(nm, 1, 2, 3, 4, 6, 8, 16, 48),
				c05Bucket(in.sharedHeld, 0, 1, 2), c05Bucket(in.replicaDevs, 0, 1, 2, 3, 6), in.roWithReplica > 0,
				in.posClasses, c05Bucket(len(obs.Trashes), 0, 1, 2, 4), c05Bucket(len(obs.Pulls), 0, 1, 2, 4), obs.Lost, in.underrep))
		}
		if i < 2 {
			run.Sample(map[string]interface{}{"case": c, "observed": obs})
		}

		for _, f := range fs {
			run.Count("violations "+f.Sig, 1)
			seen[f.Sig]++
			if seen[f.Sig] > 3 {
				continue // run.Violation keeps 3 per signature anyway
			}
			detail := f.Detail + "\n" + c05Describe(c, obs)
			input := map[string]interface{}{"case": c, "observed": obs}
			if shrunk[f.Sig] < 2 {
				shrunk[f.Sig]++
				// does the verdict repeat (map iteration order inside the balancer)?
				rep := 0
				for k := 0; k < 8; k++ {
					if ok, _, _ := c05HasSig(c, f.Sig); ok {
						rep++
					}
				}
				min, steps := c05Shrink(c, f.Sig)
				_, mobs, mdetail := c05HasSig(min, f.Sig)
				detail = fmt.Sprintf("%s\nreproduced %d/8 times; minimal witness after %d reductions: %s\n%s\noriginal case:\n%s", f.Detail, rep, steps, mdetail, c05Describe(min, mobs), c05Describe(c, obs))
				input["minimal_witness"] = min
				input["minimal_observed"] = mobs
			}
			run.Violation(f.Sig, detail, input)
		}
	}

	// ---- layouts <= 4 services x 2 mounts: fixed cyclic enumeration order per
	// shape, from a seed-chosen start
	shapes := c05Shapes()
	nEnum := run.N(140000, 3500000)
	c05Allot(shapes, nEnum)
	total := 0
	starts := make([]*big.Int, len(shapes))
	for k, sh := range shapes {
		total += sh.count
		starts[k] = c05BigFromRand(verifkit.CaseRand(run.Seed(), "c05-enum-start", k), sh.n)
		if run.BatchK() == 0 && new(big.Int).SetInt64(int64(sh.count)).Cmp(sh.n) >= 0 {
			run.Note(fmt.Sprintf("shape %v enumerated exhaustively (%s layouts)", sh.per, sh.n.String()))
		}
	}
	if run.BatchK() == 0 {
		small, large := shapes[0], shapes[len(shapes)-1]
		run.Note(fmt.Sprintf("enumeration: %d shapes (1-4 services x 1-2 mounts); sub-space sizes from %s (%v) to %s (%v); %d layouts walked in total, none of the sub-spaces exhausted unless noted", len(shapes), small.n.String(), small.per, large.n.String(), large.per, total))
	}
	run.Cases("enum", total, func(i int, rng *verifkit.Rand) {
		k := sort.Search(len(shapes), func(k int) bool { return shapes[k].first+shapes[k].count > i })
		sh := shapes[k]
		j := int64(i - sh.first)
		idx := new(big.Int).Mul(sh.stride, big.NewInt(j))
		idx.Add(idx, starts[k])
		idx.Mod(idx, sh.n)
		c := c05EnumCase(sh, idx)
		c.Shuf = rng.Uint64()
		run.Count("layouts_enumerated", 1)
		check(i, c)
	})

	// ---- larger layouts (up to 16 services x 3 mounts), sampled
	run.Cases("sampled", run.N(40000, 1000000), func(i int, rng *verifkit.Rand) {
		c := c05Sample(rng)
		c.Shuf = rng.Uint64()
		run.Count("layouts_sampled", 1)
		check(i, c)
	})

	// ---- one-class layouts around shared devices, sampled
	run.Cases("sampled-shared", run.N(20000, 500000), func(i int, rng *verifkit.Rand) {
		c := c05SampleShared(rng)
		c.Shuf = rng.Uint64()
		run.Count("layouts_sampled_shared_devices", 1)
		check(i, c)
	})

	// ---- several blocks and collections through addCollection /
	// ComputeChangeSets ("colls") and through a whole Balancer.Run against
	// stub servers ("sweep"): c05sweep_test.go
	c05RunMultiStreams(t, run)
}
