//go:build verif

package main

// C06 — keep-balance acts only on a complete view of collections and block
// indexes. See /verif/DESIGN.md §5 C06.
//
//   (a) stream "paging":   the real EachCollection against a simulated
//       collections table (reference list semantics) that is modified, grown
//       and shrunk between page requests.
//   (c) stream "failstop": the real Balancer.Run (commit pulls + trash) against
//       a stub API server and 2-3 stub keepstores; every request of a sweep is
//       made to fail once in each failure mode.
//
//   Redirect answers (streams "paging-redirect" and the redirect modes of
//   "failstop"): the API endpoint / keepstore answers one request with a
//   301/302/303/307/308 whose target fails, serves a well-formed empty answer,
//   is dead, or is not named at all. Those runs use the http client the
//   product uses (arvados.NewClientFromConfig, Client == nil).
//
// Part (b) lives in sdk/go/arvados, sdk/go/keepclient and services/keepstore.

import (
	"bytes"
	"context"
	"encoding/json"
	"fmt"
	"io/ioutil"
	"net"
	"net/http"
	"net/http/httptest"
	"net/url"
	"regexp"
	"sort"
	"strconv"
	"strings"
	"sync"
	"sync/atomic"
	"testing"
	"time"

	"git.arvados.org/arvados.git/internal/verifkit"
	"git.arvados.org/arvados.git/sdk/go/arvados"
	"github.com/prometheus/client_golang/prometheus"
	"github.com/sirupsen/logrus"
)

// ------------------------------------------------------------------------
// reference model of the collections list API (only what EachCollection and
// CheckSanityEarly use): filters on modified_at and uuid with = != < <= > >=,
// order by any of modified_at / uuid asc|desc, limit, count, GET with a query
// string or POST with a form body and a method override.
// ------------------------------------------------------------------------

type c06Coll struct {
	UUID       string
	Mod        time.Time
	Manifest   string
	Repl       int  // 0 = null
	Trashed    bool // listed only with include_trash
	OldVersion bool // a past version (current_version_uuid != uuid): listed only with include_old_versions
}

type c06Filter struct {
	Attr    string
	Op      string
	Operand interface{}
}

type c06ListReq struct {
	Filters  []c06Filter
	Limit    int
	HasLimit bool
	Offset   int
	Count    string
	Order    string
	Select   []string // nil = every attribute
	InclTr   bool
	InclOld  bool
	Form     string // get-query | post-override-header | post-_method
	Mode     string // filter signature, e.g. "modified_at>=,uuid!="
}

type c06ListStats struct {
	Requests       int
	Pages          int
	Counts         int
	ByForm         map[string]int
	ByMode         map[string]int
	ShortPages     int
	EmptyPages     int
	MaxTieInRes    int // largest number of equal timestamps inside one response
	TiePages       int // pages that ended inside a run of equal timestamps
	OffsetRequests int
	Unsupported    []string
}

type c06Table struct {
	mu        sync.Mutex
	rows      map[string]*c06Coll
	serverMax int                                  // server-side page size cap (0 = none)
	short     func(nmatch, limit int) int          // optional: how many of the matching rows to return
	before    func(q *c06ListReq, reqNo int)       // called with mu held before a request is answered
	after     func(q *c06ListReq, page []*c06Coll) // called with mu held after the page was chosen
	stats     c06ListStats
}

func c06NewTable() *c06Table {
	return &c06Table{rows: map[string]*c06Coll{}, stats: c06ListStats{ByForm: map[string]int{}, ByMode: map[string]int{}}}
}

func c06ParseList(r *http.Request) (c06ListReq, error) {
	var q c06ListReq
	if err := r.ParseForm(); err != nil {
		return q, err
	}
	switch {
	case r.Method == "GET":
		q.Form = "get-query"
	case r.Method == "POST" && strings.EqualFold(r.Header.Get("X-Http-Method-Override"), "GET"):
		q.Form = "post-override-header"
	case r.Method == "POST" && strings.EqualFold(r.Form.Get("_method"), "GET"):
		q.Form = "post-_method"
	default:
		return q, fmt.Errorf("method %s is not a list request", r.Method)
	}
	if s := r.Form.Get("filters"); s != "" {
		var raw [][]interface{}
		if err := json.Unmarshal([]byte(s), &raw); err != nil {
			return q, fmt.Errorf("filters: %v", err)
		}
		var modes []string
		for _, f := range raw {
			if len(f) != 3 {
				return q, fmt.Errorf("filter %v: need 3 elements", f)
			}
			attr, ok1 := f[0].(string)
			op, ok2 := f[1].(string)
			if !ok1 || !ok2 {
				return q, fmt.Errorf("filter %v: attr/operator must be strings", f)
			}
			q.Filters = append(q.Filters, c06Filter{attr, op, f[2]})
			m := attr + op
			if f[2] == nil {
				m += "null"
			}
			modes = append(modes, m)
		}
		q.Mode = strings.Join(modes, ",")
	}
	if q.Mode == "" {
		q.Mode = "nofilter"
	}
	q.Limit = 100
	if s := r.Form.Get("limit"); s != "" {
		n, err := strconv.Atoi(s)
		if err != nil || n < 0 {
			return q, fmt.Errorf("limit %q", s)
		}
		q.Limit, q.HasLimit = n, true
	}
	q.Count = r.Form.Get("count")
	if q.Count == "" {
		q.Count = "exact"
	}
	if q.Count != "exact" && q.Count != "none" {
		return q, fmt.Errorf("count %q", q.Count)
	}
	q.Order = r.Form.Get("order")
	if s := r.Form.Get("offset"); s != "" {
		n, err := strconv.Atoi(s)
		if err != nil || n < 0 {
			return q, fmt.Errorf("offset %q", s)
		}
		q.Offset = n
	}
	truthy := func(name string) (bool, error) {
		switch v := strings.ToLower(r.Form.Get(name)); v {
		case "", "0", "false", "f", "no":
			return false, nil
		case "1", "true", "t", "yes":
			return true, nil
		default:
			return false, fmt.Errorf("%s=%q", name, v)
		}
	}
	var err error
	if q.InclTr, err = truthy("include_trash"); err != nil {
		return q, err
	}
	if q.InclOld, err = truthy("include_old_versions"); err != nil {
		return q, err
	}
	if _, err = truthy("distinct"); err != nil { // rows of the model are distinct anyway
		return q, err
	}
	if s := r.Form.Get("select"); s != "" {
		if err := json.Unmarshal([]byte(s), &q.Select); err != nil {
			return q, fmt.Errorf("select: %v", err)
		}
		for _, a := range q.Select {
			if !c06Attrs[a] {
				return q, fmt.Errorf("select: invalid attribute %q", a)
			}
		}
		if q.Select == nil {
			q.Select = []string{}
		}
	}
	for name := range r.Form {
		if !c06ListParams[name] {
			return q, fmt.Errorf("list parameter %q not supported by the model", name)
		}
	}
	return q, nil
}

// every parameter of the list API except the legacy "where" (not modelled)
var c06ListParams = map[string]bool{"filters": true, "limit": true, "offset": true, "order": true, "count": true, "select": true,
	"distinct": true, "include_trash": true, "include_old_versions": true, "_method": true, "bypass_federation": true, "cluster_id": true, "reader_tokens": true}

var c06Attrs = map[string]bool{"uuid": true, "modified_at": true, "created_at": true, "portable_data_hash": true, "manifest_text": true,
	"unsigned_manifest_text": true, "replication_desired": true, "is_trashed": true, "current_version_uuid": true, "name": true,
	"owner_uuid": true, "storage_classes_desired": true, "version": true}

// item renders a row with the selected attributes (all of them if sel is nil;
// unsigned_manifest_text only on request, like the API).
func (c *c06Coll) item(sel []string) map[string]interface{} {
	cur := c.UUID
	if c.OldVersion {
		cur = c.UUID[:12] + "currentversion0"
	}
	var repl interface{}
	if c.Repl > 0 {
		repl = c.Repl
	}
	all := map[string]interface{}{
		"uuid": c.UUID, "modified_at": c.Mod.UTC(), "created_at": c.Mod.UTC(),
		"portable_data_hash": fmt.Sprintf("%s+%d", verifkit.MD5Hex([]byte(c.Manifest)), len(c.Manifest)),
		"manifest_text":      c.Manifest, "unsigned_manifest_text": c.Manifest, "replication_desired": repl,
		"is_trashed": c.Trashed, "current_version_uuid": cur, "name": "", "owner_uuid": "zzzzz-tpzed-000000000000000",
		"storage_classes_desired": []string{"default"}, "version": 1,
	}
	if sel == nil {
		delete(all, "unsigned_manifest_text")
		return all
	}
	out := map[string]interface{}{}
	for _, a := range sel {
		out[a] = all[a]
	}
	return out
}

func c06Cmp(op string, c int) (bool, error) {
	switch op {
	case "=":
		return c == 0, nil
	case "!=":
		return c != 0, nil
	case "<":
		return c < 0, nil
	case "<=":
		return c <= 0, nil
	case ">":
		return c > 0, nil
	case ">=":
		return c >= 0, nil
	}
	return false, fmt.Errorf("operator %q not supported by the model", op)
}

func c06TimeCmp(a, b time.Time) int {
	switch {
	case a.Before(b):
		return -1
	case a.After(b):
		return 1
	}
	return 0
}

func (c *c06Coll) match(fs []c06Filter) (bool, error) {
	for _, f := range fs {
		var ok bool
		var err error
		switch f.Attr {
		case "modified_at":
			if f.Operand == nil {
				// no row of the model has a null modified_at
				switch f.Op {
				case "=":
					ok = false
				case "!=":
					ok = true
				default:
					err = fmt.Errorf("operator %q with null", f.Op)
				}
				break
			}
			s, isStr := f.Operand.(string)
			if !isStr {
				return false, fmt.Errorf("modified_at operand %v", f.Operand)
			}
			var t time.Time
			t, err = time.Parse(time.RFC3339Nano, s)
			if err == nil {
				ok, err = c06Cmp(f.Op, c06TimeCmp(c.Mod, t))
			}
		case "uuid":
			s, isStr := f.Operand.(string)
			if !isStr {
				return false, fmt.Errorf("uuid operand %v", f.Operand)
			}
			ok, err = c06Cmp(f.Op, strings.Compare(c.UUID, s))
		default:
			err = fmt.Errorf("attribute %q not supported by the model", f.Attr)
		}
		if err != nil {
			return false, err
		}
		if !ok {
			return false, nil
		}
	}
	return true, nil
}

// c06Sort orders rows by an Arvados order string ("modified_at, uuid",
// "modified_at desc", ...). The empty string is the API's default
// "modified_at desc, uuid".
func c06Sort(rows []*c06Coll, order string) error {
	if order == "" {
		order = "modified_at desc, uuid"
	}
	type key struct {
		attr string
		desc bool
	}
	var keys []key
	for _, part := range strings.Split(order, ",") {
		f := strings.Fields(part)
		if len(f) == 0 || len(f) > 2 {
			return fmt.Errorf("order %q", order)
		}
		k := key{attr: f[0]}
		if len(f) == 2 {
			switch strings.ToLower(f[1]) {
			case "asc":
			case "desc":
				k.desc = true
			default:
				return fmt.Errorf("order %q", order)
			}
		}
		if k.attr != "modified_at" && k.attr != "uuid" {
			return fmt.Errorf("order attribute %q not supported by the model", k.attr)
		}
		keys = append(keys, k)
	}
	// final tie-break keeps the model deterministic
	keys = append(keys, key{attr: "uuid"})
	sort.SliceStable(rows, func(i, j int) bool {
		for _, k := range keys {
			var c int
			if k.attr == "uuid" {
				c = strings.Compare(rows[i].UUID, rows[j].UUID)
			} else {
				c = c06TimeCmp(rows[i].Mod, rows[j].Mod)
			}
			if k.desc {
				c = -c
			}
			if c != 0 {
				return c < 0
			}
		}
		return false
	})
	return nil
}

func (tb *c06Table) sortedAll() []*c06Coll {
	var rows []*c06Coll
	for _, c := range tb.rows {
		rows = append(rows, c)
	}
	c06Sort(rows, "modified_at, uuid")
	return rows
}

func (tb *c06Table) ServeHTTP(w http.ResponseWriter, r *http.Request) {
	q, err := c06ParseList(r)
	tb.mu.Lock()
	tb.stats.Requests++
	reqNo := tb.stats.Requests
	fail := func(err error) {
		if len(tb.stats.Unsupported) < 5 {
			tb.stats.Unsupported = append(tb.stats.Unsupported, err.Error())
		}
		tb.mu.Unlock()
		w.Header().Set("Content-Type", "application/json")
		w.WriteHeader(422)
		json.NewEncoder(w).Encode(map[string]interface{}{"errors": []string{"verif model: " + err.Error()}})
	}
	if err != nil {
		fail(err)
		return
	}
	if tb.before != nil {
		tb.before(&q, reqNo)
	}
	var matched []*c06Coll
	for _, c := range tb.rows {
		ok, err := c.match(q.Filters)
		if err != nil {
			fail(err)
			return
		}
		if ok && (!c.Trashed || q.InclTr) && (!c.OldVersion || q.InclOld) {
			matched = append(matched, c)
		}
	}
	if err := c06Sort(matched, q.Order); err != nil {
		fail(err)
		return
	}
	tb.stats.ByForm[q.Form]++
	tb.stats.ByMode[q.Mode]++
	navail := len(matched)
	// offset: skip that many rows of the filtered, ordered result
	if q.Offset > 0 {
		tb.stats.OffsetRequests++
		if q.Offset > len(matched) {
			matched = nil
		} else {
			matched = matched[q.Offset:]
		}
	}
	nret := len(matched)
	if q.Limit < nret {
		nret = q.Limit
	}
	if tb.serverMax > 0 && nret > tb.serverMax {
		nret = tb.serverMax
	}
	if tb.short != nil && nret > 1 {
		if k := tb.short(len(matched), nret); k >= 1 && k < nret {
			nret = k
		}
	}
	page := matched[:nret]
	if q.Limit == 0 {
		tb.stats.Counts++
	} else {
		tb.stats.Pages++
		if nret == 0 {
			tb.stats.EmptyPages++
		}
		if nret < len(matched) && nret < q.Limit {
			tb.stats.ShortPages++
		}
		run, best := 0, 0
		for i := range page {
			if i > 0 && page[i].Mod.Equal(page[i-1].Mod) {
				run++
			} else {
				run = 1
			}
			if run > best {
				best = run
			}
		}
		if best > tb.stats.MaxTieInRes {
			tb.stats.MaxTieInRes = best
		}
		if nret > 0 && nret < len(matched) && matched[nret].Mod.Equal(page[nret-1].Mod) {
			tb.stats.TiePages++
		}
	}
	resp := struct {
		Kind   string                   `json:"kind"`
		Items  []map[string]interface{} `json:"items"`
		Avail  *int                     `json:"items_available,omitempty"`
		Offset int                      `json:"offset"`
		Limit  int                      `json:"limit"`
	}{Kind: "arvados#collectionList", Items: []map[string]interface{}{}, Limit: q.Limit, Offset: q.Offset}
	for _, c := range page {
		resp.Items = append(resp.Items, c.item(q.Select))
	}
	if q.Count == "exact" {
		resp.Avail = &navail
	}
	if tb.after != nil && q.Limit != 0 {
		tb.after(&q, page)
	}
	buf, _ := json.Marshal(resp)
	tb.mu.Unlock()
	w.Header().Set("Content-Type", "application/json")
	w.Write(buf)
}

// ------------------------------------------------------------------------
// redirect answers
// ------------------------------------------------------------------------

var c06RedirStatuses = []int{301, 302, 303, 307, 308}

// where the redirect points
var c06RedirTargets = []string{
	"failing-target",      // a maintenance page: 503, text/html
	"empty-answer-target", // 200 and a well-formed EMPTY answer of the requested kind (empty list / empty index)
	"dead-target",         // a port that accepts and drops every connection
	"no-location",         // 3xx without a Location header
}

const c06TargetPrefix = "/verif-redirect-target/"

// c06Redirector produces redirect answers and serves their targets, counting
// what reaches the targets (so that the oracle knows what the client under
// test actually received).
type c06Redirector struct {
	dead        net.Listener
	deadAccepts int64
	mu          sync.Mutex
	hits        map[string]int // target kind -> requests that reached it
}

func c06NewRedirector() *c06Redirector {
	rd := &c06Redirector{hits: map[string]int{}}
	ln, err := net.Listen("tcp", "127.0.0.1:0")
	if err != nil {
		panic("verif: listen: " + err.Error())
	}
	rd.dead = ln
	go func() {
		for {
			conn, err := ln.Accept()
			if err != nil {
				return
			}
			atomic.AddInt64(&rd.deadAccepts, 1)
			if tc, ok := conn.(*net.TCPConn); ok {
				tc.SetLinger(0)
			}
			conn.Close()
		}
	}()
	return rd
}

func (rd *c06Redirector) Close() { rd.dead.Close() }

func (rd *c06Redirector) reset() {
	rd.mu.Lock()
	rd.hits = map[string]int{}
	rd.mu.Unlock()
	atomic.StoreInt64(&rd.deadAccepts, 0)
}

func (rd *c06Redirector) reached(target string) int {
	if target == "dead-target" {
		return int(atomic.LoadInt64(&rd.deadAccepts))
	}
	rd.mu.Lock()
	defer rd.mu.Unlock()
	return rd.hits[target]
}

// answer writes the redirect. typ is the kind of the redirected request
// (collections-page, collections-count, index, ...).
func (rd *c06Redirector) answer(w http.ResponseWriter, r *http.Request, status int, target, typ string) {
	ioutil.ReadAll(r.Body)
	loc := ""
	switch target {
	case "failing-target", "empty-answer-target":
		loc = c06TargetPrefix + target + "?kind=" + typ
	case "dead-target":
		loc = "http://" + rd.dead.Addr().String() + "/moved"
	case "no-location":
	default:
		panic("verif: unknown redirect target " + target)
	}
	if loc != "" {
		w.Header().Set("Location", loc)
	}
	w.Header().Set("Content-Type", "text/html; charset=utf-8")
	w.WriteHeader(status)
	fmt.Fprintf(w, "<html><head><title>%d %s</title></head><body>The document has moved.</body></html>\n", status, http.StatusText(status))
}

// serveTarget answers a request for one of the redirect targets; false if r
// is not such a request. count says whether the request belongs to the
// current run (stragglers of an earlier one are answered but not counted).
func (rd *c06Redirector) serveTarget(w http.ResponseWriter, r *http.Request, count bool) bool {
	if !strings.HasPrefix(r.URL.Path, c06TargetPrefix) {
		return false
	}
	target := strings.TrimPrefix(r.URL.Path, c06TargetPrefix)
	if count {
		rd.mu.Lock()
		rd.hits[target]++
		rd.mu.Unlock()
	}
	ioutil.ReadAll(r.Body)
	switch target {
	case "empty-answer-target":
		switch r.URL.Query().Get("kind") {
		case "index":
			w.Header().Set("Content-Type", "text/plain")
			w.Write([]byte("\n"))
		case "collections-page":
			w.Header().Set("Content-Type", "application/json")
			w.Write([]byte(`{"kind":"arvados#collectionList","items":[]}`))
		default:
			w.Header().Set("Content-Type", "application/json")
			w.Write([]byte(`{"kind":"arvados#collectionList","items":[],"items_available":0}`))
		}
	default:
		w.Header().Set("Content-Type", "text/html; charset=utf-8")
		w.WriteHeader(http.StatusServiceUnavailable)
		w.Write([]byte("<html><body><h1>503 Service Unavailable</h1>down for maintenance</body></html>\n"))
	}
	return true
}

// c06ProductClient builds the API client the way keep-balance does
// (NewClientFromConfig: no explicit http.Client, so the package's default
// client for the TLS setting is used).
func c06ProductClient(apiURL, token string, insecure bool) (*arvados.Client, *arvados.Cluster) {
	u, err := url.Parse(apiURL)
	if err != nil {
		panic("verif: " + err.Error())
	}
	cluster := &arvados.Cluster{}
	cluster.Services.Controller.ExternalURL = arvados.URL(*u)
	cluster.TLS.Insecure = insecure
	client, err := arvados.NewClientFromConfig(cluster)
	if err != nil {
		panic("verif: NewClientFromConfig: " + err.Error())
	}
	client.AuthToken = token
	return client, cluster
}

// ------------------------------------------------------------------------
// (a) paging histories
// ------------------------------------------------------------------------

type c06Mut struct {
	BeforeReq int    `json:"before_request"`
	Kind      string `json:"kind"` // modify | add | delete
	UUID      string `json:"uuid"`
	Pick      string `json:"pick,omitempty"`
	Now       string `json:"now,omitempty"`
}

type c06PageCase struct {
	N         int           `json:"n"`
	PageSize  int           `json:"page_size"`
	ServerMax int           `json:"server_max_page"`
	ShortNum  int           `json:"short_page_chance_of_4"`
	TieMode   string        `json:"tie_mode"`
	MaxTie    int           `json:"max_tie"`
	Gran      string        `json:"granularity"`
	MutRate   int           `json:"mutation_chance_of_8"`
	Budget    int           `json:"mutation_budget"`
	LongUUID  bool          `json:"long_uuids"`
	Redirect  *c06RedirPlan `json:"redirect,omitempty"`
}

// c06RedirPlan: the AtPage-th page request of the scan is answered with a redirect.
type c06RedirPlan struct {
	AtPage int    `json:"at_page_request"`
	Status int    `json:"status"`
	Target string `json:"target"`
	Client string `json:"http_client"` // default-secure | default-insecure (arvados.Client without an explicit http.Client)
}

type c06PageWitness struct {
	Case      c06PageCase `json:"case"`
	Initial   [][2]string `json:"initial,omitempty"`
	Mutations []c06Mut    `json:"mutations,omitempty"`
	Missed    []string    `json:"missed,omitempty"`
	Requests  []string    `json:"requests,omitempty"`
}

const c06Alnum = "0123456789abcdefghijklmnopqrstuvwxyz"

func c06GenPageCase(rng *verifkit.Rand) c06PageCase {
	var c c06PageCase
	switch rng.Intn(10) {
	case 0:
		c.N = rng.PickInt(0, 1, 2, 3)
	case 1, 2, 3, 4:
		c.N = rng.Range(4, 30)
	case 5, 6, 7:
		c.N = rng.Range(31, 90)
	default:
		c.N = rng.Range(91, 200)
	}
	c.TieMode = rng.PickStr("distinct", "all-same", "pairs", "random", "random", "big+singles", "around-page", "around-page")
	c.Gran = rng.PickStr("ns", "us", "s")
	switch rng.Intn(8) {
	case 0:
		c.PageSize = 0 // "maximum the server allows"
	case 1:
		c.PageSize = 1
	case 2:
		c.PageSize = 2
	case 3:
		c.PageSize = 3
	case 4:
		c.PageSize = c.N + rng.Range(0, 2)
	default:
		c.PageSize = rng.Range(1, c.N+1)
	}
	if rng.Chance(1, 4) {
		c.ServerMax = rng.Range(1, c.N+1)
	}
	c.ShortNum = rng.PickInt(0, 0, 1, 2)
	c.MutRate = rng.PickInt(0, 0, 1, 2, 4, 8)
	if c.MutRate > 0 {
		c.Budget = rng.Range(1, 2*c.N+10)
	}
	c.LongUUID = rng.Chance(1, 12)
	return c
}

// c06TieGroups returns the sizes of the groups of equal timestamps.
func c06TieGroups(rng *verifkit.Rand, c *c06PageCase) []int {
	n := c.N
	var g []int
	add := func(k int) {
		if k > n {
			k = n
		}
		if k > 0 {
			g = append(g, k)
			n -= k
		}
	}
	p := c.PageSize
	if p <= 0 {
		p = rng.Range(1, c.N+1)
	}
	switch c.TieMode {
	case "distinct":
		for n > 0 {
			add(1)
		}
	case "all-same":
		add(n)
	case "pairs":
		for n > 0 {
			add(2)
		}
	case "random":
		for n > 0 {
			if rng.Bool() {
				add(1)
			} else {
				add(rng.Range(2, 2+c.N/3))
			}
		}
	case "big+singles":
		big := rng.Range((c.N+1)/2, c.N)
		before := rng.Intn(c.N - big + 1)
		for i := 0; i < before; i++ {
			add(1)
		}
		add(big)
		for n > 0 {
			add(1)
		}
	default: // around-page: ties a little smaller, equal, larger and much larger than a page
		for n > 0 {
			if rng.Chance(1, 3) {
				add(1)
			} else {
				add(rng.PickInt(p-1, p, p+1, 2*p, 2*p+1, 3*p))
			}
		}
	}
	for _, k := range g {
		if k > c.MaxTie {
			c.MaxTie = k
		}
	}
	return g
}

func c06Fmt(t time.Time) string { return t.UTC().Format(time.RFC3339Nano) }

func c06Logger() *logrus.Logger {
	l := logrus.New()
	l.Out = ioutil.Discard
	return l
}

func c06NClass(n int) string {
	switch {
	case n == 0:
		return "0"
	case n <= 3:
		return "1-3"
	case n <= 30:
		return "4-30"
	case n <= 90:
		return "31-90"
	}
	return "91-200"
}

func c06RunPaging(t *testing.T, run *verifkit.Run) {
	c06RunPagingStream(t, run, "paging", run.N(2000, 50000), false)
	c06RunPagingStream(t, run, "paging-redirect", run.N(600, 12000), true)
}

func c06RunPagingStream(t *testing.T, run *verifkit.Run, stream string, n int, redirects bool) {
	tb := c06NewTable()
	rd := c06NewRedirector()
	defer rd.Close()
	var rmu sync.Mutex
	var rplan *c06RedirPlan
	rpages, rfired := 0, 0
	srv := httptest.NewServer(http.HandlerFunc(func(w http.ResponseWriter, r *http.Request) {
		if rd.serveTarget(w, r, true) {
			return
		}
		rmu.Lock()
		plan := rplan
		hit := false
		if plan != nil && r.URL.Path == "/arvados/v1/collections" {
			r.ParseForm()
			if r.Form.Get("limit") != "0" {
				rpages++
				if rpages == plan.AtPage {
					hit = true
					rfired++
				}
			}
		}
		rmu.Unlock()
		if hit {
			rd.answer(w, r, plan.Status, plan.Target, "collections-page")
			return
		}
		tb.ServeHTTP(w, r)
	}))
	defer srv.Close()
	httpc := &http.Client{Transport: &http.Transport{MaxIdleConnsPerHost: 4, DisableCompression: true}, Timeout: 5 * time.Minute}
	defer httpc.CloseIdleConnections()
	host := strings.TrimPrefix(srv.URL, "http://")

	firedTotal, casesRun := 0, 0
	run.Cases(stream, n, func(i int, rng *verifkit.Rand) {
		c := c06GenPageCase(rng)
		groups := c06TieGroups(rng, &c)
		if redirects {
			if c.N == 0 {
				c.N = rng.Range(1, 30)
				groups = c06TieGroups(rng, &c)
			}
			eff := c.PageSize
			if eff <= 0 || eff > c.N {
				eff = c.N
			}
			if c.ServerMax > 0 && c.ServerMax < eff {
				eff = c.ServerMax
			}
			pages := (c.N + eff - 1) / eff
			c.Redirect = &c06RedirPlan{
				AtPage: rng.Range(1, pages+1),
				Status: c06RedirStatuses[rng.Intn(len(c06RedirStatuses))],
				Target: c06RedirTargets[rng.Intn(len(c06RedirTargets))],
				Client: rng.PickStr("default-secure", "default-insecure"),
			}
		}
		casesRun++
		rd.reset()
		rmu.Lock()
		rplan, rpages, rfired = c.Redirect, 0, 0
		rmu.Unlock()
		run.Input(c, false)

		var step time.Duration
		switch c.Gran {
		case "ns":
			step = time.Nanosecond
		case "us":
			step = time.Microsecond
		default:
			step = time.Second
		}
		// ---- initial population
		tb.mu.Lock()
		tb.rows = map[string]*c06Coll{}
		tb.stats = c06ListStats{ByForm: map[string]int{}, ByMode: map[string]int{}}
		tb.serverMax = c.ServerMax
		base := time.Date(2020, 1, 2, 3, 4, 5, 0, time.UTC)
		now := base
		pad := ""
		if c.LongUUID {
			pad = strings.Repeat("q", 700) // pushes the query string over the 1000-byte GET limit ⇒ POST form
		}
		newUUID := func() string {
			for {
				u := "zzzzz-4zz18-" + rng.String(15, c06Alnum) + pad
				if _, dup := tb.rows[u]; !dup {
					return u
				}
			}
		}
		var initial [][2]string
		nTrashed, nOldVer := 0, 0
		required := map[string]bool{}
		for _, k := range groups {
			now = now.Add(step * time.Duration(1+rng.Intn(3)))
			for j := 0; j < k; j++ {
				u := newUUID()
				row := &c06Coll{UUID: u, Mod: now, Trashed: rng.Chance(1, 6), OldVersion: rng.Chance(1, 6)}
				tb.rows[u] = row
				required[u] = true // trashed collections and past versions exist too: their blocks are still referenced
				flags := ""
				if row.Trashed {
					flags += " trashed"
					nTrashed++
				}
				if row.OldVersion {
					flags += " old-version"
					nOldVer++
				}
				initial = append(initial, [2]string{u, c06Fmt(now) + flags})
			}
		}
		// ---- schedule of concurrent changes, applied between requests
		budget := c.Budget
		var muts []c06Mut
		var lastPage []*c06Coll
		var reqLog []string
		nMod, nAdd, nDel := 0, 0, 0
		everDeleted := map[string]bool{}
		ctx, cancel := context.WithCancel(context.Background())
		defer cancel()
		bound := 20*(2*c.N+c.Budget+5) + 100
		hitBound := false
		if c.ShortNum > 0 {
			tb.short = func(nmatch, nret int) int {
				if rng.Chance(c.ShortNum, 4) {
					return rng.Range(1, nret)
				}
				return nret
			}
		} else {
			tb.short = nil
		}
		tb.after = func(q *c06ListReq, page []*c06Coll) {
			lastPage = append(lastPage[:0], page...)
		}
		tb.before = func(q *c06ListReq, reqNo int) {
			if len(reqLog) < 400 {
				reqLog = append(reqLog, fmt.Sprintf("#%d %s limit=%d %v", reqNo, q.Mode, q.Limit, q.Filters))
			}
			if reqNo > bound && !hitBound {
				hitBound = true
				cancel()
			}
			if reqNo < 2 || budget <= 0 || !rng.Chance(c.MutRate, 8) {
				return
			}
			k := rng.Range(1, 3)
			if k > budget {
				k = budget
			}
			shared := rng.Bool()
			now = now.Add(step * time.Duration(1+rng.Intn(3)))
			for j := 0; j < k; j++ {
				if !shared && j > 0 {
					now = now.Add(step)
				}
				budget--
				kind := rng.PickStr("modify", "modify", "modify", "add", "add", "delete", "delete")
				if len(tb.rows) == 0 {
					kind = "add"
				}
				if kind == "add" {
					u := newUUID()
					tb.rows[u] = &c06Coll{UUID: u, Mod: now}
					nAdd++
					muts = append(muts, c06Mut{BeforeReq: reqNo, Kind: kind, UUID: u, Now: c06Fmt(now)})
					continue
				}
				// choose a victim, preferably around the scan position
				all := tb.sortedAll()
				pos := -1
				if len(lastPage) > 0 {
					lu := lastPage[len(lastPage)-1].UUID
					for x := range all {
						if all[x].UUID == lu {
							pos = x
						}
					}
				}
				var victim *c06Coll
				pick := rng.PickStr("random", "last-returned", "last-returned", "last-returned", "next-unseen", "tie-mate-of-last", "previous", "any-returned")
				switch {
				case pick == "last-returned" && pos >= 0:
					victim = all[pos]
				case pick == "next-unseen" && pos >= 0 && pos+1 < len(all):
					victim = all[pos+1]
				case pick == "previous" && pos >= 1:
					victim = all[pos-1]
				case pick == "any-returned" && len(lastPage) > 0:
					if v := tb.rows[lastPage[rng.Intn(len(lastPage))].UUID]; v != nil {
						victim = v
					}
				case pick == "tie-mate-of-last" && pos >= 0:
					var mates []*c06Coll
					for _, r := range all {
						if r.Mod.Equal(all[pos].Mod) && r != all[pos] {
							mates = append(mates, r)
						}
					}
					if len(mates) > 0 {
						victim = mates[rng.Intn(len(mates))]
					}
				}
				if victim == nil {
					pick = "random"
					victim = all[rng.Intn(len(all))]
				}
				if kind == "modify" {
					victim.Mod = now
					nMod++
				} else {
					delete(tb.rows, victim.UUID)
					everDeleted[victim.UUID] = true
					delete(required, victim.UUID)
					nDel++
				}
				muts = append(muts, c06Mut{BeforeReq: reqNo, Kind: kind, UUID: victim.UUID, Pick: pick, Now: c06Fmt(now)})
			}
		}
		tb.mu.Unlock()

		// ---- the real scan
		client := &arvados.Client{Client: httpc, Scheme: "http", APIHost: host, AuthToken: "veriftoken"}
		if c.Redirect != nil {
			client, _ = c06ProductClient(srv.URL, "veriftoken", c.Redirect.Client == "default-insecure")
		}
		seen := map[string]int{}
		calls := 0
		err := EachCollection(ctx, client, c.PageSize, func(coll arvados.Collection) error {
			seen[coll.UUID]++
			calls++
			return nil
		}, func(done, total int) {})

		tb.mu.Lock()
		tb.before, tb.after, tb.short = nil, nil, nil
		st := tb.stats
		tb.mu.Unlock()
		rmu.Lock()
		redirFired := rfired > 0
		rplan = nil
		rmu.Unlock()
		// what the client under test received in place of the redirected page
		redirClass, redirReached, notJudged := "", 0, false
		if redirFired {
			firedTotal++
			redirReached = rd.reached(c.Redirect.Target)
			follow := "not-followed"
			if redirReached > 0 {
				follow = "followed"
			}
			redirClass = c.Redirect.Target + ":" + follow
			run.Count("ar_redirects_answered", 1)
			run.Count(fmt.Sprintf("ar_redirect_status_%d", c.Redirect.Status), 1)
			run.Count("ar_redirect_"+redirClass, 1)
			run.Count("ar_client_"+c.Redirect.Client, 1)
			if c.Redirect.Target == "empty-answer-target" && redirReached > 0 {
				// the client followed the redirect and was handed a well-formed
				// 200 empty list by the endpoint while matching rows exist:
				// excluded by the assumptions, not judged
				notJudged = true
				run.Count("ar_not_judged_followed_to_wellformed_empty_list", 1)
			}
		} else if c.Redirect != nil {
			run.Count("ar_redirect_page_never_requested", 1)
		}

		// ---- oracle
		run.Eval(1)
		run.Count("a_histories", 1)
		run.Count("a_pages_requested", st.Pages)
		run.Count("a_count_requests", st.Counts)
		run.Count("a_short_pages_served", st.ShortPages)
		run.Count("a_pages_ending_inside_a_tie", st.TiePages)
		run.Count("a_mutations_modify", nMod)
		run.Count("a_mutations_add", nAdd)
		run.Count("a_mutations_delete", nDel)
		run.Count("a_callbacks", calls)
		run.Count("a_required_collections_checked", len(required))
		for _, m := range muts {
			if m.Pick == "last-returned" {
				run.Count("a_mutations_on_last_item_of_delivered_page_"+m.Kind, 1)
			}
		}
		run.Count("a_trashed_collections", nTrashed)
		run.Count("a_old_version_collections", nOldVer)
		run.Count("a_requests_with_offset", st.OffsetRequests)
		run.CountMax("max_a_tie_multiplicity", c.MaxTie)
		run.CountMax("max_a_requests_in_one_scan", st.Requests)
		for f, k := range st.ByForm {
			run.Count("a_requests_"+f, k)
		}
		for m, k := range st.ByMode {
			run.Count("a_mode_"+m, k)
		}
		if c.MaxTie > c.PageSize && c.PageSize > 0 {
			run.Count("a_histories_tie_larger_than_page", 1)
		}
		mutClass := "static"
		if nMod+nAdd+nDel > 0 {
			mutClass = "mutating"
		}
		missSig := "C06:a:collection-missed:" + mutClass
		if redirFired {
			missSig += ":page-request-answered-with-redirect:" + redirClass
		}
		witness := func(missed []string) c06PageWitness {
			w := c06PageWitness{Case: c, Initial: initial, Mutations: muts, Missed: missed, Requests: reqLog}
			if len(w.Initial) > 210 {
				w.Initial = w.Initial[:210]
			}
			return w
		}
		if len(st.Unsupported) > 0 {
			run.Inconclusive(fmt.Sprintf("C06(a): EachCollection sent a list request outside the reference model: %v", st.Unsupported))
		}
		switch {
		case hitBound:
			run.Violation("C06:a:non-termination:"+mutClass,
				fmt.Sprintf("EachCollection issued more than %d list requests for %d collections (page size %d, %d mutations applied, budget exhausted=%v) and was cancelled; last requests: %v",
					bound, c.N, c.PageSize, len(muts), budget <= 0, c06LastN(reqLog, 6)), witness(nil))
		case err == nil && notJudged:
			run.Count("a_scans_completed", 1)
		case err == nil:
			var missed []string
			for u := range required {
				if seen[u] == 0 {
					missed = append(missed, u)
				}
			}
			sort.Strings(missed)
			if redirFired {
				run.Count("ar_scans_returning_nil_after_redirect_judged", 1)
			}
			if len(missed) > 0 {
				// features of the first missed collection
				u := missed[0]
				tieSize, modified := 0, false
				for _, m := range muts {
					if m.UUID == u && m.Kind == "modify" {
						modified = true
					}
				}
				tb.mu.Lock()
				if r := tb.rows[u]; r != nil {
					for _, o := range tb.rows {
						if o.Mod.Equal(r.Mod) {
							tieSize++
						}
					}
				}
				tb.mu.Unlock()
				tie := "untied"
				if tieSize > 1 {
					tie = "tie<=page"
					if c.PageSize > 0 && tieSize > c.PageSize {
						tie = "tie>page"
					}
				}
				modS := "untouched"
				if modified {
					modS = "modified-during-scan"
				}
				redirS := ""
				if redirFired {
					redirS = fmt.Sprintf("; page request #%d was answered with HTTP %d, target %s (requests that reached the target: %d), http client %s", c.Redirect.AtPage, c.Redirect.Status, c.Redirect.Target, redirReached, c.Redirect.Client)
				}
				run.Violation(missSig,
					fmt.Sprintf("EachCollection returned nil but never handed %d of the %d collections that existed throughout the scan to the callback (first: %s, %s, %s); N=%d page=%d server_max=%d max_tie=%d mutations=%d%s",
						len(missed), len(required), strings.TrimSuffix(u, pad), tie, modS, c.N, c.PageSize, c.ServerMax, c.MaxTie, len(muts), redirS), witness(missed))
				run.Count("a_missed:"+tie+":"+modS, 1)
			}
			run.Count("a_scans_completed", 1)
		default:
			run.Count("a_scans_failed", 1)
			if redirFired {
				run.Count("ar_scans_failed_after_redirect", 1)
			}
			if mutClass == "static" && !redirFired {
				run.Count("a_scans_failed_without_any_mutation", 1)
				run.Note(fmt.Sprintf("(a) not judged: EachCollection failed on a static table: %v (case %+v)", err, c))
			}
		}
		if c.N == 0 {
			run.Trivial()
		} else {
			pc := "page>=N"
			switch {
			case c.PageSize == 0:
				pc = "page=max"
			case c.PageSize < c.MaxTie:
				pc = "page<tie"
			case c.PageSize == c.MaxTie:
				pc = "page=tie"
			case c.PageSize < c.N:
				pc = "tie<page<N"
			}
			mc := "mut=none"
			switch {
			case len(muts) > c.N/2 && len(muts) > 3:
				mc = "mut=heavy"
			case len(muts) > 0:
				mc = "mut=light"
			}
			form := "get"
			if c.LongUUID {
				form = "post"
			}
			if c.Redirect != nil {
				pos := "never-requested"
				if redirFired {
					pos = "later-page"
					if c.Redirect.AtPage == 1 {
						pos = "first-page"
					}
				}
				run.Feature(fmt.Sprintf("ar:N=%s:%s:%s:%s:%s:%d:%s:%s:err=%v", c06NClass(c.N), pc, mc, form, pos, c.Redirect.Status, redirClass, c.Redirect.Client, err != nil))
			} else {
				run.Feature(fmt.Sprintf("a:N=%s:%s:%s:%s:short=%v:cap=%v:%s:%s", c06NClass(c.N), pc, c.TieMode, mc, c.ShortNum > 0, c.ServerMax > 0, c.Gran, form))
			}
		}
		if i < 2 {
			run.Sample(map[string]interface{}{"part": "a", "stream": stream, "case": c, "requests": st.Requests, "callbacks": calls, "mutations": len(muts), "redirect": redirClass, "err": fmt.Sprint(err)})
		}
	})
	if redirects && casesRun >= 20 && firedTotal == 0 {
		run.Inconclusive("C06(a): no page request of the paging-redirect stream was ever answered with a redirect")
	}
}

func c06LastN(s []string, n int) []string {
	if len(s) > n {
		return s[len(s)-n:]
	}
	return s
}

// ------------------------------------------------------------------------
// (c) fail-stop sweep of Balancer.Run
// ------------------------------------------------------------------------

type c06Put struct {
	Server string
	Path   string
	Items  int
	Body   string
}

type c06Keepstore struct {
	name   string
	uuid   string
	srv    *httptest.Server
	host   string
	port   int
	mounts []arvados.KeepMount
	index  map[string]string // mount uuid -> well-formed index body
}

type c06World struct {
	api    *httptest.Server
	table  *c06Table
	stores []*c06Keepstore
	fc     *c06FaultCtl
	mu     sync.Mutex
	puts   []c06Put
	// settings of the next sweep
	status     int    // HTTP status of a redirect mode
	clientKind string // "" = the harness's http.Client without keep-alive; default-secure | default-insecure = arvados.Client without explicit http.Client, as keep-balance builds it
}

type c06ReqKey struct {
	ID   string // server + method + path + query (+ occurrence)
	Type string
}

// c06FaultCtl numbers the requests of a sweep and makes one of them fail.
type c06FaultCtl struct {
	mu     sync.Mutex
	token  string // AuthToken of the current sweep; requests carrying another one are stragglers of an earlier sweep
	sweeps int
	stale  int
	occ    map[string]int
	record bool
	keys   []c06ReqKey
	target string
	mode   string
	fired  int
	delays *c06Delays // nil = no injected delays
	rd     *c06Redirector
	status int // HTTP status of the redirect modes
}

// c06Delays is the source of the injected delays of the "failstop-delay"
// stream (slow log sink, slow collection pages, slowly failing keepstore).
// Its PRNG is shared by several goroutines, hence the lock.
type c06Delays struct {
	mu  sync.Mutex
	rng *verifkit.Rand
	n   map[string]int
	ms  map[string]int
}

// sleep waits lo..hi milliseconds with probability num/den.
func (d *c06Delays) sleep(kind string, num, den, lo, hi int) {
	if d == nil {
		return
	}
	d.mu.Lock()
	ms := -1
	if d.rng.Chance(num, den) {
		ms = d.rng.Range(lo, hi)
		d.n[kind]++
		d.ms[kind] += ms
	}
	d.mu.Unlock()
	if ms > 0 {
		time.Sleep(time.Duration(ms) * time.Millisecond)
	}
}

var c06ErrorishRe = regexp.MustCompile(`(?i)error|fail|cannot|unable|refus|time(d )?out|reset|EOF|unexpected|cancel|: [45][0-9][0-9] `)

// c06SlowLogger is the Balancer's logger in the "failstop-delay" stream: a
// log sink that is sometimes slow, more often and longer for entries that
// report a problem (by level or by wording), as a remote or disk-bound sink
// is. It never alters or drops an entry.
type c06SlowLogger struct {
	*logrus.Logger
	d *c06Delays
}

func (l *c06SlowLogger) pause(level logrus.Level, msg string) {
	switch {
	case level <= logrus.WarnLevel || c06ErrorishRe.MatchString(msg):
		l.d.sleep("log-problem-entry", 3, 4, 20, 100)
	case level >= logrus.DebugLevel:
		l.d.sleep("log-debug-entry", 1, 2, 1, 6)
	default:
		l.d.sleep("log-info-entry", 1, 8, 1, 30)
	}
}
func (l *c06SlowLogger) Debugf(f string, a ...interface{}) {
	l.pause(logrus.DebugLevel, fmt.Sprintf(f, a...))
	l.Logger.Debugf(f, a...)
}
func (l *c06SlowLogger) Infof(f string, a ...interface{}) {
	l.pause(logrus.InfoLevel, fmt.Sprintf(f, a...))
	l.Logger.Infof(f, a...)
}
func (l *c06SlowLogger) Printf(f string, a ...interface{}) {
	l.pause(logrus.InfoLevel, fmt.Sprintf(f, a...))
	l.Logger.Printf(f, a...)
}
func (l *c06SlowLogger) Warnf(f string, a ...interface{}) {
	l.pause(logrus.WarnLevel, fmt.Sprintf(f, a...))
	l.Logger.Warnf(f, a...)
}
func (l *c06SlowLogger) Warningf(f string, a ...interface{}) { l.Warnf(f, a...) }
func (l *c06SlowLogger) Errorf(f string, a ...interface{}) {
	l.pause(logrus.ErrorLevel, fmt.Sprintf(f, a...))
	l.Logger.Errorf(f, a...)
}
func (l *c06SlowLogger) Debug(a ...interface{}) {
	l.pause(logrus.DebugLevel, fmt.Sprint(a...))
	l.Logger.Debug(a...)
}
func (l *c06SlowLogger) Info(a ...interface{}) {
	l.pause(logrus.InfoLevel, fmt.Sprint(a...))
	l.Logger.Info(a...)
}
func (l *c06SlowLogger) Print(a ...interface{}) {
	l.pause(logrus.InfoLevel, fmt.Sprint(a...))
	l.Logger.Print(a...)
}
func (l *c06SlowLogger) Warn(a ...interface{}) {
	l.pause(logrus.WarnLevel, fmt.Sprint(a...))
	l.Logger.Warn(a...)
}
func (l *c06SlowLogger) Error(a ...interface{}) {
	l.pause(logrus.ErrorLevel, fmt.Sprint(a...))
	l.Logger.Error(a...)
}

func (fc *c06FaultCtl) reset(record bool, target, mode string) string {
	fc.mu.Lock()
	defer fc.mu.Unlock()
	fc.sweeps++
	fc.token = fmt.Sprintf("veriftoken%d", fc.sweeps)
	fc.occ = map[string]int{}
	fc.record = record
	fc.keys = nil
	fc.target, fc.mode, fc.fired = target, mode, 0
	fc.delays = nil
	fc.status = 0
	if fc.rd != nil {
		fc.rd.reset()
	}
	return fc.token
}

var c06BlocksPathRe = regexp.MustCompile(`^/mounts/[^/]+/blocks/?$`)

func c06Classify(server string, r *http.Request) string {
	p := r.URL.Path
	if server == "api" {
		switch {
		case p == "/arvados/v1/collections":
			if r.URL.Query().Get("limit") == "0" {
				return "collections-count"
			}
			return "collections-page"
		case p == "/arvados/v1/keep_services":
			return "keep_services-list"
		case p == "/arvados/v1/users/current":
			return "users-current"
		case strings.HasPrefix(p, "/discovery/"):
			return "discovery-document"
		}
		return "api-other"
	}
	switch {
	case r.Method == "GET" && (c06BlocksPathRe.MatchString(p) || strings.HasPrefix(p, "/index")):
		return "index"
	case r.Method == "GET" && p == "/mounts":
		return "mounts"
	case r.Method == "PUT" && p == "/trash":
		return "put-trash"
	case r.Method == "PUT" && p == "/pull":
		return "put-pull"
	}
	return "keepstore-other"
}

func c06Judged(typ string) bool {
	return typ == "index" || typ == "collections-page" || typ == "collections-count"
}

var c06Modes = []string{"http500", "reset", "truncated", "malformed"}

// redirect modes are "redirect-to-" + one of c06RedirTargets
const c06RedirModePrefix = "redirect-to-"

func (fc *c06FaultCtl) wrap(server string, h http.Handler) http.Handler {
	return http.HandlerFunc(func(w http.ResponseWriter, r *http.Request) {
		if fc.rd != nil && strings.HasPrefix(r.URL.Path, c06TargetPrefix) {
			// the client followed a redirect answer
			fc.mu.Lock()
			current := r.Header.Get("Authorization") == "OAuth2 "+fc.token
			fc.mu.Unlock()
			fc.rd.serveTarget(w, r, current)
			return
		}
		id := server + " " + r.Method + " " + r.URL.Path
		if r.URL.RawQuery != "" {
			id += "?" + r.URL.RawQuery
		}
		if r.Method == "POST" {
			body, _ := ioutil.ReadAll(r.Body)
			r.Body = ioutil.NopCloser(bytes.NewReader(body))
			id += " form=" + string(body)
		}
		typ := c06Classify(server, r)
		fc.mu.Lock()
		if r.Header.Get("Authorization") != "OAuth2 "+fc.token {
			// a request of an earlier, already finished sweep that was
			// cancelled by its client but reaches the handler only now
			fc.stale++
			fc.mu.Unlock()
			http.Error(w, "verif: stale sweep", http.StatusGone)
			return
		}
		fc.occ[id]++
		id += "#" + strconv.Itoa(fc.occ[id])
		if fc.record {
			fc.keys = append(fc.keys, c06ReqKey{ID: id, Type: typ})
		}
		hit := fc.target != "" && id == fc.target && fc.fired == 0
		mode := fc.mode
		if hit {
			fc.fired++
		}
		delays := fc.delays
		status := fc.status
		fc.mu.Unlock()
		if !hit {
			switch typ {
			case "collections-page":
				delays.sleep("slow-collections-page", 3, 4, 1, 8)
			case "index":
				delays.sleep("slow-index", 1, 2, 1, 20)
			}
			h.ServeHTTP(w, r)
			return
		}
		// the failing server takes its time to fail
		delays.sleep("slow-failure", 1, 1, 3, 90)
		hijack := func() net.Conn {
			hj, ok := w.(http.Hijacker)
			if !ok {
				panic("verif: ResponseWriter is not a Hijacker")
			}
			conn, _, err := hj.Hijack()
			if err != nil {
				panic("verif: hijack: " + err.Error())
			}
			return conn
		}
		if strings.HasPrefix(mode, c06RedirModePrefix) {
			fc.rd.answer(w, r, status, strings.TrimPrefix(mode, c06RedirModePrefix), typ)
			return
		}
		switch mode {
		case "http500":
			ioutil.ReadAll(r.Body)
			w.Header().Set("Content-Type", "application/json")
			w.WriteHeader(500)
			w.Write([]byte(`{"errors":["verif: injected failure"]}` + "\n"))
		case "reset":
			conn := hijack()
			if tc, ok := conn.(*net.TCPConn); ok {
				tc.SetLinger(0) // RST instead of FIN
			}
			conn.Close()
		case "truncated":
			// the genuine response, but the connection dies half way
			// through the body (Content-Length announces all of it)
			rec := httptest.NewRecorder()
			h.ServeHTTP(rec, r)
			full := rec.Body.Bytes()
			announce := len(full)
			if announce == 0 {
				announce = 16
			}
			conn := hijack()
			ct := rec.Header().Get("Content-Type")
			if ct == "" {
				ct = "text/plain"
			}
			fmt.Fprintf(conn, "HTTP/1.1 200 OK\r\nContent-Type: %s\r\nContent-Length: %d\r\n\r\n", ct, announce)
			conn.Write(full[:len(full)/2])
			conn.Close()
		case "malformed":
			// a cleanly framed 200 whose body is not a complete document:
			// JSON cut at two thirds; an index without its terminator
			rec := httptest.NewRecorder()
			h.ServeHTTP(rec, r)
			full := rec.Body.Bytes()
			var body []byte
			if typ == "index" {
				body = bytes.TrimSuffix(full, []byte("\n"))
				body = bytes.TrimSuffix(body, []byte("\n")) // "...last-line" (no newline at all) or ""
				if len(body) > 0 {
					body = append(body, '\n') // every line complete, blank line missing
				}
			} else {
				body = full[:len(full)*2/3]
			}
			for k, v := range rec.Header() {
				w.Header()[k] = v
			}
			w.Header().Set("Content-Length", strconv.Itoa(len(body)))
			w.WriteHeader(200)
			w.Write(body)
		case "empty-list":
			// a well-formed but empty list (used on the first page only)
			ioutil.ReadAll(r.Body)
			w.Header().Set("Content-Type", "application/json")
			w.Write([]byte(`{"kind":"arvados#collectionList","items":[],"items_available":0}`))
		default:
			panic("verif: unknown fault mode " + mode)
		}
	})
}

type c06StopCase struct {
	Stores      int        `json:"keepstores"`
	Mounts      []int      `json:"mounts_per_store"`
	PageSize    int        `json:"collection_page_size"`
	Collections [][]string `json:"collections"` // uuid, modified_at, manifest
	Index       []string   `json:"index"`       // "store/mount: body"
}

const c06OldMtime = int64(1400000000000000000) // 2014, far older than any signature TTL

func c06NewWorld(t *testing.T, rng *verifkit.Rand, moreColls int) (*c06World, c06StopCase) {
	w := &c06World{table: c06NewTable(), fc: &c06FaultCtl{occ: map[string]int{}, rd: c06NewRedirector()}}
	var c c06StopCase
	c.Stores = rng.Range(2, 3)
	c.PageSize = rng.Range(1, 3)

	// ---- blocks
	type blk struct {
		hash string
		size int
	}
	newBlk := func() blk { return blk{rng.Hex(32), rng.Range(1, 5000000)} }
	loc := func(b blk) string { return fmt.Sprintf("%s+%d", b.hash, b.size) }
	over := newBlk()    // wanted once, stored everywhere, old  ⇒ trash requests
	under := newBlk()   // wanted twice, stored once           ⇒ pull request
	garbage := newBlk() // unreferenced, old                   ⇒ trash request
	fresh := newBlk()   // unreferenced, new                   ⇒ nothing
	var fine []blk      // wanted once, stored once
	for i := rng.Range(2, 4); i > 0; i-- {
		fine = append(fine, newBlk())
	}

	// ---- keepstores
	newMtime := time.Now().UnixNano()
	idx := map[string]*bytes.Buffer{}
	var allMounts []string
	mountStore := map[string]int{}
	for s := 0; s < c.Stores; s++ {
		ks := &c06Keepstore{name: fmt.Sprintf("keep%d", s), uuid: fmt.Sprintf("zzzzz-bi6l4-%015d", s), index: map[string]string{}}
		nm := rng.Range(1, 2)
		c.Mounts = append(c.Mounts, nm)
		for m := 0; m < nm; m++ {
			mu := fmt.Sprintf("zzzzz-ivpuk-%d%014d", s, m)
			ks.mounts = append(ks.mounts, arvados.KeepMount{UUID: mu, DeviceID: fmt.Sprintf("dev-%d-%d", s, m), Replication: 1})
			idx[mu] = &bytes.Buffer{}
			allMounts = append(allMounts, mu)
			mountStore[mu] = s
		}
		w.stores = append(w.stores, ks)
	}
	mt := c06OldMtime
	put := func(mu string, b blk, mtime int64) {
		fmt.Fprintf(idx[mu], "%s %d\n", loc(b), mtime)
	}
	oldm := func() int64 { mt += int64(rng.Range(1, 1000000)); return mt }
	for _, ks := range w.stores { // "over": first mount of every server
		put(ks.mounts[0].UUID, over, oldm())
	}
	put(allMounts[rng.Intn(len(allMounts))], under, oldm())
	put(allMounts[rng.Intn(len(allMounts))], garbage, oldm())
	put(allMounts[rng.Intn(len(allMounts))], fresh, newMtime)
	for _, b := range fine {
		put(allMounts[rng.Intn(len(allMounts))], b, oldm())
	}
	for _, ks := range w.stores {
		for _, m := range ks.mounts {
			body := idx[m.UUID].String() + "\n"
			ks.index[m.UUID] = body
			c.Index = append(c.Index, fmt.Sprintf("%s/%s: %q", ks.name, m.UUID, body))
		}
	}

	// ---- collections: each key block is referenced by its own collection
	manifest := func(bs ...blk) string {
		var sb strings.Builder
		sb.WriteString(".")
		off := 0
		for _, b := range bs {
			sb.WriteString(" " + loc(b))
		}
		for i, b := range bs {
			fmt.Fprintf(&sb, " %d:%d:file%d", off, b.size, i)
			off += b.size
		}
		sb.WriteString("\n")
		return sb.String()
	}
	type cdef struct {
		man  string
		repl int
	}
	defs := []cdef{{manifest(over), 1}, {manifest(under), 2}}
	for _, b := range fine {
		defs = append(defs, cdef{manifest(b), 1})
	}
	for i := rng.Range(0, 2) + moreColls; i > 0; i-- { // extra collections re-referencing a "fine" block
		defs = append(defs, cdef{manifest(fine[rng.Intn(len(fine))]), 1})
	}
	perm := rng.Perm(len(defs))
	ts := time.Date(2021, 3, 4, 5, 6, 7, 0, time.UTC)
	for n, pi := range perm {
		if n == 0 || !rng.Chance(1, 2) { // about half of the collections share a timestamp with the previous one
			ts = ts.Add(time.Duration(rng.Range(1, 5000)) * time.Millisecond)
		}
		u := "zzzzz-4zz18-" + rng.String(15, c06Alnum)
		w.table.rows[u] = &c06Coll{UUID: u, Mod: ts, Manifest: defs[pi].man, Repl: defs[pi].repl}
		c.Collections = append(c.Collections, []string{u, c06Fmt(ts), defs[pi].man, strconv.Itoa(defs[pi].repl)})
	}

	// ---- servers
	for _, ks := range w.stores {
		ks := ks
		mux := http.NewServeMux()
		mux.HandleFunc("/mounts", func(rw http.ResponseWriter, r *http.Request) {
			rw.Header().Set("Content-Type", "application/json")
			json.NewEncoder(rw).Encode(ks.mounts)
		})
		mux.HandleFunc("/mounts/", func(rw http.ResponseWriter, r *http.Request) {
			parts := strings.Split(strings.Trim(r.URL.Path, "/"), "/")
			if len(parts) != 3 || parts[2] != "blocks" || r.Method != "GET" {
				http.Error(rw, "not found", 404)
				return
			}
			body, ok := ks.index[parts[1]]
			if !ok {
				http.Error(rw, "mount not found", 404)
				return
			}
			rw.Header().Set("Content-Type", "text/plain")
			rw.Write([]byte(body))
		})
		recvPut := func(rw http.ResponseWriter, r *http.Request) {
			if r.Method != "PUT" {
				http.Error(rw, "method", 405)
				return
			}
			body, _ := ioutil.ReadAll(r.Body)
			var list []json.RawMessage
			n := -1
			if err := json.Unmarshal(body, &list); err == nil {
				n = len(list)
			} else if len(bytes.TrimSpace(body)) > 0 {
				n = 1 // unparseable but not empty: count as carrying something
			}
			w.mu.Lock()
			w.puts = append(w.puts, c06Put{Server: ks.name, Path: r.URL.Path, Items: n, Body: string(body)})
			w.mu.Unlock()
			fmt.Fprintf(rw, "Received %d requests\n", n)
		}
		mux.HandleFunc("/trash", recvPut)
		mux.HandleFunc("/pull", recvPut)
		ks.srv = httptest.NewServer(w.fc.wrap(ks.name, mux))
		addr := ks.srv.Listener.Addr().(*net.TCPAddr)
		ks.host, ks.port = addr.IP.String(), addr.Port
	}
	amux := http.NewServeMux()
	amux.Handle("/arvados/v1/collections", w.table)
	amux.HandleFunc("/arvados/v1/users/current", func(rw http.ResponseWriter, r *http.Request) {
		rw.Header().Set("Content-Type", "application/json")
		rw.Write([]byte(`{"uuid":"zzzzz-tpzed-000000000000000","is_admin":true,"is_active":true}`))
	})
	amux.HandleFunc("/discovery/v1/apis/arvados/v1/rest", func(rw http.ResponseWriter, r *http.Request) {
		rw.Header().Set("Content-Type", "application/json")
		rw.Write([]byte(`{"defaultCollectionReplication":2,"blobSignatureTtl":1209600}`))
	})
	amux.HandleFunc("/arvados/v1/keep_services", func(rw http.ResponseWriter, r *http.Request) {
		r.ParseForm()
		off, _ := strconv.Atoi(r.Form.Get("offset"))
		var items []arvados.KeepService
		for _, ks := range w.stores {
			items = append(items, arvados.KeepService{UUID: ks.uuid, ServiceHost: ks.host, ServicePort: ks.port, ServiceType: "disk"})
		}
		// a gateway/proxy-less cluster; pages of at most 2 services
		total := len(items)
		if off > total {
			off = total
		}
		items = items[off:]
		if len(items) > 2 {
			items = items[:2]
		}
		rw.Header().Set("Content-Type", "application/json")
		json.NewEncoder(rw).Encode(arvados.KeepServiceList{Items: items, ItemsAvailable: total, Offset: off, Limit: 2})
	})
	w.api = httptest.NewServer(w.fc.wrap("api", amux))
	return w, c
}

func (w *c06World) Close() {
	w.fc.rd.Close()
	w.api.Close()
	for _, ks := range w.stores {
		ks.srv.Close()
	}
}

type c06SweepResult struct {
	err          error
	nonEmpty     []c06Put
	emptyTrash   int
	nonEmptyPull int
	nonEmptyTr   int
	fired        int
	stale        int
	pages        int // collection pages served by the table during this sweep
	reached      int // requests that reached the target of the redirect answer
	keys         []c06ReqKey
	timedOut     bool
}

// sweep performs one real Balancer.Run against the world.
func (w *c06World) sweep(pageSize int, record bool, target, mode string, delays *c06Delays) c06SweepResult {
	token := w.fc.reset(record, target, mode)
	w.fc.mu.Lock()
	w.fc.delays = delays
	w.fc.status = w.status
	w.fc.mu.Unlock()
	clientKind := w.clientKind
	w.status, w.clientKind = 0, ""
	w.mu.Lock()
	w.puts = nil
	w.mu.Unlock()
	w.table.mu.Lock()
	w.table.stats = c06ListStats{ByForm: map[string]int{}, ByMode: map[string]int{}}
	w.table.mu.Unlock()

	httpc := &http.Client{Transport: &http.Transport{DisableKeepAlives: true, DisableCompression: true}}
	client := &arvados.Client{
		Client:    httpc,
		Scheme:    "http",
		APIHost:   strings.TrimPrefix(w.api.URL, "http://"),
		AuthToken: token,
		Timeout:   5 * time.Minute,
	}
	cluster := &arvados.Cluster{}
	if clientKind != "" {
		client, cluster = c06ProductClient(w.api.URL, token, clientKind == "default-insecure")
	}
	cluster.Collections.BalanceCollectionBatch = pageSize
	cluster.Collections.BalanceCollectionBuffers = 4
	if delays != nil {
		cluster.Collections.BalanceCollectionBuffers = 8
	}
	cluster.Collections.BalanceTimeout = arvados.Duration(3 * time.Minute)
	var logger logrus.FieldLogger = c06Logger()
	if delays != nil {
		ll := c06Logger()
		ll.Level = logrus.DebugLevel
		logger = &c06SlowLogger{Logger: ll, d: delays}
	}
	bal := &Balancer{Logger: logger, Metrics: newMetrics(prometheus.NewRegistry())}
	var res c06SweepResult
	done := make(chan struct{})
	go func() {
		defer close(done)
		_, res.err = bal.Run(client, cluster, RunOptions{CommitPulls: true, CommitTrash: true, Logger: logger})
	}()
	select {
	case <-done:
	case <-time.After(4 * time.Minute):
		res.timedOut = true
		return res
	}
	w.mu.Lock()
	for _, p := range w.puts {
		switch {
		case p.Items == 0 || p.Items == -1:
			if p.Path == "/trash" {
				res.emptyTrash++
			}
		default:
			res.nonEmpty = append(res.nonEmpty, p)
			if p.Path == "/trash" {
				res.nonEmptyTr++
			} else {
				res.nonEmptyPull++
			}
		}
	}
	w.mu.Unlock()
	w.fc.mu.Lock()
	res.fired = w.fc.fired
	if strings.HasPrefix(mode, c06RedirModePrefix) {
		res.reached = w.fc.rd.reached(strings.TrimPrefix(mode, c06RedirModePrefix))
	}
	res.stale = w.fc.stale
	w.fc.stale = 0
	res.keys = append(res.keys, w.fc.keys...)
	w.fc.mu.Unlock()
	w.table.mu.Lock()
	res.pages = w.table.stats.Pages
	w.table.mu.Unlock()
	return res
}

func c06KeySet(keys []c06ReqKey) string {
	var ids []string
	for _, k := range keys {
		ids = append(ids, k.ID)
	}
	sort.Strings(ids)
	return strings.Join(ids, "\n")
}

func c06RunFailStop(t *testing.T, run *verifkit.Run) {
	n := run.N(5, 80)
	run.Cases("failstop", n, func(i int, rng *verifkit.Rand) {
		w, c := c06NewWorld(t, rng, 0)
		defer w.Close()
		run.Input(c, false)

		// ---- fault-free sweeps: number the requests, make sure the scenario
		// really commits something, and that the numbering is reproducible
		base := w.sweep(c.PageSize, true, "", "", nil)
		again := w.sweep(c.PageSize, true, "", "", nil)
		run.Eval(1)
		switch {
		case base.timedOut || again.timedOut:
			run.Inconclusive("C06(c): fault-free Balancer.Run did not finish within 4 minutes")
			return
		case base.err != nil:
			run.Inconclusive(fmt.Sprintf("C06(c): fault-free Balancer.Run failed: %v (case %+v)", base.err, c))
			return
		case base.nonEmptyTr == 0 || base.nonEmptyPull == 0:
			run.Inconclusive(fmt.Sprintf("C06(c): fault-free sweep sent %d non-empty trash lists and %d non-empty pull lists; the scenario cannot show a premature commit", base.nonEmptyTr, base.nonEmptyPull))
			return
		case c06KeySet(base.keys) != c06KeySet(again.keys):
			run.Inconclusive("C06(c): two fault-free sweeps issued different request sets; requests cannot be numbered")
			return
		}
		M := len(base.keys)
		run.Count("c_scenarios", 1)
		run.Count("c_requests_numbered_M_total", M)
		run.CountMax("max_c_requests_numbered_M", M)
		run.Count("c_baseline_nonempty_trash_lists", base.nonEmptyTr)
		run.Count("c_baseline_nonempty_pull_lists", base.nonEmptyPull)
		run.Count("c_baseline_empty_trash_lists", base.emptyTrash)
		byType := map[string]int{}
		firstPage := ""
		for _, k := range base.keys {
			byType[k.Type]++
			if firstPage == "" && k.Type == "collections-page" && !strings.Contains(k.ID, "filters=") {
				firstPage = k.ID
			}
		}
		for ty, k := range byType {
			run.Count("c_baseline_requests_"+ty, k)
		}
		if i < 2 {
			var ids []string
			for _, k := range base.keys {
				ids = append(ids, k.Type+": "+k.ID)
			}
			run.Sample(map[string]interface{}{"part": "c", "case": c, "requests": ids})
		}

		type plan struct {
			key    c06ReqKey
			mode   string
			status int
			client string
		}
		var plans []plan
		for _, k := range base.keys {
			for _, m := range c06Modes {
				plans = append(plans, plan{key: k, mode: m})
			}
			// redirect answers: every target for the judged request types (status
			// and default http client drawn per plan), one drawn target otherwise
			targets := c06RedirTargets
			if !c06Judged(k.Type) {
				targets = []string{c06RedirTargets[rng.Intn(len(c06RedirTargets))]}
			}
			for _, tg := range targets {
				plans = append(plans, plan{key: k, mode: c06RedirModePrefix + tg,
					status: c06RedirStatuses[rng.Intn(len(c06RedirStatuses))],
					client: rng.PickStr("default-secure", "default-insecure")})
			}
		}
		if firstPage != "" {
			plans = append(plans, plan{key: c06ReqKey{ID: firstPage, Type: "collections-page"}, mode: "empty-list"})
		} else {
			run.Inconclusive("C06(c): no first collections page request found in the fault-free sweep")
		}
		for _, p := range plans {
			isRedir := strings.HasPrefix(p.mode, c06RedirModePrefix)
			w.status, w.clientKind = p.status, p.client
			res := w.sweep(c.PageSize, false, p.key.ID, p.mode, nil)
			if res.timedOut {
				run.Inconclusive(fmt.Sprintf("C06(c): Balancer.Run did not finish within 4 minutes with %s on %s", p.mode, p.key.ID))
				return
			}
			if res.fired == 0 {
				run.Count("c_faults_not_reached", 1)
				run.Inconclusive(fmt.Sprintf("C06(c): the sweep never issued request %q, fault %s not injected", p.key.ID, p.mode))
				continue
			}
			run.Count("c_faults_injected", 1)
			run.Count("c_stale_requests_of_earlier_sweeps_ignored", res.stale)
			run.Count("c_faults_"+p.mode, 1)
			run.Count("c_faults_on_"+p.key.Type, 1)
			outcome := "run-error"
			if res.err == nil {
				outcome = "run-ok"
			}
			commit := "no-commit"
			if len(res.nonEmpty) > 0 {
				commit = "commit"
			}
			detail := func() string {
				var sb strings.Builder
				for _, pt := range res.nonEmpty {
					fmt.Fprintf(&sb, "\n  %s PUT %s (%d items): %s", pt.Server, pt.Path, pt.Items, strings.TrimSpace(pt.Body))
				}
				return sb.String()
			}
			wit := map[string]interface{}{"case": c, "failed_request": p.key.ID, "request_type": p.key.Type, "mode": p.mode}
			modeS := p.mode
			if isRedir {
				follow := "not-followed"
				if res.reached > 0 {
					follow = "followed"
				}
				modeS = fmt.Sprintf("HTTP %d %s, %s: %d requests reached the target; http client %s", p.status, p.mode, follow, res.reached, p.client)
				wit["redirect_status"], wit["http_client"], wit["requests_that_reached_the_target"] = p.status, p.client, res.reached
				run.Count("c_redirects_answered", 1)
				run.Count(fmt.Sprintf("c_redirect_status_%d", p.status), 1)
				run.Count("c_"+p.mode+"_"+follow, 1)
				run.Count("c_client_"+p.client, 1)
				if c06Judged(p.key.Type) && p.mode == c06RedirModePrefix+"empty-answer-target" && res.reached > 0 {
					// the client followed the redirect and the endpoint handed it a
					// well-formed, empty 200 answer although rows exist: a lying
					// server is excluded by the assumptions; recorded, not judged
					run.Count("c_not_judged_followed_to_wellformed_empty_answer", 1)
					run.Feature(fmt.Sprintf("c:%s:%s:%d:%s:%s:%s:not-judged", p.key.Type, p.mode, p.status, follow, outcome, commit))
					continue
				}
			}
			if !c06Judged(p.key.Type) {
				// recorded, not judged
				run.Count("c_unjudged_"+p.key.Type+"_"+outcome+"_"+commit, 1)
				run.Feature(fmt.Sprintf("c:%s:%s:%s:%s", p.key.Type, p.mode, outcome, commit))
				continue
			}
			run.Eval(2)
			run.Count("c_judged_faults", 1)
			if p.mode == "empty-list" {
				if len(res.nonEmpty) > 0 {
					run.Violation("C06:c:commit-after-empty-first-collections-page",
						fmt.Sprintf("the first collections page came back as an empty list although %d collections exist (initial count said so); Balancer.Run (err=%v) still sent non-empty lists:%s", len(c.Collections), res.err, detail()), wit)
				}
				if res.err == nil {
					run.Violation("C06:c:run-succeeds-after-empty-first-collections-page",
						fmt.Sprintf("the first collections page came back as an empty list although %d collections exist; Balancer.Run returned nil", len(c.Collections)), wit)
				}
			} else {
				if len(res.nonEmpty) > 0 {
					run.Violation("C06:c:commit-after-failed-"+p.key.Type+":"+p.mode,
						fmt.Sprintf("request %q failed (%s) but Balancer.Run (err=%v) still sent non-empty lists:%s", p.key.ID, modeS, res.err, detail()), wit)
				}
				if res.err == nil {
					run.Violation("C06:c:run-succeeds-after-failed-"+p.key.Type+":"+p.mode,
						fmt.Sprintf("request %q failed (%s) but Balancer.Run returned nil", p.key.ID, modeS), wit)
				}
			}
			if isRedir {
				run.Feature(fmt.Sprintf("c:%s:%s:%d:followed=%v:%s:%s", p.key.Type, p.mode, p.status, res.reached > 0, outcome, commit))
				continue
			}
			run.Feature(fmt.Sprintf("c:%s:%s:%s:%s", p.key.Type, p.mode, outcome, commit))
		}
	})
}

// c06RunFailStopDelays repeats the index-fault part of the fail-stop sweep
// under injected delays: a sometimes-slow log sink (slower for entries that
// report a problem), slow collection pages, a keepstore that takes a while to
// fail, and a long collection scan, so that the index request fails while the
// collection worker has collections queued. The oracle is the one of (c).
func c06RunFailStopDelays(t *testing.T, run *verifkit.Run) {
	n := run.N(2, 24)
	reps := run.N(3, 6)
	run.Cases("failstop-delay", n, func(i int, rng *verifkit.Rand) {
		w, c := c06NewWorld(t, rng, rng.Range(25, 45))
		defer w.Close()
		c.PageSize = rng.Range(3, 6)
		run.Input(c, false)
		base := w.sweep(c.PageSize, true, "", "", nil)
		run.Eval(1)
		switch {
		case base.timedOut:
			run.Inconclusive("C06(c/delay): fault-free Balancer.Run did not finish within 4 minutes")
			return
		case base.err != nil:
			run.Inconclusive(fmt.Sprintf("C06(c/delay): fault-free Balancer.Run failed: %v", base.err))
			return
		case base.nonEmptyTr == 0 || base.nonEmptyPull == 0:
			run.Inconclusive("C06(c/delay): fault-free sweep commits nothing; the scenario cannot show a premature commit")
			return
		}
		run.Count("cd_scenarios", 1)
		run.Count("cd_collections", len(c.Collections))
		delays := &c06Delays{rng: rng.Fork(), n: map[string]int{}, ms: map[string]int{}}
		// a fault-free sweep under delays must still succeed and commit
		slow := w.sweep(c.PageSize, false, "", "", delays)
		run.Eval(1)
		if slow.timedOut || slow.err != nil || slow.nonEmptyTr == 0 || slow.nonEmptyPull == 0 {
			run.Inconclusive(fmt.Sprintf("C06(c/delay): fault-free sweep under delays: timedOut=%v err=%v trash=%d pull=%d", slow.timedOut, slow.err, slow.nonEmptyTr, slow.nonEmptyPull))
			return
		}
		for _, k := range base.keys {
			if k.Type != "index" {
				continue
			}
			for _, mode := range c06Modes {
				for rep := 0; rep < reps; rep++ {
					res := w.sweep(c.PageSize, false, k.ID, mode, delays)
					if res.timedOut {
						run.Inconclusive(fmt.Sprintf("C06(c/delay): Balancer.Run did not finish within 4 minutes with %s on %s", mode, k.ID))
						return
					}
					if res.fired == 0 {
						run.Inconclusive(fmt.Sprintf("C06(c/delay): the sweep never issued request %q", k.ID))
						continue
					}
					run.Eval(2)
					run.Count("cd_index_faults_injected_under_delays", 1)
					run.Count("cd_faults_"+mode, 1)
					run.Count("cd_collection_pages_served_before_run_ended", res.pages)
					if res.pages >= 2 {
						run.Count("cd_faults_with_collection_scan_under_way", 1)
					}
					wit := map[string]interface{}{"case": c, "failed_request": k.ID, "request_type": "index", "mode": mode, "delays": "log sink / collection pages / failing keepstore (PRNG)"}
					if len(res.nonEmpty) > 0 {
						var sb strings.Builder
						for _, pt := range res.nonEmpty {
							fmt.Fprintf(&sb, "\n  %s PUT %s (%d items): %s", pt.Server, pt.Path, pt.Items, strings.TrimSpace(pt.Body))
						}
						run.Violation("C06:c:commit-after-failed-index:"+mode+":under-delays",
							fmt.Sprintf("request %q failed (%s) while the collection scan was under way (slow log sink, slow pages); Balancer.Run (err=%v) still sent non-empty lists:%s", k.ID, mode, res.err, sb.String()), wit)
					}
					if res.err == nil {
						run.Violation("C06:c:run-succeeds-after-failed-index:"+mode+":under-delays",
							fmt.Sprintf("request %q failed (%s) while the collection scan was under way (slow log sink, slow pages) but Balancer.Run returned nil", k.ID, mode), wit)
					}
					outcome := "run-error"
					if res.err == nil {
						outcome = "run-ok"
					}
					run.Feature(fmt.Sprintf("cd:index:%s:%s:pages>=2=%v", mode, outcome, res.pages >= 2))
				}
			}
		}
		delays.mu.Lock()
		for k, v := range delays.n {
			run.Count("cd_delays_"+k, v)
			run.Count("cd_delay_ms_"+k, delays.ms[k])
		}
		delays.mu.Unlock()
	})
}

func TestVerifC06(t *testing.T) {
	run := verifkit.Start(t, "C06")
	defer run.Finish()
	c06RunPaging(t, run)
	c06RunFailStop(t, run)
	c06RunFailStopDelays(t, run)
}
