//go:build verif

package main

// C05, streams "colls" and "sweep": the same clauses B1-B6 (c05_test.go),
// judged per block by the same physical-device model, but the desired
// replication and the replicas reach balanceBlock the way they do in
// production instead of through IncreaseDesired/AddReplicas calls made by the
// harness:
//
//	colls   several blocks, several collections (some of them copies / old
//	        versions: identical content, so identical portable data hash, with
//	        the same or other storage classes and replication) are fed to the
//	        real Balancer.addCollection, whole mount indexes to AddReplicas, in
//	        an arbitrary interleaving; the real ComputeChangeSets (worker pool)
//	        computes the lists.
//	sweep   a stub API server (collections table of c06_test.go, keep_services,
//	        discovery document) and one stub keepstore per service serve the
//	        case; the real Balancer.Run (commit pulls + trash) runs against
//	        them; the lists judged are the bodies of the last PUT /trash and
//	        PUT /pull each keepstore received. Replica timestamps are hours
//	        away from (start of the case - signature TTL), so no verdict
//	        depends on how long anything takes. Besides B1-B6 the stream
//	        checks the order of two events of one sweep: the cutoff used for
//	        "older than the signature TTL" (Balancer.MinMtime) must have been
//	        fixed before any part of the state (a mount index, a page of
//	        collections) was requested: MinMtime + TTL <= arrival of the first
//	        such request at a stub server. (A replica is only known to be
//	        unreferenced as of the moment the state was read; what was younger
//	        than the TTL then may be referenced by a collection the sweep has
//	        not seen.)
//
// A B3/B4 failure of these streams is labelled like this: if driving
// balanceBlock directly on the block's projection (c05Run) fails the same
// clause, the signatures of that run are used; otherwise the cause lies between
// the collections and the block state and is named by the necessary input
// feature. Labels never change a verdict.

import (
	"bytes"
	"encoding/json"
	"fmt"
	"io/ioutil"
	"net"
	"net/http"
	"net/http/httptest"
	"os"
	"path/filepath"
	"sort"
	"strconv"
	"strings"
	"sync"
	"testing"
	"time"

	"git.arvados.org/arvados.git/internal/verifkit"
	"git.arvados.org/arvados.git/sdk/go/arvados"
	"github.com/prometheus/client_golang/prometheus"
)

type c05MColl struct {
	UUID   string   `json:"uuid"`
	Blks   []int    `json:"blocks"`
	Cls    []string `json:"cls,omitempty"` // empty = no storage_classes_desired (default)
	Repl   int      `json:"repl"`          // -1 = null (cluster default)
	SameAs int      `json:"same_content_as"`
	Old    bool     `json:"old_version,omitempty"`
	Salt   string   `json:"salt,omitempty"` // part of the file name in the manifest (labelling only)
}

type c05Multi struct {
	Kind     string     `json:"kind"`
	Blocks   []*c05Case `json:"blocks"` // one layout, one entry per block; Colls = projection of Colls below
	Colls    []c05MColl `json:"collections"`
	DefRepl  int        `json:"default_replication"`
	PageSize int        `json:"collection_page_size,omitempty"`
	Shuf     uint64     `json:"shuffle_seed"`
}

func (mc *c05Multi) manifest(k int) string {
	cl := &mc.Colls[k]
	var sb strings.Builder
	sb.WriteString(".")
	for _, b := range cl.Blks {
		sb.WriteString(" " + mc.Blocks[b].Blk + "+64")
	}
	fmt.Fprintf(&sb, " 0:%d:f%s\n", 64*len(cl.Blks), cl.Salt)
	return sb.String()
}

func c05PDH(manifest string) string {
	return fmt.Sprintf("%s+%d", verifkit.MD5Hex([]byte(manifest)), len(manifest))
}

// project fills in the per-block collections.
func (mc *c05Multi) project() {
	for b, bc := range mc.Blocks {
		bc.Colls = nil
		for _, cl := range mc.Colls {
			for _, x := range cl.Blks {
				if x == b {
					r := cl.Repl
					if r < 0 {
						r = mc.DefRepl
					}
					bc.Colls = append(bc.Colls, c05Coll{Cls: append([]string(nil), cl.Cls...), Repl: r})
					break
				}
			}
		}
	}
}

func (mc *c05Multi) clone() *c05Multi {
	n := &c05Multi{Kind: mc.Kind, DefRepl: mc.DefRepl, PageSize: mc.PageSize, Shuf: mc.Shuf}
	for _, b := range mc.Blocks {
		n.Blocks = append(n.Blocks, b.clone())
	}
	for _, cl := range mc.Colls {
		c := cl
		c.Blks = append([]int(nil), cl.Blks...)
		c.Cls = append([]string(nil), cl.Cls...)
		n.Colls = append(n.Colls, c)
	}
	return n
}

// c05GenMulti draws a layout (general mix of c05Sample, at most maxSvcs
// services), 2-6 blocks on it and 1-5 collections plus 0-3 copies / old
// versions of some of them. farMtimes: only timestamps hours away from the
// cutoff.
func c05GenMulti(rng *verifkit.Rand, kind string, maxSvcs int, farMtimes bool) *c05Multi {
	base := c05Sample(rng)
	if len(base.Svcs) > maxSvcs {
		base.Svcs = base.Svcs[:maxSvcs]
	}
	mc := &c05Multi{Kind: kind, DefRepl: rng.PickInt(1, 2, 2, 3)}
	nb := rng.Range(2, 6)
	flat := 0
	for b := 0; b < nb; b++ {
		bc := base.clone()
		bc.Kind = kind
		bc.Blk = rng.Hex(32)
		bc.Colls = nil
		hasNum := rng.PickInt(1, 2, 4, 6)
		for si := range bc.Svcs {
			for mi := range bc.Svcs[si].Mounts {
				m := &bc.Svcs[si].Mounts[mi]
				m.Has = rng.Chance(hasNum, 8)
				m.Off = 0
				if m.Has {
					k := 0
					switch r := rng.Intn(20); {
					case r < 10:
						k = 0
					case r < 14:
						k = 1
					case r < 15:
						k = 2
					case r < 16:
						k = 3
					case r < 19:
						k = 4
					default:
						k = 5
					}
					if farMtimes && (k == 2 || k == 3) {
						k = 0
					}
					m.Off = c05MtimeOff(k, flat)
				}
				flat++
			}
		}
		bc.normalize()
		mc.Blocks = append(mc.Blocks, bc)
	}
	drawCls := func() []string {
		switch r := rng.Intn(20); {
		case r < 5:
			return nil
		case r < 8:
			return []string{"default"}
		case r < 12:
			return []string{"a"}
		case r < 15:
			return []string{"b"}
		case r < 17:
			return []string{"a", "b"}
		case r < 18:
			return []string{"a", "default"}
		case r < 19:
			return []string{"c"}
		default:
			return []string{"z"}
		}
	}
	drawRepl := func() int {
		switch r := rng.Intn(20); {
		case r < 3:
			return -1
		case r < 8:
			return 1
		case r < 15:
			return 2
		case r < 19:
			return 3
		default:
			return 4
		}
	}
	uuid := func() string { return "zzzzz-4zz18-" + rng.String(15, "0123456789abcdefghijklmnopqrstuvwxyz") }
	for k := rng.Range(1, 5); k > 0; k-- {
		cl := c05MColl{UUID: uuid(), Cls: drawCls(), Repl: drawRepl(), SameAs: -1}
		perm := rng.Perm(nb)
		n := rng.Range(1, 3)
		if n > nb {
			n = nb
		}
		cl.Blks = append(cl.Blks, perm[:n]...)
		mc.Colls = append(mc.Colls, cl)
	}
	// copies and old versions: same content, so same portable data hash
	for k := rng.Range(0, 3); k > 0; k-- {
		j := rng.Intn(len(mc.Colls))
		root := j
		if mc.Colls[j].SameAs >= 0 {
			root = mc.Colls[j].SameAs
		}
		cl := c05MColl{UUID: uuid(), Blks: append([]int(nil), mc.Colls[root].Blks...), SameAs: root, Old: rng.Chance(1, 2)}
		if rng.Chance(1, 3) {
			cl.Cls = append([]string(nil), mc.Colls[root].Cls...)
		} else {
			cl.Cls = drawCls()
		}
		switch rng.Intn(4) {
		case 0:
			cl.Repl = mc.Colls[root].Repl
		case 1:
			cl.Repl = mc.Colls[root].Repl - 1
			if cl.Repl < 1 {
				cl.Repl = 1
			}
		default:
			cl.Repl = drawRepl()
		}
		mc.Colls = append(mc.Colls, cl)
	}
	mc.PageSize = rng.Range(1, 3)
	mc.project()
	return mc
}

// sameContentFacts: does the case contain collections with identical content,
// and do some of them differ in storage classes / replication?
func (mc *c05Multi) sameContentFacts() (same, diffCls, diffRepl bool) {
	for k, cl := range mc.Colls {
		if cl.SameAs < 0 {
			continue
		}
		same = true
		for j, o := range mc.Colls[:k] {
			if j != cl.SameAs && o.SameAs != cl.SameAs {
				continue
			}
			if strings.Join(o.Cls, ",") != strings.Join(cl.Cls, ",") {
				diffCls = true
			}
			if o.Repl != cl.Repl {
				diffRepl = true
			}
		}
	}
	return
}

var c05Metrics = newMetrics(prometheus.NewRegistry())

// c05NewBalancer builds Balancer.KeepServices from a layout, like c05Run.
func c05NewBalancer(svcs []c05Svc) (*Balancer, []*KeepService) {
	bal := &Balancer{
		Logger:        c05Logger,
		Metrics:       c05Metrics,
		KeepServices:  map[string]*KeepService{},
		MinMtime:      c05MinMtime,
		BlockStateMap: NewBlockStateMap(),
	}
	var srvs []*KeepService
	for _, s := range svcs {
		srv := &KeepService{
			KeepService: arvados.KeepService{
				UUID:        c05SvcUUID(s.ID),
				ServiceHost: c05SvcHost(s.ID),
				ServicePort: 25107,
				ServiceType: "disk",
				ReadOnly:    s.RO,
			},
			ChangeSet: &ChangeSet{},
		}
		for _, m := range s.Mounts {
			km := &KeepMount{KeepMount: c05APIMount(&m), KeepService: srv}
			srv.mounts = append(srv.mounts, km)
		}
		srvs = append(srvs, srv)
		bal.KeepServices[srv.UUID] = srv
	}
	return bal, srvs
}

func c05APIMount(m *c05Mount) arvados.KeepMount {
	km := arvados.KeepMount{UUID: m.UUID, DeviceID: m.Dev, ReadOnly: m.RO, Replication: m.Repl}
	if len(m.Cls) > 0 {
		km.StorageClasses = map[string]bool{}
		for _, cl := range m.Cls {
			km.StorageClasses[cl] = true
		}
	}
	return km
}

// c05SplitLists distributes the marshalled trash/pull lists of the services
// over the blocks. urlOf maps the source URLs found in pull requests to
// c05SvcURL(id) (nil = identity); mtimeShift is added to every block_mtime.
func c05SplitLists(mc *c05Multi, trashJSON, pullJSON map[int][]byte, urlOf map[string]string, mtimeShift int64) ([]*c05Obs, []string) {
	obs := make([]*c05Obs, len(mc.Blocks))
	byHash := map[string]int{}
	for b, bc := range mc.Blocks {
		obs[b] = &c05Obs{}
		byHash[bc.Blk] = b
	}
	var stray []string
	for id, body := range trashJSON {
		var l []c05TrashObs
		if err := json.Unmarshal(body, &l); err != nil {
			for _, o := range obs {
				o.Err = fmt.Sprintf("trash list of service %d: %v", id, err)
			}
			continue
		}
		for _, t := range l {
			t.Svc = id
			t.Mtime += mtimeShift
			if b, ok := byHash[t.Locator]; ok {
				obs[b].Trashes = append(obs[b].Trashes, t)
			} else {
				stray = append(stray, fmt.Sprintf("trash request for %q sent to service %d", t.Locator, id))
			}
		}
	}
	for id, body := range pullJSON {
		var l []c05PullObs
		if err := json.Unmarshal(body, &l); err != nil {
			for _, o := range obs {
				o.Err = fmt.Sprintf("pull list of service %d: %v", id, err)
			}
			continue
		}
		for _, p := range l {
			p.Svc = id
			for i, u := range p.Servers {
				if v, ok := urlOf[u]; ok {
					p.Servers[i] = v
				}
			}
			if b, ok := byHash[p.Locator]; ok {
				obs[b].Pulls = append(obs[b].Pulls, p)
			} else {
				stray = append(stray, fmt.Sprintf("pull request for %q sent to service %d", p.Locator, id))
			}
		}
	}
	for _, o := range obs {
		sort.Slice(o.Trashes, func(i, j int) bool { return o.Trashes[i].Mount < o.Trashes[j].Mount })
		sort.Slice(o.Pulls, func(i, j int) bool { return o.Pulls[i].Mount < o.Pulls[j].Mount })
	}
	return obs, stray
}

func c05LostSet(text string) map[string]bool {
	lost := map[string]bool{}
	for _, line := range strings.Split(text, "\n") {
		if f := strings.Fields(line); len(f) > 0 {
			lost[f[0]] = true
		}
	}
	return lost
}

// c05RunColls drives the real addCollection / AddReplicas / ComputeChangeSets
// on a multi-block case.
func c05RunColls(mc *c05Multi) ([]*c05Obs, []string) {
	layout := mc.Blocks[0]
	bal, srvs := c05NewBalancer(layout.Svcs)
	bal.DefaultReplication = mc.DefRepl
	var lostBuf bytes.Buffer
	bal.lostBlocks = &lostBuf
	bal.cleanupMounts()

	type pos struct{ s, m int }
	where := map[string]pos{}
	for si := range layout.Svcs {
		for mi := range layout.Svcs[si].Mounts {
			where[layout.Svcs[si].Mounts[mi].UUID] = pos{si, mi}
		}
	}
	var surviving []string
	var mounts []*KeepMount
	for _, srv := range srvs {
		for _, km := range srv.mounts {
			surviving = append(surviving, km.UUID)
			mounts = append(mounts, km)
		}
	}
	rng := verifkit.NewRand(mc.Shuf)
	// events: one index per mount, one addCollection per collection
	nev := len(mounts) + len(mc.Colls)
	for _, e := range rng.Perm(nev) {
		if e < len(mounts) {
			km := mounts[e]
			p := where[km.UUID]
			var idx []arvados.KeepServiceIndexEntry
			for _, b := range rng.Perm(len(mc.Blocks)) {
				m := &mc.Blocks[b].Svcs[p.s].Mounts[p.m]
				if m.Has {
					idx = append(idx, arvados.KeepServiceIndexEntry{SizedDigest: arvados.SizedDigest(mc.Blocks[b].Blk + "+64"), Mtime: c05MinMtime + m.Off})
				}
			}
			bal.BlockStateMap.AddReplicas(km, idx)
			continue
		}
		k := e - len(mounts)
		cl := &mc.Colls[k]
		man := mc.manifest(k)
		coll := arvados.Collection{
			UUID:                  cl.UUID,
			PortableDataHash:      c05PDH(man),
			UnsignedManifestText:  man,
			StorageClassesDesired: append([]string(nil), cl.Cls...),
		}
		if cl.Repl >= 0 {
			r := cl.Repl
			coll.ReplicationDesired = &r
		}
		if err := bal.addCollection(coll); err != nil {
			return nil, []string{"addCollection: " + err.Error()}
		}
	}
	bal.ComputeChangeSets()

	trashJSON, pullJSON := map[int][]byte{}, map[int][]byte{}
	for si, srv := range srvs {
		id := layout.Svcs[si].ID
		if len(srv.ChangeSet.Trashes) > 0 {
			b, err := json.Marshal(srv.ChangeSet.Trashes)
			if err != nil {
				b = []byte("marshal: " + err.Error())
			}
			trashJSON[id] = b
		}
		if len(srv.ChangeSet.Pulls) > 0 {
			b, err := json.Marshal(srv.ChangeSet.Pulls)
			if err != nil {
				b = []byte("marshal: " + err.Error())
			}
			pullJSON[id] = b
		}
	}
	obs, stray := c05SplitLists(mc, trashJSON, pullJSON, nil, 0)
	lost := c05LostSet(lostBuf.String())
	for b, o := range obs {
		o.Lost = lost[mc.Blocks[b].Blk]
		o.Surviving = surviving
	}
	return obs, stray
}

// ------------------------------------------------------------ stub world

const c05TTL = int64(1209600) // seconds, as announced by the stub discovery document

type c05World struct {
	mc      *c05Multi
	base    int64 // absolute timestamp standing for c05MinMtime: start of the case - TTL
	api     *httptest.Server
	table   *c06Table
	servers []*httptest.Server
	urlOf   map[string]string // real URL base -> c05SvcURL(id)

	mu             sync.Mutex
	firstState     time.Time // arrival of the first index / collections-page request
	firstStateWhat string
	stateReqs      int
	selects        map[string]int // select lists seen on collection page requests
	trash, pull    map[int][]byte // last PUT body per service id
	puts           int
	unexpected     []string
}

func (w *c05World) noteState(what string) {
	now := time.Now()
	w.mu.Lock()
	if w.stateReqs == 0 {
		w.firstState, w.firstStateWhat = now, what
	}
	w.stateReqs++
	w.mu.Unlock()
}

func c05NewWorld(mc *c05Multi, rng *verifkit.Rand) *c05World {
	w := &c05World{mc: mc, table: c06NewTable(), urlOf: map[string]string{}, selects: map[string]int{}, trash: map[int][]byte{}, pull: map[int][]byte{}}
	w.base = time.Now().UnixNano() - c05TTL*1e9
	layout := mc.Blocks[0]

	// ---- keepstores
	type ksInfo struct {
		host string
		port int
	}
	infos := make([]ksInfo, len(layout.Svcs))
	for si := range layout.Svcs {
		si := si
		id := layout.Svcs[si].ID
		var mounts []arvados.KeepMount
		for mi := range layout.Svcs[si].Mounts {
			mounts = append(mounts, c05APIMount(&layout.Svcs[si].Mounts[mi]))
		}
		mux := http.NewServeMux()
		mux.HandleFunc("/mounts", func(rw http.ResponseWriter, r *http.Request) {
			rw.Header().Set("Content-Type", "application/json")
			json.NewEncoder(rw).Encode(mounts)
		})
		mux.HandleFunc("/mounts/", func(rw http.ResponseWriter, r *http.Request) {
			parts := strings.Split(strings.Trim(r.URL.Path, "/"), "/")
			mi := -1
			if len(parts) == 3 && parts[2] == "blocks" && r.Method == "GET" {
				for k := range layout.Svcs[si].Mounts {
					if layout.Svcs[si].Mounts[k].UUID == parts[1] {
						mi = k
					}
				}
			}
			if mi < 0 {
				http.Error(rw, "not found", 404)
				return
			}
			w.noteState("index of mount " + parts[1])
			var sb strings.Builder
			for _, bc := range mc.Blocks {
				if m := &bc.Svcs[si].Mounts[mi]; m.Has {
					fmt.Fprintf(&sb, "%s+64 %d\n", bc.Blk, w.base+m.Off)
				}
			}
			sb.WriteString("\n")
			rw.Header().Set("Content-Type", "text/plain")
			rw.Write([]byte(sb.String()))
		})
		recv := func(dst map[int][]byte) http.HandlerFunc {
			return func(rw http.ResponseWriter, r *http.Request) {
				body, _ := ioutil.ReadAll(r.Body)
				if r.Method != "PUT" {
					http.Error(rw, "method", 405)
					return
				}
				w.mu.Lock()
				dst[id] = body
				w.puts++
				w.mu.Unlock()
				fmt.Fprintf(rw, "Received\n")
			}
		}
		mux.HandleFunc("/trash", recv(w.trash))
		mux.HandleFunc("/pull", recv(w.pull))
		mux.HandleFunc("/", func(rw http.ResponseWriter, r *http.Request) {
			w.mu.Lock()
			w.unexpected = append(w.unexpected, fmt.Sprintf("keepstore %d: %s %s", id, r.Method, r.URL.Path))
			w.mu.Unlock()
			http.Error(rw, "not found", 404)
		})
		srv := httptest.NewServer(mux)
		w.servers = append(w.servers, srv)
		addr := srv.Listener.Addr().(*net.TCPAddr)
		infos[si] = ksInfo{addr.IP.String(), addr.Port}
		w.urlOf[fmt.Sprintf("http://%s:%d", addr.IP.String(), addr.Port)] = c05SvcURL(id)
	}

	// ---- collections
	ts := time.Date(2021, 3, 4, 5, 6, 7, 0, time.UTC)
	classes := map[string][]string{}
	for _, k := range rng.Perm(len(mc.Colls)) {
		cl := &mc.Colls[k]
		if !rng.Chance(1, 3) { // a third of the collections share a timestamp with the previous one
			ts = ts.Add(time.Duration(rng.Range(1, 5000)) * time.Millisecond)
		}
		repl := cl.Repl
		if repl < 0 {
			repl = 0
		}
		w.table.rows[cl.UUID] = &c06Coll{UUID: cl.UUID, Mod: ts, Manifest: mc.manifest(k), Repl: repl, OldVersion: cl.Old}
		classes[cl.UUID] = cl.Cls
	}

	// ---- API server
	amux := http.NewServeMux()
	amux.HandleFunc("/arvados/v1/collections", func(rw http.ResponseWriter, r *http.Request) {
		r.ParseForm()
		if r.Form.Get("limit") != "0" {
			w.noteState("page of collections")
			w.mu.Lock()
			w.selects[r.Form.Get("select")]++
			w.mu.Unlock()
		}
		rec := httptest.NewRecorder()
		w.table.ServeHTTP(rec, r)
		body := rec.Body.Bytes()
		// the table knows no storage classes: put the real ones where the
		// attribute was selected
		var doc map[string]interface{}
		if rec.Code == 200 && json.Unmarshal(body, &doc) == nil {
			if items, ok := doc["items"].([]interface{}); ok {
				for _, it := range items {
					m, _ := it.(map[string]interface{})
					if _, sel := m["storage_classes_desired"]; !sel {
						continue
					}
					u, _ := m["uuid"].(string)
					if cls := classes[u]; len(cls) > 0 {
						m["storage_classes_desired"] = cls
					} else {
						m["storage_classes_desired"] = []string{}
					}
				}
				body, _ = json.Marshal(doc)
			}
		}
		for k, v := range rec.Header() {
			rw.Header()[k] = v
		}
		rw.Header().Del("Content-Length")
		rw.WriteHeader(rec.Code)
		rw.Write(body)
	})
	amux.HandleFunc("/arvados/v1/users/current", func(rw http.ResponseWriter, r *http.Request) {
		rw.Header().Set("Content-Type", "application/json")
		rw.Write([]byte(`{"uuid":"zzzzz-tpzed-000000000000000","is_admin":true,"is_active":true}`))
	})
	amux.HandleFunc("/discovery/v1/apis/arvados/v1/rest", func(rw http.ResponseWriter, r *http.Request) {
		rw.Header().Set("Content-Type", "application/json")
		fmt.Fprintf(rw, `{"defaultCollectionReplication":%d,"blobSignatureTtl":%d}`, mc.DefRepl, c05TTL)
	})
	amux.HandleFunc("/arvados/v1/keep_services", func(rw http.ResponseWriter, r *http.Request) {
		r.ParseForm()
		off, _ := strconv.Atoi(r.Form.Get("offset"))
		var items []arvados.KeepService
		for si, s := range layout.Svcs {
			items = append(items, arvados.KeepService{UUID: c05SvcUUID(s.ID), ServiceHost: infos[si].host, ServicePort: infos[si].port, ServiceType: "disk", ReadOnly: s.RO})
		}
		total := len(items)
		if off > total {
			off = total
		}
		items = items[off:]
		if len(items) > 5 {
			items = items[:5]
		}
		rw.Header().Set("Content-Type", "application/json")
		json.NewEncoder(rw).Encode(arvados.KeepServiceList{Items: items, ItemsAvailable: total, Offset: off, Limit: 5})
	})
	amux.HandleFunc("/", func(rw http.ResponseWriter, r *http.Request) {
		w.mu.Lock()
		w.unexpected = append(w.unexpected, fmt.Sprintf("api: %s %s", r.Method, r.URL.Path))
		w.mu.Unlock()
		http.Error(rw, "not found", 404)
	})
	w.api = httptest.NewServer(amux)
	return w
}

func (w *c05World) Close() {
	w.api.Close()
	for _, s := range w.servers {
		s.Close()
	}
}

type c05SweepObs struct {
	obs          []*c05Obs
	stray        []string
	err          error
	timedOut     bool
	minMtime     int64
	firstState   time.Time
	firstWhat    string
	stateReqs    int
	clockStepped bool
	selectsClass bool // some collection page request selected storage_classes_desired
	selects      []string
	puts         int
	unexpected   []string
}

// c05Sweep performs one real Balancer.Run against the world.
func c05Sweep(w *c05World, dir string) c05SweepObs {
	mc := w.mc
	var so c05SweepObs
	httpc := &http.Client{Transport: &http.Transport{DisableKeepAlives: true, DisableCompression: true}}
	client := &arvados.Client{
		Client:    httpc,
		Scheme:    "http",
		APIHost:   strings.TrimPrefix(w.api.URL, "http://"),
		AuthToken: "veriftoken",
		Timeout:   5 * time.Minute,
	}
	cluster := &arvados.Cluster{}
	cluster.Collections.BalanceCollectionBatch = mc.PageSize
	cluster.Collections.BalanceCollectionBuffers = 4
	cluster.Collections.BalanceTimeout = arvados.Duration(3 * time.Minute)
	lostFile := filepath.Join(dir, "lost")
	os.Remove(lostFile)
	bal := &Balancer{Logger: c05Logger, Metrics: c05Metrics, LostBlocksFile: lostFile}
	t0 := time.Now()
	done := make(chan struct{})
	go func() {
		defer close(done)
		_, so.err = bal.Run(client, cluster, RunOptions{CommitPulls: true, CommitTrash: true, Logger: c05Logger})
	}()
	select {
	case <-done:
	case <-time.After(4 * time.Minute):
		so.timedOut = true
		return so
	}
	t1 := time.Now()
	// the two clocks (wall, monotonic) must agree on how long this took,
	// otherwise the wall clock was stepped meanwhile
	if d := (t1.UnixNano() - t0.UnixNano()) - int64(t1.Sub(t0)); d > int64(time.Millisecond) || d < -int64(time.Millisecond) {
		so.clockStepped = true
	}
	so.minMtime = bal.MinMtime
	w.mu.Lock()
	so.firstState, so.firstWhat, so.stateReqs = w.firstState, w.firstStateWhat, w.stateReqs
	for s, n := range w.selects {
		so.selects = append(so.selects, fmt.Sprintf("%s x%d", s, n))
		if strings.Contains(s, "storage_classes_desired") {
			so.selectsClass = true
		}
	}
	sort.Strings(so.selects)
	so.puts = w.puts
	so.unexpected = append(so.unexpected, w.unexpected...)
	trash, pull := map[int][]byte{}, map[int][]byte{}
	for k, v := range w.trash {
		trash[k] = v
	}
	for k, v := range w.pull {
		pull[k] = v
	}
	w.mu.Unlock()
	if so.err != nil {
		return so
	}
	so.obs, so.stray = c05SplitLists(mc, trash, pull, w.urlOf, c05MinMtime-w.base)
	lostText, _ := ioutil.ReadFile(lostFile)
	lost := c05LostSet(string(lostText))
	var surviving []string
	for _, srv := range bal.KeepServices {
		for _, km := range srv.mounts {
			surviving = append(surviving, km.UUID)
		}
	}
	for b, o := range so.obs {
		o.Lost = lost[mc.Blocks[b].Blk]
		o.Surviving = surviving
	}
	return so
}

// ------------------------------------------------------------ judging

type c05MultiVerdict struct {
	findings []c05Finding
	evals    int
	trashes  int
	pulls    int
	lost     int
	underrep int
	failedB  int
}

// c05FailsAt tells whether block b fails the clause for the class when the
// case is run again through rerun.
func c05FailsAt(mc *c05Multi, rerun func(*c05Multi) []*c05Obs, b int, clause, class string) bool {
	for k := 0; k < 2; k++ {
		obs := rerun(mc)
		if obs == nil {
			return true
		}
		_, in := c05Judge(mc.Blocks[b], obs[b], false)
		for _, cl := range in.failed[clause] {
			if cl == class {
				return true
			}
		}
	}
	return false
}

// c05JudgeMulti judges every block of a multi-block case with c05Judge.
// rerun runs a (transformed) case again, for labelling only; classesDropped:
// the collections' storage classes demonstrably never reached the balancer
// (the attribute was not among those requested from the API).
func c05JudgeMulti(mc *c05Multi, obs []*c05Obs, stray []string, rerun func(*c05Multi) []*c05Obs, classesDropped bool) c05MultiVerdict {
	var v c05MultiVerdict
	for _, s := range stray {
		v.findings = append(v.findings, c05Finding{"C05:W:request-for-a-block-that-is-neither-stored-nor-referenced", s})
	}
	clauseName := map[string]string{"B3": "C05:B3:trash-while-underreplicated:", "B4": "C05:B4:trashes-reduce-class-replication:"}
	for b, bc := range mc.Blocks {
		fs, in := c05Judge(bc, obs[b], false)
		v.evals += in.evals
		v.trashes += len(obs[b].Trashes)
		v.pulls += len(obs[b].Pulls)
		if obs[b].Lost {
			v.lost++
		}
		if in.underrep {
			v.underrep++
		}
		where := fmt.Sprintf("block #%d of the case\n%s", b, c05Describe(bc, obs[b]))
		for _, f := range fs {
			v.findings = append(v.findings, c05Finding{f.Sig, f.Detail + "\n" + where})
		}
		if len(in.failed["B3"])+len(in.failed["B4"]) == 0 {
			continue
		}
		v.failedB++
		// does balanceBlock alone, driven directly on this block, fail the same clause?
		// (the outcome of balanceBlock depends on the arrival order of the
		// replicas and on map iteration order: ask up to 24 times)
		var dfs []c05Finding
		directFail := map[string]map[string]bool{"B3": {}, "B4": {}}
		for k := 0; k < 24; k++ {
			n := bc.clone()
			n.Shuf = bc.Shuf + uint64(k)
			fs2, din := c05Judge(n, c05Run(n), true)
			covered := true
			for _, clause := range []string{"B3", "B4"} {
				for _, cl := range din.failed[clause] {
					directFail[clause][cl] = true
				}
				for _, cl := range in.failed[clause] {
					if !directFail[clause][cl] {
						covered = false
					}
				}
			}
			for _, f := range fs2 {
				dup := false
				for _, o := range dfs {
					dup = dup || o.Sig == f.Sig
				}
				if !dup {
					dfs = append(dfs, f)
				}
			}
			if covered {
				break
			}
		}
		for _, clause := range []string{"B3", "B4"} {
			if len(in.failed[clause]) == 0 {
				continue
			}
			direct := directFail[clause]
			var rest []string
			for _, cl := range in.failed[clause] {
				if !direct[cl] {
					rest = append(rest, cl)
				}
			}
			if len(rest) < len(in.failed[clause]) {
				for _, f := range dfs {
					if strings.HasPrefix(f.Sig, clauseName[clause]) {
						v.findings = append(v.findings, c05Finding{f.Sig, f.Detail + "\n(balanceBlock driven directly on " + where + ")"})
					}
				}
			}
			if len(rest) == 0 {
				continue
			}
			causes := map[string]bool{}
			for _, class := range rest {
				causes[c05MultiCause(mc, rerun, b, clause, class, classesDropped)] = true
			}
			md := c05BuildModel(bc)
			var txt []string
			for _, class := range rest {
				txt = append(txt, fmt.Sprintf("class %q: desired %d, physical replication before %d, after the trashes %d", class, md.desired[class], c05ReplBefore(bc, class), c05ReplAfter(bc, obs[b], class)))
			}
			v.findings = append(v.findings, c05Finding{clauseName[clause] + c05Join(causes),
				fmt.Sprintf("%s; balanceBlock driven directly with the desired replication of the model computes lists that pass\n%s", strings.Join(txt, "; "), where)})
		}
	}
	return v
}

func c05ReplBefore(bc *c05Case, class string) int {
	return c05BuildModel(bc).devRepl(class, false)
}

func c05ReplAfter(bc *c05Case, obs *c05Obs, class string) int {
	md := c05BuildModel(bc)
	for _, t := range obs.Trashes {
		if mi, ok := md.byUUID[t.Mount]; ok && md.devs[md.mounts[mi].dev].has {
			md.devs[md.mounts[mi].dev].trashed = true
		}
	}
	return md.devRepl(class, true)
}

// c05MultiCause names why the lists computed from the collections differ from
// what balanceBlock computes from the model's desired replication:
//
//	collection-storage-classes-not-requested-from-api
//	    the failing class is wanted by collections that name it explicitly,
//	    and no request for collections asked for storage_classes_desired
//	collections-with-same-content(+other-storage-classes|+other-replication)
//	    a collection that wants the class has the same content (portable data
//	    hash) as another collection, and the failure disappears when every
//	    collection is given a content of its own
//	desired-replication-of-a-collection-not-applied
//	    anything else
func c05MultiCause(mc *c05Multi, rerun func(*c05Multi) []*c05Obs, b int, clause, class string, classesDropped bool) string {
	if classesDropped && class != "default" {
		return "collection-storage-classes-not-requested-from-api"
	}
	if classesDropped {
		// does balanceBlock, told that every collection wants the default
		// class (what it was told if the classes never arrived), compute
		// lists that fail this clause of the real case?
		bc := mc.Blocks[b]
		for k := 0; k < 24; k++ {
			n := bc.clone()
			n.Shuf = bc.Shuf + uint64(k)
			for i := range n.Colls {
				n.Colls[i].Cls = nil
			}
			_, in := c05Judge(bc, c05Run(n), false)
			for _, cl := range in.failed[clause] {
				if cl == class {
					return "collection-storage-classes-not-requested-from-api"
				}
			}
		}
	}
	same, diffCls, diffRepl := mc.sameContentFacts()
	if same {
		n := mc.clone()
		for k := range n.Colls {
			n.Colls[k].Salt = fmt.Sprintf("-%d", k)
			n.Colls[k].SameAs = -1
		}
		n.project()
		if !c05FailsAt(n, rerun, b, clause, class) {
			switch {
			case diffCls:
				return "collections-with-same-content+other-storage-classes"
			case diffRepl:
				return "collections-with-same-content+other-replication"
			}
			return "collections-with-same-content"
		}
	}
	return "desired-replication-of-a-collection-not-applied"
}

func c05MultiFeature(mc *c05Multi, v *c05MultiVerdict) string {
	nm := 0
	for _, s := range mc.Blocks[0].Svcs {
		nm += len(s.Mounts)
	}
	same, diffCls, diffRepl := mc.sameContentFacts()
	return fmt.Sprintf("%s svc<=%s mnt<=%s blocks=%d colls=%s same=%v/%v/%v trash=%s pull=%s lost=%s underrep=%s",
		mc.Kind, c05Bucket(len(mc.Blocks[0].Svcs), 1, 2, 4, 8, 16), c05Bucket(nm, 2, 4, 8, 16, 48), len(mc.Blocks), c05Bucket(len(mc.Colls), 1, 2, 4, 8),
		same, diffCls, diffRepl, c05Bucket(v.trashes, 0, 1, 2, 4, 8), c05Bucket(v.pulls, 0, 1, 2, 4, 8), c05Bucket(v.lost, 0, 1, 2), c05Bucket(v.underrep, 0, 1, 2))
}

// c05RunMultiStreams adds the streams "colls" and "sweep" to TestVerifC05.
func c05RunMultiStreams(t *testing.T, run *verifkit.Run) {
	seen := map[string]int{}
	report := func(mc *c05Multi, v *c05MultiVerdict, extra map[string]interface{}) {
		for _, f := range v.findings {
			run.Count("violations "+f.Sig, 1)
			seen[f.Sig]++
			if seen[f.Sig] > 3 {
				continue
			}
			input := map[string]interface{}{"case": mc}
			for k, x := range extra {
				input[k] = x
			}
			run.Violation(f.Sig, f.Detail, input)
		}
	}

	// ---- collections -> desired replication -> lists
	var sawSameDiffCls, sawTrash int
	nColls := run.N(4800, 120000)
	run.Cases("colls", nColls, func(i int, rng *verifkit.Rand) {
		mc := c05GenMulti(rng, "colls", 16, false)
		mc.Shuf = rng.Uint64()
		run.Input(mc, false)
		rerun := func(n *c05Multi) []*c05Obs { o, _ := c05RunColls(n); return o }
		obs, stray := c05RunColls(mc)
		if obs == nil {
			run.Violation("C05:W:add-collection-failed", strings.Join(stray, "; "), mc)
			return
		}
		v := c05JudgeMulti(mc, obs, stray, rerun, false)
		run.Eval(v.evals)
		run.Count("colls_cases", 1)
		run.Count("colls_blocks", len(mc.Blocks))
		run.Count("colls_collections", len(mc.Colls))
		run.Count("colls_trash_requests", v.trashes)
		run.Count("colls_pull_requests", v.pulls)
		run.Count("colls_blocks_reported_lost", v.lost)
		same, diffCls, diffRepl := mc.sameContentFacts()
		if same {
			run.Count("colls_cases_with_collections_of_same_content", 1)
		}
		if diffCls {
			run.Count("colls_cases_same_content_other_storage_classes", 1)
			sawSameDiffCls++
		}
		if diffRepl {
			run.Count("colls_cases_same_content_other_replication", 1)
		}
		if v.trashes > 0 {
			sawTrash++
		}
		run.Feature(c05MultiFeature(mc, &v))
		if i < 1 {
			run.Sample(map[string]interface{}{"case": mc, "observed": obs})
		}
		report(mc, &v, map[string]interface{}{"observed": obs})
	})
	if !run.Replaying() && nColls >= 16*50 {
		if sawSameDiffCls == 0 {
			run.Inconclusive(fmt.Sprintf("batch %d: stream colls never had collections of the same content with different storage classes", run.BatchK()))
		}
		if sawTrash == 0 {
			run.Inconclusive(fmt.Sprintf("batch %d: stream colls never observed a trash request", run.BatchK()))
		}
	}

	// ---- the whole sweep against stub servers
	var sweeps, sweepTrash, cutoffChecked int
	dir, err := ioutil.TempDir("", "verif-c05-")
	if err != nil {
		t.Fatal(err)
	}
	defer os.RemoveAll(dir)
	nSweep := run.N(96, 2400)
	run.Cases("sweep", nSweep, func(i int, rng *verifkit.Rand) {
		mc := c05GenMulti(rng, "sweep", 8, true)
		mc.Shuf = rng.Uint64()
		run.Input(mc, false)
		w := c05NewWorld(mc, rng)
		defer w.Close()
		so := c05Sweep(w, dir)
		run.Count("sweep_cases", 1)
		if so.timedOut {
			run.Inconclusive("stream sweep: Balancer.Run did not return within 4 minutes")
			return
		}
		if so.err != nil {
			run.Count("sweep_failed", 1)
			run.Inconclusive("stream sweep: Balancer.Run failed against fault-free stub servers: " + so.err.Error())
			return
		}
		if len(so.unexpected) > 0 {
			run.Note("stream sweep: requests the stub servers do not know: " + strings.Join(so.unexpected, "; "))
		}
		sweeps++
		run.Count("sweep_state_requests", so.stateReqs)
		run.Count("sweep_put_requests", so.puts)
		rerun := func(n *c05Multi) []*c05Obs {
			nw := c05NewWorld(n, verifkit.NewRand(n.Shuf))
			defer nw.Close()
			r := c05Sweep(nw, dir)
			if r.err != nil || r.timedOut {
				return nil
			}
			return r.obs
		}
		anyExplicit := false
		for _, cl := range mc.Colls {
			if len(cl.Cls) > 0 {
				anyExplicit = true
			}
		}
		v := c05JudgeMulti(mc, so.obs, so.stray, rerun, anyExplicit && !so.selectsClass)
		if !so.selectsClass {
			run.Count("sweep_cases_storage_classes_desired_not_requested", 1)
		}

		// the cutoff was fixed before the state was read
		switch {
		case so.stateReqs == 0 || so.minMtime == 0:
			run.Inconclusive("stream sweep: no index / collection page request reached the stub servers, or MinMtime was never set")
		case so.clockStepped:
			run.Count("sweep_cases_wall_clock_stepped", 1)
		default:
			cutoffChecked++
			v.evals++
			run.Count("sweep_cutoff_order_checked", 1)
			if cut := so.minMtime + c05TTL*1e9; cut > so.firstState.UnixNano() {
				v.findings = append(v.findings, c05Finding{"C05:B1:trash-cutoff-fixed-after-state-retrieval-began",
					fmt.Sprintf("Balancer.MinMtime + signature TTL is %v later than the arrival of the first state request of the sweep (%s; %d index / collection page requests in all): replicas that were younger than the signature TTL when the indexes and collections were read count as old enough to be trashed",
						time.Duration(cut-so.firstState.UnixNano()), so.firstWhat, so.stateReqs)})
			}
		}
		run.Eval(v.evals)
		run.Count("sweep_trash_requests", v.trashes)
		run.Count("sweep_pull_requests", v.pulls)
		run.Count("sweep_blocks_reported_lost", v.lost)
		if v.trashes > 0 {
			sweepTrash++
		}
		run.Feature(c05MultiFeature(mc, &v))
		if i < 1 {
			run.Sample(map[string]interface{}{"case": mc, "observed": so.obs, "select_lists": so.selects})
		}
		report(mc, &v, map[string]interface{}{"observed": so.obs, "select_lists": so.selects})
	})
	if !run.Replaying() && nSweep >= 16*4 {
		if sweeps == 0 || cutoffChecked == 0 {
			run.Inconclusive(fmt.Sprintf("batch %d: stream sweep completed %d sweeps and checked the cutoff order %d times", run.BatchK(), sweeps, cutoffChecked))
		}
		if sweepTrash == 0 {
			run.Inconclusive(fmt.Sprintf("batch %d: stream sweep never observed a trash request", run.BatchK()))
		}
	}
}
