//go:build verif

package main

// C12 (balancer part) — keep-balance ranks servers for a block in the same
// rendezvous order in which the Go client probes them. See /verif/DESIGN.md
// §5 C12. The client part lives in harness/sdk/go/keepclient/c12_test.go.
//
// Observed: the servers that receive Pull requests from the real balanceBlock
// when one replica exists on the last server of the order and k replicas are
// desired (k = 1..n-1), and the servers that receive Trash requests when every
// server holds an old replica and k are desired. Judged against
//   (a) the reference order: descending MD5hex(hash + last 15 characters of the
//       27-character uuid), computed here with crypto/md5;
//   (b) the order in which a real KeepClient, given the same services, is
//       observed to probe them for a read that misses everywhere (relational:
//       "readers and the balancer share one order"), for uuids of any length.

import (
	"crypto/md5"
	"errors"
	"fmt"
	"io"
	"io/ioutil"
	"net/http"
	"runtime"
	"sort"
	"strings"
	"sync"
	"testing"

	"git.arvados.org/arvados.git/internal/verifkit"
	"git.arvados.org/arvados.git/sdk/go/arvados"
	"git.arvados.org/arvados.git/sdk/go/arvadosclient"
	"git.arvados.org/arvados.git/sdk/go/keepclient"
	"github.com/prometheus/client_golang/prometheus"
	"github.com/sirupsen/logrus"
)

// Stream "concurrent": the same judgement on the REAL concurrent path. A
// Balancer whose BlockStateMap holds thousands of blocks (filled through
// AddReplicas / IncreaseDesired) is run through ComputeChangeSets with
// GOMAXPROCS raised explicitly, so that many balanceBlock calls for blocks with
// different rendezvous orders are in flight at once on shared *KeepService
// objects; afterwards every service's ChangeSet is read back and the Pull /
// Trash targets are judged per block.

type c12bCase struct {
	UUIDs     []string `json:"uuids"`
	TwoMounts []bool   `json:"two_mounts,omitempty"`
	Devices   bool     `json:"device_ids"`
	Hash      string   `json:"hash"`
	Size      int      `json:"size"`
	Insert    []int    `json:"insertion_order"`
	Change    string   `json:"change"`
}

func c12bMD5Hex(s string) string { return fmt.Sprintf("%x", md5.Sum([]byte(s))) }

func c12bWeight(hash, uuid string) (string, bool) {
	if len(uuid) != 27 {
		return "", false
	}
	return c12bMD5Hex(hash + uuid[len(uuid)-15:]), true
}

func c12bSelfTest() error {
	expected := []string{"3eab2d5fc9681074", "097dba52e648f1c3", "c5b4e023f8a7d691", "9d81c02e76a3bf54"}
	for h, exp := range expected {
		hash := c12bMD5Hex(fmt.Sprintf("%064x", h))
		var uuids []string
		for i := 0; i < 16; i++ {
			uuids = append(uuids, fmt.Sprintf("zzzzz-bi6l4-%015x", i))
		}
		sort.SliceStable(uuids, func(i, j int) bool {
			wi, _ := c12bWeight(hash, uuids[i])
			wj, _ := c12bWeight(hash, uuids[j])
			return wi > wj
		})
		got := ""
		for _, u := range uuids {
			got += u[len(u)-1:]
		}
		if got != exp {
			return fmt.Errorf("reference order for published vector %d is %s, published %s", h, got, exp)
		}
	}
	return nil
}

// c12bValidTop: is T (a set of 27-character uuids) a set of the k heaviest
// services of all (equal weights: any choice)?
func c12bValidTop(hash string, T map[string]bool, all []string, k int) bool {
	if len(T) != k {
		return false
	}
	minIn, maxOut := "", ""
	for _, u := range all {
		w, _ := c12bWeight(hash, u)
		if T[u] {
			if minIn == "" || w < minIn {
				minIn = w
			}
		} else if w > maxOut {
			maxOut = w
		}
	}
	return k == 0 || maxOut == "" || minIn >= maxOut
}

// c12bRec: recording HTTPClient, every request is answered 404.
type c12bRec struct {
	mu  sync.Mutex
	seq []string
}

func (t *c12bRec) Do(req *http.Request) (*http.Response, error) {
	if req.Body != nil {
		io.Copy(ioutil.Discard, req.Body)
		req.Body.Close()
	}
	t.mu.Lock()
	t.seq = append(t.seq, req.URL.Scheme+"://"+req.URL.Host)
	t.mu.Unlock()
	if req.Method != "GET" {
		return nil, errors.New("unexpected method (verif)")
	}
	return &http.Response{
		Status: "404 Not Found", StatusCode: 404, Proto: "HTTP/1.1", ProtoMajor: 1, ProtoMinor: 1,
		Header: http.Header{}, Body: ioutil.NopCloser(strings.NewReader("Not found\n")), ContentLength: 10, Request: req,
	}, nil
}

// c12bClientOrder: the order in which a real KeepClient probes the services
// for a read of hash that misses everywhere.
func c12bClientOrder(uuids []string, hash string, size int) ([]string, error) {
	rec := &c12bRec{}
	kc := &keepclient.KeepClient{
		Arvados:       &arvadosclient.ArvadosClient{ApiToken: "veriftoken", Client: http.DefaultClient},
		Want_replicas: 1,
		HTTPClient:    rec,
		RequestID:     "c12b",
	}
	locals := map[string]string{}
	byURL := map[string]string{}
	for i, u := range uuids {
		url := fmt.Sprintf("http://c12b-s%d.invalid:25107", i)
		locals[u] = url
		byURL[url] = u
	}
	kc.SetServiceRoots(locals, locals, nil)
	r, _, _, _ := kc.Get(fmt.Sprintf("%s+%d", hash, size))
	if r != nil {
		r.Close()
	}
	var order []string
	seen := map[string]bool{}
	for _, url := range rec.seq {
		u, ok := byURL[url]
		if !ok || seen[u] {
			return nil, fmt.Errorf("client probe sequence is not a permutation of the services: %v", rec.seq)
		}
		seen[u] = true
		order = append(order, u)
	}
	if len(order) != len(uuids) {
		return nil, fmt.Errorf("client probed %d of %d services: %v", len(order), len(uuids), rec.seq)
	}
	return order, nil
}

type c12bBal struct {
	bal  *Balancer
	srvs map[string]*KeepService
}

func c12bLogger() logrus.FieldLogger {
	l := logrus.New()
	l.Out = ioutil.Discard
	return l
}

func c12bNewBalancer(c *c12bCase, uuids []string, insert []int, logger logrus.FieldLogger) *c12bBal {
	b := &c12bBal{bal: &Balancer{Logger: logger, KeepServices: map[string]*KeepService{}, MinMtime: 1 << 60}, srvs: map[string]*KeepService{}}
	two := map[string]bool{}
	for i, u := range c.UUIDs {
		if i < len(c.TwoMounts) && c.TwoMounts[i] {
			two[u] = true
		}
	}
	for _, i := range insert {
		u := uuids[i]
		srv := &KeepService{KeepService: arvados.KeepService{UUID: u, ServiceHost: fmt.Sprintf("c12b-s%d.invalid", i), ServicePort: 25107, ServiceType: "disk"}, ChangeSet: &ChangeSet{}}
		nm := 1
		if two[u] {
			nm = 2
		}
		for m := 0; m < nm; m++ {
			dev := ""
			if c.Devices || nm > 1 {
				dev = fmt.Sprintf("dev-%d-%d", i, m)
			}
			srv.mounts = append(srv.mounts, &KeepMount{KeepMount: arvados.KeepMount{UUID: fmt.Sprintf("zzzzz-nyw5e-%011d%04d", i, m), DeviceID: dev, Replication: 1}, KeepService: srv})
		}
		b.bal.KeepServices[u] = srv
		b.srvs[u] = srv
	}
	b.bal.cleanupMounts()
	b.bal.setupLookupTables()
	return b
}

// balance runs the real balanceBlock for one block and returns the uuids of
// the servers that were sent Pulls / Trashes (with their counts).
func (b *c12bBal) balance(blkid arvados.SizedDigest, holders []string, k int) (pulls, trashes map[string]int) {
	for _, srv := range b.srvs {
		srv.ChangeSet = &ChangeSet{}
	}
	blk := &BlockState{Desired: map[string]int{"default": k}}
	for i, h := range holders {
		blk.Replicas = append(blk.Replicas, Replica{KeepMount: b.srvs[h].mounts[0], Mtime: int64(1000 + i)})
	}
	b.bal.balanceBlock(blkid, blk)
	pulls, trashes = map[string]int{}, map[string]int{}
	for u, srv := range b.srvs {
		if n := len(srv.Pulls); n > 0 {
			pulls[u] = n
		}
		if n := len(srv.Trashes); n > 0 {
			trashes[u] = n
		}
	}
	return
}

func c12bSetOf(m map[string]int) map[string]bool {
	s := map[string]bool{}
	for u := range m {
		s[u] = true
	}
	return s
}

func c12bKeys(m map[string]bool) []string {
	var out []string
	for u := range m {
		out = append(out, u)
	}
	sort.Strings(out)
	return out
}

func c12bEqualSets(a, b map[string]bool) bool {
	if len(a) != len(b) {
		return false
	}
	for u := range a {
		if !b[u] {
			return false
		}
	}
	return true
}

func c12bPrefixSet(order []string, k int, minus string) map[string]bool {
	s := map[string]bool{}
	for _, u := range order[:k] {
		if u != minus {
			s[u] = true
		}
	}
	return s
}


// ---------------------------------------------------------------- concurrent path

type c12bConcCase struct {
	UUIDs     []string `json:"uuids"`
	Devices   bool     `json:"device_ids"`
	NBlocks   int      `json:"blocks"`
	BlockSeed uint64   `json:"block_seed"`
	Procs     int      `json:"gomaxprocs"`
	Insert    []int    `json:"insertion_order"`
}

type c12bBlock struct {
	hash   string
	size   int
	kind   string // pull (one replica on the last server) | trash (old replica everywhere)
	k      int
	holder string
	order  []string // client's observed probe order, when taken
}

// c12bProber: one real KeepClient per case, asked for the probe order of many blocks.
type c12bProber struct {
	rec   *c12bRec
	kc    *keepclient.KeepClient
	byURL map[string]string
	n     int
}

func c12bNewProber(uuids []string) *c12bProber {
	p := &c12bProber{rec: &c12bRec{}, byURL: map[string]string{}, n: len(uuids)}
	p.kc = &keepclient.KeepClient{
		Arvados:       &arvadosclient.ArvadosClient{ApiToken: "veriftoken", Client: http.DefaultClient},
		Want_replicas: 1,
		HTTPClient:    p.rec,
		RequestID:     "c12b",
	}
	locals := map[string]string{}
	for i, u := range uuids {
		url := fmt.Sprintf("http://c12b-s%d.invalid:25107", i)
		locals[u] = url
		p.byURL[url] = u
	}
	p.kc.SetServiceRoots(locals, locals, nil)
	return p
}

func (p *c12bProber) order(hash string, size int) []string {
	p.rec.mu.Lock()
	p.rec.seq = p.rec.seq[:0]
	p.rec.mu.Unlock()
	r, _, _, _ := p.kc.Get(fmt.Sprintf("%s+%d", hash, size))
	if r != nil {
		r.Close()
	}
	var order []string
	seen := map[string]bool{}
	for _, url := range p.rec.seq {
		u, ok := p.byURL[url]
		if !ok || seen[u] {
			return nil
		}
		seen[u] = true
		order = append(order, u)
	}
	if len(order) != p.n {
		return nil
	}
	return order
}

// c12bRefLast: the service with the smallest reference weight (27-character uuids).
func c12bRefLast(hash string, uuids []string) string {
	last, lw := "", ""
	for _, u := range uuids {
		w, _ := c12bWeight(hash, u)
		if last == "" || w < lw {
			last, lw = u, w
		}
	}
	return last
}

func c12bRefOrder(hash string, uuids []string) []string {
	ref := append([]string(nil), uuids...)
	sort.SliceStable(ref, func(a, b int) bool {
		wa, _ := c12bWeight(hash, ref[a])
		wb, _ := c12bWeight(hash, ref[b])
		return wa > wb
	})
	return ref
}

func TestVerifC12(t *testing.T) {
	run := verifkit.Start(t, "C12")
	defer run.Finish()
	if err := c12bSelfTest(); err != nil {
		run.Inconclusive("C12: the harness' reference order does not reproduce the published probe-order vector: " + err.Error())
		return
	}
	logger := c12bLogger()
	const alnum = "0123456789abcdefghijklmnopqrstuvwxyz"
	n := run.N(4000, 80000)
	run.Cases("balancer", n, func(i int, rng *verifkit.Rand) {
		// ---------------- generate
		c := &c12bCase{Hash: rng.Hex(32), Size: rng.Range(1, 1<<26), Devices: rng.Bool()}
		var nsvc int
		switch {
		case rng.Chance(1, 10):
			nsvc = rng.PickInt(2, 3, 31, 32)
		case rng.Chance(1, 2):
			nsvc = rng.Range(2, 8)
		default:
			nsvc = rng.Range(2, 32)
		}
		class := rng.PickStr("all27", "all27", "all27", "mixed", "non27")
		ties := class == "all27" && rng.Chance(1, 5)
		used := map[string]bool{}
		newUUID := func(force27 bool) string {
			for {
				var u string
				if class == "all27" || force27 || (class == "mixed" && rng.Bool()) {
					u = rng.String(5, alnum) + "-" + rng.PickStr("bi6l4", "bi6l4", "bi6l4", rng.String(5, alnum)) + "-" + rng.String(15, alnum)
				} else {
					l := rng.PickInt(1, 5, 14, 15, 16, 26, 28, 29, 40, rng.Range(1, 45))
					if l == 27 {
						l = 28
					}
					u = rng.String(l, alnum+"-")
				}
				if !used[u] {
					used[u] = true
					return u
				}
			}
		}
		for s := 0; s < nsvc; s++ {
			u := newUUID(false)
			if ties && s > 0 && rng.Chance(1, 3) {
				o := c.UUIDs[rng.Intn(s)]
				for {
					u = rng.String(5, alnum) + "-bi6l4-" + o[12:]
					if !used[u] {
						used[u] = true
						break
					}
				}
			}
			c.UUIDs = append(c.UUIDs, u)
			c.TwoMounts = append(c.TwoMounts, rng.Chance(1, 8))
		}
		c.Insert = rng.Perm(nsvc)
		if rng.Bool() {
			c.Change = fmt.Sprintf("remove:%d", rng.Intn(nsvc))
		} else {
			c.Change = "add:" + newUUID(class == "all27")
		}
		run.Input(c, false)
		blkid := arvados.SizedDigest(fmt.Sprintf("%s+%d", c.Hash, c.Size))
		all27 := true
		hasTies := false
		wseen := map[string]bool{}
		for _, u := range c.UUIDs {
			w, ok := c12bWeight(c.Hash, u)
			if !ok {
				all27 = false
			} else {
				if wseen[w] {
					hasTies = true
				}
				wseen[w] = true
			}
		}
		uuidClass := "mixed"
		if all27 {
			uuidClass = "all27"
		} else if len(wseen) == 0 {
			uuidClass = "non27"
		}
		bad := func(sig, detail string) {
			run.Violation(sig, fmt.Sprintf("%s\nblock %s, services %v", detail, blkid, c.UUIDs), c)
		}

		// ---------------- the client's observed probe order for the same services and block
		cOrder, err := c12bClientOrder(c.UUIDs, c.Hash, c.Size)
		if err != nil {
			// judged by the client part of C12; here it only means the
			// relational check has nothing to compare with
			run.Count("client_order_unusable", 1)
			cOrder = nil
		}
		// holder of the only replica: last in the client's order (reference
		// order for 27-character uuids when the client's order is unusable)
		var holder string
		if cOrder != nil {
			holder = cOrder[len(cOrder)-1]
		} else {
			holder = c.UUIDs[0]
		}

		b1 := c12bNewBalancer(c, c.UUIDs, c.Insert, logger)
		rev := make([]int, nsvc)
		for k := range rev {
			rev[k] = c.Insert[nsvc-1-k]
		}
		b2 := c12bNewBalancer(c, c.UUIDs, rev, logger)

		judge := func(label string, wantSet map[string]bool, k int, order []string, uuids []string, hold string) bool {
			// wantSet = servers the balancer decided should hold the k replicas
			// (pulled ∪ kept); judged against reference and client order
			if all27 {
				run.Eval(1)
				run.Count("rankings_judged_against_reference", 1)
				if !c12bValidTop(c.Hash, wantSet, uuids, k) {
					var ref []string
					ref = append(ref, uuids...)
					sort.SliceStable(ref, func(a, b int) bool {
						wa, _ := c12bWeight(c.Hash, ref[a])
						wb, _ := c12bWeight(c.Hash, ref[b])
						return wa > wb
					})
					bad("C12:B:"+label+"-targets-differ-from-reference-top-k", fmt.Sprintf("desired %d: balancer wants replicas on %v; reference order %v", k, c12bKeys(wantSet), ref))
					return false
				}
			}
			if order != nil && !hasTies {
				run.Eval(1)
				run.Count("rankings_judged_against_client_probe_order", 1)
				exp := c12bPrefixSet(order, k, "")
				if !c12bEqualSets(wantSet, exp) {
					bad("C12:B:"+label+"-targets-differ-from-client-probe-order:"+uuidClass, fmt.Sprintf("desired %d: balancer wants replicas on %v; a client probes %v first (full client order %v)", k, c12bKeys(wantSet), order[:k], order))
					return false
				}
			}
			return true
		}

		// ---------------- pull mode: one replica on the last server, desired k
		okAll := true
		var prev map[string]bool
		for k := 1; k <= nsvc-1 && okAll; k++ {
			pulls, trashes := b1.balance(blkid, []string{holder}, k)
			run.Count("balanceBlock_calls", 1)
			if len(trashes) > 0 {
				bad("C12:B:pull-mode-trashes-the-only-replica", fmt.Sprintf("desired %d, one replica on %s: trash requests %v", k, holder, trashes))
				okAll = false
				break
			}
			for u, np := range pulls {
				if np != 1 {
					bad("C12:B:several-pulls-to-one-server", fmt.Sprintf("desired %d: server %s gets %d pulls", k, u, np))
					okAll = false
				}
			}
			P := c12bSetOf(pulls)
			// the balancer's wanted set is P, plus the holder if it pulled only k-1
			want := map[string]bool{}
			for u := range P {
				want[u] = true
			}
			if len(P) == k-1 && !P[holder] {
				want[holder] = true
			}
			if !judge("pull", want, k, cOrder, c.UUIDs, holder) {
				okAll = false
				break
			}
			// nesting: the ranking is one order (top-k sets grow), judged when no ties
			if prev != nil && !hasTies {
				run.Eval(1)
				for u := range prev {
					if !want[u] {
						bad("C12:B:top-k-sets-not-nested:"+uuidClass, fmt.Sprintf("server %s is among the best %d but not among the best %d: %v vs %v", u, k-1, k, c12bKeys(prev), c12bKeys(want)))
						okAll = false
						break
					}
				}
			}
			prev = want
			// depends on nothing else: same answer from a balancer that was
			// given the services in the opposite order
			if !hasTies {
				run.Eval(1)
				p2, _ := b2.balance(blkid, []string{holder}, k)
				if !c12bEqualSets(c12bSetOf(p2), P) {
					bad("C12:B:ranking-depends-on-service-insertion-order:"+uuidClass, fmt.Sprintf("desired %d: pulls %v vs %v", k, c12bKeys(P), c12bKeys(c12bSetOf(p2))))
					okAll = false
				}
			}
		}
		if !okAll {
			return
		}

		// ---------------- trash mode: an old replica everywhere, desired k
		for k := 1; k <= nsvc-1; k++ {
			if nsvc > 12 && k > 3 && k < nsvc-2 && !rng.Chance(1, 4) {
				continue
			}
			pulls, trashes := b1.balance(blkid, c.UUIDs, k)
			run.Count("balanceBlock_calls", 1)
			if len(pulls) > 0 {
				bad("C12:B:trash-mode-pulls", fmt.Sprintf("desired %d, replicas everywhere: pulls %v", k, pulls))
				return
			}
			kept := map[string]bool{}
			for _, u := range c.UUIDs {
				if trashes[u] == 0 {
					kept[u] = true
				}
			}
			if !judge("trash", kept, k, cOrder, c.UUIDs, "") {
				return
			}
		}

		// ---------------- membership change
		uu := append([]string(nil), c.UUIDs...)
		var removed, added string
		if strings.HasPrefix(c.Change, "remove:") {
			var k int
			fmt.Sscanf(c.Change, "remove:%d", &k)
			removed = uu[k]
			uu = append(uu[:k:k], uu[k+1:]...)
		} else {
			added = strings.TrimPrefix(c.Change, "add:")
			uu = append(uu, added)
		}
		if len(uu) >= 2 && removed != holder {
			c2 := *c
			c2.UUIDs = uu
			c2.TwoMounts = nil
			b3 := c12bNewBalancer(&c2, uu, rng.Perm(len(uu)), logger)
			tie3 := hasTies
			if added != "" {
				if w, ok := c12bWeight(c.Hash, added); ok && wseen[w] {
					tie3 = true
				}
			}
			for k := 1; k <= len(uu)-1; k++ {
				if len(uu) > 10 && k > 3 && !rng.Chance(1, 4) {
					continue
				}
				pulls, _ := b3.balance(blkid, []string{holder}, k)
				run.Count("balanceBlock_calls", 1)
				P := c12bSetOf(pulls)
				if cOrder == nil || tie3 {
					continue
				}
				run.Eval(1)
				run.Count("membership_change_rankings_judged", 1)
				if removed != "" {
					var o2 []string
					for _, u := range cOrder {
						if u != removed {
							o2 = append(o2, u)
						}
					}
					if exp := c12bPrefixSet(o2, k, holder); !c12bEqualSets(P, exp) {
						bad("C12:B:membership-change-reorders-remaining-servers:remove:"+uuidClass, fmt.Sprintf("after removing %s, desired %d: pulls %v, expected the first %d of the previous order without it: %v", removed, k, c12bKeys(P), k, o2[:k]))
						return
					}
				} else {
					// the new server may rank anywhere; the others keep their relative order
					ok := false
					for p := 0; p <= len(cOrder) && !ok; p++ {
						o2 := append(append(append([]string(nil), cOrder[:p]...), added), cOrder[p:]...)
						ok = c12bEqualSets(P, c12bPrefixSet(o2, k, holder))
					}
					if !ok {
						bad("C12:B:membership-change-reorders-remaining-servers:add:"+uuidClass, fmt.Sprintf("after adding %s, desired %d: pulls %v are not the first %d of the previous order %v with the new server inserted anywhere", added, k, c12bKeys(P), k, cOrder))
						return
					}
				}
			}
		}

		// ---------------- evidence
		run.Count("balancer_sets", 1)
		run.Count("balancer_sets_"+uuidClass, 1)
		if hasTies {
			run.Count("balancer_sets_with_equal_weight_servers", 1)
		}
		nb := "n2-4"
		switch {
		case nsvc >= 17:
			nb = "n17-32"
		case nsvc >= 5:
			nb = "n5-16"
		}
		tm := false
		for _, x := range c.TwoMounts {
			tm = tm || x
		}
		run.Feature(fmt.Sprintf("balancer,%s,%s,ties=%v,twomounts=%v,devids=%v,%s", nb, uuidClass, hasTies, tm, c.Devices, strings.SplitN(c.Change, ":", 2)[0]))
		if i < 3 {
			run.Sample(c)
		}
	})

	// ================================================================ concurrent path
	nconc := run.N(48, 960)
	run.Cases("concurrent", nconc, func(i int, rng *verifkit.Rand) {
		c := &c12bConcCase{Devices: rng.Bool(), BlockSeed: rng.Uint64(), Procs: rng.PickInt(4, 8, 8, 16)}
		nsvc := rng.Range(6, 32)
		if rng.Chance(1, 6) {
			nsvc = rng.Range(3, 5)
		}
		class := rng.PickStr("all27", "all27", "all27", "mixed", "non27")
		ties := class == "all27" && rng.Chance(1, 5)
		used := map[string]bool{}
		for s := 0; s < nsvc; s++ {
			var u string
			for {
				if class == "all27" || (class == "mixed" && rng.Bool()) {
					u = rng.String(5, alnum) + "-bi6l4-" + rng.String(15, alnum)
				} else {
					l := rng.PickInt(5, 15, 26, 28, 40, rng.Range(1, 45))
					if l == 27 {
						l = 28
					}
					u = rng.String(l, alnum+"-")
				}
				if ties && s > 0 && rng.Chance(1, 3) {
					u = rng.String(5, alnum) + "-bi6l4-" + c.UUIDs[rng.Intn(s)][12:]
				}
				if !used[u] {
					used[u] = true
					break
				}
			}
			c.UUIDs = append(c.UUIDs, u)
		}
		all27, hasTies := true, false
		wseen := map[string]bool{}
		for _, u := range c.UUIDs {
			if len(u) != 27 {
				all27 = false
				continue
			}
			if wseen[u[12:]] {
				hasTies = true
			}
			wseen[u[12:]] = true
		}
		uuidClass := "mixed"
		if all27 {
			uuidClass = "all27"
		} else if len(wseen) == 0 {
			uuidClass = "non27"
		}
		c.NBlocks = 3000
		if !all27 {
			c.NBlocks = 1200 // every block needs an observed client probe order
		}
		c.Insert = rng.Perm(nsvc)
		run.Input(c, false)

		// ---------------- blocks
		prober := c12bNewProber(c.UUIDs)
		brng := verifkit.NewRand(c.BlockSeed)
		blocks := make([]*c12bBlock, 0, c.NBlocks)
		bySD := map[arvados.SizedDigest]*c12bBlock{}
		maxK := nsvc - 1
		if maxK > 4 {
			maxK = 4
		}
		for b := 0; b < c.NBlocks; b++ {
			blk := &c12bBlock{hash: brng.Hex(32), size: brng.Range(1, 1<<26), kind: "pull", k: brng.Range(1, maxK)}
			if brng.Chance(1, 3) {
				blk.kind = "trash"
			}
			if !all27 || b%8 == 0 {
				blk.order = prober.order(blk.hash, blk.size)
			}
			if all27 {
				blk.holder = c12bRefLast(blk.hash, c.UUIDs)
			} else if blk.order != nil {
				blk.holder = blk.order[len(blk.order)-1]
			} else {
				run.Count("client_order_unusable", 1)
				continue
			}
			sd := arvados.SizedDigest(fmt.Sprintf("%s+%d", blk.hash, blk.size))
			if bySD[sd] != nil {
				continue
			}
			bySD[sd] = blk
			blocks = append(blocks, blk)
		}

		// ---------------- the balancer, filled the way GetCurrentState fills it
		bc := &c12bCase{UUIDs: c.UUIDs, Devices: c.Devices}
		b := c12bNewBalancer(bc, c.UUIDs, c.Insert, logger)
		b.bal.Metrics = newMetrics(prometheus.NewRegistry())
		b.bal.lostBlocks = ioutil.Discard
		b.bal.BlockStateMap = NewBlockStateMap()
		for si, u := range c.UUIDs {
			var idx []arvados.KeepServiceIndexEntry
			for _, blk := range blocks {
				if blk.kind == "trash" || blk.holder == u {
					idx = append(idx, arvados.KeepServiceIndexEntry{SizedDigest: arvados.SizedDigest(fmt.Sprintf("%s+%d", blk.hash, blk.size)), Mtime: int64(1000 + si)})
				}
			}
			b.bal.AddReplicas(b.srvs[u].mounts[0], idx)
		}
		for k := 1; k <= maxK; k++ {
			var ids []arvados.SizedDigest
			for _, blk := range blocks {
				if blk.k == k {
					ids = append(ids, arvados.SizedDigest(fmt.Sprintf("%s+%d", blk.hash, blk.size)))
				}
			}
			b.bal.IncreaseDesired("", nil, k, ids)
		}

		// ---------------- the real concurrent path
		prev := runtime.GOMAXPROCS(c.Procs)
		b.bal.ComputeChangeSets()
		runtime.GOMAXPROCS(prev)
		run.Count("concurrent_ComputeChangeSets_runs", 1)
		run.CountMax("max_concurrent_balance_workers", c.Procs)
		run.CountMax("max_cpus_available", runtime.NumCPU())

		// ---------------- read every service's ChangeSet back
		pulls := map[arvados.SizedDigest]map[string]int{}
		trashes := map[arvados.SizedDigest]map[string]int{}
		for u, srv := range b.srvs {
			for _, p := range srv.ChangeSet.Pulls {
				if pulls[p.SizedDigest] == nil {
					pulls[p.SizedDigest] = map[string]int{}
				}
				pulls[p.SizedDigest][u]++
				if p.To == nil || p.To.KeepService != srv {
					run.Violation("C12:B:concurrent:pull-filed-under-other-server", fmt.Sprintf("pull of %s in the change set of %s targets a mount of another server", p.SizedDigest, u), c)
				}
			}
			for _, t := range srv.ChangeSet.Trashes {
				if trashes[t.SizedDigest] == nil {
					trashes[t.SizedDigest] = map[string]int{}
				}
				trashes[t.SizedDigest][u]++
			}
		}
		misranked := 0
		bad := func(sig string, blk *c12bBlock, detail string) {
			misranked++
			if misranked <= 3 {
				run.Violation(sig, fmt.Sprintf("%s\nblock %s+%d (%s-type, desired %d, replica holder %s), one of %d blocks balanced by ComputeChangeSets with GOMAXPROCS=%d; services %v", detail, blk.hash, blk.size, blk.kind, blk.k, blk.holder, len(blocks), c.Procs, c.UUIDs), c)
			}
		}
		for _, blk := range blocks {
			sd := arvados.SizedDigest(fmt.Sprintf("%s+%d", blk.hash, blk.size))
			P, T := pulls[sd], trashes[sd]
			want := map[string]bool{}
			if blk.kind == "pull" {
				if len(T) > 0 {
					bad("C12:B:concurrent:pull-mode-trashes-the-only-replica", blk, fmt.Sprintf("trash requests %v", T))
					continue
				}
				for u := range P {
					want[u] = true
				}
				if len(P) == blk.k-1 && P[blk.holder] == 0 {
					want[blk.holder] = true
				}
			} else {
				if len(P) > 0 {
					bad("C12:B:concurrent:trash-mode-pulls", blk, fmt.Sprintf("pull requests %v", P))
					continue
				}
				for _, u := range c.UUIDs {
					if T[u] == 0 {
						want[u] = true
					}
				}
			}
			run.Count("concurrent_blocks_judged_"+blk.kind, 1)
			if all27 {
				run.Eval(1)
				run.Count("concurrent_rankings_judged_against_reference", 1)
				if !c12bValidTop(blk.hash, want, c.UUIDs, blk.k) {
					bad("C12:B:concurrent:"+blk.kind+"-targets-differ-from-reference-top-k", blk, fmt.Sprintf("balancer wants replicas on %v; reference order %v", c12bKeys(want), c12bRefOrder(blk.hash, c.UUIDs)))
					continue
				}
			}
			if blk.order != nil && !hasTies {
				run.Eval(1)
				run.Count("concurrent_rankings_judged_against_client_probe_order", 1)
				if !c12bEqualSets(want, c12bPrefixSet(blk.order, blk.k, "")) {
					bad("C12:B:concurrent:"+blk.kind+"-targets-differ-from-client-probe-order:"+uuidClass, blk, fmt.Sprintf("balancer wants replicas on %v; a client probes %v first (full client order %v)", c12bKeys(want), blk.order[:blk.k], blk.order))
					continue
				}
			}
		}
		if misranked > 0 {
			run.Count("concurrent_blocks_misranked", misranked)
		}
		nb := "n3-5"
		switch {
		case nsvc >= 17:
			nb = "n17-32"
		case nsvc >= 6:
			nb = "n6-16"
		}
		run.Feature(fmt.Sprintf("concurrent,%s,%s,ties=%v,devids=%v,procs=%d", nb, uuidClass, hasTies, c.Devices, c.Procs))
		if i < 2 {
			run.Sample(c)
		}
	})
}
