//go:build verif

package main

// C07, keepstore part, stream "remote": the route handleGET takes for
// locators with a +R<cluster>-<sig>@<exp> hint and no +A hint. By design the
// local VerifySignature is bypassed there: the remote cluster is expected to
// verify the signature for the caller's (salted) token. So on this route
// "returns block data only for locators carrying a valid unexpired signature
// for the requesting token" reads: data, and (with X-Keep-Signature: local) a
// local signature, are handed out only if, while this request was being
// served, the remote cluster verified a signature for exactly this hash and
// this caller's token and delivered the block.
//
// The remote cluster is a stub (TLS API stub for service discovery + a Keep
// service) that decides with the reference verifier of verifkit/c07ref.go
// under its own key/TTL and records every grant (hash, token it was given).
// The oracle looks at that record only; it does not depend on what is or is
// not stored on the local volume, which users came before, the method, or the
// X-Keep-Signature header — those are the quantified-over inputs.

import (
	"bytes"
	"encoding/hex"
	"encoding/json"
	"fmt"
	"io/ioutil"
	"net"
	"net/http"
	"os"
	"strconv"
	"strings"
	"sync"
	"testing"
	"time"

	"git.arvados.org/arvados.git/internal/c19kit"
	"git.arvados.org/arvados.git/internal/verifkit"
	"git.arvados.org/arvados.git/sdk/go/arvados"
)

type c07RemStep struct {
	Who    string `json:"who"`    // A | B | none
	Method string `json:"method"` // GET | HEAD
	Pres   string `json:"presentation"`
	Loc    string `json:"loc"`
	XKS    string `json:"x_keep_signature"`
}

type c07RemCase struct {
	DataSeed     uint64            `json:"data_seed"`
	LenA         int               `json:"len_a"`
	LenB         int               `json:"len_b"`
	TokA         string            `json:"token_a"`
	TokB         string            `json:"token_b"`
	BClass       string            `json:"token_b_class"`
	LocalKeyHex  string            `json:"local_key_hex"`
	LocalTTLNs   int64             `json:"local_ttl_ns"`
	RemoteKeyHex map[string]string `json:"remote_key_hex"`
	RemoteTTLNs  map[string]int64  `json:"remote_ttl_ns"`
	RemoteHas    bool              `json:"remote_has_block"`
	RefuseWith   int               `json:"remote_refuses_with"`
	Stored       bool              `json:"block_stored_locally_at_start"`
	Now          int64             `json:"now_unix"`
	Steps        []c07RemStep      `json:"steps"`
}

// c07RemGrant is one block the stub remote delivered: the remote's own
// (reference) verification of the presented signature for the presented
// token succeeded.
type c07RemGrant struct {
	remote, hash, token string
}

type c07RemHub struct {
	mu      sync.Mutex
	key     map[string][]byte
	ttl     map[string]time.Duration
	blocks  map[string][]byte
	refuse  int
	now     int64
	grants  []c07RemGrant
	asked   int
	refused int
}

func (h *c07RemHub) respond(remote string, r *c19kit.Req) (int, string) {
	h.mu.Lock()
	defer h.mu.Unlock()
	h.asked++
	tok := ""
	if a := strings.Fields(r.Header.Get("Authorization")); len(a) == 2 {
		tok = a[1]
	}
	loc := strings.TrimPrefix(r.RequestURI, "/")
	if (r.Method == "GET" || r.Method == "HEAD") && len(loc) >= 32 {
		hash := loc[:32]
		data, has := h.blocks[hash]
		if has && tok != "" && verifkit.C07Expect(loc, tok, h.ttl[remote], h.key[remote], h.now).MustVerify {
			h.grants = append(h.grants, c07RemGrant{remote, hash, tok})
			return 200, string(data)
		}
	}
	h.refused++
	return h.refuse, "refused\n"
}

func (h *c07RemHub) take() (grants []c07RemGrant, asked int) {
	h.mu.Lock()
	defer h.mu.Unlock()
	grants, asked = h.grants, h.asked
	h.grants, h.asked = nil, 0
	return
}

// c07RefSalted is the form in which a v2 token is presented to cluster
// `remote` (secret replaced by hex HMAC-SHA1(key=secret, msg=remote)); ok is
// false for tokens that have no salted form.
func c07RefSalted(token, remote string) (string, bool) {
	p := strings.Split(token, "/")
	if len(p) != 3 || p[0] != "v2" || p[1] == "" || p[2] == "" {
		return "", false
	}
	return "v2/" + p[1] + "/" + verifkit.C07HMACSHA1Hex([]byte(p[2]), []byte(remote)), true
}

var c07RemIDs = []string{"zr111", "zr222"}

const c07RemAlnum = "abcdefghijklmnopqrstuvwxyz0123456789"

func c07RemoteStream(t *testing.T, run *verifkit.Run, hs *vkHTTP, root string, baseCluster *arvados.Cluster) {
	hub := &c07RemHub{}
	remotes := map[string]arvados.RemoteCluster{}
	for _, id := range c07RemIDs {
		id := id
		ks, err := c19kit.NewStub(false)
		if err != nil {
			t.Fatal(err)
		}
		defer ks.Close()
		ks.Respond = func(r *c19kit.Req) (int, string) { return hub.respond(id, r) }
		host, port, _ := net.SplitHostPort(ks.Addr)
		portnum, _ := strconv.Atoi(port)
		svcs := []arvados.KeepService{{UUID: id + "-bi6l4-proxyproxyproxy", ServiceType: "proxy", ServiceHost: host, ServicePort: portnum}}
		as, err := c19kit.NewStub(true)
		if err != nil {
			t.Fatal(err)
		}
		defer as.Close()
		as.Respond = func(r *c19kit.Req) (int, string) {
			if strings.HasPrefix(r.RequestURI, "/arvados/v1/keep_services/accessible") {
				b, _ := json.Marshal(arvados.KeepServiceList{Items: svcs})
				return 200, string(b)
			}
			b, _ := json.Marshal(arvados.DiscoveryDocument{})
			return 200, string(b)
		}
		remotes[id] = arvados.RemoteCluster{Host: as.Addr, Proxy: true, Scheme: "https", Insecure: true}
	}
	vols := []vkVol{{UUID: "zzzzz-nyw5e-000000000000c07", Root: root}}

	do := func(method, loc, token, xks string) vkResp {
		req, err := http.NewRequest(method, hs.srv.URL+"/"+loc, nil)
		if err != nil {
			return vkResp{Err: err}
		}
		if token != "" {
			req.Header.Set("Authorization", "OAuth2 "+token)
		}
		if xks != "" {
			req.Header.Set("X-Keep-Signature", xks)
		}
		resp, err := hs.cl.Do(req)
		if err != nil {
			return vkResp{Err: err}
		}
		defer resp.Body.Close()
		b, err := ioutil.ReadAll(resp.Body)
		return vkResp{Status: resp.StatusCode, Body: b, Header: resp.Header, Err: err}
	}

	var nCases, nGrantedServed, nUngrantedLocalXKS, nLocalSigChecked int

	run.Cases("remote", run.N(240, 2400), func(i int, rng *verifkit.Rand) {
		now := time.Now().Unix()
		var c c07RemCase
		c.Now = now
		c.DataSeed = rng.Uint64()
		c.LenA, c.LenB = rng.Range(8, 300), rng.Range(8, 300)
		dr := verifkit.NewRand(c.DataSeed)
		dataA, dataB := dr.Bytes(c.LenA), dr.Bytes(c.LenB)
		hashA, hashB := verifkit.MD5Hex(dataA), verifkit.MD5Hex(dataB)
		data := map[string][]byte{hashA: dataA, hashB: dataB}

		mkTok := func() string {
			return "v2/zzzzz-gj3su-" + rng.String(15, c07RemAlnum) + "/s" + rng.String(rng.Range(20, 50), c07RemAlnum)
		}
		c.TokA = mkTok()
		switch rng.Intn(10) {
		case 0:
			c.BClass, c.TokB = "legacy", rng.String(rng.Range(40, 50), c07RemAlnum)
		case 1:
			c.BClass = "same-uuid"
			p := strings.Split(c.TokA, "/")
			c.TokB = "v2/" + p[1] + "/s" + rng.String(rng.Range(20, 50), c07RemAlnum)
		default:
			c.BClass, c.TokB = "v2", mkTok()
		}
		toks := map[string]string{"A": c.TokA, "B": c.TokB, "none": ""}

		// local cluster: its own key; TTL >= 2 h so that a freshly issued local
		// signature is not within the no-verdict band around "now"
		localKey := rng.Bytes(rng.Range(1, 80))
		c.LocalKeyHex = hex.EncodeToString(localKey)
		c.LocalTTLNs = int64(rng.PickInt(7200, 86400, 1209600, rng.Range(7200, 400000000)))*1e9 + int64(rng.PickInt(0, 0, 1, 500e6))
		localTTL := time.Duration(c.LocalTTLNs)
		// remote clusters: own keys and TTLs
		c.RemoteKeyHex, c.RemoteTTLNs = map[string]string{}, map[string]int64{}
		rkey, rttl := map[string][]byte{}, map[string]time.Duration{}
		for _, id := range c07RemIDs {
			rkey[id] = rng.Bytes(rng.Range(1, 80))
			rttl[id] = time.Duration(int64(rng.PickInt(1, 300, 1209600, rng.Range(1, 400000000)))*1e9 + int64(rng.PickInt(0, 0, 999e6)))
			c.RemoteKeyHex[id], c.RemoteTTLNs[id] = hex.EncodeToString(rkey[id]), int64(rttl[id])
		}
		c.RemoteHas = rng.Chance(5, 6)
		c.RefuseWith = rng.PickInt(404, 404, 403, 401)
		c.Stored = rng.Bool()

		// steps
		future := now + verifkit.C07Margin + int64(rng.Range(60, 1000000))
		past := now - verifkit.C07Margin - int64(rng.Range(60, 1000000))
		rhint := func(remote, hash, tok string, exp int64) string {
			salted, ok := c07RefSalted(tok, remote)
			if !ok {
				salted = tok
			}
			return "R" + remote + "-" + verifkit.C07RefHint(rkey[remote], hash, salted, exp, rttl[remote])[1:]
		}
		nsteps := rng.Range(8, 14)
		for s := 0; s < nsteps; s++ {
			var st c07RemStep
			st.Who = rng.PickStr("A", "A", "B", "B", "B", "none")
			st.Method = rng.PickStr("GET", "GET", "HEAD")
			st.XKS = rng.PickStr("", "local", "local", "local, time="+time.Unix(now, 0).UTC().Format(time.RFC3339))
			remote := c07RemIDs[rng.Intn(len(c07RemIDs))]
			me, other := toks[st.Who], c.TokB
			if st.Who != "A" {
				other = c.TokA
			}
			if st.Who == "none" {
				me = c.TokB
			}
			hash, dlen := hashA, len(dataA)
			var hint string
			st.Pres = rng.PickStr("valid", "valid", "valid", "valid", "replayed", "replayed", "made-up", "zeros", "sig-char", "expired", "other-hash", "other-hash", "unknown-remote", "malformed-R", "other-remote")
			switch st.Pres {
			case "valid":
				hint = rhint(remote, hash, me, future)
			case "replayed": // a hint the remote issued to somebody else
				hint = rhint(remote, hash, other, future)
			case "made-up":
				hint = "R" + remote + "-" + rng.Hex(40) + "@" + verifkit.C07ExpHex(future)
			case "zeros":
				hint = "R" + remote + "-" + strings.Repeat("0", 40) + "@ffffffff"
			case "sig-char":
				hint = rhint(remote, hash, me, future)
				k := 7 + rng.Intn(40)
				ch := "0123456789abcdef"[rng.Intn(16)]
				for ch == hint[k] {
					ch = "0123456789abcdef"[rng.Intn(16)]
				}
				hint = hint[:k] + string(ch) + hint[k+1:]
			case "expired":
				hint = rhint(remote, hash, me, past)
			case "other-hash": // a valid hint for one block on the locator of another
				if rng.Bool() {
					hint = rhint(remote, hashB, me, future)
				} else {
					hash, dlen = hashB, len(dataB)
					hint = rhint(remote, hashA, me, future)
				}
			case "unknown-remote":
				hint = "Rzq999-" + rhint(remote, hash, me, future)[7:]
			case "malformed-R":
				hint = rng.PickStr("R", "R"+remote, "R"+remote+"-", "R"+rhint(remote, hash, me, future)[7:], "Rzr1-"+rhint(remote, hash, me, future)[7:])
			case "other-remote": // issued by one remote cluster, attributed to the other
				o := c07RemIDs[0]
				if o == remote {
					o = c07RemIDs[1]
				}
				hint = "R" + o + "-" + rhint(remote, hash, me, future)[7:]
			}
			st.Loc = hash
			if rng.Chance(4, 5) {
				st.Loc += "+" + strconv.Itoa(dlen)
			}
			if rng.Chance(1, 6) {
				st.Loc += "+K@" + rng.String(5, "abcdefghijklmnopqrstuvwxyz")
			}
			st.Loc += "+" + hint
			if rng.Chance(1, 8) {
				st.Loc += "+Z" + rng.String(rng.Range(0, 6), c07RemAlnum)
			}
			c.Steps = append(c.Steps, st)
		}
		run.Input(c, false)
		nCases++

		cl := *baseCluster
		cluster := &cl
		cluster.Collections.BlobSigning = true
		cluster.Collections.BlobSigningKey = string(localKey)
		cluster.Collections.BlobSigningTTL = arvados.Duration(localTTL)
		cluster.RemoteClusters = remotes
		srv := vkNewServer(t, cluster, vols, false)
		defer srv.Close()
		hs.Set(srv.handler)

		hub.mu.Lock()
		hub.key, hub.ttl, hub.now, hub.refuse = rkey, rttl, now, c.RefuseWith
		hub.blocks = map[string][]byte{hashB: dataB}
		if c.RemoteHas {
			hub.blocks[hashA] = dataA
		}
		hub.grants, hub.asked = nil, 0
		hub.mu.Unlock()

		defer os.Remove(vkBlockPath(root, hashA))
		defer os.Remove(vkBlockPath(root, hashB))
		if c.Stored {
			vkPlant(t, root, hashA, dataA, time.Time{})
		}
		vkPlant(t, root, hashB, dataB, time.Time{})

		leaks := func(body []byte) bool {
			for _, d := range data {
				if bytes.Contains(body, d) {
					return true
				}
			}
			return false
		}
		nGranted := 0
		for k, st := range c.Steps {
			tok := toks[st.Who]
			hash := st.Loc[:32]
			_, statErr := os.Stat(vkBlockPath(root, hash))
			blockState := "local"
			if statErr != nil {
				blockState = "absent"
			}
			xksClass := "none"
			if st.XKS != "" {
				xksClass = "local"
			}
			hub.take()
			r := do(st.Method, st.Loc, tok, st.XKS)
			grants, asked := hub.take()
			run.Eval(1)
			// the remote verified exactly this hash for exactly this caller's token
			granted := false
			for _, g := range grants {
				if salted, ok := c07RefSalted(tok, g.remote); ok && g.hash == hash && g.token == salted {
					granted = true
				}
			}
			run.Count(fmt.Sprintf("remote:%s:granted=%v:%d", st.Pres, granted, r.Status), 1)
			run.Count("remote_keep_requests_received", asked)
			in := map[string]interface{}{"case": c, "step": k}
			detail := func() string {
				return fmt.Sprintf("step %d: %s /%s as %s (token %q) X-Keep-Signature=%q, block %s on the local volume beforehand -> %d %q X-Keep-Locator=%q; remote cluster was asked %d time(s) and granted %v during this request (local key %s ttl %v; now %d)",
					k, st.Method, st.Loc, st.Who, tok, st.XKS, blockState, r.Status, c07Trunc(r.Body), r.Header.Get("X-Keep-Locator"), asked, grants, c.LocalKeyHex, localTTL, now)
			}
			if r.Err != nil && r.Status == 0 {
				run.Violation("C07:keepstore:remote-route:transport:"+st.Pres, detail()+" transport error "+r.Err.Error(), in)
				continue
			}
			xkl := r.Header.Get("X-Keep-Locator")
			var xe verifkit.C07Exp
			if xkl != "" {
				xe = verifkit.C07Expect(xkl, tok, localTTL, localKey, now)
			}
			if !granted {
				if blockState == "local" && xksClass == "local" {
					nUngrantedLocalXKS++
				}
				var what []string
				if r.Status/100 == 2 {
					what = append(what, "status-2xx")
				}
				if leaks(r.Body) {
					what = append(what, "data")
				}
				if xkl != "" && (xe.MustVerify || xe.NearNow) {
					what = append(what, "local-signature")
				}
				if len(what) > 0 {
					// what the remote cluster did: never consulted (the
					// presentation is then immaterial) | consulted and refused |
					// delivered, but another hash or to another token
					rc := "remote-not-asked"
					if len(grants) > 0 {
						rc = "remote-verified-something-else:" + st.Pres
					} else if asked > 0 {
						rc = "remote-refused:" + st.Pres
					}
					run.Violation("C07:keepstore:remote-route:served-without-remote-verification:"+strings.Join(what, "+")+":"+rc+":block-"+blockState+":xks-"+xksClass, detail(), in)
				}
				continue
			}
			// granted: the remote cluster verified and delivered
			nGranted++
			if r.Status != 200 || (st.Method == "GET" && !bytes.Equal(r.Body, data[hash])) {
				// the statement does not say that the remote route must succeed
				run.Count("remote_granted_but_not_served_unjudged", 1)
				run.Note("remote route: granted request not served: " + detail())
				continue
			}
			nGrantedServed++
			if xksClass != "local" {
				if xkl != "" {
					run.Count("remote_unrequested_local_signature_unjudged", 1)
				}
				continue
			}
			// the local signature handed out must be the reference signature for
			// this hash, this token, the local key and TTL
			run.Eval(1)
			if xkl == "" {
				run.Count("remote_local_signature_not_returned_unjudged", 1)
				continue
			}
			if !strings.HasPrefix(xkl, hash) {
				run.Violation("C07:keepstore:remote-route:local-signature-for-another-hash", detail(), in)
				continue
			}
			if xe.NearNow {
				run.Count("skipped_near_now", 1)
				continue
			}
			if !xe.MustVerify {
				run.Violation("C07:keepstore:remote-route:local-signature-differs-from-reference:"+xe.Class, detail(), in)
				continue
			}
			nLocalSigChecked++
			// ... and it works for this caller only
			for _, who := range []string{st.Who, "other", "none"} {
				t2 := tok
				switch who {
				case "other":
					t2 = c.TokB
					if st.Who == "B" {
						t2 = c.TokA
					}
				case "none":
					t2 = ""
				}
				r2 := do("GET", xkl, t2, "")
				run.Eval(1)
				d2 := fmt.Sprintf("%s; then GET /%s with token %q -> %d %q", detail(), xkl, t2, r2.Status, c07Trunc(r2.Body))
				if who == st.Who {
					if r2.Status != 200 || !bytes.Equal(r2.Body, data[hash]) {
						run.Violation("C07:keepstore:valid-locator-refused:remote-route-local-signature", d2, in)
					}
				} else if r2.Status/100 == 2 || leaks(r2.Body) {
					run.Violation("C07:keepstore:data-served-without-valid-signature:remote-route-local-signature:"+who+"-token", d2, in)
				}
			}
		}
		st := "absent"
		if c.Stored {
			st = "stored"
		}
		run.Feature(fmt.Sprintf("remote,%s,remote-has=%v,refuse=%d,tokB=%s,granted=%v", st, c.RemoteHas, c.RefuseWith, c.BClass, nGranted > 0))
		if i < 2 {
			run.Sample(c)
		}
	})

	run.Count("remote_granted_and_served", nGrantedServed)
	run.Count("remote_ungranted_with_block_local_and_xks_local", nUngrantedLocalXKS)
	run.Count("remote_local_signatures_checked", nLocalSigChecked)
	if nCases >= 10 && !run.Replaying() {
		if nGrantedServed == 0 || nLocalSigChecked == 0 {
			run.Inconclusive(fmt.Sprintf("remote stream: %d cases but %d verified requests served, %d local signatures checked (stub remote unreachable?)", nCases, nGrantedServed, nLocalSigChecked))
		}
		if nUngrantedLocalXKS == 0 {
			run.Inconclusive(fmt.Sprintf("remote stream: %d cases but no unverified request with X-Keep-Signature: local met a locally stored block", nCases))
		}
	}
}
