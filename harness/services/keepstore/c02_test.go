//go:build verif

package main

// C02 — keepstore PUT is all-or-nothing and survives process death once
// acknowledged. See /verif/DESIGN.md §5 C02.
//
// For each scenario a trace child lists the yield points of one PUT; then for
// EVERY k a child process is SIGKILLed at its k-th yield point (plus one
// killed right after it recorded the acknowledgement) and the parent — "a new
// process started on the same volumes" — evaluates A1–A4. The cancellation
// variant fires the response's CloseNotify at point k in-process.

import (
	"bytes"
	"encoding/json"
	"fmt"
	"io/ioutil"
	"net/http"
	"net/http/httptest"
	"os"
	"os/exec"
	"path/filepath"
	"regexp"
	"sort"
	"strconv"
	"strings"
	"sync"
	"sync/atomic"
	"syscall"
	"testing"
	"time"

	"git.arvados.org/arvados.git/internal/verifkit"
)

type c02Scenario struct {
	Size  int    `json:"size"`
	NVol  int    `json:"nvol"`
	Pre   string `json:"pre"` // none | intact_same | corrupt_same | corrupt_other | intact_other_ro
	Cseed uint64 `json:"content_seed"`
}

type c02ChildSpec struct {
	Scenario c02Scenario `json:"scenario"`
	Dir      string      `json:"dir"`
	Mode     string      `json:"mode"` // trace | kill | killafterack
	K        int         `json:"k"`
}

type c02Fixture struct {
	Data []byte
}

var c02BlockNameRe = regexp.MustCompile(`^[0-9a-f]{32}$`)

func c02Data(sc c02Scenario) ([]byte, string) {
	d := verifkit.NewRand(sc.Cseed).Bytes(sc.Size)
	return d, verifkit.MD5Hex(d)
}

// c02Vols: volume 0 is the one NextWritable() picks first for a single PUT
// is not guaranteed (round robin counter starts at 1), so "same"/"other" are
// defined relative to where a fixture is planted, and both placements are
// generated.
func c02Setup(t testing.TB, sc c02Scenario, dir string) (vols []vkVol, fixtures map[string][]byte) {
	fixtures = map[string][]byte{}
	data, h := c02Data(sc)
	old := time.Now().Add(-100 * time.Hour)
	for v := 0; v < sc.NVol; v++ {
		root := filepath.Join(dir, fmt.Sprintf("v%d", v))
		os.MkdirAll(root, 0755)
		vols = append(vols, vkVol{UUID: fmt.Sprintf("zzzzz-nyw5e-%015d", v), Root: root})
	}
	corrupt := func() []byte {
		if len(data) == 0 {
			return []byte("not-empty")
		}
		c := append([]byte(nil), data...)
		c[len(c)/2] ^= 0x10
		if len(c) > 4 {
			c = c[:len(c)-1-len(c)/3] // truncated as well: a different size
		}
		return c
	}
	plant := func(v int, b []byte) {
		vkPlant(t, vols[v].Root, h, b, old)
		fixtures[filepath.Join(fmt.Sprintf("v%d", v), h[:3], h)] = b
	}
	switch sc.Pre {
	case "none":
	case "intact_first":
		plant(0, data)
	case "intact_last":
		plant(sc.NVol-1, data)
	case "corrupt_first":
		plant(0, corrupt())
	case "corrupt_last":
		plant(sc.NVol-1, corrupt())
	case "corrupt_all":
		for v := 0; v < sc.NVol; v++ {
			plant(v, corrupt())
		}
	case "extended_first":
		// the correct bytes followed by garbage
		plant(0, append(append([]byte(nil), data...), []byte("trailing garbage")...))
	case "extended_all":
		for v := 0; v < sc.NVol; v++ {
			plant(v, append(append([]byte(nil), data...), byte('x')))
		}
	}
	return
}

// TestVerifC02Child is the process that gets killed.
func TestVerifC02Child(t *testing.T) {
	specPath := os.Getenv("VERIF_C02_CHILD")
	if specPath == "" {
		return
	}
	b, err := ioutil.ReadFile(specPath)
	if err != nil {
		t.Fatal(err)
	}
	var spec c02ChildSpec
	if err := json.Unmarshal(b, &spec); err != nil {
		t.Fatal(err)
	}
	sc := spec.Scenario
	data, h := c02Data(sc)
	var vols []vkVol
	for v := 0; v < sc.NVol; v++ {
		vols = append(vols, vkVol{UUID: fmt.Sprintf("zzzzz-nyw5e-%015d", v), Root: filepath.Join(spec.Dir, fmt.Sprintf("v%d", v))})
	}
	cluster := vkCluster(t)
	srv := vkNewServer(t, cluster, vols, false)
	hs := vkNewHTTP()
	hs.Set(srv.handler)

	var mu sync.Mutex
	var trace []string
	var count int
	verifSetHook(func(label string) {
		mu.Lock()
		count++
		n := count
		trace = append(trace, label)
		mu.Unlock()
		if spec.Mode == "kill" && n == spec.K {
			// record where we died (best effort; the parent does not depend on it)
			ioutil.WriteFile(filepath.Join(spec.Dir, "killed_at"), []byte(label), 0644)
			syscall.Kill(os.Getpid(), syscall.SIGKILL)
			select {}
		}
	})
	if spec.Mode == "sys" || spec.Mode == "systrace" {
		// syskill stream (c02sys_test.go): the parent attaches strace while we
		// wait, then the PUT is served without sockets so that every write
		// call the tracer counts is a file write.
		if spec.Mode == "systrace" {
			verifSetHook(func(label string) { os.Stat("/.verif-point/" + label) })
		} else {
			verifSetHook(nil)
		}
		ioutil.WriteFile(filepath.Join(spec.Dir, "ready"), []byte(strconv.Itoa(os.Getpid())), 0644)
		for {
			if _, err := os.Stat(filepath.Join(spec.Dir, "go")); err == nil {
				break
			}
			time.Sleep(time.Millisecond)
		}
		req := httptest.NewRequest("PUT", "/"+h, bytes.NewReader(data))
		req.ContentLength = int64(len(data))
		req.Header.Set("Authorization", "OAuth2 "+vkRootToken)
		rec := &c02Recorder{ResponseRecorder: httptest.NewRecorder(), cn: make(chan bool)}
		srv.handler.ServeHTTP(rec, req)
		if rec.Code == 200 {
			ioutil.WriteFile(filepath.Join(spec.Dir, "acked"), rec.Body.Bytes(), 0644)
		} else {
			ioutil.WriteFile(filepath.Join(spec.Dir, "refused"), []byte(fmt.Sprintf("%d %s", rec.Code, rec.Body.Bytes())), 0644)
		}
		return
	}
	r := hs.Do("PUT", "/"+h, data, vkRootToken)
	if r.Status == 200 {
		// the acknowledgement has been received by the client
		ioutil.WriteFile(filepath.Join(spec.Dir, "acked"), r.Body, 0644)
		if spec.Mode == "killafterack" {
			syscall.Kill(os.Getpid(), syscall.SIGKILL)
			select {}
		}
	} else {
		ioutil.WriteFile(filepath.Join(spec.Dir, "refused"), []byte(fmt.Sprintf("%d %s %v", r.Status, r.Body, r.Err)), 0644)
	}
	if spec.Mode == "trace" {
		mu.Lock()
		tb, _ := json.Marshal(trace)
		mu.Unlock()
		ioutil.WriteFile(filepath.Join(spec.Dir, "trace.json"), tb, 0644)
	}
}

func c02RunChild(t testing.TB, spec c02ChildSpec) (killed bool, out []byte, err error) {
	specPath := filepath.Join(spec.Dir, "spec.json")
	b, _ := json.Marshal(spec)
	if err := ioutil.WriteFile(specPath, b, 0644); err != nil {
		return false, nil, err
	}
	exe, err := os.Executable()
	if err != nil {
		return false, nil, err
	}
	cmd := exec.Command(exe, "-test.run", "^TestVerifC02Child$", "-test.count", "1", "-test.timeout", "0")
	cmd.Env = append(os.Environ(), "VERIF_C02_CHILD="+specPath, "VERIF_OUT=", "GOTRACEBACK=all")
	var buf bytes.Buffer
	cmd.Stdout = &buf
	cmd.Stderr = &buf
	if err := cmd.Start(); err != nil {
		return false, nil, err
	}
	done := make(chan error, 1)
	go func() { done <- cmd.Wait() }()
	select {
	case werr := <-done:
		if werr != nil {
			if ee, ok := werr.(*exec.ExitError); ok {
				if ws, ok := ee.Sys().(syscall.WaitStatus); ok && ws.Signaled() && ws.Signal() == syscall.SIGKILL {
					return true, buf.Bytes(), nil
				}
			}
			return false, buf.Bytes(), werr
		}
		return false, buf.Bytes(), nil
	case <-time.After(5 * time.Minute):
		cmd.Process.Kill()
		<-done
		return false, buf.Bytes(), fmt.Errorf("child watchdog")
	}
}

type c02Verdict struct {
	sig, detail string
}

// c02Judge evaluates A1–A4 on the volume directories with a NEW server
// instance. acked: the client saw 200.
func c02Judge(t testing.TB, sc c02Scenario, dir string, fixtures map[string][]byte, acked bool, hs *vkHTTP, phase string) (viol []c02Verdict, evals int) {
	// quiescent=false: a cancelled write may still be running while we look.
	// Block-named files only ever appear complete (by rename), so the index
	// is fetched BEFORE the disk is walked and only "index ⊆ disk" is judged.
	quiescent := phase != "right-after-cancel"
	data, h := c02Data(sc)
	var vols []vkVol
	for v := 0; v < sc.NVol; v++ {
		vols = append(vols, vkVol{UUID: fmt.Sprintf("zzzzz-nyw5e-%015d", v), Root: filepath.Join(dir, fmt.Sprintf("v%d", v))})
	}
	cluster := vkCluster(t)
	srv := vkNewServer(t, cluster, vols, false)
	defer srv.Close()
	hs.Set(srv.handler)
	add := func(sig, detail string) { viol = append(viol, c02Verdict{sig + ":" + phase, detail}) }

	// A1 / A2
	r := hs.Do("GET", "/"+h, nil, vkRootToken)
	evals++
	if r.Status == 200 {
		if !bytes.Equal(r.Body, data) {
			kind := "partial-or-mixed"
			if len(r.Body) < len(data) && bytes.Equal(r.Body, data[:len(r.Body)]) {
				kind = "truncated"
			}
			add("C02:A2:get200-wrong-data:"+kind, fmt.Sprintf("GET 200 returned %d bytes (md5 %s), block is %d bytes (md5 %s)", len(r.Body), verifkit.MD5Hex(r.Body), len(data), h))
		}
	} else if acked {
		add("C02:A1:acked-block-not-retrievable", fmt.Sprintf("PUT was acknowledged (200) but a new server answers GET with %d %q", r.Status, strings.TrimSpace(string(r.Body))))
	}

	ri := hs.Do("GET", "/index", nil, vkRootToken)
	// A3 / A4: files on disk
	type fent struct {
		rel  string
		size int64
	}
	var blockFiles []fent
	for v := 0; v < sc.NVol; v++ {
		root := filepath.Join(dir, fmt.Sprintf("v%d", v))
		filepath.Walk(root, func(p string, info os.FileInfo, err error) error {
			if err != nil || info.IsDir() {
				return nil
			}
			rel, _ := filepath.Rel(dir, p)
			if !c02BlockNameRe.MatchString(info.Name()) {
				return nil
			}
			b, _ := ioutil.ReadFile(p)
			blockFiles = append(blockFiles, fent{rel, int64(len(b))})
			evals++
			if fx, ok := fixtures[rel]; ok && bytes.Equal(fx, b) {
				return nil
			}
			if info.Name() == h && bytes.Equal(b, data) {
				return nil
			}
			kind := "unexpected-content"
			if len(b) < len(data) && bytes.Equal(b, data[:len(b)]) {
				kind = "partial"
			} else if _, ok := fixtures[rel]; ok {
				kind = "fixture-modified"
			}
			add("C02:A3:block-named-file-incomplete:"+kind, fmt.Sprintf("file %s has %d bytes (md5 %s): neither the untouched fixture nor the complete block (%d bytes)", rel, len(b), verifkit.MD5Hex(b), len(data)))
			return nil
		})
	}
	// index
	evals++
	if ri.Status != 200 {
		add("C02:A3:index-failed", fmt.Sprintf("GET /index answered %d", ri.Status))
	} else {
		want := map[string]int{}
		for _, f := range blockFiles {
			want[fmt.Sprintf("%s+%d", filepath.Base(f.rel), f.size)]++
		}
		got := map[string]int{}
		body := string(ri.Body)
		if !strings.HasSuffix(body, "\n") || (len(body) > 1 && !strings.HasSuffix(body, "\n\n")) {
			add("C02:A3:index-not-terminated", fmt.Sprintf("index response lacks the terminating blank line: %q", body))
		}
		for _, line := range strings.Split(strings.TrimRight(body, "\n"), "\n") {
			if line == "" {
				continue
			}
			fields := strings.Fields(line)
			got[fields[0]]++
		}
		var diffs []string
		if quiescent {
			for k, n := range want {
				if got[k] != n {
					diffs = append(diffs, fmt.Sprintf("on disk %s x%d, index x%d", k, n, got[k]))
				}
			}
			for k, n := range got {
				if want[k] == 0 {
					diffs = append(diffs, fmt.Sprintf("index lists %s x%d which is no complete block file on disk", k, n))
				}
			}
		} else {
			// A cancelled write may still be finishing: between the index and the
			// disk walk a fixture may have been replaced by the complete block
			// (rename), so the two snapshots need not agree. Every index entry is
			// judged on its own: it must name the block with the size of the
			// complete block or of an untouched fixture of that name.
			allowed := map[string]bool{fmt.Sprintf("%s+%d", h, len(data)): true}
			for rel, fx := range fixtures {
				allowed[fmt.Sprintf("%s+%d", filepath.Base(rel), len(fx))] = true
			}
			for k, n := range got {
				if !allowed[k] {
					diffs = append(diffs, fmt.Sprintf("index lists %s x%d: neither the complete block nor an untouched pre-existing copy", k, n))
				}
			}
		}
		sort.Strings(diffs)
		if len(diffs) > 0 {
			add("C02:A3A4:index-disagrees-with-disk", strings.Join(diffs, "; ")+"; index="+body)
		}
	}
	return
}

func c02Scenarios(thorough bool) []c02Scenario {
	sizes := []int{0, 1, 100 << 10, 300 << 10}
	if thorough {
		sizes = append(sizes, 1<<20+512<<10, 40000)
	}
	pres := []string{"none", "intact_first", "intact_last", "corrupt_first", "corrupt_last", "corrupt_all", "extended_first", "extended_all"}
	var out []c02Scenario
	for _, sz := range sizes {
		for _, nv := range []int{1, 2} {
			for _, pre := range pres {
				if nv == 1 && (pre == "intact_last" || pre == "corrupt_last" || pre == "corrupt_all" || pre == "extended_all") {
					continue
				}
				out = append(out, c02Scenario{Size: sz, NVol: nv, Pre: pre})
			}
		}
	}
	return out
}

func TestVerifC02(t *testing.T) {
	run := verifkit.Start(t, "C02")
	defer run.Finish()
	hs := vkNewHTTP()
	defer hs.Close()
	base, err := ioutil.TempDir("", "verif-c02-")
	if err != nil {
		t.Fatal(err)
	}
	defer os.RemoveAll(base)

	all := c02Scenarios(run.Thorough())
	// quick: a seed-chosen half of the scenario list (every size and pre-state
	// still appears); thorough: all of them
	var scenarios []c02Scenario
	if run.Thorough() {
		scenarios = all
	} else {
		// a seed-chosen quarter of the list plus two fixed anchors; over four
		// consecutive seeds every scenario is run
		off := int(run.Seed() % 4)
		for i, sc := range all {
			anchor := (sc.Size == 300<<10 && sc.NVol == 1 && sc.Pre == "none") || (sc.Size == 100<<10 && sc.NVol == 2 && sc.Pre == "corrupt_all")
			if i%4 == off || anchor {
				scenarios = append(scenarios, sc)
			}
		}
	}
	dirNo := int64(0)
	newDir := func() string {
		d := filepath.Join(base, fmt.Sprintf("d%d", atomic.AddInt64(&dirNo, 1)))
		os.MkdirAll(d, 0755)
		return d
	}
	var judgeMu sync.Mutex // hs handler is shared: one judgement at a time

	run.Cases("kill", len(scenarios), func(i int, rng *verifkit.Rand) {
		sc := scenarios[i]
		sc.Cseed = rng.Uint64()
		run.Input(sc, false)
		// ---- trace
		tdir := newDir()
		_, _ = c02Setup(t, sc, tdir)
		_, out, err := c02RunChild(t, c02ChildSpec{Scenario: sc, Dir: tdir, Mode: "trace"})
		if err != nil {
			run.Inconclusive(fmt.Sprintf("trace child failed: %v: %s", err, firstN(out, 400)))
			return
		}
		var trace []string
		tb, err := ioutil.ReadFile(filepath.Join(tdir, "trace.json"))
		if err != nil || json.Unmarshal(tb, &trace) != nil {
			run.Inconclusive(fmt.Sprintf("trace child wrote no trace: %s", firstN(out, 400)))
			return
		}
		_, ackErr := os.Stat(filepath.Join(tdir, "acked"))
		if ackErr != nil {
			rb, _ := ioutil.ReadFile(filepath.Join(tdir, "refused"))
			// a fault-free PUT with a writable volume should be acknowledged; if
			// not, the scenario cannot exercise the write path
			run.Inconclusive(fmt.Sprintf("fault-free PUT not acknowledged in scenario %+v: %s", sc, rb))
			return
		}
		os.RemoveAll(tdir)
		n := len(trace)
		if n == 0 {
			run.Inconclusive(fmt.Sprintf("PUT in scenario %+v met no yield point: instrumentation lost", sc))
			return
		}
		kinds := map[string]bool{}
		for _, l := range trace {
			kinds[l] = true
			run.Count("point:"+strings.SplitN(l, "#", 2)[0], 1)
		}
		wrote := false
		for l := range kinds {
			if strings.HasPrefix(l, "WriteBlock.") {
				wrote = true
			}
		}
		if sc.Pre == "none" && !wrote {
			run.Inconclusive("a PUT of a new block traversed no WriteBlock yield point")
		}
		run.CountMax("max_points_in_one_put", n)

		// ---- every kill point, plus kill right after the ack
		type job struct {
			mode string
			k    int
		}
		var jobs []job
		for k := 1; k <= n; k++ {
			jobs = append(jobs, job{"kill", k})
		}
		jobs = append(jobs, job{"killafterack", 0})
		var wg sync.WaitGroup
		sem := make(chan bool, 3)
		for _, j := range jobs {
			wg.Add(1)
			go func(j job) {
				defer wg.Done()
				sem <- true
				defer func() { <-sem }()
				dir := newDir()
				defer os.RemoveAll(dir)
				_, fixtures := c02Setup(t, sc, dir)
				killed, out, err := c02RunChild(t, c02ChildSpec{Scenario: sc, Dir: dir, Mode: j.mode, K: j.k})
				if err != nil {
					run.Inconclusive(fmt.Sprintf("kill child (k=%d) failed: %v: %s", j.k, err, firstN(out, 300)))
					return
				}
				_, ackErr := os.Stat(filepath.Join(dir, "acked"))
				acked := ackErr == nil
				if !killed {
					// the k-th point was not reached in this run (trace differs);
					// the state is still judged as an un-killed run
					run.Count("child_not_killed", 1)
				} else {
					run.Count("children_killed", 1)
				}
				at, _ := ioutil.ReadFile(filepath.Join(dir, "killed_at"))
				judgeMu.Lock()
				viol, ev := c02Judge(t, sc, dir, fixtures, acked, hs, "after-kill")
				judgeMu.Unlock()
				run.Eval(ev)
				if acked {
					run.Count("acked_then_judged", 1)
				}
				pt := strings.SplitN(string(at), "#", 2)[0]
				if j.mode == "killafterack" {
					pt = "after-ack"
				}
				run.Feature(fmt.Sprintf("%s,size=%d,nvol=%d,pre=%s,acked=%v", pt, sc.Size, sc.NVol, sc.Pre, acked))
				for _, v := range viol {
					run.Violation(v.sig, fmt.Sprintf("%s; scenario=%+v killed_at=%q (point %d of %d) acked=%v", v.detail, sc, at, j.k, n, acked), map[string]interface{}{"scenario": sc, "k": j.k, "mode": j.mode, "killed_at": string(at)})
				}
			}(j)
		}
		wg.Wait()
		if i < 2 {
			run.Sample(map[string]interface{}{"scenario": sc, "trace": trace})
		}
	})

	// ---- cancellation at each point, in-process
	run.Cases("cancel", len(scenarios), func(i int, rng *verifkit.Rand) {
		sc := scenarios[i]
		sc.Cseed = rng.Uint64()
		run.Input(sc, false)
		data, h := c02Data(sc)
		runOnce := func(k int) (trace []string, status int, dir string, fixtures map[string][]byte) {
			dir = newDir()
			vols, fx := c02Setup(t, sc, dir)
			fixtures = fx
			cluster := vkCluster(t)
			srv := vkNewServer(t, cluster, vols, false)
			defer srv.Close()
			var mu sync.Mutex
			count := 0
			cn := make(chan bool, 1)
			fired := false
			verifSetHook(func(label string) {
				mu.Lock()
				count++
				nn := count
				trace = append(trace, label)
				doFire := k > 0 && nn == k && !fired
				if doFire {
					fired = true
				}
				mu.Unlock()
				if doFire {
					cn <- true
					// let the handler's CloseNotify watcher run (steering only)
					time.Sleep(3 * time.Millisecond)
				}
			})
			defer verifSetHook(nil)
			req := httptest.NewRequest("PUT", "/"+h, bytes.NewReader(data))
			req.ContentLength = int64(len(data))
			req.Header.Set("Authorization", "OAuth2 "+vkRootToken)
			rec := &c02Recorder{ResponseRecorder: httptest.NewRecorder(), cn: cn}
			srv.handler.ServeHTTP(rec, req)
			status = rec.Code
			if k > 0 {
				// judged at once, while a cancelled write may still be running
				judgeMu.Lock()
				viol, ev := c02Judge(t, sc, dir, fixtures, status == 200, hs, "right-after-cancel")
				judgeMu.Unlock()
				run.Eval(ev)
				for _, v := range viol {
					run.Violation(v.sig, fmt.Sprintf("%s; scenario=%+v client disconnect at point %d status=%d", v.detail, sc, k, status), map[string]interface{}{"scenario": sc, "k": k, "mode": "cancel"})
				}
			}
			// quiescence: wait until no yield point has been hit for a while
			// (WriteBlock may outlive the handler after a cancellation)
			last := atomic.LoadInt64(&verifPointsHit)
			for idle := 0; idle < 10; {
				time.Sleep(5 * time.Millisecond)
				cur := atomic.LoadInt64(&verifPointsHit)
				if cur == last {
					idle++
				} else {
					idle = 0
					last = cur
				}
			}
			return
		}
		trace, status, dir0, _ := runOnce(0)
		os.RemoveAll(dir0)
		if status != 200 || len(trace) == 0 {
			run.Inconclusive(fmt.Sprintf("cancel: fault-free in-process PUT status %d with %d points", status, len(trace)))
			return
		}
		for k := 1; k <= len(trace); k++ {
			_, st, dir, fixtures := runOnce(k)
			acked := st == 200
			judgeMu.Lock()
			viol, ev := c02Judge(t, sc, dir, fixtures, acked, hs, "after-cancel")
			judgeMu.Unlock()
			run.Eval(ev)
			run.Count("cancellations_fired", 1)
			if !acked {
				run.Count("cancelled_puts_refused", 1)
			}
			run.Feature(fmt.Sprintf("cancel@%s,size=%d,nvol=%d,pre=%s,acked=%v", strings.SplitN(trace[k-1], "#", 2)[0], sc.Size, sc.NVol, sc.Pre, acked))
			for _, v := range viol {
				run.Violation(v.sig, fmt.Sprintf("%s; scenario=%+v client disconnect at point %d (%s) status=%d", v.detail, sc, k, trace[k-1], st), map[string]interface{}{"scenario": sc, "k": k, "mode": "cancel", "at": trace[k-1]})
			}
			os.RemoveAll(dir)
		}
	})

	// ---- crash points at system-call level (strace injects SIGKILL)
	c02SysStream(t, run, hs, newDir, &judgeMu, scenarios)

	// ---- aborted uploads + concurrent clients (shared with C01): an
	// acknowledged PUT must be retrievable whatever the handlers share
	vkConcurrent(t, run, hs, base, "C02", run.N(16, 200))

	// ---- two overlapping PUTs of the SAME block on one volume: A is held at
	// one of its yield points while B runs up to one of its own and is then
	// cancelled (client disconnect); A is resumed and, if acknowledged, the
	// block must be retrievable from a new server on the same directory.
	c02Overlap(t, run, hs, newDir, &judgeMu, "C02")

	// ---- an abandoned GET followed by a PUT that reuses its pooled buffer;
	// short-bodied PUT after the same block went through the buffer
	vkSharedBuffers(t, run, hs, newDir, &judgeMu, "C02")

	// ---- a PUT over an old copy interleaved step by step with a request that
	// trashes that copy (c02trash_test.go)
	c02TrashRace(t, run, hs, newDir, &judgeMu)
}

func c02Overlap(t *testing.T, run *verifkit.Run, hs *vkHTTP, newDir func() string, judgeMu *sync.Mutex, prop string) {
	type ov struct {
		Size  int `json:"size"`
		HoldA int `json:"hold_a_at_point"`
		StopB int `json:"cancel_b_at_point"`
	}
	sizes := []int{100 << 10, 300 << 10}
	var cases []ov
	for _, sz := range sizes {
		// A: mkdir, tempfile, io.Copy, chunks..., close, chtimes, rename ≈ 10-17 points
		for holdA := 2; holdA <= 12; holdA += 2 {
			for _, stopB := range []int{2, 3, 4, 6} {
				cases = append(cases, ov{sz, holdA, stopB})
			}
		}
	}
	run.Cases("overlap", len(cases), func(i int, rng *verifkit.Rand) {
		c := cases[i]
		if !run.Thorough() && (i+int(run.Seed()))%3 != 0 {
			return // quick: a seed-chosen third
		}
		sc := c02Scenario{Size: c.Size, NVol: 1, Pre: "none", Cseed: rng.Uint64()}
		run.Input(map[string]interface{}{"overlap": c, "scenario": sc}, false)
		data, h := c02Data(sc)
		dir := newDir()
		defer os.RemoveAll(dir)
		vols, fixtures := c02Setup(t, sc, dir)
		cluster := vkCluster(t)
		srv := vkNewServer(t, cluster, vols, false)
		defer srv.Close()
		var goidA, goidB int64
		var mu sync.Mutex
		cntA, cntB := 0, 0
		holdA := make(chan struct{})
		aHeld := make(chan struct{})
		cnB := make(chan bool, 1)
		bStopped := make(chan struct{})
		var onceHeld, onceStop sync.Once
		// which request a step belongs to: the request goroutine itself, or a
		// goroutine it started (the pipe writer) — the latter are attributed by
		// "who is currently unheld": while A is held only B's steps arrive
		aIsHeld := int32(0)
		verifSetHook(func(label string) {
			id := c04Goid()
			isB := id == atomic.LoadInt64(&goidB) || (id != atomic.LoadInt64(&goidA) && atomic.LoadInt32(&aIsHeld) == 1)
			mu.Lock()
			if isB {
				cntB++
				nb := cntB
				mu.Unlock()
				if nb == c.StopB {
					onceStop.Do(func() { cnB <- true; time.Sleep(3 * time.Millisecond); close(bStopped) })
				}
				return
			}
			cntA++
			na := cntA
			mu.Unlock()
			if na == c.HoldA {
				atomic.StoreInt32(&aIsHeld, 1)
				onceHeld.Do(func() { close(aHeld) })
				<-holdA
				atomic.StoreInt32(&aIsHeld, 0)
			}
		})
		defer verifSetHook(nil)
		put := func(cn chan bool, goid *int64) int {
			atomic.StoreInt64(goid, c04Goid())
			req := httptest.NewRequest("PUT", "/"+h, bytes.NewReader(data))
			req.ContentLength = int64(len(data))
			req.Header.Set("Authorization", "OAuth2 "+vkRootToken)
			rec := &c02Recorder{ResponseRecorder: httptest.NewRecorder(), cn: cn}
			srv.handler.ServeHTTP(rec, req)
			return rec.Code
		}
		codeA := make(chan int, 1)
		go func() { codeA <- put(make(chan bool, 1), &goidA) }()
		select {
		case <-aHeld:
		case st := <-codeA:
			// A finished before reaching the hold point (fewer points than HoldA)
			run.Count("overlap_a_finished_before_hold", 1)
			codeA <- st
		case <-time.After(30 * time.Second):
			run.Inconclusive("overlap: A neither finished nor reached its hold point")
			close(holdA)
			return
		}
		codeB := make(chan int, 1)
		go func() { codeB <- put(cnB, &goidB) }()
		// B either gets cancelled at its StopB-th point, or finishes, or blocks
		// behind A (volume lock): bounded wait, steering only
		select {
		case <-bStopped:
		case st := <-codeB:
			codeB <- st
		case <-time.After(500 * time.Millisecond):
		}
		close(holdA)
		stA := <-codeA
		var stB int
		select {
		case stB = <-codeB:
		case <-time.After(30 * time.Second):
			run.Inconclusive("overlap: B did not finish")
		}
		// quiescence
		last := atomic.LoadInt64(&verifPointsHit)
		for idle := 0; idle < 10; {
			time.Sleep(5 * time.Millisecond)
			if cur := atomic.LoadInt64(&verifPointsHit); cur == last {
				idle++
			} else {
				idle, last = 0, cur
			}
		}
		acked := stA == 200 || stB == 200
		judgeMu.Lock()
		viol, ev := c02Judge(t, sc, dir, fixtures, acked, hs, "after-overlap")
		judgeMu.Unlock()
		run.Eval(ev)
		run.Count("overlap_cases", 1)
		if stB != 200 {
			run.Count("overlap_b_not_acked", 1)
		}
		run.Feature(fmt.Sprintf("overlap:size=%d,holdA=%d,stopB=%d,a=%d,b=%d", c.Size, c.HoldA, c.StopB, stA, stB))
		for _, v := range viol {
			run.Violation(strings.Replace(v.sig, "C02:", prop+":", 1), fmt.Sprintf("%s; two overlapping PUTs of one block: A held at its point %d, B cancelled at its point %d; A answered %d, B %d", v.detail, c.HoldA, c.StopB, stA, stB), c)
		}
	})
}

// c02Recorder is a ResponseWriter whose CloseNotify channel the harness owns.
type c02Recorder struct {
	*httptest.ResponseRecorder
	cn chan bool
}

func (r *c02Recorder) CloseNotify() <-chan bool { return r.cn }

var _ http.CloseNotifier = (*c02Recorder)(nil)

func firstN(b []byte, n int) string {
	if len(b) > n {
		return string(b[:n])
	}
	return string(b)
}

var _ = strconv.Itoa
