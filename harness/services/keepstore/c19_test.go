//go:build verif

package main

// C19 — a user's token secret never leaves the cluster unsalted (keepstore).
// GET /<hash>+<size>+R<remote>-<sig>@<exp> is sent over loopback HTTP to the
// real keepstore router; remoteProxy.Get builds a Keep client for the remote
// cluster (stub API over TLS for service discovery, stub Keep service) and
// fetches the block with the caller's token salted for that cluster. Both
// stubs record the bytes they receive. See /verif/DESIGN.md §5 C19.

import (
	"encoding/json"
	"fmt"
	"io"
	"io/ioutil"
	"net"
	"net/http"
	"os"
	"sort"
	"strconv"
	"strings"
	"sync"
	"testing"
	"time"

	"git.arvados.org/arvados.git/internal/c19kit"
	"git.arvados.org/arvados.git/internal/verifkit"
	"git.arvados.org/arvados.git/sdk/go/arvados"
)

type c19KeepCase struct {
	Remote string     `json:"remote"`
	Scheme string     `json:"auth_scheme"` // OAuth2 | Bearer
	Tok    c19kit.Tok `json:"tok"`
	Local  bool       `json:"x_keep_signature_local,omitempty"`
	Found  bool       `json:"remote_has_block"`
}

const c19Foo = "acbd18db4cc2f85cedef654fccc4a4d8" // md5("foo")

// ---------------------------------------------------------------- concurrent callers

// c19Step is the scripted answer of the remote Keep services to one probe of
// one block.
type c19Step struct {
	Status int  `json:"status"`         // 404, 408, 429, 500, 503 (then the next probe follows)
	Hold   bool `json:"hold,omitempty"` // the probe is held at the remote until the schedule releases it
}

// c19ConcClient is one caller of the keepstore: its own token, its own block
// (unique hash, so that every probe the remote receives can be attributed).
type c19ConcClient struct {
	Tok    c19kit.Tok `json:"tok"`
	Scheme string     `json:"auth_scheme"`
	Script []c19Step  `json:"script"`           // answers to the first probes
	Found  bool       `json:"remote_has_block"` // answer after the script: 200+data or 404
	Data   string     `json:"data"`
	Hash   string     `json:"hash"`
}

type c19ConcCase struct {
	Remote  string          `json:"remote"`
	Free    bool            `json:"free_running,omitempty"` // no holds: all callers start at once
	Clients []c19ConcClient `json:"clients"`
	Picks   []int           `json:"schedule,omitempty"` // client advanced at each step (start it, or release its held probe)
}

type c19ConcState struct {
	idx       int
	cl        *c19ConcClient
	free      bool
	probes    int
	events    chan string // "held" | "done"
	release   chan bool
	startsAt1 int // number of callers started when this one's first probe arrived
}

type c19ConcHub struct {
	mu      sync.Mutex
	byHash  map[string]*c19ConcState
	starts  int
	exposed int // probes (2nd or later of a fetch) that arrived after another caller had been started in between
	held    int
	probesN int
}

func (h *c19ConcHub) lookup(hash string) *c19ConcState {
	h.mu.Lock()
	defer h.mu.Unlock()
	return h.byHash[hash]
}

// probe answers one probe of a registered block according to its script.
func (h *c19ConcHub) probe(st *c19ConcState) (int, string) {
	h.mu.Lock()
	n := st.probes
	st.probes++
	h.probesN++
	if n == 0 {
		st.startsAt1 = h.starts
	} else if h.starts > st.startsAt1 {
		h.exposed++
	}
	h.mu.Unlock()
	if n < len(st.cl.Script) {
		step := st.cl.Script[n]
		if step.Hold && !st.free {
			h.mu.Lock()
			h.held++
			h.mu.Unlock()
			st.events <- "held"
			<-st.release
		}
		return step.Status, "scripted\n"
	}
	if st.cl.Found {
		return 200, st.cl.Data
	}
	return 404, "not found\n"
}

func TestVerifC19(t *testing.T) {
	run := verifkit.Start(t, "C19")
	defer run.Finish()

	base, err := ioutil.TempDir("", "verif-c19-")
	if err != nil {
		t.Fatal(err)
	}
	defer os.RemoveAll(base)

	remotes := []string{"z1111", "z2222", "z3333"}
	clusters := append([]string{"zzzzz"}, remotes...)
	apis := map[string]*c19kit.Stub{}
	keeps := map[string][]*c19kit.Stub{} // two Keep services per remote
	found := true
	conc := &c19ConcHub{byHash: map[string]*c19ConcState{}}
	for _, id := range remotes {
		id := id
		var svcs []arvados.KeepService
		for k := 0; k < 2; k++ {
			ks, err := c19kit.NewStub(false)
			if err != nil {
				t.Fatal(err)
			}
			defer ks.Close()
			ks.Respond = func(r *c19kit.Req) (int, string) {
				if len(r.RequestURI) >= 33 {
					if st := conc.lookup(r.RequestURI[1:33]); st != nil {
						return conc.probe(st)
					}
				}
				if r.Method == "GET" && strings.HasPrefix(r.RequestURI, "/"+c19Foo) && found {
					return 200, "foo"
				}
				return 404, "not found\n"
			}
			keeps[id] = append(keeps[id], ks)
			host, port, _ := net.SplitHostPort(ks.Addr)
			portnum, _ := strconv.Atoi(port)
			svcs = append(svcs, arvados.KeepService{UUID: fmt.Sprintf("%s-bi6l4-proxyproxyprox%d", id, k), ServiceType: "proxy", ServiceHost: host, ServicePort: portnum, ServiceSSLFlag: false})
		}
		as, err := c19kit.NewStub(true)
		if err != nil {
			t.Fatal(err)
		}
		defer as.Close()
		as.Respond = func(r *c19kit.Req) (int, string) {
			if strings.HasPrefix(r.RequestURI, "/arvados/v1/keep_services/accessible") {
				b, _ := json.Marshal(arvados.KeepServiceList{Items: svcs})
				return 200, string(b)
			}
			b, _ := json.Marshal(arvados.DiscoveryDocument{})
			return 200, string(b)
		}
		apis[id] = as
	}

	cluster := vkCluster(t)
	cluster.Collections.BlobSigningKey = "c19verifblobsigningkeyc19verifblobsigningkey"
	cluster.RemoteClusters = map[string]arvados.RemoteCluster{}
	for _, id := range remotes {
		cluster.RemoteClusters[id] = arvados.RemoteCluster{Host: apis[id].Addr, Proxy: true, Scheme: "https", Insecure: true}
	}
	root := base + "/vol0"
	os.MkdirAll(root, 0755)
	srv := vkNewServer(t, cluster, []vkVol{{UUID: "zzzzz-nyw5e-000000000000000", Root: root}}, false)
	defer srv.Close()
	hs := vkNewHTTP()
	defer hs.Close()
	hs.Set(srv.handler)

	type outcome struct {
		status int
		judged c19kit.Judged
		stray  []c19kit.Finding
		nstray int
		apiTok map[string]int
	}
	exec := func(c c19KeepCase) outcome {
		for _, id := range remotes {
			apis[id].Reset()
			for _, ks := range keeps[id] {
				ks.Reset()
			}
		}
		found = c.Found
		sig := strings.Repeat("ab", 20)
		path := "/" + c19Foo + "+3+R" + c.Remote + "-" + sig + "@7fffffff"
		var o outcome
		o.apiTok = map[string]int{}
		req, err := http.NewRequest("GET", hs.srv.URL+path, nil)
		if err != nil {
			return o
		}
		req.Header.Set("Authorization", c.Scheme+" "+c.Tok.Str)
		if c.Local {
			req.Header.Set("X-Keep-Signature", "local, time=2026-01-01T00:00:00Z")
		}
		resp, err := hs.cl.Do(req)
		if err == nil {
			io.Copy(ioutil.Discard, resp.Body)
			resp.Body.Close()
			o.status = resp.StatusCode
		}
		legit := []string{path, sig, c19Foo}
		toks := []c19kit.Tok{c.Tok}
		for _, id := range remotes {
			araw, areqs := apis[id].Take()
			var kraw []byte
			var kreqs []c19kit.Req
			for _, ks := range keeps[id] {
				r1, q1 := ks.Take()
				kraw = append(kraw, r1...)
				kreqs = append(kreqs, q1...)
			}
			for _, r := range areqs {
				for _, sp := range c19kit.Spots(r) {
					o.apiTok[sp.Value]++
				}
			}
			raw := append(append([]byte(nil), araw...), kraw...)
			reqs := append(append([]c19kit.Req(nil), areqs...), kreqs...)
			if id == c.Remote {
				o.judged = c19kit.JudgeReceived("keepstore", toks, id, clusters, raw, reqs, []string{"xxx"}, legit)
				o.judged.Reqs = len(kreqs) // requests to the Keep service
			} else if len(reqs) > 0 {
				o.nstray += len(reqs)
				j := c19kit.JudgeReceived("keepstore", toks, id, clusters, raw, reqs, []string{"xxx"}, legit)
				o.stray = append(o.stray, j.Findings...)
			}
		}
		return o
	}

	nFwd := 0
	n := run.N(3000, 60000)
	keepCase := func(c c19KeepCase, i int, rng *verifkit.Rand) {
		remote := c.Remote
		run.Input(c, false)
		if i < 2 {
			run.Sample(c)
		}
		o := exec(c)
		j := o.judged
		run.Eval(1 + j.Evals)
		run.Count("keep_requests_sent", 1)
		run.Count("keep_class_"+c.Tok.Class, 1)
		run.Count("keep_requests_received_by_remote_keep_service", j.Reqs)
		run.Count("keep_bytes_received_by_remote", j.Bytes)
		run.Count("keep_secrets_searched", j.Searched)
		run.Count("keep_status_"+strconv.Itoa(o.status), 1)
		for k, v := range j.Spots {
			run.Count("keep_spot_"+k, v)
		}
		for v, k := range o.apiTok {
			if v != "xxx" {
				run.Count("keep_api_stub_saw_non_placeholder_token", k)
			} else {
				run.Count("keep_api_stub_saw_placeholder_token", k)
			}
		}
		if o.nstray > 0 {
			run.Count("keep_requests_at_unaddressed_remotes", o.nstray)
		}
		feat := "keepstore," + c.Scheme + "," + c.Tok.Class
		if c.Tok.Class == "v2" {
			feat += "," + c.Tok.SecKind + ",len" + c19kit.LenClass(len(c.Tok.Secret)) + ",belongs=" + c19kit.Belongs(c.Tok.UUID, remote)
		}
		if c.Local {
			feat += ",sig-local"
		}
		if d, ok := j.Forwarded[0]; ok {
			nFwd++
			run.Count("keep_forwarded_"+c.Tok.Class+"_"+d, 1)
			run.Feature(feat + "," + d)
		} else {
			run.Count("keep_refused_"+c.Tok.Class, 1)
			run.Trivial()
		}
		for _, f := range append(j.Findings, o.stray...) {
			// minimise: an ordinary token, plain GET
			ord := c19kit.OrdinaryTok(rng.Fork(), "zctrl")
			mc, mf, suffix, _ := c19kit.Minimise(c, 0, f,
				func(ci interface{}, _ int) []c19kit.Simp {
					cc := ci.(c19KeepCase)
					var out []c19kit.Simp
					if !c19kit.IsOrdinary(cc.Tok) {
						n := cc
						n.Tok = ord
						out = append(out, c19kit.Simp{Name: c19kit.KindFeature(cc.Tok), Apply: func(interface{}, int) (interface{}, int, bool) { return n, 0, true }})
					}
					if cc.Local {
						n := cc
						n.Local = false
						out = append(out, c19kit.Simp{Name: "x-keep-signature-local", Apply: func(interface{}, int) (interface{}, int, bool) { return n, 0, true }})
					}
					return out
				},
				func(ci interface{}, _ int) (c19kit.Finding, bool) {
					oo := exec(ci.(c19KeepCase))
					oo.judged.Findings = append(oo.judged.Findings, oo.stray...)
					return c19kit.FindSame(oo.judged, f, 0)
				})
			b, _ := json.Marshal(mc)
			run.Violation(mf.Sig+suffix, fmt.Sprintf("%s; remote=%q; minimal witness: %s", mf.Detail, remote, b), mc)
		}
	}
	run.Cases("keepstore-proxy", n, func(i int, rng *verifkit.Rand) {
		remote := remotes[rng.Intn(len(remotes))]
		c := c19KeepCase{Remote: remote, Scheme: rng.PickStr("OAuth2", "Bearer"), Local: rng.Chance(1, 5), Found: rng.Chance(3, 4)}
		c.Tok = c19kit.GenTok(rng, c19kit.GenOpts{Remote: remote, Others: clusters})
		keepCase(c, i, rng)
	})
	// exhaustively enumerated sub-space: token kind x auth scheme x X-Keep-Signature x block present
	var kcombos []c19KeepCase
	for _, kind := range c19kit.Kinds {
		for _, scheme := range []string{"OAuth2", "Bearer"} {
			for _, local := range []bool{false, true} {
				for _, fnd := range []bool{true, false} {
					kcombos = append(kcombos, c19KeepCase{Scheme: scheme, Local: local, Found: fnd, Tok: c19kit.Tok{Class: kind}})
				}
			}
		}
	}
	run.Cases("keepstore-matrix", len(kcombos), func(i int, rng *verifkit.Rand) {
		c := kcombos[i]
		c.Remote = remotes[i%len(remotes)]
		c.Tok = c19kit.MakeTok(rng, c.Tok.Class, c.Remote, "zzzzz")
		run.Count("keep_matrix_cases", 1)
		keepCase(c, i+3, rng)
	})

	// ------------------------------------------------------------ concurrent / interleaved callers
	//
	// Several callers with different tokens fetch different blocks from ONE
	// remote through the ONE keepstore router at overlapping times. The
	// remote Keep services answer the first probes of a block with
	// 404/408/429/500/503 (so every fetch makes several probes) and can hold a
	// probe while other callers pass through. Every probe the remote receives
	// is attributed to its caller by the block hash and must carry that
	// caller's token in an allowed (salted) form — never another caller's
	// token, never an unsalted secret.
	type concOut struct {
		findings []c19kit.Finding // Tok = index of the caller whose probe it was
		other    map[int]int      // finding index -> caller whose token showed up
		probes   int
		evals    int
		searched int
		picks    []int
		statuses []int
		timeout  bool
	}
	caseNo := 0
	execConc := func(c c19ConcCase, rng *verifkit.Rand) concOut {
		var o concOut
		o.other = map[int]int{}
		for _, id := range remotes {
			apis[id].Reset()
			for _, ks := range keeps[id] {
				ks.Reset()
			}
		}
		states := make([]*c19ConcState, len(c.Clients))
		conc.mu.Lock()
		conc.byHash = map[string]*c19ConcState{}
		for k := range c.Clients {
			states[k] = &c19ConcState{idx: k, cl: &c.Clients[k], free: c.Free, events: make(chan string, 16), release: make(chan bool, 16)}
			conc.byHash[c.Clients[k].Hash] = states[k]
		}
		conc.mu.Unlock()
		o.statuses = make([]int, len(c.Clients))
		sig := strings.Repeat("cd", 20)
		start := func(k int) {
			conc.mu.Lock()
			conc.starts++
			conc.mu.Unlock()
			cl := c.Clients[k]
			go func() {
				defer func() { states[k].events <- "done" }()
				path := fmt.Sprintf("/%s+%d+R%s-%s@7fffffff", cl.Hash, len(cl.Data), c.Remote, sig)
				req, err := http.NewRequest("GET", hs.srv.URL+path, nil)
				if err != nil {
					return
				}
				req.Header.Set("Authorization", cl.Scheme+" "+cl.Tok.Str)
				resp, err := hs.cl.Do(req)
				if err == nil {
					io.Copy(ioutil.Discard, resp.Body)
					resp.Body.Close()
					o.statuses[k] = resp.StatusCode
				}
			}()
		}
		started := make([]bool, len(c.Clients))
		done := make([]bool, len(c.Clients))
		wait := func(k int) bool {
			select {
			case ev := <-states[k].events:
				if ev == "done" {
					done[k] = true
				}
				return true
			case <-time.After(3 * time.Minute):
				o.timeout = true
				return false
			}
		}
		advance := func(k int) bool {
			if done[k] {
				return true
			}
			if !started[k] {
				started[k] = true
				start(k)
			} else {
				states[k].release <- true
			}
			o.picks = append(o.picks, k)
			return wait(k)
		}
		if c.Free {
			for k := range c.Clients {
				started[k] = true
				start(k)
			}
			for k := range c.Clients {
				for !done[k] && wait(k) {
				}
			}
		} else {
			ok := true
			for _, k := range c.Picks {
				if k >= 0 && k < len(c.Clients) && !done[k] {
					if ok = advance(k); !ok {
						break
					}
				}
			}
			for ok {
				var todo []int
				for k := range c.Clients {
					if !done[k] {
						todo = append(todo, k)
					}
				}
				if len(todo) == 0 {
					break
				}
				k := todo[0]
				if len(c.Picks) == 0 && rng != nil {
					k = todo[rng.Intn(len(todo))]
				}
				ok = advance(k)
			}
		}
		if o.timeout {
			// unblock whatever is still held so that the goroutines end
			for k := range states {
				for n := 0; n < 8; n++ {
					states[k].release <- true
				}
			}
		}
		conc.mu.Lock()
		conc.byHash = map[string]*c19ConcState{}
		conc.mu.Unlock()

		// ---- judge every probe the remote received
		byHash := map[string]int{}
		var allToks []c19kit.Tok
		var legit []string
		for k, cl := range c.Clients {
			byHash[cl.Hash] = k
			allToks = append(allToks, cl.Tok)
			legit = append(legit, cl.Hash, cl.Data)
		}
		legit = append(legit, sig)
		add := func(f c19kit.Finding, other int) {
			for i, g := range o.findings {
				if g.Sig == f.Sig && g.Tok == f.Tok && o.other[i] == other {
					return
				}
			}
			o.other[len(o.findings)] = other
			o.findings = append(o.findings, f)
		}
		for _, id := range remotes {
			var raw []byte
			var reqs []c19kit.Req
			araw, _ := apis[id].Take()
			raw = append(raw, araw...)
			for _, ks := range keeps[id] {
				r1, q1 := ks.Take()
				raw = append(raw, r1...)
				reqs = append(reqs, q1...)
			}
			for _, r := range reqs {
				if len(r.RequestURI) < 33 {
					continue
				}
				k, ok := byHash[r.RequestURI[1:33]]
				if !ok {
					continue
				}
				o.probes++
				owner := c.Clients[k].Tok
				exp := c19kit.Expected(owner, id)
				for _, sp := range c19kit.Spots(r) {
					o.evals++
					if exp.Allows(sp.Value) {
						continue
					}
					// whose token is it?
					explained := false
					for k2, cl2 := range c.Clients {
						if k2 == k {
							continue
						}
						e2 := c19kit.Expected(cl2.Tok, id)
						switch {
						case sp.Value == cl2.Tok.Str && (e2.MustSalt || cl2.Tok.Class == "legacy"):
							add(c19kit.Finding{Sig: "C19:N3:keepstore-concurrent:unsalted-secret-of-another-request-in-authorization-header", Tok: k,
								Detail: fmt.Sprintf("a probe for the block of caller %d (token %q) reached remote %s carrying the UNSALTED token %q of caller %d", k, owner.Str, id, cl2.Tok.Str, k2)}, k2)
							explained = true
						case sp.Value == cl2.Tok.Str || e2.Allows(sp.Value):
							add(c19kit.Finding{Sig: "C19:N1:keepstore-concurrent:token-of-another-request-forwarded", Tok: k,
								Detail: fmt.Sprintf("a probe for the block of caller %d (token %q, want %q) reached remote %s carrying %q, which is the token of caller %d (%q)", k, owner.Str, exp.Allowed, id, sp.Value, k2, cl2.Tok.Str)}, k2)
							explained = true
						}
						if explained {
							break
						}
					}
					if !explained {
						j := c19kit.JudgeReceived("keepstore-concurrent", []c19kit.Tok{owner}, id, clusters, nil, []c19kit.Req{r}, []string{"xxx"}, legit)
						for _, f := range j.Findings {
							f.Tok = k
							add(f, -1)
						}
					}
				}
			}
			// N3 over everything this remote received, for every caller's secret
			j := c19kit.JudgeReceived("keepstore-concurrent", allToks, id, clusters, raw, nil, []string{"xxx"}, legit)
			o.evals += j.Evals
			o.searched += j.Searched
			for _, f := range j.Findings {
				dup := false
				for _, g := range o.findings {
					if strings.Contains(g.Sig, "unsalted-secret") {
						dup = true
					}
				}
				if !dup {
					add(f, -1)
				}
			}
		}
		return o
	}

	genConc := func(rng *verifkit.Rand, free bool) c19ConcCase {
		caseNo++
		c := c19ConcCase{Remote: remotes[rng.Intn(len(remotes))], Free: free}
		n := rng.Range(2, 5)
		for k := 0; k < n; k++ {
			var cl c19ConcClient
			switch {
			case k == 0 || rng.Chance(1, 3):
				// a caller whose token can be salted and whose fetch needs several probes
				cl.Tok = c19kit.MakeTok(rng, rng.PickStr("v2-ordinary", "v2-ordinary", "v2-extra", "v2-nonhex40", "v2-of-remote"), c.Remote, "zzzzz")
			case rng.Chance(1, 2):
				cl.Tok = c19kit.MakeTok(rng, rng.PickStr("legacy-local", "legacy-unknown", "v2-hex40-foreign", "opaque-jwt", "opaque-40-alnum", "v2-hex40-of-remote"), c.Remote, "zzzzz")
			default:
				cl.Tok = c19kit.GenTok(rng, c19kit.GenOpts{Remote: c.Remote, Others: clusters, NoFault: true})
			}
			cl.Scheme = rng.PickStr("OAuth2", "Bearer")
			cl.Found = rng.Chance(3, 4)
			for s := rng.Range(0, 4); s > 0; s-- {
				cl.Script = append(cl.Script, c19Step{Status: rng.PickInt(404, 503, 503, 500, 429, 408), Hold: rng.Chance(1, 2)})
			}
			if k == 0 && len(cl.Script) == 0 {
				cl.Script = []c19Step{{Status: 503, Hold: true}}
			}
			cl.Data = fmt.Sprintf("c19 block %d/%d/%d %s", run.BatchK(), caseNo, k, rng.String(rng.Range(0, 40), "abcdefghijklmnopqrstuvwxyz "))
			cl.Hash = verifkit.MD5Hex([]byte(cl.Data))
			c.Clients = append(c.Clients, cl)
		}
		return c
	}

	nConcProbes, nConcTimeouts := 0, 0
	concCase := func(c c19ConcCase, i int, rng *verifkit.Rand) {
		run.Input(c, false)
		o := execConc(c, rng)
		c.Picks = o.picks
		run.Input(c, false)
		if i < 1 {
			run.Sample(c)
		}
		run.Eval(1 + o.evals)
		run.Count("conc_cases", 1)
		run.Count("conc_callers", len(c.Clients))
		run.Count("conc_probes_received_by_remote", o.probes)
		run.Count("conc_secrets_searched", o.searched)
		nConcProbes += o.probes
		for k, st := range o.statuses {
			run.Count(fmt.Sprintf("conc_status_%d", st), 1)
			_ = k
		}
		if o.timeout {
			nConcTimeouts++
			run.Inconclusive(fmt.Sprintf("C19 keepstore-concurrent: watchdog fired in case %d (a caller neither finished nor reached a held probe)", i))
			return
		}
		mode := "scheduled"
		if c.Free {
			mode = "free-running"
		}
		kinds := map[string]bool{}
		for _, cl := range c.Clients {
			kinds[c19kit.KindFeature(cl.Tok)] = true
		}
		var kl []string
		for k := range kinds {
			kl = append(kl, k)
		}
		sort.Strings(kl)
		if o.probes > 0 {
			run.Feature(fmt.Sprintf("keepstore-concurrent,%s,callers=%d,%s", mode, len(c.Clients), strings.Join(kl, "+")))
		} else {
			run.Trivial()
		}
		for fi, f := range o.findings {
			// witness: only the two callers involved, same relative schedule
			mc := c
			if other, ok := o.other[fi]; ok && other >= 0 && len(c.Clients) > 2 && !c.Free {
				keep := []int{f.Tok, other}
				sort.Ints(keep)
				small := c19ConcCase{Remote: c.Remote}
				remap := map[int]int{}
				for _, k := range keep {
					remap[k] = len(small.Clients)
					small.Clients = append(small.Clients, c.Clients[k])
				}
				for _, k := range c.Picks {
					if nk, ok := remap[k]; ok {
						small.Picks = append(small.Picks, nk)
					}
				}
				so := execConc(small, nil)
				for _, g := range so.findings {
					if g.Sig == f.Sig {
						mc, f = small, g
						break
					}
				}
			}
			b, _ := json.Marshal(mc)
			run.Violation(f.Sig, fmt.Sprintf("%s; remote=%q; witness (callers, scripted remote answers, schedule): %s", f.Detail, mc.Remote, b), mc)
		}
	}
	ncc := run.N(700, 14000)
	run.Cases("keepstore-concurrent", ncc, func(i int, rng *verifkit.Rand) {
		concCase(genConc(rng, i%7 == 6), i, rng)
	})
	// the minimal interleaving, for every kind of second caller: B (v2) is
	// held at its first probe, A passes through, B's probe is answered 503/404
	var mcombos [][2]string
	for _, kind := range c19kit.Kinds {
		for _, first := range []string{"503", "404"} {
			mcombos = append(mcombos, [2]string{kind, first})
		}
	}
	run.Cases("keepstore-concurrent-matrix", len(mcombos), func(i int, rng *verifkit.Rand) {
		caseNo++
		remote := remotes[i%len(remotes)]
		st := 503
		if mcombos[i][1] == "404" {
			st = 404
		}
		mkc := func(kind string, k int, script []c19Step) c19ConcClient {
			cl := c19ConcClient{Tok: c19kit.MakeTok(rng, kind, remote, "zzzzz"), Scheme: rng.PickStr("OAuth2", "Bearer"), Found: true, Script: script}
			cl.Data = fmt.Sprintf("c19 matrix block %d/%d/%d", run.BatchK(), caseNo, k)
			cl.Hash = verifkit.MD5Hex([]byte(cl.Data))
			return cl
		}
		c := c19ConcCase{Remote: remote, Picks: []int{0, 1, 0}}
		c.Clients = []c19ConcClient{mkc("v2-ordinary", 0, []c19Step{{Status: st, Hold: true}}), mkc(mcombos[i][0], 1, nil)}
		run.Count("conc_matrix_cases", 1)
		concCase(c, i+1, rng)
	})
	conc.mu.Lock()
	run.Count("conc_probes_held_at_remote", conc.held)
	run.Count("conc_later_probes_after_another_caller_started", conc.exposed)
	exposed := conc.exposed
	conc.mu.Unlock()
	if !run.Replaying() && nConcTimeouts == 0 && (nConcProbes == 0 || exposed == 0) {
		run.Inconclusive("C19 keepstore-concurrent: no fetch ever made a second probe after another caller had passed through: the interleaving was not observed")
	}
	if !run.Replaying() && nFwd == 0 {
		run.Inconclusive("C19 keepstore-proxy: the remote Keep service never received a request: nothing observed")
	}
}
