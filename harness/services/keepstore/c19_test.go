//go:build verif

package main

// C19 — a user's token secret never leaves the cluster unsalted (keepstore).
// GET /<hash>+<size>+R<remote>-<sig>@<exp> is sent over loopback HTTP to the
// real keepstore router; remoteProxy.Get builds a Keep client for the remote
// cluster (stub API over TLS for service discovery, stub Keep service) and
// fetches the block with the caller's token salted for that cluster. Both
// stubs record the bytes they receive. See /verif/DESIGN.md §5 C19.

import (
	"encoding/json"
	"fmt"
	"io"
	"io/ioutil"
	"net"
	"net/http"
	"os"
	"strconv"
	"strings"
	"testing"

	"git.arvados.org/arvados.git/internal/c19kit"
	"git.arvados.org/arvados.git/internal/verifkit"
	"git.arvados.org/arvados.git/sdk/go/arvados"
)

type c19KeepCase struct {
	Remote string     `json:"remote"`
	Scheme string     `json:"auth_scheme"` // OAuth2 | Bearer
	Tok    c19kit.Tok `json:"tok"`
	Local  bool       `json:"x_keep_signature_local,omitempty"`
	Found  bool       `json:"remote_has_block"`
}

const c19Foo = "acbd18db4cc2f85cedef654fccc4a4d8" // md5("foo")

func TestVerifC19(t *testing.T) {
	run := verifkit.Start(t, "C19")
	defer run.Finish()

	base, err := ioutil.TempDir("", "verif-c19-")
	if err != nil {
		t.Fatal(err)
	}
	defer os.RemoveAll(base)

	remotes := []string{"z1111", "z2222", "z3333"}
	clusters := append([]string{"zzzzz"}, remotes...)
	apis := map[string]*c19kit.Stub{}
	keeps := map[string]*c19kit.Stub{}
	found := true
	for _, id := range remotes {
		id := id
		ks, err := c19kit.NewStub(false)
		if err != nil {
			t.Fatal(err)
		}
		defer ks.Close()
		ks.Respond = func(r *c19kit.Req) (int, string) {
			if r.Method == "GET" && strings.HasPrefix(r.RequestURI, "/"+c19Foo) && found {
				return 200, "foo"
			}
			return 404, "not found\n"
		}
		keeps[id] = ks
		as, err := c19kit.NewStub(true)
		if err != nil {
			t.Fatal(err)
		}
		defer as.Close()
		host, port, _ := net.SplitHostPort(ks.Addr)
		portnum, _ := strconv.Atoi(port)
		as.Respond = func(r *c19kit.Req) (int, string) {
			if strings.HasPrefix(r.RequestURI, "/arvados/v1/keep_services/accessible") {
				b, _ := json.Marshal(arvados.KeepServiceList{Items: []arvados.KeepService{{
					UUID: id + "-bi6l4-proxyproxyproxy", ServiceType: "proxy", ServiceHost: host, ServicePort: portnum, ServiceSSLFlag: false,
				}}})
				return 200, string(b)
			}
			b, _ := json.Marshal(arvados.DiscoveryDocument{})
			return 200, string(b)
		}
		apis[id] = as
	}

	cluster := vkCluster(t)
	cluster.Collections.BlobSigningKey = "c19verifblobsigningkeyc19verifblobsigningkey"
	cluster.RemoteClusters = map[string]arvados.RemoteCluster{}
	for _, id := range remotes {
		cluster.RemoteClusters[id] = arvados.RemoteCluster{Host: apis[id].Addr, Proxy: true, Scheme: "https", Insecure: true}
	}
	root := base + "/vol0"
	os.MkdirAll(root, 0755)
	srv := vkNewServer(t, cluster, []vkVol{{UUID: "zzzzz-nyw5e-000000000000000", Root: root}}, false)
	defer srv.Close()
	hs := vkNewHTTP()
	defer hs.Close()
	hs.Set(srv.handler)

	type outcome struct {
		status int
		judged c19kit.Judged
		stray  []c19kit.Finding
		nstray int
		apiTok map[string]int
	}
	exec := func(c c19KeepCase) outcome {
		for _, id := range remotes {
			apis[id].Reset()
			keeps[id].Reset()
		}
		found = c.Found
		sig := strings.Repeat("ab", 20)
		path := "/" + c19Foo + "+3+R" + c.Remote + "-" + sig + "@7fffffff"
		var o outcome
		o.apiTok = map[string]int{}
		req, err := http.NewRequest("GET", hs.srv.URL+path, nil)
		if err != nil {
			return o
		}
		req.Header.Set("Authorization", c.Scheme+" "+c.Tok.Str)
		if c.Local {
			req.Header.Set("X-Keep-Signature", "local, time=2026-01-01T00:00:00Z")
		}
		resp, err := hs.cl.Do(req)
		if err == nil {
			io.Copy(ioutil.Discard, resp.Body)
			resp.Body.Close()
			o.status = resp.StatusCode
		}
		legit := []string{path, sig, c19Foo}
		toks := []c19kit.Tok{c.Tok}
		for _, id := range remotes {
			araw, areqs := apis[id].Take()
			kraw, kreqs := keeps[id].Take()
			for _, r := range areqs {
				for _, sp := range c19kit.Spots(r) {
					o.apiTok[sp.Value]++
				}
			}
			raw := append(append([]byte(nil), araw...), kraw...)
			reqs := append(append([]c19kit.Req(nil), areqs...), kreqs...)
			if id == c.Remote {
				o.judged = c19kit.JudgeReceived("keepstore", toks, id, clusters, raw, reqs, []string{"xxx"}, legit)
				o.judged.Reqs = len(kreqs) // requests to the Keep service
			} else if len(reqs) > 0 {
				o.nstray += len(reqs)
				j := c19kit.JudgeReceived("keepstore", toks, id, clusters, raw, reqs, []string{"xxx"}, legit)
				o.stray = append(o.stray, j.Findings...)
			}
		}
		return o
	}

	nFwd := 0
	n := run.N(3000, 60000)
	keepCase := func(c c19KeepCase, i int, rng *verifkit.Rand) {
		remote := c.Remote
		run.Input(c, false)
		if i < 2 {
			run.Sample(c)
		}
		o := exec(c)
		j := o.judged
		run.Eval(1 + j.Evals)
		run.Count("keep_requests_sent", 1)
		run.Count("keep_class_"+c.Tok.Class, 1)
		run.Count("keep_requests_received_by_remote_keep_service", j.Reqs)
		run.Count("keep_bytes_received_by_remote", j.Bytes)
		run.Count("keep_secrets_searched", j.Searched)
		run.Count("keep_status_"+strconv.Itoa(o.status), 1)
		for k, v := range j.Spots {
			run.Count("keep_spot_"+k, v)
		}
		for v, k := range o.apiTok {
			if v != "xxx" {
				run.Count("keep_api_stub_saw_non_placeholder_token", k)
			} else {
				run.Count("keep_api_stub_saw_placeholder_token", k)
			}
		}
		if o.nstray > 0 {
			run.Count("keep_requests_at_unaddressed_remotes", o.nstray)
		}
		feat := "keepstore," + c.Scheme + "," + c.Tok.Class
		if c.Tok.Class == "v2" {
			feat += "," + c.Tok.SecKind + ",len" + c19kit.LenClass(len(c.Tok.Secret)) + ",belongs=" + c19kit.Belongs(c.Tok.UUID, remote)
		}
		if c.Local {
			feat += ",sig-local"
		}
		if d, ok := j.Forwarded[0]; ok {
			nFwd++
			run.Count("keep_forwarded_"+c.Tok.Class+"_"+d, 1)
			run.Feature(feat + "," + d)
		} else {
			run.Count("keep_refused_"+c.Tok.Class, 1)
			run.Trivial()
		}
		for _, f := range append(j.Findings, o.stray...) {
			// minimise: an ordinary token, plain GET
			ord := c19kit.OrdinaryTok(rng.Fork(), "zctrl")
			mc, mf, suffix, _ := c19kit.Minimise(c, 0, f,
				func(ci interface{}, _ int) []c19kit.Simp {
					cc := ci.(c19KeepCase)
					var out []c19kit.Simp
					if !c19kit.IsOrdinary(cc.Tok) {
						n := cc
						n.Tok = ord
						out = append(out, c19kit.Simp{Name: c19kit.KindFeature(cc.Tok), Apply: func(interface{}, int) (interface{}, int, bool) { return n, 0, true }})
					}
					if cc.Local {
						n := cc
						n.Local = false
						out = append(out, c19kit.Simp{Name: "x-keep-signature-local", Apply: func(interface{}, int) (interface{}, int, bool) { return n, 0, true }})
					}
					return out
				},
				func(ci interface{}, _ int) (c19kit.Finding, bool) {
					oo := exec(ci.(c19KeepCase))
					oo.judged.Findings = append(oo.judged.Findings, oo.stray...)
					return c19kit.FindSame(oo.judged, f, 0)
				})
			b, _ := json.Marshal(mc)
			run.Violation(mf.Sig+suffix, fmt.Sprintf("%s; remote=%q; minimal witness: %s", mf.Detail, remote, b), mc)
		}
	}
	run.Cases("keepstore-proxy", n, func(i int, rng *verifkit.Rand) {
		remote := remotes[rng.Intn(len(remotes))]
		c := c19KeepCase{Remote: remote, Scheme: rng.PickStr("OAuth2", "Bearer"), Local: rng.Chance(1, 5), Found: rng.Chance(3, 4)}
		c.Tok = c19kit.GenTok(rng, c19kit.GenOpts{Remote: remote, Others: clusters})
		keepCase(c, i, rng)
	})
	// exhaustively enumerated sub-space: token kind x auth scheme x X-Keep-Signature x block present
	var kcombos []c19KeepCase
	for _, kind := range c19kit.Kinds {
		for _, scheme := range []string{"OAuth2", "Bearer"} {
			for _, local := range []bool{false, true} {
				for _, fnd := range []bool{true, false} {
					kcombos = append(kcombos, c19KeepCase{Scheme: scheme, Local: local, Found: fnd, Tok: c19kit.Tok{Class: kind}})
				}
			}
		}
	}
	run.Cases("keepstore-matrix", len(kcombos), func(i int, rng *verifkit.Rand) {
		c := kcombos[i]
		c.Remote = remotes[i%len(remotes)]
		c.Tok = c19kit.MakeTok(rng, c.Tok.Class, c.Remote, "zzzzz")
		run.Count("keep_matrix_cases", 1)
		keepCase(c, i+3, rng)
	})
	if !run.Replaying() && nFwd == 0 {
		run.Inconclusive("C19 keepstore-proxy: the remote Keep service never received a request: nothing observed")
	}
}
