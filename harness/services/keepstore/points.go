//go:build verif

package main

// Yield points for the instrumented copy of unix_volume.go (generated at
// check time by /verif/cmd/vinstr from the working-tree file). With no hook
// installed every point is a no-op.

import (
	"io"
	"sync/atomic"
)

type verifHookFn func(label string)

var verifHook atomic.Value // verifHookFn

var verifPointsHit int64

func verifPoint(label string) {
	atomic.AddInt64(&verifPointsHit, 1)
	if h, ok := verifHook.Load().(verifHookFn); ok && h != nil {
		h(label)
	}
}

func verifSetHook(h verifHookFn) {
	if h == nil {
		h = func(string) {}
	}
	verifHook.Store(h)
}

type verifRd struct {
	label string
	r     io.Reader
}

func (v verifRd) Read(p []byte) (int, error) {
	verifPoint(v.label)
	return v.r.Read(p)
}

// verifReader wraps the source of WriteBlock's io.Copy: one point per chunk.
func verifReader(label string, r io.Reader) io.Reader { return verifRd{label, r} }
