//go:build verif

package main

// C02 "trashrace" stream — the schedules part of the quantifier for "each step
// of an overwrite of an existing copy": a PUT of a block that already has an
// old copy (intact or corrupt) on a Directory volume is interleaved, yield
// point by yield point, with a request that trashes that copy (DELETE, or a
// trash-list entry executed by the real trash worker; trash lifetime 1 h =
// rename to <hash>.trash.<deadline>, or 0 = unlink).
//
// The two requests are parked at the yield points of the instrumented
// unix_volume.go by the gate controller of c04_test.go and released according
// to a schedule string: "the PUT is held after its k-th step while the remover
// runs j steps (or to completion)" and the mirror image, plus PRNG-chosen
// interleavings. A request blocked in flock(2) is detected by the controller
// (no event) and the other one is scheduled.
//
// Oracle = the statement, nothing else: "once keepstore has answered 200 to a
// PUT the complete block is retrievable … (until it is trashed)". A1 is
// therefore demanded only when the remover had COMPLETELY finished before
// keepstore produced the 200 (the order is taken from a counter stamped by the
// response writer and by the remover's completion — no clock): nothing was
// trashed after the acknowledgement, so a new server on the same directory
// must serve the block (c02Judge). If the 200 came first the case is judged as
// "not acknowledged" (A2–A4 only).

import (
	"bytes"
	"encoding/json"
	"fmt"
	"net/http/httptest"
	"os"
	"path/filepath"
	"strings"
	"sync"
	"sync/atomic"
	"testing"
	"time"

	"git.arvados.org/arvados.git/internal/verifkit"
	"git.arvados.org/arvados.git/sdk/go/arvados"
)

type c02TrashCase struct {
	Size     int    `json:"size"`
	NVol     int    `json:"nvol"`
	Pre      string `json:"pre"`
	Remover  string `json:"remover"`        // delete | trashlist
	Lifetime string `json:"trash_lifetime"` // 1h | 0
	Schedule string `json:"schedule"`       // A = PUT, B = remover; exhausted ⇒ whoever can run
}

// c02AckRecorder stamps the instant at which keepstore produces its answer.
type c02AckRecorder struct {
	*httptest.ResponseRecorder
	cn  chan bool
	seq *int64
	at  int64
}

func (r *c02AckRecorder) stamp() {
	if atomic.LoadInt64(&r.at) == 0 {
		atomic.CompareAndSwapInt64(&r.at, 0, atomic.AddInt64(r.seq, 1))
	}
}
func (r *c02AckRecorder) WriteHeader(code int) { r.stamp(); r.ResponseRecorder.WriteHeader(code) }
func (r *c02AckRecorder) Write(b []byte) (int, error) {
	r.stamp()
	return r.ResponseRecorder.Write(b)
}
func (r *c02AckRecorder) CloseNotify() <-chan bool { return r.cn }

func c02TrashCases(thorough bool, seed uint64) []c02TrashCase {
	sizes := []int{1, 100 << 10}
	if thorough {
		sizes = append(sizes, 0, 300<<10)
	}
	type place struct {
		nvol int
		pre  string
	}
	places := []place{{1, "intact_first"}, {2, "intact_last"}, {2, "intact_first"}, {1, "corrupt_first"}}
	rep := func(c byte, n int) string { return strings.Repeat(string(c), n) }
	var out []c02TrashCase
	gen := verifkit.CaseRand(seed, "trashrace-gen", 0)
	for _, sz := range sizes {
		for _, pl := range places {
			for _, rem := range []string{"delete", "trashlist"} {
				for _, life := range []string{"1h", "0"} {
					add := func(s string) {
						out = append(out, c02TrashCase{Size: sz, NVol: pl.nvol, Pre: pl.pre, Remover: rem, Lifetime: life, Schedule: s})
					}
					// the PUT is held after k steps, the remover runs j steps, the
					// PUT goes on (the remover whenever the PUT cannot)
					for k := 0; k <= 9; k++ {
						for j := 1; j <= 6; j++ {
							add(rep('A', k) + rep('B', j) + rep('A', 40))
						}
					}
					// the remover is held after j steps, the PUT runs k steps, the
					// remover goes on
					for j := 1; j <= 6; j++ {
						for k := 1; k <= 9; k++ {
							add(rep('B', j) + rep('A', k) + rep('B', 40))
						}
					}
					for n := 0; n < 6; n++ {
						add(c04RandomInterleaving(12, 6, gen))
					}
				}
			}
		}
	}
	return out
}

func c02TrashRace(t *testing.T, run *verifkit.Run, hs *vkHTTP, newDir func() string, judgeMu *sync.Mutex) {
	cases := c02TrashCases(run.Thorough(), run.Seed())
	den := run.N(32, 1) // quick: a seed-chosen 1/32 of the grid (PRNG of the case)
	var baseCluster *arvados.Cluster
	run.Cases("trashrace", len(cases), func(i int, rng *verifkit.Rand) {
		if rng.Intn(den) != 0 {
			return
		}
		c := cases[i]
		sc := c02Scenario{Size: c.Size, NVol: c.NVol, Pre: c.Pre, Cseed: rng.Uint64()}
		run.Input(map[string]interface{}{"trashrace": c, "scenario": sc}, false)
		data, h := c02Data(sc)
		dir := newDir()
		defer os.RemoveAll(dir)
		vols, fixtures := c02Setup(t, sc, dir)
		// the stored timestamp of the old copy (the trash list has to name it)
		var storedMtime int64
		var oldRel string
		for rel := range fixtures {
			if fi, err := os.Stat(filepath.Join(dir, rel)); err == nil {
				storedMtime = fi.ModTime().UnixNano()
				oldRel = rel
			}
		}
		if oldRel == "" {
			run.Inconclusive("trashrace: no pre-existing copy was planted")
			return
		}
		if baseCluster == nil {
			baseCluster = vkCluster(t) // loading the default config costs ~50 ms: once per stream
		}
		cl := *baseCluster // vkNewServer replaces (never mutates) the Volumes map
		cluster := &cl
		// the planted copy is 100 h old: far beyond this TTL, so it is trashable
		cluster.Collections.BlobSigningTTL = arvados.Duration(time.Hour)
		cluster.Collections.BlobTrash = true
		cluster.Collections.BlobTrashLifetime = arvados.Duration(time.Hour)
		if c.Lifetime == "0" {
			cluster.Collections.BlobTrashLifetime = 0
		}
		srv := vkNewServer(t, cluster, vols, c.Remover == "trashlist")
		defer srv.Close()

		g := &c04Gate{parked: map[byte]chan struct{}{}, arrive: make(chan c04Arrival, 4), doneCh: make(chan byte, 2), quit: make(chan struct{})}
		verifSetHook(g.hook)
		defer verifSetHook(nil)
		var seq int64
		var removerDoneAt int64
		var codeB int
		recA := &c02AckRecorder{ResponseRecorder: httptest.NewRecorder(), cn: make(chan bool), seq: &seq}
		go func() {
			atomic.StoreInt64(&g.goidA, c04Goid())
			req := httptest.NewRequest("PUT", "/"+h, bytes.NewReader(data))
			req.ContentLength = int64(len(data))
			req.Header.Set("Authorization", "OAuth2 "+vkRootToken)
			srv.handler.ServeHTTP(recA, req)
			g.doneCh <- 'A'
		}()
		go func() {
			atomic.StoreInt64(&g.goidB, c04Goid())
			var req = httptest.NewRequest("DELETE", "/"+h, nil)
			if c.Remover == "trashlist" {
				body, _ := json.Marshal([]TrashRequest{{Locator: h, BlockMtime: storedMtime}})
				req = httptest.NewRequest("PUT", "/trash", bytes.NewReader(body))
				req.ContentLength = int64(len(body))
			}
			req.Header.Set("Authorization", "OAuth2 "+vkRootToken)
			rec := httptest.NewRecorder()
			srv.handler.ServeHTTP(rec, req)
			codeB = rec.Code
			if c.Remover == "trashlist" && rec.Code == 200 {
				// the worker runs asynchronously: done when the queue has drained
				for k := 0; k < 400000; k++ {
					st := srv.trashq.Status()
					if st.InProgress == 0 && st.Queued == 0 {
						break
					}
					time.Sleep(200 * time.Microsecond)
				}
			}
			atomic.StoreInt64(&removerDoneAt, atomic.AddInt64(&seq, 1))
			g.doneCh <- 'B'
		}()
		g.drive(c.Schedule, nil)
		verifSetHook(nil)
		close(g.quit) // releases anything still parked, now and later
		if g.gaveUp {
			run.Count("trashrace_controller_gave_up", 1)
			deadline := time.After(60 * time.Second)
			g.mu.Lock()
			pending := 2 - len(g.done)
			g.mu.Unlock()
			for pending > 0 {
				select {
				case <-g.doneCh:
					pending--
				case <-deadline:
					run.Inconclusive("trashrace: a request did not finish within 60 s after the controller gave up; schedule " + c.Schedule)
					return
				}
			}
		}
		// quiescence (nothing should be running any more; steering only)
		last := atomic.LoadInt64(&verifPointsHit)
		for idle := 0; idle < 4; {
			time.Sleep(2 * time.Millisecond)
			if cur := atomic.LoadInt64(&verifPointsHit); cur == last {
				idle++
			} else {
				idle, last = 0, cur
			}
		}
		codeA := recA.Code
		ackAt, remAt := atomic.LoadInt64(&recA.at), atomic.LoadInt64(&removerDoneAt)
		acked := codeA == 200
		// judgeable under A1: answered 200, and the remover had finished before
		// that answer was produced — nothing has been trashed since
		judgedAcked := acked && remAt != 0 && ackAt != 0 && remAt < ackAt

		// what happened (evidence only)
		rewrote, touched := false, false
		var tr []string
		for _, s := range g.trace {
			tr = append(tr, strings.SplitN(s, "#", 2)[0])
			if strings.HasPrefix(s, "A:WriteBlock.v.os.Rename") {
				rewrote = true
			}
			if strings.HasPrefix(s, "A:Touch.os.Chtimes") {
				touched = true
			}
		}
		oldGone := false
		if b, err := os.ReadFile(filepath.Join(dir, oldRel)); err != nil {
			oldGone = true
		} else if !bytes.Equal(b, fixtures[oldRel]) {
			oldGone = true // replaced
		}
		trashFiles := 0
		filepath.Walk(dir, func(p string, info os.FileInfo, err error) error {
			if err == nil && !info.IsDir() && strings.Contains(info.Name(), ".trash.") {
				trashFiles++
			}
			return nil
		})
		run.Count("trashrace_cases", 1)
		run.Count("trashrace_flock_blocked_detours", g.blocked)
		run.Count("trashrace_ungated_concurrent_steps", g.ungated)
		if acked {
			run.Count("trashrace_put_acked", 1)
		}
		if judgedAcked {
			run.Count("trashrace_put_acked_after_remover_finished", 1)
		} else if acked {
			run.Count("trashrace_put_acked_before_remover_finished:A1-not-demanded", 1)
		}
		if trashFiles > 0 || (c.Lifetime == "0" && oldGone && !rewrote) {
			run.Count("trashrace_old_copy_trashed", 1)
		}
		if acked && rewrote && touched {
			run.Count("trashrace_put_rewrote_block_after_reaching_touch", 1)
		}

		judgeMu.Lock()
		viol, ev := c02Judge(t, sc, dir, fixtures, judgedAcked, hs, "after-trash-race")
		judgeMu.Unlock()
		run.Eval(ev)
		// executed schedule, run-length encoded by actor ("A5B4A11"), and where
		// the PUT stood when the remover took its last step
		rle, putAt, lastB := "", "start", -1
		for k, s := range g.trace {
			if s[0] == 'B' {
				lastB = k
			}
		}
		for k := 0; k < len(g.trace); {
			n := k
			for n < len(g.trace) && g.trace[n][0] == g.trace[k][0] {
				n++
			}
			rle += fmt.Sprintf("%c%d", g.trace[k][0], n-k)
			k = n
		}
		for k := 0; k < lastB; k++ {
			if g.trace[k][0] == 'A' {
				putAt = "after-" + tr[k][2:]
			}
		}
		run.Feature(fmt.Sprintf("trashrace:%s,life=%s,pre=%s,size=%d,nvol=%d,put=%d,rem=%d,acked-after-remover=%v,rewrote=%v,put-%s-at-remover's-last-step,%s",
			c.Remover, c.Lifetime, c.Pre, c.Size, c.NVol, codeA, codeB, judgedAcked, rewrote, putAt, rle))
		for _, v := range viol {
			run.Violation(v.sig, fmt.Sprintf("%s; PUT over an old %s copy raced with %s (trash lifetime %s): the remover had finished (event %d) before keepstore answered the PUT with %d (event %d); trash files now on disk: %d; executed schedule: %s",
				v.detail, c.Pre, c.Remover, c.Lifetime, remAt, codeA, ackAt, trashFiles, strings.Join(g.trace, " ")), map[string]interface{}{"trashrace": c, "scenario": sc})
		}
		if i%97 == 0 {
			run.Sample(map[string]interface{}{"case": c, "executed": g.trace, "put": codeA, "remover": codeB, "acked_after_remover_finished": judgedAcked})
		}
	})
}
