//go:build verif

package main

// Shared helpers of the /verif keepstore harnesses (C01, C02, C04, C06, C07,
// C19). Overlaid into services/keepstore at build time; never committed to
// the repository.

import (
	"bytes"
	"context"
	"encoding/json"
	"fmt"
	"io"
	"io/ioutil"
	"net/http"
	"net/http/httptest"
	"os"
	"path/filepath"
	"sort"
	"strings"
	"sync"
	"sync/atomic"
	"testing"
	"time"

	"git.arvados.org/arvados.git/lib/config"
	"git.arvados.org/arvados.git/sdk/go/arvados"
	"git.arvados.org/arvados.git/sdk/go/ctxlog"
	"github.com/prometheus/client_golang/prometheus"
	"github.com/sirupsen/logrus"
)

const vkRootToken = "verifsystemroottokenverifsystemroottokenverif"

var vkBufsOnce sync.Once
var vkOrigPath string

func vkLogger() logrus.FieldLogger {
	l := logrus.New()
	l.Out = ioutil.Discard
	return l
}

// vkCluster returns a default-configured cluster (config defaults from the
// repository's own config loader, no site file).
func vkCluster(t testing.TB) *arvados.Cluster {
	ldr := config.NewLoader(bytes.NewBufferString("Clusters: {zzzzz: {}}"), vkLogger())
	ldr.Path = "-"
	ldr.SkipLegacy = true
	cfg, err := ldr.Load()
	if err != nil {
		t.Fatalf("verif: config load: %v", err)
	}
	cluster, err := cfg.GetCluster("")
	if err != nil {
		t.Fatalf("verif: GetCluster: %v", err)
	}
	cluster.SystemRootToken = vkRootToken
	cluster.ManagementToken = "verifmanagementtoken"
	cluster.Collections.BlobSigning = false
	return cluster
}

type vkVol struct {
	UUID string
	Root string
	RO   bool
	// HostOnly: RO is configured for this keepstore host only
	// (Volumes.*.AccessViaHosts.<host>.ReadOnly), the cluster-wide ReadOnly
	// flag of the volume stays false
	HostOnly bool
}

type vkServer struct {
	cluster *arvados.Cluster
	vols    []vkVol
	volmgr  *RRVolumeManager
	handler http.Handler
	trashq  *WorkQueue
	pullq   *WorkQueue
}

// vkNewServer builds the real volume manager + REST router over Directory
// volumes rooted at the given directories, in the given mount order.
// startTrashWorker: run the real trash worker on the trash queue.
func vkNewServer(t testing.TB, cluster *arvados.Cluster, vols []vkVol, startTrashWorker bool) *vkServer {
	vkBufsOnce.Do(func() {
		bufs = newBufferPool(vkLogger(), 12, BlockSize)
		// GetDeviceID() runs findmnt(8) for every volume (4 ms each, thousands
		// of volumes per run). The device id is irrelevant to every keepstore
		// property checked here; with findmnt not on PATH the real code takes
		// its documented "blank DeviceID" path without forking.
		vkOrigPath = os.Getenv("PATH")
		os.Setenv("PATH", "/nonexistent-verif")
		// the handlers log through ctxlog's process-wide default logger
		ctxlog.SetLevel("panic")
	})
	cluster.Volumes = map[string]arvados.Volume{}
	for _, v := range vols {
		params, _ := json.Marshal(map[string]interface{}{"Root": v.Root})
		cv := arvados.Volume{
			Driver:           "Directory",
			DriverParameters: params,
			Replication:      1,
			ReadOnly:         v.RO && !v.HostOnly,
		}
		if v.HostOnly {
			cv.AccessViaHosts = map[arvados.URL]arvados.VolumeAccess{{Host: "verif.invalid"}: {ReadOnly: v.RO}}
		}
		cluster.Volumes[v.UUID] = cv
	}
	reg := prometheus.NewRegistry()
	logger := vkLogger()
	vm, err := makeRRVolumeManager(logger, cluster, arvados.URL{Host: "verif.invalid"}, newVolumeMetricsVecs(reg))
	if err != nil {
		t.Fatalf("verif: makeRRVolumeManager: %v", err)
	}
	// impose the requested mount order (the manager iterates a map)
	var mounts, readables, writables []*VolumeMount
	for _, v := range vols {
		m := vm.mountMap[v.UUID]
		mounts = append(mounts, m)
		readables = append(readables, m)
		if !m.ReadOnly {
			writables = append(writables, m)
		}
	}
	vm.mounts, vm.readables, vm.writables = mounts, readables, writables
	s := &vkServer{cluster: cluster, vols: vols, volmgr: vm}
	s.pullq = NewWorkQueue()
	s.trashq = NewWorkQueue()
	if startTrashWorker {
		go RunTrashWorker(vm, logger, cluster, s.trashq)
	}
	ctx := ctxlog.Context(context.Background(), logger)
	s.handler = MakeRESTRouter(ctx, cluster, reg, vm, s.pullq, s.trashq)
	return s
}

func (s *vkServer) Close() {
	s.trashq.Close()
	s.pullq.Close()
}

// vkHTTP is one loopback HTTP server per process whose handler can be swapped
// per case, so that requests travel over a real connection.
type vkHTTP struct {
	srv *httptest.Server
	h   atomic.Value
	cl  *http.Client
}

type vkHandlerBox struct{ h http.Handler }

func vkNewHTTP() *vkHTTP {
	x := &vkHTTP{}
	x.h.Store(vkHandlerBox{http.NotFoundHandler()})
	x.srv = httptest.NewServer(http.HandlerFunc(func(w http.ResponseWriter, r *http.Request) {
		x.h.Load().(vkHandlerBox).h.ServeHTTP(w, r)
	}))
	x.cl = &http.Client{Transport: &http.Transport{MaxIdleConnsPerHost: 16, DisableCompression: true}, Timeout: 5 * time.Minute}
	return x
}

func (x *vkHTTP) Set(h http.Handler) { x.h.Store(vkHandlerBox{h}) }
func (x *vkHTTP) Close()             { x.srv.Close() }

type vkResp struct {
	Status int
	Body   []byte
	CLen   int64 // Content-Length as parsed by the client (-1 = unknown)
	CLenH  string
	Header http.Header
	Err    error // transport-level error
}

func (x *vkHTTP) Do(method, path string, body []byte, token string) vkResp {
	var rdr io.Reader
	if body != nil {
		rdr = bytes.NewReader(body)
	}
	req, err := http.NewRequest(method, x.srv.URL+path, rdr)
	if err != nil {
		return vkResp{Err: err}
	}
	if body != nil {
		req.ContentLength = int64(len(body))
	}
	if token != "" {
		req.Header.Set("Authorization", "OAuth2 "+token)
	}
	resp, err := x.cl.Do(req)
	if err != nil {
		return vkResp{Err: err}
	}
	defer resp.Body.Close()
	b, err := ioutil.ReadAll(resp.Body)
	return vkResp{Status: resp.StatusCode, Body: b, CLen: resp.ContentLength, CLenH: resp.Header.Get("Content-Length"), Header: resp.Header, Err: err}
}

// vkBlockPath is where a Directory volume keeps block h (documented layout:
// <root>/<first three hex digits>/<hash>).
func vkBlockPath(root, h string) string { return filepath.Join(root, h[:3], h) }

func vkPlant(t testing.TB, root, h string, data []byte, mtime time.Time) {
	p := vkBlockPath(root, h)
	if err := os.MkdirAll(filepath.Dir(p), 0755); err != nil {
		t.Fatal(err)
	}
	if err := ioutil.WriteFile(p, data, 0644); err != nil {
		t.Fatal(err)
	}
	if !mtime.IsZero() {
		os.Chtimes(p, mtime, mtime)
	}
}

// vkSnapshot returns relative path -> "size:md5[:mtime]" for every file below
// root.
func vkSnapshot(root string, withMtime bool) map[string]string {
	m := map[string]string{}
	filepath.Walk(root, func(p string, info os.FileInfo, err error) error {
		if err != nil || info.IsDir() {
			return nil
		}
		rel, _ := filepath.Rel(root, p)
		b, _ := ioutil.ReadFile(p)
		s := fmt.Sprintf("%d:%x", len(b), md5sum(b))
		if withMtime {
			s += fmt.Sprintf(":%d", info.ModTime().UnixNano())
		}
		m[rel] = s
		return nil
	})
	return m
}

func vkSnapEqual(a, b map[string]string) (bool, string) {
	var diffs []string
	for k, v := range a {
		if b[k] != v {
			diffs = append(diffs, fmt.Sprintf("%s: %q -> %q", k, v, b[k]))
		}
	}
	for k, v := range b {
		if _, ok := a[k]; !ok {
			diffs = append(diffs, fmt.Sprintf("%s: (absent) -> %q", k, v))
		}
	}
	sort.Strings(diffs)
	return len(diffs) == 0, strings.Join(diffs, "; ")
}
