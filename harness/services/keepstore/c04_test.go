//go:build verif

package main

// C04 — a freshly written or touched block survives garbage collection for
// the TTL. See /verif/DESIGN.md §5 C04.
//
// (a) "seq":   random sequential histories judged op by op against invariants
//              T1–T4 (observe-and-check model: the directories are
//              snapshotted around every request).
// (b) "sched": two requests (PUT|TOUCH vs DELETE|trash-list) whose every
//              filesystem step is a gate; the controller releases one
//              goroutine at a time following an enumerated or sampled
//              schedule. Oracle: an acknowledged PUT/TOUCH is retrievable.
// (c) "lin":   concurrent clients on few hashes, history checked with
//              porcupine against a per-hash sequential model.

import (
	"bytes"
	"encoding/json"
	"fmt"
	"io/ioutil"
	"net/http/httptest"
	"os"
	"path/filepath"
	"regexp"
	"runtime"
	"sort"
	"strconv"
	"strings"
	"sync"
	"sync/atomic"
	"testing"
	"time"

	"git.arvados.org/arvados.git/internal/verifkit"
	"git.arvados.org/arvados.git/internal/verifkit/porcupine"
	"git.arvados.org/arvados.git/sdk/go/arvados"
)

const c04TTL = time.Hour

type c04Op struct {
	Kind   string `json:"kind"`
	Hash   int    `json:"h"`               // index into the block set
	Mtime  string `json:"mtime,omitempty"` // trash-list: stored | different | toonew
	Mount  string `json:"mount,omitempty"` // trash-list: "" | v0 | v1 | unknown
	Volume int    `json:"vol,omitempty"`
	Arg    string `json:"arg,omitempty"`
}

type c04Init struct {
	Hash  int    `json:"h"`
	Vol   int    `json:"vol"`
	Age   string `json:"age"` // now | ttl-10m | ttl+10m | 10ttl
	Trash string `json:"trash,omitempty"`
}

type c04Case struct {
	NVol     int       `json:"nvol"`
	RO       []bool    `json:"ro"`
	ROVia    string    `json:"ro_via,omitempty"` // cluster | host (AccessViaHosts)
	Lifetime string    `json:"trash_lifetime"` // 0 | 1h
	Init     []c04Init `json:"init"`
	Ops      []c04Op   `json:"ops"`
}

var c04TrashRe = regexp.MustCompile(`^([0-9a-f]{32})\.trash\.(.*)$`)

func c04Age(a string) time.Duration {
	switch a {
	case "now":
		return 0
	case "ttl-10m":
		return c04TTL - 10*time.Minute
	case "ttl+10m":
		return c04TTL + 10*time.Minute
	default:
		return 10 * c04TTL
	}
}

type c04Env struct {
	t       testing.TB
	run     *verifkit.Run
	dir     string
	vols    []vkVol
	srv     *vkServer
	blocks  [][]byte
	hashes  []string
	cluster *arvados.Cluster
}

func (e *c04Env) do(method, path string, body []byte) *httptest.ResponseRecorder {
	var rdr *bytes.Reader
	if body != nil {
		rdr = bytes.NewReader(body)
	} else {
		rdr = bytes.NewReader(nil)
	}
	req := httptest.NewRequest(method, path, rdr)
	if body != nil {
		req.ContentLength = int64(len(body))
	}
	req.Header.Set("Authorization", "OAuth2 "+vkRootToken)
	rec := httptest.NewRecorder()
	e.srv.handler.ServeHTTP(rec, req)
	return rec
}

func (e *c04Env) drainTrashQueue() bool {
	for i := 0; i < 20000; i++ {
		st := e.srv.trashq.Status()
		if st.InProgress == 0 && st.Queued == 0 {
			return true
		}
		time.Sleep(500 * time.Microsecond)
	}
	return false
}

type c04File struct {
	Size  int64
	MD5   string
	Mtime int64
}

func c04Snap(root string) map[string]c04File {
	m := map[string]c04File{}
	filepath.Walk(root, func(p string, info os.FileInfo, err error) error {
		if err != nil || info.IsDir() {
			return nil
		}
		rel, _ := filepath.Rel(root, p)
		b, _ := ioutil.ReadFile(p)
		m[rel] = c04File{int64(len(b)), verifkit.MD5Hex(b), info.ModTime().UnixNano()}
		return nil
	})
	return m
}

func c04SnapDiff(a, b map[string]c04File) string {
	var d []string
	for k, v := range a {
		if w, ok := b[k]; !ok {
			d = append(d, "removed "+k)
		} else if w != v {
			d = append(d, fmt.Sprintf("changed %s (%d bytes %s mtime %d -> %d bytes %s mtime %d)", k, v.Size, v.MD5[:6], v.Mtime, w.Size, w.MD5[:6], w.Mtime))
		}
	}
	for k := range b {
		if _, ok := a[k]; !ok {
			d = append(d, "added "+k)
		}
	}
	sort.Strings(d)
	return strings.Join(d, "; ")
}

func c04Rel(h string) string { return filepath.Join(h[:3], h) }

func c04NewEnv(t testing.TB, run *verifkit.Run, base string, n int, nvol int, ro []bool, lifetime time.Duration, nblocks int, rng *verifkit.Rand, trashWorker bool) *c04Env {
	e := &c04Env{t: t, run: run, dir: filepath.Join(base, fmt.Sprintf("c%d", n))}
	for v := 0; v < nvol; v++ {
		root := filepath.Join(e.dir, fmt.Sprintf("v%d", v))
		os.MkdirAll(root, 0755)
		// every other case configures "read-only" for this host only
		e.vols = append(e.vols, vkVol{UUID: fmt.Sprintf("zzzzz-nyw5e-%015d", v), Root: root, RO: ro != nil && ro[v], HostOnly: ro != nil && ro[v] && n%2 == 1})
	}
	for i := 0; i < nblocks; i++ {
		b := rng.Bytes(rng.Range(1, 2000))
		e.blocks = append(e.blocks, b)
		e.hashes = append(e.hashes, verifkit.MD5Hex(b))
	}
	e.cluster = vkCluster(t)
	e.cluster.Collections.BlobSigningTTL = arvados.Duration(c04TTL)
	e.cluster.Collections.BlobTrashLifetime = arvados.Duration(lifetime)
	e.cluster.Collections.BlobTrash = true
	e.cluster.Collections.BlobDeleteConcurrency = 2
	e.srv = vkNewServer(t, e.cluster, e.vols, trashWorker)
	return e
}

func (e *c04Env) close() {
	e.srv.Close()
	os.RemoveAll(e.dir)
}

func TestVerifC04(t *testing.T) {
	run := verifkit.Start(t, "C04")
	defer run.Finish()
	base, err := ioutil.TempDir("", "verif-c04-")
	if err != nil {
		t.Fatal(err)
	}
	defer os.RemoveAll(base)
	c04Seq(t, run, base)
	c04Sched(t, run, base)
	c04Lin(t, run, base)
	c04ShortTTL(t, run, base)
}

// ------------------------------------------------------------------ (d)
//
// "ttl": the only stream with a short TTL (6 s). An existing copy that is a
// few seconds old is PUT again or TOUCHed (acknowledged at t); once the OLD
// timestamp + TTL has passed, but well before t + TTL, a DELETE or a trash-list
// entry naming the stored timestamp arrives: the block must survive. The wall
// clock only decides whether a case is judgeable (the remover must have
// finished before t + TTL - 0.5 s); a slow machine makes cases "too slow",
// never violations.
func c04ShortTTL(t *testing.T, run *verifkit.Run, base string) {
	const ttl = 6 * time.Second
	n := run.N(40, 320)
	type tc struct {
		Age     string `json:"age"`
		A       string `json:"a"`
		Remover string `json:"remover"`
	}
	var mu sync.Mutex
	var wg sync.WaitGroup
	sem := make(chan bool, 8)
	caseNo := 0
	// every WriteBlock in this stream belongs to a "slow-new-put" case (the
	// other cases PUT/TOUCH an existing intact copy, which never reaches
	// WriteBlock): hold it for 3 s before the data is copied
	verifSetHook(func(label string) {
		if label == "WriteBlock.io.Copy#1" {
			time.Sleep(3 * time.Second)
		}
	})
	defer verifSetHook(nil)
	run.Cases("ttl", n, func(i int, rng *verifkit.Rand) {
		caseNo++
		c := tc{Age: rng.PickStr("1s", "2s", "3s", "4s", "5s"), A: rng.PickStr("put", "put", "touch"), Remover: rng.PickStr("delete", "trashlist")}
		if rng.Chance(1, 4) {
			// a NEW block whose write is slow (held for 3 s at a yield point
			// before the data is copied): the acknowledgement comes at t, and the
			// stored timestamp must not be older than that by the time spent
			// queueing/writing
			c = tc{Age: "none", A: "slow-new-put", Remover: c.Remover}
		}
		age, _ := time.ParseDuration(c.Age)
		frng := rng.Fork()
		no := caseNo
		wg.Add(1)
		sem <- true
		go func() {
			defer wg.Done()
			defer func() { <-sem }()
			mu.Lock()
			e := c04NewEnv(t, run, base, 3000000+no, 1, nil, time.Hour, 1, frng, true)
			mu.Unlock()
			defer e.close()
			e.cluster.Collections.BlobSigningTTL = arvados.Duration(ttl)
			h, data := e.hashes[0], e.blocks[0]
			mtime0 := time.Now().Add(-age)
			if c.A == "slow-new-put" {
				// nothing planted; the "old timestamp" is the moment the write starts
				mtime0 = time.Now()
			} else {
				vkPlant(t, e.vols[0].Root, h, data, mtime0)
			}
			tAck0 := time.Now()
			var code int
			if c.A == "slow-new-put" {
				code = e.do("PUT", "/"+h, data).Code
				tAck0 = time.Now().Add(-50 * time.Millisecond) // acknowledged just now (the write itself took ~3 s)
			} else if c.A == "put" {
				code = e.do("PUT", "/"+h, data).Code
			} else {
				req := httptest.NewRequest("TOUCH", "/"+h, nil)
				req.Header.Set("Authorization", "OAuth2 "+vkRootToken)
				rec := httptest.NewRecorder()
				e.srv.handler.ServeHTTP(rec, req)
				code = rec.Code
			}
			if code != 200 {
				run.Count("ttl_not_acked", 1)
				return
			}
			// wait until the OLD timestamp is older than the TTL
			for time.Now().Before(mtime0.Add(ttl + 300*time.Millisecond)) {
				time.Sleep(50 * time.Millisecond)
			}
			if c.Remover == "delete" {
				e.do("DELETE", "/"+h, nil)
			} else {
				snap := c04Snap(e.vols[0].Root)
				f, ok := snap[c04Rel(h)]
				if ok {
					body, _ := json.Marshal([]TrashRequest{{Locator: h, BlockMtime: f.Mtime}})
					e.do("PUT", "/trash", body)
					e.drainTrashQueue()
				}
			}
			tDel1 := time.Now()
			if !tDel1.Before(tAck0.Add(ttl - 500*time.Millisecond)) {
				run.Count("ttl_case_too_slow_not_judged", 1)
				return
			}
			r := e.do("GET", "/"+h, nil)
			run.Eval(1)
			run.Count("ttl_cases_judged", 1)
			run.Feature("ttl:" + c.Age + "," + c.A + "," + c.Remover)
			if r.Code != 200 || !bytes.Equal(r.Body.Bytes(), data) {
				run.Violation("C04:T1:acked-"+c.A+"-of-recent-copy-not-protected-for-ttl:"+c.Remover,
					fmt.Sprintf("TTL %s; copy stored %s ago; %s acknowledged at t; %s issued %.1f s after t (old timestamp + TTL passed, t + TTL not) removed the block (GET %d)", ttl, c.Age, c.A, c.Remover, tDel1.Sub(tAck0).Seconds(), r.Code), c)
			}
		}()
	})
	wg.Wait()
}

func init() { _ = runtime.NumCPU }

// ------------------------------------------------------------------ (a)

func c04Seq(t *testing.T, run *verifkit.Run, base string) {
	// keepstore's buffer pool is a sync.Pool of 64 MiB buffers, i.e. per-P
	// caches: under the race detector a fresh 64 MiB allocation per request
	// and per P costs ~10x the CPU. This stream is sequential anyway.
	defer runtime.GOMAXPROCS(runtime.GOMAXPROCS(1))
	n := run.N(500, 6000)
	caseNo := 0
	run.Cases("seq", n, func(i int, rng *verifkit.Rand) {
		caseNo++
		c := c04Case{NVol: rng.Range(1, 2)}
		for v := 0; v < c.NVol; v++ {
			c.RO = append(c.RO, c.NVol == 2 && v == 1 && rng.Chance(1, 4))
			if c.RO[v] {
				c.ROVia = map[bool]string{true: "host", false: "cluster"}[caseNo%2 == 1]
			}
		}
		lifetime := time.Hour
		c.Lifetime = "1h"
		if rng.Chance(1, 4) {
			lifetime = 0
			c.Lifetime = "0"
		}
		nblocks := rng.Range(1, 3)
		ages := []string{"now", "ttl-10m", "ttl+10m", "10ttl"}
		for h := 0; h < nblocks; h++ {
			for v := 0; v < c.NVol; v++ {
				if rng.Chance(1, 2) {
					c.Init = append(c.Init, c04Init{Hash: h, Vol: v, Age: ages[rng.Intn(4)]})
				}
				if rng.Chance(1, 4) {
					c.Init = append(c.Init, c04Init{Hash: h, Vol: v, Trash: rng.PickStr("past", "future", "malformed")})
				}
			}
		}
		nops := rng.Range(10, 40)
		kinds := []string{"put", "put", "touch", "get", "trashlist", "trashlist", "delete", "delete", "untrash", "emptytrash", "flip_blobtrash"}
		for k := 0; k < nops; k++ {
			op := c04Op{Kind: kinds[rng.Intn(len(kinds))], Hash: rng.Intn(nblocks)}
			if op.Kind == "trashlist" {
				op.Mtime = rng.PickStr("stored", "stored", "stored", "different", "toonew")
				op.Mount = rng.PickStr("", "", "v0", "v1", "unknown")
				op.Volume = rng.Intn(c.NVol)
			}
			if op.Kind == "flip_blobtrash" && !rng.Chance(1, 3) {
				op.Kind = "get"
			}
			c.Ops = append(c.Ops, op)
		}
		run.Input(c, false)

		e := c04NewEnv(t, run, base, caseNo, c.NVol, c.RO, lifetime, nblocks, rng, true)
		defer e.close()
		now := time.Now()
		protected := map[int]string{} // hash index -> why
		plantedTrash := map[string]string{}
		for _, in := range c.Init {
			h := e.hashes[in.Hash]
			root := e.vols[in.Vol].Root
			if in.Trash == "" {
				vkPlant(t, root, h, e.blocks[in.Hash], now.Add(-c04Age(in.Age)))
				if in.Age == "now" || in.Age == "ttl-10m" {
					protected[in.Hash] = "planted with age " + in.Age
				}
			} else {
				var suffix string
				switch in.Trash {
				case "past":
					suffix = strconv.FormatInt(now.Add(-2*time.Hour).Unix(), 10)
				case "future":
					suffix = strconv.FormatInt(now.Add(2*time.Hour).Unix(), 10)
				default:
					suffix = "12x"
				}
				p := vkBlockPath(root, h) + ".trash." + suffix
				os.MkdirAll(filepath.Dir(p), 0755)
				ioutil.WriteFile(p, e.blocks[in.Hash], 0644)
				os.Chtimes(p, now.Add(-20*c04TTL), now.Add(-20*c04TTL))
				rel, _ := filepath.Rel(root, p)
				plantedTrash[fmt.Sprintf("%d/%s", in.Vol, rel)] = in.Trash
			}
		}
		bad := func(sig, detail string, k int) {
			run.Violation(sig, fmt.Sprintf("%s; at op %d of case %s", detail, k, mustJSON(c)), c)
		}
		feat := map[string]bool{}
		checkProtected := func(k int, after string) {
			for hi, why := range protected {
				r := e.do("GET", "/"+e.hashes[hi], nil)
				run.Eval(1)
				if r.Code != 200 || !bytes.Equal(r.Body.Bytes(), e.blocks[hi]) {
					bad("C04:T1:protected-block-not-retrievable:after-"+after, fmt.Sprintf("block %d (%s; %s) is no longer retrievable (GET %d) after op %s", hi, e.hashes[hi], why, r.Code, after), k)
					delete(protected, hi)
				}
			}
		}
		snapAll := func() []map[string]c04File {
			var s []map[string]c04File
			for _, v := range e.vols {
				s = append(s, c04Snap(v.Root))
			}
			return s
		}
		for k, op := range c.Ops {
			h := e.hashes[op.Hash]
			before := snapAll()
			t0 := time.Now()
			switch op.Kind {
			case "put":
				r := e.do("PUT", "/"+h, e.blocks[op.Hash])
				if r.Code == 200 {
					protected[op.Hash] = fmt.Sprintf("PUT acknowledged at op %d", k)
					run.Count("put_acked", 1)
				}
			case "touch":
				req := httptest.NewRequest("TOUCH", "/"+h, nil)
				req.Header.Set("Authorization", "OAuth2 "+vkRootToken)
				rec := httptest.NewRecorder()
				e.srv.handler.ServeHTTP(rec, req)
				if rec.Code == 200 {
					protected[op.Hash] = fmt.Sprintf("TOUCH acknowledged at op %d", k)
					run.Count("touch_acked", 1)
				}
			case "get":
				e.do("GET", "/"+h, nil)
			case "flip_blobtrash":
				e.cluster.Collections.BlobTrash = !e.cluster.Collections.BlobTrash
				feat["flip"] = true
			case "emptytrash":
				for _, m := range e.srv.volmgr.AllWritable() {
					m.EmptyTrash()
				}
				after := snapAll()
				tnow := time.Now().Unix()
				for v := range e.vols {
					for rel, f := range before[v] {
						_, still := after[v][rel]
						m := c04TrashRe.FindStringSubmatch(filepath.Base(rel))
						run.Eval(1)
						expired := false
						if m != nil {
							if dl, err := strconv.ParseInt(m[2], 10, 64); err == nil && regexp.MustCompile(`^\d+$`).MatchString(m[2]) {
								// far from "now" by construction (hours)
								expired = dl < tnow-600
								if dl > tnow-600 && dl < tnow+600 {
									continue // never generated; not judged
								}
							}
						}
						if !still && !(expired && !e.vols[v].RO) {
							bad("C04:T4:emptytrash-removed-wrong-file", fmt.Sprintf("EmptyTrash removed %s on volume %d (%+v), which is not a trashed copy whose deadline has passed on a writable volume", rel, v, f), k)
						}
						if still && expired && !e.vols[v].RO {
							run.Count("emptytrash_left_expired", 1)
						}
						if !still && expired {
							run.Count("emptytrash_deleted_expired", 1)
							feat["emptytrash-deleted"] = true
						}
					}
					for rel := range after[v] {
						if _, ok := before[v][rel]; !ok {
							bad("C04:T4:emptytrash-created-file", fmt.Sprintf("EmptyTrash created %s on volume %d", rel, v), k)
						}
					}
				}
			case "untrash":
				r := e.do("PUT", "/untrash/"+h, nil)
				after := snapAll()
				if r.Code == 200 {
					run.Count("untrash_ok", 1)
					// T3: the block is back, byte-identical
					g := e.do("GET", "/"+h, nil)
					run.Eval(1)
					if g.Code != 200 || !bytes.Equal(g.Body.Bytes(), e.blocks[op.Hash]) {
						bad("C04:T3:untrash-ok-but-block-not-readable", fmt.Sprintf("untrash answered 200 but GET %s gives %d", h, g.Code), k)
					}
					feat["untrash-ok"] = true
				} else {
					// a trashed copy with a future, well-formed deadline on a writable
					// volume must come back
					for v := range e.vols {
						if e.vols[v].RO {
							continue
						}
						for rel := range before[v] {
							m := c04TrashRe.FindStringSubmatch(filepath.Base(rel))
							if m == nil || m[1] != h {
								continue
							}
							dl, err := strconv.ParseInt(m[2], 10, 64)
							if err == nil && dl > time.Now().Unix()+600 {
								run.Eval(1)
								bad("C04:T3:untrash-refused-with-live-trash", fmt.Sprintf("untrash answered %d although %s (deadline in the future) exists on writable volume %d", r.Code, rel, v), k)
							}
						}
					}
				}
				_ = after
			case "delete", "trashlist":
				var reqMtime int64
				target := map[int]bool{}
				if op.Kind == "delete" {
					e.do("DELETE", "/"+h, nil)
					for v := range e.vols {
						target[v] = true
					}
				} else {
					stored, ok := before[op.Volume][c04Rel(h)]
					switch {
					case op.Mtime == "stored" && ok:
						reqMtime = stored.Mtime
					case op.Mtime == "toonew":
						reqMtime = time.Now().Add(-c04TTL / 2).UnixNano()
					default:
						reqMtime = time.Now().Add(-7 * c04TTL).UnixNano()
						if ok && reqMtime == stored.Mtime {
							reqMtime--
						}
					}
					uuid := ""
					switch op.Mount {
					case "":
						for v := range e.vols {
							target[v] = true
						}
					case "v0":
						uuid = e.vols[0].UUID
						target[0] = true
					case "v1":
						if len(e.vols) > 1 {
							uuid = e.vols[1].UUID
							target[1] = true
						} else {
							uuid = "zzzzz-nyw5e-999999999999999"
						}
					default:
						uuid = "zzzzz-nyw5e-999999999999999"
					}
					body, _ := json.Marshal([]TrashRequest{{Locator: h, BlockMtime: reqMtime, MountUUID: uuid}})
					r := e.do("PUT", "/trash", body)
					if r.Code != 200 {
						run.Inconclusive(fmt.Sprintf("PUT /trash answered %d", r.Code))
					}
					if !e.drainTrashQueue() {
						run.Inconclusive("trash queue did not drain")
					}
				}
				t1 := time.Now()
				after := snapAll()
				for v := range e.vols {
					diff := c04SnapDiff(before[v], after[v])
					run.Eval(1)
					stored, had := before[v][c04Rel(h)]
					may := had && target[v] && !e.vols[v].RO && e.cluster.Collections.BlobTrash
					if op.Kind == "trashlist" {
						may = may && stored.Mtime == reqMtime
					}
					// a copy younger than the TTL (by hours-scale margins) must stay
					young := had && t0.Sub(time.Unix(0, stored.Mtime)) < c04TTL-5*time.Minute
					if diff == "" {
						continue
					}
					if !may {
						why := "the request may not act on this volume"
						switch {
						case !had:
							why = "no copy there"
						case e.vols[v].RO:
							why = "read-only volume"
						case !e.cluster.Collections.BlobTrash:
							why = "trashing disabled"
						case !target[v]:
							why = "other mount named"
						case op.Kind == "trashlist":
							why = "stored timestamp differs from the requested one"
						}
						kind := "other"
						switch {
						case e.vols[v].RO:
							kind = "read-only-volume"
						case !e.cluster.Collections.BlobTrash:
							kind = "trash-disabled"
						case had && !target[v]:
							kind = "other-mount"
						case had && op.Kind == "trashlist":
							kind = "mtime-mismatch"
						}
						bad("C04:T2:trash-changed-volume:"+op.Kind+":"+kind, fmt.Sprintf("%s for %s changed volume %d (%s): %s", op.Kind, h, v, why, diff), k)
						continue
					}
					if young {
						bad("C04:T1:young-copy-trashed:"+op.Kind, fmt.Sprintf("%s removed a copy of %s on volume %d that is younger than the TTL: %s", op.Kind, h, v, diff), k)
						continue
					}
					// legitimately trashed: exactly one change: the block file is gone
					// and (lifetime>0) one trash file with a whole-second deadline in
					// [t0+L, t1+L] holds the same bytes
					feat["trashed:"+op.Kind] = true
					run.Count("trashed:"+op.Kind, 1)
					var added []string
					for rel := range after[v] {
						if _, ok := before[v][rel]; !ok {
							added = append(added, rel)
						}
					}
					_, stillThere := after[v][c04Rel(h)]
					if stillThere {
						bad("C04:T2:trash-modified-block-in-place", fmt.Sprintf("%s changed volume %d but the block file is still there: %s", op.Kind, v, diff), k)
					}
					if lifetime == 0 {
						if len(added) != 0 {
							bad("C04:T3:trash-file-with-zero-lifetime", fmt.Sprintf("trash lifetime 0 but files were added: %v", added), k)
						}
					} else if len(added) != 1 {
						bad("C04:T3:trash-did-not-produce-one-trash-file", fmt.Sprintf("expected exactly one new trash file, got %v (%s)", added, diff), k)
					} else {
						m := c04TrashRe.FindStringSubmatch(filepath.Base(added[0]))
						if m == nil || m[1] != h || !regexp.MustCompile(`^\d+$`).MatchString(m[2]) {
							bad("C04:T3:trash-name-malformed", fmt.Sprintf("trash file %q is not <hash>.trash.<whole seconds>", added[0]), k)
						} else {
							dl, _ := strconv.ParseInt(m[2], 10, 64)
							lo, hi := t0.Add(lifetime).Unix()-1, t1.Add(lifetime).Unix()+1
							if dl < lo || dl > hi {
								bad("C04:T3:trash-deadline-wrong", fmt.Sprintf("trash deadline %d outside [%d,%d] (request time + lifetime)", dl, lo, hi), k)
							}
							if after[v][added[0]].MD5 != stored.MD5 {
								bad("C04:T3:trash-file-content-differs", "trashed file content differs from the block", k)
							}
						}
					}
				}
			}
			// any op other than the trash ones must leave unrelated files alone
			checkProtected(k, op.Kind)
		}
		var fl []string
		for f := range feat {
			fl = append(fl, f)
		}
		sort.Strings(fl)
		if len(fl) > 0 || len(protected) > 0 {
			run.Feature(fmt.Sprintf("nvol=%d,life=%s,prot=%d,%s", c.NVol, c.Lifetime, len(protected), strings.Join(fl, "+")))
		} else {
			run.Trivial()
		}
		if i < 2 {
			run.Sample(c)
		}
	})
}

func mustJSON(v interface{}) string {
	b, _ := json.Marshal(v)
	if len(b) > 1500 {
		return string(b[:1500]) + "…"
	}
	return string(b)
}

// ------------------------------------------------------------------ (b)

type c04SchedCase struct {
	A        string `json:"a"`    // put | touch
	B        string `json:"b"`    // delete | trashlist
	Init     string `json:"init"` // old_intact | none | old_corrupt
	Lifetime string `json:"trash_lifetime"`
	Schedule string `json:"schedule"` // e.g. "ABBABA…"; exhausted ⇒ whoever can run
}

type c04Arrival struct {
	actor byte
	label string
}

// c04Gate serialises the two actors at their yield points.
type c04Gate struct {
	mu      sync.Mutex
	parked  map[byte]chan struct{}
	arrive  chan c04Arrival
	done    map[byte]bool
	doneCh  chan byte
	trace   []string
	blocked int
	quit    chan struct{}
	gaveUp  bool
	goidA   int64
	goidB   int64
	ungated int
}

func c04Actor(label string) byte {
	if strings.HasPrefix(label, "Trash.") || strings.HasPrefix(label, "Mtime.") {
		return 'B'
	}
	return 'A'
}

// c04Goid returns the id of the calling goroutine (parsed from its stack
// header; only used to tell the two request goroutines apart).
func c04Goid() int64 {
	var buf [64]byte
	n := runtime.Stack(buf[:], false)
	f := strings.Fields(string(buf[:n]))
	if len(f) >= 2 {
		id, _ := strconv.ParseInt(f[1], 10, 64)
		return id
	}
	return -1
}

func (g *c04Gate) hook(label string) {
	// Which request does this filesystem step belong to? Steps executed on a
	// request's own goroutine are attributed by goroutine id; steps on helper
	// goroutines (the pipe writer of a PUT, the trash worker) by the function
	// named in the label.
	a := c04Actor(label)
	switch id := c04Goid(); id {
	case atomic.LoadInt64(&g.goidA):
		a = 'A'
	case atomic.LoadInt64(&g.goidB):
		a = 'B'
	}
	ch := make(chan struct{})
	g.mu.Lock()
	if old, ok := g.parked[a]; ok {
		select {
		case <-old:
		default:
			// another goroutine of the same request is parked already: do not
			// gate this one (its channel would be lost)
			g.ungated++
			g.mu.Unlock()
			return
		}
	}
	g.parked[a] = ch
	g.mu.Unlock()
	// once the controller has stopped (g.quit closed) nobody may ever block
	// here again: a goroutine parked forever would keep its flock and its
	// buffer
	select {
	case g.arrive <- c04Arrival{a, label}:
	case <-g.quit:
		return
	}
	select {
	case <-ch:
	case <-g.quit:
	}
}

// runSchedule releases actors according to sched. Returns the executed trace.
func (g *c04Gate) drive(sched string, finished func() (bool, bool)) {
	pos := 0
	atPoint := map[byte]string{} // actor -> label it is parked at
	running := map[byte]bool{'A': true, 'B': true}
	isDone := map[byte]bool{}
	waitEvent := func(d time.Duration) bool {
		select {
		case ar := <-g.arrive:
			atPoint[ar.actor] = ar.label
			running[ar.actor] = false
			return true
		case a := <-g.doneCh:
			isDone[a] = true
			running[a] = false
			g.mu.Lock()
			if g.done == nil {
				g.done = map[byte]bool{}
			}
			g.done[a] = true
			g.mu.Unlock()
			return true
		case <-time.After(d):
			return false
		}
	}
	for !(isDone['A'] && isDone['B']) {
		// wait until every not-blocked running actor has parked or finished
		for (running['A'] && !isDone['A']) || (running['B'] && !isDone['B']) {
			if !waitEvent(60 * time.Millisecond) {
				// someone is running but made no event: blocked in flock(2)
				// (or merely slow): schedule the other one if it is parked
				g.blocked++
				break
			}
		}
		if isDone['A'] && isDone['B'] {
			break
		}
		var cand []byte
		for _, a := range []byte{'A', 'B'} {
			if _, ok := atPoint[a]; ok && !isDone[a] {
				cand = append(cand, a)
			}
		}
		if len(cand) == 0 {
			// nobody parked: wait for any event (generous; steering only)
			if !waitEvent(20 * time.Second) {
				g.gaveUp = true
				return // give up; the caller counts it
			}
			continue
		}
		pick := cand[0]
		if len(cand) == 2 {
			if pos < len(sched) {
				pick = sched[pos]
				pos++
			}
		}
		label := atPoint[pick]
		delete(atPoint, pick)
		running[pick] = true
		g.trace = append(g.trace, string(pick)+":"+label)
		g.mu.Lock()
		ch := g.parked[pick]
		g.mu.Unlock()
		close(ch)
	}
}

func c04Sched(t *testing.T, run *verifkit.Run, base string) {
	type combo struct {
		a, b, init, life string
		na, nb           int // number of gate points (measured below)
	}
	var combos []combo
	for _, a := range []string{"put", "touch"} {
		for _, b := range []string{"delete", "trashlist"} {
			for _, init := range []string{"old_intact", "none", "old_corrupt"} {
				if a == "touch" && init != "old_intact" {
					continue
				}
				for _, life := range []string{"1h", "0"} {
					combos = append(combos, combo{a: a, b: b, init: init, life: life})
				}
			}
		}
	}
	// Build the schedule list: for each combo either all interleavings (small)
	// or a PRNG sample.
	type item struct {
		c     combo
		sched string
	}
	var items []item
	maxEnum := run.N(130, 1500)
	seedRng := verifkit.CaseRand(run.Seed(), "sched-gen", 0)
	for _, c := range combos {
		// nominal lengths (upper bounds; an exhausted schedule lets whoever is parked run)
		na, nb := 7, 4
		if c.a == "touch" {
			na = 3
		} else if c.init != "old_intact" {
			na = 13
		}
		if c.b == "trashlist" {
			nb = 5
		}
		all := c04Interleavings(na, nb, maxEnum+1)
		if len(all) <= maxEnum {
			for _, s := range all {
				items = append(items, item{c, s})
			}
			run.Count("combos_enumerated_completely", 1)
		} else {
			seen := map[string]bool{}
			for len(seen) < maxEnum {
				s := c04RandomInterleaving(na, nb, seedRng)
				if !seen[s] {
					seen[s] = true
					items = append(items, item{c, s})
				}
			}
			run.Count("combos_sampled", 1)
		}
	}
	caseNo := 0
	distinct := map[string]bool{}
	run.Cases("sched", len(items), func(i int, rng *verifkit.Rand) {
		caseNo++
		it := items[i]
		sc := c04SchedCase{A: it.c.a, B: it.c.b, Init: it.c.init, Lifetime: it.c.life, Schedule: it.sched}
		run.Input(sc, false)
		lifetime := time.Hour
		if sc.Lifetime == "0" {
			lifetime = 0
		}
		e := c04NewEnv(t, run, base, 1000000+caseNo, 1, nil, lifetime, 1, rng, true)
		defer e.close()
		h, data := e.hashes[0], e.blocks[0]
		oldT := time.Now().Add(-10 * c04TTL)
		switch sc.Init {
		case "old_intact":
			vkPlant(t, e.vols[0].Root, h, data, oldT)
		case "old_corrupt":
			c := append([]byte(nil), data...)
			c[0] ^= 0xff
			vkPlant(t, e.vols[0].Root, h, c, oldT)
		}
		g := &c04Gate{parked: map[byte]chan struct{}{}, arrive: make(chan c04Arrival, 4), doneCh: make(chan byte, 2), quit: make(chan struct{})}
		verifSetHook(g.hook)
		var codeA, codeB int
		go func() {
			atomic.StoreInt64(&g.goidA, c04Goid())
			if sc.A == "put" {
				codeA = e.do("PUT", "/"+h, data).Code
			} else {
				req := httptest.NewRequest("TOUCH", "/"+h, nil)
				req.Header.Set("Authorization", "OAuth2 "+vkRootToken)
				rec := httptest.NewRecorder()
				e.srv.handler.ServeHTTP(rec, req)
				codeA = rec.Code
			}
			g.doneCh <- 'A'
		}()
		go func() {
			atomic.StoreInt64(&g.goidB, c04Goid())
			if sc.B == "delete" {
				codeB = e.do("DELETE", "/"+h, nil).Code
			} else {
				body, _ := json.Marshal([]TrashRequest{{Locator: h, BlockMtime: oldT.UnixNano()}})
				codeB = e.do("PUT", "/trash", body).Code
				// the worker runs asynchronously; it is "done" when the queue drained
				for k := 0; k < 200000; k++ {
					st := e.srv.trashq.Status()
					if st.InProgress == 0 && st.Queued == 0 {
						break
					}
					time.Sleep(200 * time.Microsecond)
				}
			}
			g.doneCh <- 'B'
		}()
		g.drive(sc.Schedule, nil)
		verifSetHook(nil)
		close(g.quit) // releases anything still parked, now and later
		if g.gaveUp {
			run.Count("sched_controller_gave_up", 1)
			// let both requests finish before the next case (bounded)
			deadline := time.After(60 * time.Second)
			g.mu.Lock()
			pending := 2 - len(g.done)
			g.mu.Unlock()
			for pending > 0 {
				select {
				case <-g.doneCh:
					pending--
				case <-deadline:
					run.Inconclusive("sched: a request did not finish within 60 s after the controller gave up; schedule " + sc.Schedule)
					pending = 0
				}
			}
		}
		tr := strings.Join(g.trace, " ")
		key := sc.A + "/" + sc.B + "/" + sc.Init + "/" + sc.Lifetime + ":" + tr
		if !distinct[key] {
			distinct[key] = true
			run.Feature(key)
		}
		run.Count("schedules_run", 1)
		run.Count("flock_blocked_detours", g.blocked)
		run.Count("sched_ungated_concurrent_steps", g.ungated)
		hasB := false
		hasA := false
		for _, s := range g.trace {
			if s[0] == 'B' {
				hasB = true
			} else {
				hasA = true
			}
		}
		if !hasA || !hasB {
			run.Count("schedules_with_one_actor_without_points", 1)
		}
		acked := codeA == 200
		if acked {
			run.Count("a_acked", 1)
		}
		// oracle: acknowledged ⇒ live and retrievable at quiescence, and a
		// further DELETE cannot remove it either
		r := e.do("GET", "/"+h, nil)
		run.Eval(1)
		if acked && (r.Code != 200 || !bytes.Equal(r.Body.Bytes(), data)) {
			run.Violation("C04:T1:acked-"+sc.A+"-lost-in-race-with-"+sc.B+":init="+sc.Init,
				fmt.Sprintf("%s acknowledged (200), concurrent %s answered %d; afterwards GET gives %d. executed schedule: %s; files: %v", sc.A, sc.B, codeB, r.Code, tr, c04Snap(e.vols[0].Root)), sc)
			return
		}
		if acked {
			e.do("DELETE", "/"+h, nil)
			r = e.do("GET", "/"+h, nil)
			run.Eval(1)
			if r.Code != 200 || !bytes.Equal(r.Body.Bytes(), data) {
				run.Violation("C04:T1:acked-"+sc.A+"-removed-by-later-delete:init="+sc.Init,
					fmt.Sprintf("%s acknowledged (200) in a race with %s; a DELETE right afterwards removed the block (GET %d). executed schedule: %s", sc.A, sc.B, r.Code, tr), sc)
			}
		}
		if i < 2 {
			run.Sample(map[string]interface{}{"case": sc, "executed": g.trace, "a": codeA, "b": codeB})
		}
	})
}

func c04Interleavings(na, nb, limit int) []string {
	var out []string
	var rec func(a, b int, cur []byte)
	rec = func(a, b int, cur []byte) {
		if len(out) >= limit {
			return
		}
		if a == 0 && b == 0 {
			out = append(out, string(cur))
			return
		}
		if a > 0 {
			rec(a-1, b, append(cur, 'A'))
		}
		if b > 0 {
			rec(a, b-1, append(cur, 'B'))
		}
	}
	rec(na, nb, nil)
	return out
}

func c04RandomInterleaving(na, nb int, rng *verifkit.Rand) string {
	b := make([]byte, 0, na+nb)
	for na > 0 || nb > 0 {
		if nb == 0 || (na > 0 && rng.Intn(na+nb) < na) {
			b = append(b, 'A')
			na--
		} else {
			b = append(b, 'B')
			nb--
		}
	}
	return string(b)
}

// ------------------------------------------------------------------ (c)

type c04LinIn struct {
	Op   string // put touch get delete untrash
	Hash int
}
type c04LinOut struct {
	Code int
	OK   bool // body correct (get)
}

// per-hash state: live ∈ {0 none, 1 old, 2 new}, trashed (an old copy is in the trash)
type c04LinState struct {
	Live    int
	Trashed bool
}

func c04LinModel() porcupine.Model {
	return porcupine.Model{
		Partition: func(history []porcupine.Operation) [][]porcupine.Operation {
			m := map[int][]porcupine.Operation{}
			var keys []int
			for _, op := range history {
				k := op.Input.(c04LinIn).Hash
				if _, ok := m[k]; !ok {
					keys = append(keys, k)
				}
				m[k] = append(m[k], op)
			}
			sort.Ints(keys)
			var out [][]porcupine.Operation
			for _, k := range keys {
				out = append(out, m[k])
			}
			return out
		},
		Init: func() interface{} { return c04LinState{Live: 1} },
		Step: func(state, input, output interface{}) (bool, interface{}) {
			st := state.(c04LinState)
			in := input.(c04LinIn)
			out := output.(c04LinOut)
			switch in.Op {
			case "put":
				if out.Code != 200 {
					return true, st // a refused PUT promises nothing (not generated fault-free)
				}
				st.Live = 2
				return true, st
			case "touch":
				if st.Live == 0 {
					return out.Code != 200, st
				}
				if out.Code != 200 {
					return false, st
				}
				st.Live = 2
				return true, st
			case "get":
				if st.Live == 0 {
					return out.Code != 200, st
				}
				return out.Code == 200 && out.OK, st
			case "delete":
				// response codes are not judged (200 both when trashed and when
				// skipped as too new); effect: only an old copy goes to the trash
				if st.Live == 1 {
					st.Live = 0
					st.Trashed = true
				}
				return true, st
			case "untrash":
				if st.Trashed {
					if out.Code != 200 {
						return false, st
					}
					// the restored copy gets a current timestamp before it is
					// renamed into place, so it counts as new
					st.Trashed = false
					st.Live = 2
					return true, st
				}
				return out.Code != 200, st
			}
			return false, st
		},
		Equal: func(a, b interface{}) bool { return a.(c04LinState) == b.(c04LinState) },
		DescribeOperation: func(in, out interface{}) string {
			return fmt.Sprintf("%s(h%d)->%d", in.(c04LinIn).Op, in.(c04LinIn).Hash, out.(c04LinOut).Code)
		},
	}
}

func c04Lin(t *testing.T, run *verifkit.Run, base string) {
	n := run.N(60, 600)
	caseNo := 0
	var clock int64
	run.Cases("lin", n, func(i int, rng *verifkit.Rand) {
		caseNo++
		nclients := rng.Range(3, 6)
		nh := rng.Range(1, 2)
		opsPer := rng.Range(4, 9)
		run.Input(map[string]int{"clients": nclients, "hashes": nh, "ops_per_client": opsPer}, false)
		e := c04NewEnv(t, run, base, 2000000+caseNo, 1, nil, time.Hour, nh, rng, false)
		defer e.close()
		oldT := time.Now().Add(-10 * c04TTL)
		for hi := range e.hashes {
			vkPlant(t, e.vols[0].Root, e.hashes[hi], e.blocks[hi], oldT)
		}
		// random short sleeps at yield points widen the interleavings
		var hookSeed uint64 = rng.Uint64()
		var hookN uint64
		verifSetHook(func(label string) {
			k := atomic.AddUint64(&hookN, 1)
			r := verifkit.NewRand(hookSeed ^ k*0x9e3779b97f4a7c15)
			if r.Chance(1, 3) {
				time.Sleep(time.Duration(r.Intn(300)) * time.Microsecond)
			}
		})
		defer verifSetHook(nil)
		var mu sync.Mutex
		var hist []porcupine.Operation
		var wg sync.WaitGroup
		kinds := []string{"put", "touch", "get", "get", "delete", "delete", "untrash"}
		for c := 0; c < nclients; c++ {
			crng := rng.Fork()
			wg.Add(1)
			go func(c int) {
				defer wg.Done()
				for k := 0; k < opsPer; k++ {
					in := c04LinIn{Op: kinds[crng.Intn(len(kinds))], Hash: crng.Intn(nh)}
					h := e.hashes[in.Hash]
					call := atomic.AddInt64(&clock, 1)
					var out c04LinOut
					switch in.Op {
					case "put":
						out.Code = e.do("PUT", "/"+h, e.blocks[in.Hash]).Code
					case "touch":
						req := httptest.NewRequest("TOUCH", "/"+h, nil)
						req.Header.Set("Authorization", "OAuth2 "+vkRootToken)
						rec := httptest.NewRecorder()
						e.srv.handler.ServeHTTP(rec, req)
						out.Code = rec.Code
					case "get":
						r := e.do("GET", "/"+h, nil)
						out.Code = r.Code
						out.OK = bytes.Equal(r.Body.Bytes(), e.blocks[in.Hash])
					case "delete":
						out.Code = e.do("DELETE", "/"+h, nil).Code
					case "untrash":
						out.Code = e.do("PUT", "/untrash/"+h, nil).Code
					}
					ret := atomic.AddInt64(&clock, 1)
					mu.Lock()
					hist = append(hist, porcupine.Operation{ClientId: c, Input: in, Call: call, Output: out, Return: ret})
					mu.Unlock()
				}
			}(c)
		}
		wg.Wait()
		// overlapping pairs seen
		overlap := 0
		for a := 0; a < len(hist); a++ {
			for b := a + 1; b < len(hist); b++ {
				if hist[a].Input.(c04LinIn).Hash == hist[b].Input.(c04LinIn).Hash && hist[a].Call < hist[b].Return && hist[b].Call < hist[a].Return {
					overlap++
				}
			}
		}
		run.Count("lin_ops", len(hist))
		run.Count("lin_overlapping_pairs", overlap)
		res, info := porcupine.CheckOperationsVerbose(c04LinModel(), hist, 60*time.Second)
		run.Eval(1)
		switch res {
		case porcupine.Ok:
			run.Feature(fmt.Sprintf("lin:clients=%d,hashes=%d,ops=%d,overlap=%d", nclients, nh, len(hist), overlap/4))
		case porcupine.Unknown:
			run.Inconclusive("porcupine timed out on a history of " + strconv.Itoa(len(hist)) + " ops")
		default:
			_ = info
			var sb strings.Builder
			sort.Slice(hist, func(a, b int) bool { return hist[a].Call < hist[b].Call })
			for _, op := range hist {
				fmt.Fprintf(&sb, "c%d [%d,%d] %s(h%d) -> %d ok=%v\n", op.ClientId, op.Call, op.Return, op.Input.(c04LinIn).Op, op.Input.(c04LinIn).Hash, op.Output.(c04LinOut).Code, op.Output.(c04LinOut).OK)
			}
			run.Violation("C04:lin:history-not-linearizable", "history of PUT/TOUCH/GET/DELETE/untrash is not linearizable w.r.t. the per-hash model (old copy initially live):\n"+sb.String(), nil)
		}
		if i < 1 {
			run.Sample(map[string]interface{}{"clients": nclients, "hashes": nh, "ops": len(hist), "overlapping_pairs": overlap})
		}
	})
}
