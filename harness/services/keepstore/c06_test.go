//go:build verif

package main

// C06 (b, server side) — when a Directory volume fails in the middle of
// producing an index, the real handleIndex response lacks the blank-line
// terminator and every index reader (arvados.KeepService.Index/IndexMount,
// keepclient.KeepClient.GetIndex) rejects it; without a failure the response
// is terminated and the readers return exactly the stored blocks.
// See /verif/DESIGN.md §5 C06.

import (
	"context"
	"fmt"
	"io/ioutil"
	"net"
	"net/http"
	"os"
	"path/filepath"
	"sort"
	"strings"
	"testing"
	"time"

	"git.arvados.org/arvados.git/internal/verifkit"
	"git.arvados.org/arvados.git/sdk/go/arvados"
	"git.arvados.org/arvados.git/sdk/go/arvadosclient"
	"git.arvados.org/arvados.git/sdk/go/keepclient"
)

type c06KsVol struct {
	Blocks []string `json:"blocks"` // hashes
	Fail   string   `json:"fail"`   // "" | file-as-blockdir | dangling-symlink-blockdir | root-removed
	BadDir string   `json:"bad_dir,omitempty"`
}

type c06KsCase struct {
	Vols     []c06KsVol `json:"vols"` // in mount order
	Prefixes []string   `json:"prefixes"`
}

// c06KsFails is the model of "this volume cannot produce a complete index of
// the blocks starting with prefix": a removed root always; an unreadable
// block directory iff that directory is within the requested prefix.
func c06KsFails(v c06KsVol, prefix string) bool {
	switch v.Fail {
	case "":
		return false
	case "root-removed":
		return true
	}
	return strings.HasPrefix(v.BadDir, prefix) || strings.HasPrefix(prefix, v.BadDir)
}

func c06Terminated(body []byte) bool {
	s := string(body)
	return s == "\n" || strings.HasSuffix(s, "\n\n")
}

func c06SortedLines(body string) []string {
	var out []string
	for _, l := range strings.Split(body, "\n") {
		if l != "" {
			out = append(out, l)
		}
	}
	sort.Strings(out)
	return out
}

func TestVerifC06(t *testing.T) {
	run := verifkit.Start(t, "C06")
	defer run.Finish()
	hs := vkNewHTTP()
	defer hs.Close()
	base, err := ioutil.TempDir("", "verif-c06-")
	if err != nil {
		t.Fatal(err)
	}
	defer os.RemoveAll(base)
	old := time.Now().Add(-100 * time.Hour).Truncate(time.Second)

	addr := hs.srv.Listener.Addr().(*net.TCPAddr)
	httpc := &http.Client{Transport: &http.Transport{DisableKeepAlives: true, DisableCompression: true}, Timeout: 5 * time.Minute}
	aclient := &arvados.Client{Client: httpc, Scheme: "http", APIHost: "verif.invalid", AuthToken: vkRootToken}
	aks := &arvados.KeepService{UUID: "zzzzz-bi6l4-verifc06keepsto", ServiceHost: addr.IP.String(), ServicePort: addr.Port, ServiceType: "disk"}
	kc := &keepclient.KeepClient{
		Arvados:       &arvadosclient.ArvadosClient{ApiToken: vkRootToken, ApiServer: "verif.invalid", KeepServiceURIs: []string{hs.srv.URL}},
		Want_replicas: 1,
		HTTPClient:    httpc,
	}
	const kcUUID = "00000-bi6l4-000000000000000"

	kinds := []string{"file-as-blockdir", "dangling-symlink-blockdir", "root-removed"}
	n := run.N(160, 3000)
	caseNo := 0
	run.Cases("handleIndex", n, func(i int, rng *verifkit.Rand) {
		caseNo++
		// ---- generate
		nvol := rng.Range(1, 3)
		c := c06KsCase{}
		failVol := -1
		if !rng.Chance(1, 6) { // 1/6 are fault-free controls
			failVol = rng.Intn(nvol)
		}
		data := map[string][]byte{}
		for v := 0; v < nvol; v++ {
			cv := c06KsVol{}
			nb := rng.PickInt(0, 1, 2, 3, 5, 8, 20)
			for b := 0; b < nb; b++ {
				d := rng.Bytes(rng.Range(0, 300))
				h := verifkit.MD5Hex(d)
				dup := false
				for _, x := range cv.Blocks {
					dup = dup || x == h // a volume stores a block once (e.g. the empty block drawn twice)
				}
				if dup {
					continue
				}
				data[h] = d
				cv.Blocks = append(cv.Blocks, h)
			}
			if v == failVol {
				cv.Fail = kinds[rng.Intn(len(kinds))]
				if cv.Fail != "root-removed" {
					for {
						cv.BadDir = rng.Hex(3)
						clash := false
						for _, h := range cv.Blocks {
							if h[:3] == cv.BadDir {
								clash = true
							}
						}
						if !clash {
							break
						}
					}
				}
			}
			c.Vols = append(c.Vols, cv)
		}
		// prefixes: all; one that certainly contains the bad directory; the bad
		// directory itself and something below it; one that may exclude it
		c.Prefixes = []string{""}
		if failVol >= 0 && c.Vols[failVol].BadDir != "" {
			bd := c.Vols[failVol].BadDir
			c.Prefixes = append(c.Prefixes, bd[:1], bd, bd+rng.Hex(2))
		}
		c.Prefixes = append(c.Prefixes, rng.Hex(1))
		run.Input(c, false)

		// ---- set up the real server over real directories
		dir := fmt.Sprintf("%s/c%d", base, caseNo)
		defer os.RemoveAll(dir)
		var vols []vkVol
		for v := range c.Vols {
			root := fmt.Sprintf("%s/v%d", dir, v)
			os.MkdirAll(root, 0755)
			vols = append(vols, vkVol{UUID: fmt.Sprintf("zzzzz-nyw5e-%015d", v), Root: root})
			for _, h := range c.Vols[v].Blocks {
				vkPlant(t, root, h, data[h], old.Add(time.Duration(rng.Intn(1000000))*time.Microsecond))
			}
			switch c.Vols[v].Fail {
			case "file-as-blockdir":
				// opening succeeds, Readdir fails (ENOTDIR) — also as root
				if err := ioutil.WriteFile(filepath.Join(root, c.Vols[v].BadDir), []byte("not a directory"), 0644); err != nil {
					t.Fatal(err)
				}
			case "dangling-symlink-blockdir":
				if err := os.Symlink(filepath.Join(root, "nonexistent-target"), filepath.Join(root, c.Vols[v].BadDir)); err != nil {
					t.Fatal(err)
				}
			}
		}
		cluster := vkCluster(t)
		srv := vkNewServer(t, cluster, vols, false)
		defer srv.Close()
		hs.Set(srv.handler)
		// expected lines per volume, from the filesystem itself
		lines := make([][]string, nvol)
		for v := range c.Vols {
			for _, h := range c.Vols[v].Blocks {
				fi, err := os.Stat(vkBlockPath(vols[v].Root, h))
				if err != nil {
					t.Fatal(err)
				}
				lines[v] = append(lines[v], fmt.Sprintf("%s+%d %d", h, fi.Size(), fi.ModTime().UnixNano()))
			}
		}
		if failVol >= 0 && c.Vols[failVol].Fail == "root-removed" {
			// after the volume manager has been built (startup checks the root)
			os.RemoveAll(vols[failVol].Root)
		}

		bad := func(sig, detail string) { run.Violation(sig, fmt.Sprintf("%s; case=%+v", detail, c), c) }

		check := func(label string, covered []int, prefix, path string, readers map[string]func() (string, error)) {
			expectFail := false
			var want []string
			kind := ""
			for _, v := range covered {
				if c06KsFails(c.Vols[v], prefix) {
					expectFail = true
					kind = c.Vols[v].Fail
				}
				for _, l := range lines[v] {
					if strings.HasPrefix(l, prefix) {
						want = append(want, l)
					}
				}
			}
			sort.Strings(want)
			r := hs.Do("GET", path, nil, vkRootToken)
			run.Eval(1)
			pos := "n/a"
			if expectFail {
				run.Count("b_server_failing_index_responses", 1)
				pos = "only"
				if len(covered) > 1 {
					switch failVol {
					case covered[0]:
						pos = "first"
					case covered[len(covered)-1]:
						pos = "last"
					default:
						pos = "middle"
					}
				}
				if r.Err == nil && r.Status == 200 && c06Terminated(r.Body) {
					bad("C06:b:server-terminator-after-volume-error:"+label+":"+kind,
						fmt.Sprintf("GET %s answered 200 with a blank-line-terminated body (%d bytes) although volume %d (%s) could not be indexed", path, len(r.Body), failVol, kind))
				}
				if len(r.Body) > 0 {
					run.Count("b_server_failing_with_partial_body", 1)
				}
			} else {
				run.Count("b_server_complete_index_responses", 1)
				if r.Err != nil || r.Status != 200 || !c06Terminated(r.Body) {
					bad("C06:b:server-complete-index-not-terminated:"+label,
						fmt.Sprintf("GET %s: err=%v status=%d, body (%d bytes) lacks the blank-line terminator although no volume failed", path, r.Err, r.Status, len(r.Body)))
				} else if got := c06SortedLines(string(r.Body)); strings.Join(got, "\n") != strings.Join(want, "\n") {
					bad("C06:b:server-complete-index-wrong-entries:"+label,
						fmt.Sprintf("GET %s: index lists %d entries, the volumes hold %d matching blocks\n got %v\nwant %v", path, len(got), len(want), got, want))
				}
			}
			names := make([]string, 0, len(readers))
			for name := range readers {
				names = append(names, name)
			}
			sort.Strings(names)
			for _, name := range names {
				got, err := readers[name]()
				run.Eval(1)
				if expectFail {
					if err == nil {
						bad("C06:b:reader-accepts-failed-server-index:"+name+":"+kind,
							fmt.Sprintf("%s accepted the response of GET %s (%d entries) although volume %d (%s) could not be indexed; raw body tail %q", name, path, len(c06SortedLines(got)), failVol, kind, c06Tail(r.Body)))
					} else {
						run.Count("b_server_failing_rejected_by_reader", 1)
					}
				} else {
					if err != nil {
						bad("C06:b:reader-rejects-complete-server-index:"+name, fmt.Sprintf("%s rejected the complete index of GET %s: %v", name, path, err))
					} else if g := c06SortedLines(got); strings.Join(g, "\n") != strings.Join(want, "\n") {
						bad("C06:b:reader-wrong-entries-from-server:"+name, fmt.Sprintf("%s on GET %s returned %d entries, want %d\n got %v\nwant %v", name, path, len(g), len(want), g, want))
					}
				}
			}
			pc := "all"
			if prefix != "" {
				pc = fmt.Sprintf("len%d", len(prefix))
			}
			run.Feature(fmt.Sprintf("b:handleIndex:%s:nvol=%d:fail=%v/%s:pos=%s:prefix=%s", label, nvol, expectFail, kind, pos, pc))
		}

		entStr := func(ents []arvados.KeepServiceIndexEntry) string {
			var sb strings.Builder
			for _, e := range ents {
				fmt.Fprintf(&sb, "%s %d\n", e.SizedDigest, e.Mtime)
			}
			return sb.String()
		}
		all := make([]int, nvol)
		for v := range all {
			all[v] = v
		}
		for _, p := range c.Prefixes {
			p := p
			path := "/index"
			if p != "" {
				path = "/index/" + p
			}
			check("index", all, p, path, map[string]func() (string, error){
				"arvados.KeepService.Index": func() (string, error) {
					ents, err := aks.Index(context.Background(), aclient, p)
					return entStr(ents), err
				},
				"keepclient.KeepClient.GetIndex": func() (string, error) {
					rdr, err := kc.GetIndex(kcUUID, p)
					if err != nil {
						return "", err
					}
					b, err := ioutil.ReadAll(rdr)
					return string(b), err
				},
			})
			for v := range c.Vols {
				v := v
				check("mount-blocks", []int{v}, p, "/mounts/"+vols[v].UUID+"/blocks?prefix="+p, map[string]func() (string, error){
					"arvados.KeepService.IndexMount": func() (string, error) {
						ents, err := aks.IndexMount(context.Background(), aclient, vols[v].UUID, p)
						return entStr(ents), err
					},
				})
			}
		}
		if i < 2 {
			run.Sample(map[string]interface{}{"part": "b-server", "case": c})
		}
	})
}

func c06Tail(b []byte) string {
	if len(b) > 80 {
		b = b[len(b)-80:]
	}
	return string(b)
}
