//go:build verif

package main

// C01 — keepstore never serves or accepts a block whose content mismatches
// its hash. See /verif/DESIGN.md §5 C01.

import (
	"bytes"
	"crypto/md5"
	"fmt"
	"io/ioutil"
	"net"
	"os"
	"strconv"
	"strings"
	"sync"
	"testing"
	"time"

	"git.arvados.org/arvados.git/internal/verifkit"
)

func md5sum(b []byte) [16]byte { return md5.Sum(b) }

type c01Vol struct {
	RO    bool   `json:"ro"`
	State string `json:"state"` // absent | intact | <corruption kind>
	Pos   int    `json:"pos,omitempty"`
	// write fault of a writable volume: "" | full (the volume carries a fresh
	// "full" marker, WriteBlock gives up at once) | nodir (the block's
	// directory cannot be created: a regular file is in the way; only with
	// state absent)
	Fault string `json:"write_fault,omitempty"`
}

type c01Case struct {
	Size  int      `json:"size"`
	Vols  []c01Vol `json:"vols"` // in mount order
	Hash  string   `json:"hash"`
	Cseed uint64   `json:"content_seed"`
}

var c01Kinds = []string{"flip_first", "flip_last", "flip_mid", "flip_rand", "trunc0", "trunc1", "trunc_n1", "trunc_rand", "append1", "append_rand", "other_block", "other_block_samesize", "zero_len_file"}

func c01Sizes(thorough bool) []int {
	s := []int{0, 1, 2, 3, 255, 256, 257, 4095, 4096, 4097, 1<<18 - 1, 1 << 18, 1<<18 + 1, 1<<20 - 1, 1 << 20, 1<<20 + 1}
	return s
}

func c01SizeClass(n int) string {
	switch {
	case n == 0:
		return "0"
	case n == 1:
		return "1"
	case n < 256:
		return "<256"
	case n < 4096:
		return "<4K"
	case n < 1<<18-1:
		return "<256K-1"
	case n <= 1<<18+1:
		return "~256K"
	case n < 1<<20-1:
		return "<1M-1"
	case n <= 1<<20+1:
		return "~1M"
	default:
		return ">1M"
	}
}

// c01Corrupt returns the bytes stored for the given corruption kind. ok=false
// if the kind is not applicable to this block (e.g. bit flip in an empty
// block), in which case the caller falls back to another kind.
func c01Corrupt(kind string, data []byte, rng *verifkit.Rand, pos *int) ([]byte, bool) {
	n := len(data)
	flip := func(i int) []byte {
		c := append([]byte(nil), data...)
		c[i] ^= 1 << uint(rng.Intn(8))
		*pos = i
		return c
	}
	switch kind {
	case "flip_first":
		if n == 0 {
			return nil, false
		}
		return flip(0), true
	case "flip_last":
		if n == 0 {
			return nil, false
		}
		return flip(n - 1), true
	case "flip_mid":
		if n < 3 {
			return nil, false
		}
		return flip(n / 2), true
	case "flip_rand":
		if n == 0 {
			return nil, false
		}
		return flip(rng.Intn(n)), true
	case "trunc0", "zero_len_file":
		if n == 0 {
			return nil, false
		}
		return []byte{}, true
	case "trunc1":
		if n < 2 {
			return nil, false
		}
		return append([]byte(nil), data[:1]...), true
	case "trunc_n1":
		if n < 1 {
			return nil, false
		}
		return append([]byte(nil), data[:n-1]...), true
	case "trunc_rand":
		if n < 1 {
			return nil, false
		}
		*pos = rng.Intn(n)
		return append([]byte(nil), data[:*pos]...), true
	case "append1":
		return append(append([]byte(nil), data...), byte(rng.Intn(256))), true
	case "append_rand":
		k := rng.Range(1, 5000)
		*pos = k
		return append(append([]byte(nil), data...), rng.Bytes(k)...), true
	case "other_block":
		k := rng.Range(0, 3000)
		o := rng.Bytes(k)
		if bytes.Equal(o, data) {
			return nil, false
		}
		return o, true
	case "other_block_samesize":
		if n == 0 {
			return nil, false
		}
		o := rng.Bytes(n)
		if bytes.Equal(o, data) {
			return nil, false
		}
		return o, true
	}
	return nil, false
}

func TestVerifC01(t *testing.T) {
	run := verifkit.Start(t, "C01")
	defer run.Finish()
	hs := vkNewHTTP()
	defer hs.Close()
	base, err := ioutil.TempDir("", "verif-c01-")
	if err != nil {
		t.Fatal(err)
	}
	defer os.RemoveAll(base)
	old := time.Now().Add(-100 * time.Hour)

	sizes := c01Sizes(run.Thorough())
	n := run.N(2400, 40000)
	caseNo := 0
	run.Cases("main", n, func(i int, rng *verifkit.Rand) {
		caseNo++
		// ---- generate
		var size int
		switch {
		case rng.Chance(1, 12):
			size = sizes[10+rng.Intn(len(sizes)-10)] // the big boundary sizes, rarely
		case rng.Chance(1, 3):
			size = sizes[rng.Intn(10)]
		case rng.Chance(1, 40):
			size = rng.Range(4098, 300000)
		default:
			size = rng.Range(0, 4098)
		}
		cseed := rng.Uint64()
		data := verifkit.NewRand(cseed).Bytes(size)
		h := verifkit.MD5Hex(data)
		nvol := rng.Range(1, 3)
		c := c01Case{Size: size, Hash: h, Cseed: cseed}
		stored := make([][]byte, nvol)
		for v := 0; v < nvol; v++ {
			cv := c01Vol{RO: rng.Chance(1, 3)}
			switch rng.Intn(5) {
			case 0, 1:
				cv.State = "absent"
			case 2:
				cv.State = "intact"
				stored[v] = data
			default:
				k := rng.Intn(len(c01Kinds))
				for tries := 0; tries < len(c01Kinds); tries++ {
					kind := c01Kinds[(k+tries)%len(c01Kinds)]
					if b, ok := c01Corrupt(kind, data, rng, &cv.Pos); ok {
						cv.State = kind
						stored[v] = b
						break
					}
				}
				if cv.State == "" {
					cv.State = "absent"
				}
			}
			if !cv.RO && rng.Chance(1, 8) {
				cv.Fault = "full"
				if cv.State == "absent" && rng.Bool() {
					cv.Fault = "nodir"
				}
			}
			c.Vols = append(c.Vols, cv)
		}
		run.Input(c, false)

		// ---- set up
		dir := fmt.Sprintf("%s/c%d", base, caseNo)
		var vols []vkVol
		anyIntact, anyWritable, anyCorrupt := false, false, false
		feat := []string{c01SizeClass(size)}
		for v := 0; v < nvol; v++ {
			root := fmt.Sprintf("%s/v%d", dir, v)
			os.MkdirAll(root, 0755)
			vols = append(vols, vkVol{UUID: fmt.Sprintf("zzzzz-nyw5e-%015d", v), Root: root, RO: c.Vols[v].RO})
			if c.Vols[v].State != "absent" {
				vkPlant(t, root, h, stored[v], old)
			}
			switch c.Vols[v].Fault {
			case "full":
				os.Symlink(strconv.FormatInt(time.Now().Unix(), 10), root+"/full")
				run.Count("volumes_marked_full", 1)
			case "nodir":
				ioutil.WriteFile(root+"/"+h[:3], []byte("in the way"), 0644)
				run.Count("volumes_with_blocked_blockdir", 1)
			}
			if c.Vols[v].State == "intact" {
				anyIntact = true
			} else if c.Vols[v].State != "absent" {
				anyCorrupt = true
			}
			if !c.Vols[v].RO {
				anyWritable = true
			}
			ro := "rw"
			if c.Vols[v].RO {
				ro = "ro"
			}
			feat = append(feat, ro+":"+c.Vols[v].State+c.Vols[v].Fault)
		}
		defer os.RemoveAll(dir)
		cluster := vkCluster(t)
		srv := vkNewServer(t, cluster, vols, false)
		defer srv.Close()
		hs.Set(srv.handler)

		bad := func(sig, detail string) {
			run.Violation(sig, fmt.Sprintf("%s; case=%+v", detail, c), c)
		}
		checkGet := func(phase string, expectIntact bool) {
			for _, method := range []string{"GET", "HEAD"} {
				r := hs.Do(method, "/"+h, nil, vkRootToken)
				run.Eval(1)
				if r.Err != nil && r.Status == 0 {
					bad("C01:transport:"+phase, fmt.Sprintf("%s %s transport error %v", phase, method, r.Err))
					continue
				}
				if r.Status == 200 {
					if method == "GET" {
						if verifkit.MD5Hex(r.Body) != h {
							bad("C01:G1:get200-wrong-bytes:"+phase, fmt.Sprintf("%s GET 200 with body md5 %s len %d, want %s len %d", phase, verifkit.MD5Hex(r.Body), len(r.Body), h, size))
						}
						if r.CLenH == "" || r.CLenH != strconv.Itoa(len(r.Body)) {
							bad("C01:G1:get200-length-mismatch:"+phase, fmt.Sprintf("%s GET 200 Content-Length %q but body has %d bytes (true %d)", phase, r.CLenH, len(r.Body), size))
						}
					} else {
						if r.CLenH != strconv.Itoa(size) {
							bad("C01:G1:head200-length:"+phase, fmt.Sprintf("%s HEAD 200 reports Content-Length %q, true length %d", phase, r.CLenH, size))
						}
					}
					if !expectIntact {
						bad("C01:G3:200-without-intact-copy:"+phase, fmt.Sprintf("%s %s answered 200 although no intact copy exists", phase, method))
					}
				} else {
					if expectIntact {
						bad("C01:G2:intact-copy-not-served:"+phase, fmt.Sprintf("%s %s answered %d although an intact copy exists on a readable volume", phase, method, r.Status))
					}
					if method == "GET" && size >= 16 && len(r.Body) >= size && bytes.Contains(r.Body, data) {
						bad("C01:G3:error-status-with-data:"+phase, fmt.Sprintf("%s GET answered %d but the body contains the block", phase, r.Status))
					}
					if r.Status < 400 {
						bad("C01:G3:non-error-status:"+phase, fmt.Sprintf("%s %s answered %d", phase, method, r.Status))
					}
				}
			}
		}

		// ---- reads on the planted state
		checkGet("initial", anyIntact)

		// ---- PUT with a body that does not hash to H
		var wrong []byte
		switch rng.Intn(4) {
		case 0:
			wrong = append(append([]byte(nil), data...), 'x')
		case 1:
			if size > 0 {
				wrong = append([]byte(nil), data...)
				wrong[rng.Intn(size)] ^= 0x40
			} else {
				wrong = []byte{0}
			}
		case 2:
			if size > 0 {
				wrong = data[:size-1]
			} else {
				wrong = []byte("y")
			}
		default:
			wrong = rng.Bytes(rng.Range(0, 200))
			if verifkit.MD5Hex(wrong) == h {
				wrong = append(wrong, 1)
			}
		}
		before := map[int]map[string]string{}
		for v := range vols {
			before[v] = vkSnapshot(vols[v].Root, true)
		}
		r := hs.Do("PUT", "/"+h, wrong, vkRootToken)
		run.Eval(1)
		if r.Status == 200 {
			bad("C01:P1:mismatching-put-acknowledged", fmt.Sprintf("PUT /%s with body md5 %s (len %d) acknowledged: %q", h, verifkit.MD5Hex(wrong), len(wrong), r.Body))
		}
		for v := range vols {
			if eq, diff := vkSnapEqual(before[v], vkSnapshot(vols[v].Root, true)); !eq {
				bad("C01:P1:mismatching-put-changed-volume", fmt.Sprintf("refused/mismatching PUT changed volume %d: %s", v, diff))
			}
		}
		checkGet("after-bad-put", anyIntact)

		// ---- PUT with the right body
		r = hs.Do("PUT", "/"+h, data, vkRootToken)
		run.Eval(1)
		acked := r.Status == 200
		if acked {
			run.Count("put_acked", 1)
			loc := strings.TrimSpace(string(r.Body))
			if !strings.HasPrefix(loc, h+"+"+strconv.Itoa(size)) {
				bad("C01:P2:ack-wrong-locator", fmt.Sprintf("PUT acknowledged with locator %q, want %s+%d…", loc, h, size))
			}
			if !anyWritable {
				bad("C01:P2:ack-without-writable-volume", "PUT acknowledged although every volume is read-only")
			}
			checkGet("after-put", true)
			if anyCorrupt {
				run.Count("put_acked_over_corrupt", 1)
			}
		} else {
			run.Count("put_refused", 1)
			if anyWritable {
				run.Count("put_refused_with_writable", 1)
			}
			checkGet("after-refused-put", anyIntact)
		}

		if anyCorrupt || anyIntact {
			run.Feature(strings.Join(feat, ","))
		} else {
			run.Trivial()
		}
		if i < 3 {
			run.Sample(c)
		}
	})
	c01Concurrent(t, run, hs, base)

	// two overlapping PUTs of one block, the second one cancelled (shared with
	// C02): "once it is acknowledged an intact copy is retrievable"
	var ovMu sync.Mutex
	ovNo := 0
	c02Overlap(t, run, hs, func() string {
		ovNo++
		d := fmt.Sprintf("%s/ov%d", base, ovNo)
		os.MkdirAll(d, 0755)
		return d
	}, &ovMu, "C01")

	// what the handlers share between requests (pooled buffers): an
	// abandoned GET followed by a PUT; a short-bodied PUT after the same
	// block went through the buffer (c01abandon_test.go)
	vkSharedBuffers(t, run, hs, func() string {
		ovNo++
		d := fmt.Sprintf("%s/sb%d", base, ovNo)
		os.MkdirAll(d, 0755)
		return d
	}, &ovMu, "C01")
}

// c01Concurrent: the same G1/P2 clauses under concurrency. Several clients GET,
// HEAD and PUT a handful of intact blocks at the same time, after a few PUT
// requests that announce a Content-Length and then send fewer bytes (aborted
// uploads). Whatever the handlers share (buffers, pools), a 200 must carry
// exactly the bytes of the hash that was asked for.
func c01Concurrent(t *testing.T, run *verifkit.Run, hs *vkHTTP, base string) {
	vkConcurrent(t, run, hs, base, "C01", run.N(24, 400))
}

// vkConcurrent is shared by C01 (G1/P2 under concurrency) and C02 ("once
// acknowledged, retrievable", with aborted uploads and overlapping requests).
func vkConcurrent(t *testing.T, run *verifkit.Run, hs *vkHTTP, base string, prop string, n int) {
	caseNo := 0
	run.Cases("conc", n, func(i int, rng *verifkit.Rand) {
		caseNo++
		dir := fmt.Sprintf("%s/conc%d", base, caseNo)
		nvol := rng.Range(1, 2)
		var vols []vkVol
		for v := 0; v < nvol; v++ {
			root := fmt.Sprintf("%s/v%d", dir, v)
			os.MkdirAll(root, 0755)
			vols = append(vols, vkVol{UUID: fmt.Sprintf("zzzzz-nyw5e-%015d", v), Root: root})
		}
		defer os.RemoveAll(dir)
		nblocks := rng.Range(3, 6)
		size := rng.PickInt(64, 1000, 4096, 70000, 3<<20)
		opsPerClient := 25
		if size > 1<<20 {
			opsPerClient = 8
		}
		var blocks [][]byte
		var hashes []string
		for b := 0; b < nblocks; b++ {
			d := bytes.Repeat([]byte{byte('a' + b)}, size)
			copy(d, rng.Bytes(16))
			blocks = append(blocks, d)
			hashes = append(hashes, verifkit.MD5Hex(d))
			if rng.Bool() {
				vkPlant(t, vols[rng.Intn(nvol)].Root, hashes[b], d, time.Now().Add(-100*time.Hour))
			}
		}
		nabort := rng.Range(1, 4)
		nclients := rng.Range(4, 10)
		run.Input(map[string]int{"nvol": nvol, "blocks": nblocks, "size": size, "aborted_puts": nabort, "clients": nclients}, false)
		cluster := vkCluster(t)
		srv := vkNewServer(t, cluster, vols, false)
		defer srv.Close()
		hs.Set(srv.handler)
		// aborted uploads over raw connections
		addr := strings.TrimPrefix(hs.srv.URL, "http://")
		for a := 0; a < nabort; a++ {
			b := rng.Intn(nblocks)
			conn, err := net.DialTimeout("tcp", addr, 5*time.Second)
			if err != nil {
				continue
			}
			sent := rng.Intn(size)
			fmt.Fprintf(conn, "PUT /%s HTTP/1.1\r\nHost: x\r\nAuthorization: OAuth2 %s\r\nContent-Length: %d\r\n\r\n", hashes[b], vkRootToken, size)
			conn.Write(blocks[b][:sent])
			if tc, ok := conn.(*net.TCPConn); ok && rng.Bool() {
				tc.CloseWrite()
				conn.SetReadDeadline(time.Now().Add(2 * time.Second))
				ioutil.ReadAll(conn)
			}
			conn.Close()
			run.Count("conc_aborted_puts", 1)
		}
		var wg sync.WaitGroup
		for c := 0; c < nclients; c++ {
			crng := rng.Fork()
			wg.Add(1)
			go func() {
				defer wg.Done()
				for k := 0; k < opsPerClient; k++ {
					b := crng.Intn(nblocks)
					switch crng.Intn(5) {
					case 4:
						// a complete upload whose client hangs up without waiting for
						// the answer: the handler sees a disconnect while it may be in
						// the middle of writing the block
						if conn, err := net.DialTimeout("tcp", addr, 5*time.Second); err == nil {
							fmt.Fprintf(conn, "PUT /%s HTTP/1.1\r\nHost: x\r\nAuthorization: OAuth2 %s\r\nContent-Length: %d\r\n\r\n", hashes[b], vkRootToken, len(blocks[b]))
							conn.Write(blocks[b])
							if crng.Bool() {
								time.Sleep(time.Duration(crng.Intn(3000)) * time.Microsecond)
							}
							conn.Close()
							run.Count("conc_hangup_puts", 1)
						}
					case 0:
						r := hs.Do("PUT", "/"+hashes[b], blocks[b], vkRootToken)
						run.Eval(1)
						if r.Status == 200 {
							g := hs.Do("GET", "/"+hashes[b], nil, vkRootToken)
							run.Eval(1)
							if g.Status != 200 || !bytes.Equal(g.Body, blocks[b]) {
								run.Violation(prop+":P2:concurrent:acked-put-not-retrievable", fmt.Sprintf("PUT %s acknowledged, GET gives %d with md5 %s", hashes[b], g.Status, verifkit.MD5Hex(g.Body)), nil)
							}
						}
					default:
						r := hs.Do("GET", "/"+hashes[b], nil, vkRootToken)
						run.Eval(1)
						run.Count("conc_gets", 1)
						if r.Status == 200 && (verifkit.MD5Hex(r.Body) != hashes[b] || r.CLenH != strconv.Itoa(len(r.Body))) {
							other := "unknown bytes"
							for o := range blocks {
								if bytes.Equal(r.Body, blocks[o]) {
									other = "the bytes of another block that was requested concurrently"
								}
							}
							run.Violation(prop+":G1:concurrent:get200-wrong-bytes", fmt.Sprintf("GET %s answered 200 (Content-Length %s) with a body whose md5 is %s: %s", hashes[b], r.CLenH, verifkit.MD5Hex(r.Body), other), nil)
						}
					}
				}
			}()
		}
		wg.Wait()
		run.Feature(fmt.Sprintf("conc:nvol=%d,blocks=%d,size=%d,aborted=%d,clients=%d", nvol, nblocks, size, nabort, nclients))
	})
}
