//go:build verif

package main

// C02, stream "syskill": crash points enumerated at the SYSTEM CALL level,
// independently of the source instrumenter.
//
// A child process (this test binary, TestVerifC02Child in mode "sys") builds
// a keepstore router over prepared Directory volumes and then waits. The
// parent attaches strace to it (all threads), and only then releases it to
// serve one PUT. A first, un-injected run records which file-mutating system
// calls the PUT issues (per thread, per call name); after that, for every call
// name s and every k up to the largest per-thread count of s, a fresh child
// is run with `strace -e inject=s:signal=SIGKILL:when=k`, i.e. the kernel
// kills the process at its k-th s. The directories the dead process leaves
// behind are judged by c02Judge with a new server, exactly like the yield
// point kills. Whatever code issues the system calls (unix_volume.go, a
// helper elsewhere, a library) is covered: this stream does not depend on
// cmd/vinstr recognising it.
//
// In the reference run the yield-point hook also issues a marker system call
// (a stat of /.verif-point/<label>), so the strace log shows, for every
// successful file-mutating call on a volume path, whether a yield point
// preceded it since the previous one. Calls without one are only counted
// (unhooked_mutating_syscalls): they are crash points the instrumented kill
// stream cannot reach but this one does.
//
// If strace cannot attach in this environment the stream is skipped with a
// note; it never turns that into a verdict.

import (
	"bufio"
	"bytes"
	"encoding/json"
	"fmt"
	"io/ioutil"
	"os"
	"os/exec"
	"path/filepath"
	"regexp"
	"sort"
	"strconv"
	"strings"
	"sync"
	"syscall"
	"testing"
	"time"

	"git.arvados.org/arvados.git/internal/verifkit"
)

const c02StracePath = "/usr/bin/strace"

// file-mutating calls a Go program can issue on linux/amd64
var c02SysSet = []string{"openat", "write", "pwrite64", "writev", "renameat", "renameat2", "rename", "unlinkat", "unlink",
	"linkat", "link", "symlinkat", "utimensat", "ftruncate", "truncate", "fsync", "fdatasync", "mkdirat", "mkdir",
	"fchmod", "fchmodat", "fallocate", "copy_file_range", "sendfile", "splice"}

type c02SysLine struct {
	tid  int
	name string
	args string
	ret  string
	ok   bool // completed with a non-negative result
}

var c02SysLineRe = regexp.MustCompile(`^(\d+)\s+(.*)$`)

// c02ParseStrace merges "<unfinished ...>" / "<... resumed>" pairs and
// returns the calls in order of completion.
func c02ParseStrace(path string) ([]c02SysLine, error) {
	f, err := os.Open(path)
	if err != nil {
		return nil, err
	}
	defer f.Close()
	pending := map[int]string{}
	var out []c02SysLine
	sc := bufio.NewScanner(f)
	sc.Buffer(make([]byte, 1<<20), 1<<24)
	for sc.Scan() {
		m := c02SysLineRe.FindStringSubmatch(sc.Text())
		if m == nil {
			continue
		}
		tid, _ := strconv.Atoi(m[1])
		rest := m[2]
		if strings.HasPrefix(rest, "+++") || strings.HasPrefix(rest, "---") {
			continue
		}
		if strings.HasSuffix(rest, "<unfinished ...>") {
			pending[tid] = strings.TrimSuffix(rest, "<unfinished ...>")
			continue
		}
		if strings.HasPrefix(rest, "<... ") {
			i := strings.Index(rest, " resumed>")
			if i < 0 {
				continue
			}
			rest = pending[tid] + rest[i+len(" resumed>"):]
			delete(pending, tid)
		}
		p := strings.Index(rest, "(")
		if p <= 0 {
			continue
		}
		l := c02SysLine{tid: tid, name: rest[:p]}
		if e := strings.LastIndex(rest, ") = "); e > p {
			l.args = rest[p+1 : e]
			l.ret = strings.TrimSpace(rest[e+4:])
			l.ok = l.ret != "" && l.ret[0] != '-' && l.ret[0] != '?'
		} else {
			l.args = rest[p+1:]
		}
		out = append(out, l)
	}
	// calls that never completed (the process died inside them)
	for tid, s := range pending {
		if p := strings.Index(s, "("); p > 0 {
			out = append(out, c02SysLine{tid: tid, name: s[:p], args: s[p+1:], ret: "killed"})
		}
	}
	return out, sc.Err()
}

type c02SysResult struct {
	killed  bool
	exited  bool
	lines   []c02SysLine
	skipped string // strace unusable
}

// c02SysRun runs one child under an attached strace. inject=="" → trace only.
func c02SysRun(sc c02Scenario, dir string, mode string, inject string) (res c02SysResult, err error) {
	specPath := filepath.Join(dir, "spec.json")
	spec := c02ChildSpec{Scenario: sc, Dir: dir, Mode: mode}
	b, _ := json.Marshal(spec)
	if err := ioutil.WriteFile(specPath, b, 0644); err != nil {
		return res, err
	}
	exe, err := os.Executable()
	if err != nil {
		return res, err
	}
	cmd := exec.Command(exe, "-test.run", "^TestVerifC02Child$", "-test.count", "1", "-test.timeout", "0")
	cmd.Env = append(os.Environ(), "VERIF_C02_CHILD="+specPath, "VERIF_OUT=", "GOTRACEBACK=all")
	var buf bytes.Buffer
	cmd.Stdout = &buf
	cmd.Stderr = &buf
	tStart := time.Now()
	if err := cmd.Start(); err != nil {
		return res, err
	}
	done := make(chan error, 1)
	go func() { done <- cmd.Wait() }()
	fail := func(e error) (c02SysResult, error) {
		cmd.Process.Kill()
		<-done
		return res, fmt.Errorf("%v: %s", e, firstN(buf.Bytes(), 300))
	}
	// 1. the child has built its server and waits
	ready := filepath.Join(dir, "ready")
	for t0 := time.Now(); ; {
		if _, e := os.Stat(ready); e == nil {
			break
		}
		select {
		case e := <-done:
			return res, fmt.Errorf("child exited before it was ready: %v: %s", e, firstN(buf.Bytes(), 300))
		default:
		}
		if time.Since(t0) > 2*time.Minute {
			return fail(fmt.Errorf("child never became ready"))
		}
		time.Sleep(2 * time.Millisecond)
	}
	tReady := time.Now()
	// 2. attach strace to every thread
	logPath := filepath.Join(dir, "strace.log")
	traceSet := strings.Join(c02SysSet, ",")
	args := []string{"-f", "-qq", "-y", "-s", "96", "-o", logPath}
	if inject == "" {
		args = append(args, "-e", "trace="+traceSet+",newfstatat")
	} else {
		args = append(args, "-e", "trace="+traceSet, "-e", "inject="+inject)
	}
	args = append(args, "-p", strconv.Itoa(cmd.Process.Pid))
	st := exec.Command(c02StracePath, args...)
	var stbuf bytes.Buffer
	st.Stdout = &stbuf
	st.Stderr = &stbuf
	if err := st.Start(); err != nil {
		cmd.Process.Kill()
		<-done
		res.skipped = "strace could not be started: " + err.Error()
		return res, nil
	}
	stDone := make(chan error, 1)
	go func() { stDone <- st.Wait() }()
	attached := func() bool {
		tasks, _ := ioutil.ReadDir(fmt.Sprintf("/proc/%d/task", cmd.Process.Pid))
		if len(tasks) == 0 {
			return false
		}
		for _, t := range tasks {
			sb, e := ioutil.ReadFile(fmt.Sprintf("/proc/%d/task/%s/status", cmd.Process.Pid, t.Name()))
			if e != nil {
				continue
			}
			m := regexp.MustCompile(`(?m)^TracerPid:\s+(\d+)`).FindSubmatch(sb)
			if m == nil || string(m[1]) == "0" {
				return false
			}
		}
		return true
	}
	for t0 := time.Now(); ; {
		if attached() {
			// twice in a row: a thread created in between is followed by -f anyway
			time.Sleep(2 * time.Millisecond)
			if attached() {
				break
			}
		}
		select {
		case <-stDone:
			// with an injection armed, a runtime thread may issue the call
			// (e.g. the netpoller's wake-up write) and be killed before the
			// release: that is a kill run like any other
			select {
			case werr := <-done:
				if ee, ok := werr.(*exec.ExitError); ok && inject != "" {
					if ws, ok := ee.Sys().(syscall.WaitStatus); ok && ws.Signaled() && ws.Signal() == syscall.SIGKILL {
						res.killed = true
						res.lines, _ = c02ParseStrace(logPath)
						return res, nil
					}
				}
				res.skipped = fmt.Sprintf("strace exited without attaching and the child ended with %v: %s", werr, firstN(stbuf.Bytes(), 300))
				return res, nil
			case <-time.After(5 * time.Second):
			}
			cmd.Process.Kill()
			<-done
			res.skipped = "strace exited without attaching: " + firstN(stbuf.Bytes(), 300)
			return res, nil
		default:
		}
		if time.Since(t0) > time.Minute {
			st.Process.Kill()
			<-stDone
			cmd.Process.Kill()
			<-done
			res.skipped = "strace did not attach within a minute: " + firstN(stbuf.Bytes(), 300)
			return res, nil
		}
		time.Sleep(2 * time.Millisecond)
	}
	tAtt := time.Now()
	// 3. release the child
	if err := ioutil.WriteFile(filepath.Join(dir, "go"), []byte("go"), 0644); err != nil {
		st.Process.Kill()
		<-stDone
		return fail(err)
	}
	select {
	case werr := <-done:
		if werr != nil {
			if ee, ok := werr.(*exec.ExitError); ok {
				if ws, ok := ee.Sys().(syscall.WaitStatus); ok && ws.Signaled() && ws.Signal() == syscall.SIGKILL {
					res.killed = true
				} else {
					st.Process.Kill()
					<-stDone
					return res, fmt.Errorf("child failed: %v: %s", werr, firstN(buf.Bytes(), 400))
				}
			}
		} else {
			res.exited = true
		}
	case <-time.After(5 * time.Minute):
		st.Process.Kill()
		<-stDone
		return fail(fmt.Errorf("child watchdog"))
	}
	select {
	case <-stDone:
	case <-time.After(30 * time.Second):
		st.Process.Kill()
		<-stDone
	}
	if os.Getenv("VERIF_C02SYS_TIMING") != "" {
		fmt.Fprintf(os.Stderr, "c02sys timing: ready %v attach %v run %v\n", tReady.Sub(tStart), tAtt.Sub(tReady), time.Since(tAtt))
	}
	res.lines, _ = c02ParseStrace(logPath)
	return res, nil
}

// c02SysClassify names the object a call worked on, relative to the volume
// directories: tmp (a file under <vol>/tmp or a non-block name), block (a
// block-named file), dir, marker, ack (the harness's own files), other.
func c02SysClassify(l c02SysLine, dir string) string {
	a := l.args
	if strings.Contains(a, "/.verif-point/") {
		return "marker"
	}
	if !strings.Contains(a, dir) {
		return "other"
	}
	// last path mentioned (rename: the destination)
	idx := strings.LastIndex(a, dir)
	rest := a[idx+len(dir):]
	end := strings.IndexAny(rest, "\">")
	if end >= 0 {
		rest = rest[:end]
	}
	rest = strings.TrimPrefix(rest, "/")
	parts := strings.Split(rest, "/")
	if len(parts) == 0 || !strings.HasPrefix(parts[0], "v") || len(parts[0]) > 3 {
		return "ack"
	}
	base := parts[len(parts)-1]
	switch {
	case c02BlockNameRe.MatchString(base):
		return "block"
	case len(parts) >= 2 && parts[1] == "tmp" || strings.HasPrefix(base, "tmp"):
		return "tmp"
	case len(parts) <= 2:
		return "dir"
	}
	return "volfile"
}

func c02SysStream(t *testing.T, run *verifkit.Run, hs *vkHTTP, newDir func() string, judgeMu *sync.Mutex, scenarios []c02Scenario) {
	if _, err := os.Stat(c02StracePath); err != nil {
		run.Note("syskill stream skipped: " + c02StracePath + " not present")
		return
	}
	var skipOnce sync.Once
	skipped := false
	skip := func(why string) {
		skipOnce.Do(func() { run.Note("syskill stream skipped: " + why) })
		skipped = true
	}
	run.Cases("syskill", len(scenarios), func(i int, rng *verifkit.Rand) {
		if skipped {
			run.Trivial()
			return
		}
		sc := scenarios[i]
		sc.Cseed = rng.Uint64()
		run.Input(sc, false)
		// ---- reference run: trace only, with markers
		tdir := newDir()
		c02Setup(t, sc, tdir)
		ref, err := c02SysRun(sc, tdir, "systrace", "")
		if ref.skipped != "" {
			skip(ref.skipped)
			return
		}
		if err != nil {
			run.Inconclusive(fmt.Sprintf("syskill: reference run failed: %v", err))
			return
		}
		if _, e := os.Stat(filepath.Join(tdir, "acked")); e != nil {
			run.Inconclusive(fmt.Sprintf("syskill: fault-free traced PUT not acknowledged in scenario %+v", sc))
			return
		}
		perThread := map[string]map[int]int{}
		sinceMarker := 0
		unhooked := 0
		volMut := 0
		var seq []string
		for _, l := range ref.lines {
			cls := c02SysClassify(l, tdir)
			if l.name == "newfstatat" {
				if cls == "marker" {
					sinceMarker++
				}
				continue
			}
			if perThread[l.name] == nil {
				perThread[l.name] = map[int]int{}
			}
			perThread[l.name][l.tid]++
			if !l.ok || cls == "other" || cls == "ack" || cls == "marker" {
				continue
			}
			if l.name == "openat" && !strings.Contains(l.args, "O_CREAT") && !strings.Contains(l.args, "O_TRUNC") {
				continue // opening an existing file/directory changes nothing
			}
			volMut++
			seq = append(seq, l.name+":"+cls)
			if sinceMarker == 0 {
				unhooked++
				run.Count("unhooked:"+l.name+":"+cls, 1)
			}
			sinceMarker = 0
		}
		os.RemoveAll(tdir)
		run.Count("ref_volume_mutating_syscalls", volMut)
		run.Count("unhooked_mutating_syscalls", unhooked)
		if volMut == 0 && sc.Pre != "intact_first" && sc.Pre != "intact_last" {
			run.Inconclusive(fmt.Sprintf("syskill: strace saw no file-mutating call on the volumes during a PUT (scenario %+v)", sc))
			return
		}
		if i < 2 {
			run.Sample(map[string]interface{}{"scenario": sc, "mutating_syscalls_on_volumes": seq})
		}
		// ---- one child per (call name, k)
		type job struct {
			name string
			k    int
		}
		var jobs []job
		var names []string
		for n := range perThread {
			names = append(names, n)
		}
		sort.Strings(names)
		for _, n := range names {
			max := 0
			for _, c := range perThread[n] {
				if c > max {
					max = c
				}
			}
			// +1: thread placement differs between runs
			for k := 1; k <= max+1; k++ {
				jobs = append(jobs, job{n, k})
			}
		}
		var wg sync.WaitGroup
		sem := make(chan bool, 4)
		for _, j := range jobs {
			wg.Add(1)
			go func(j job) {
				defer wg.Done()
				sem <- true
				defer func() { <-sem }()
				dir := newDir()
				defer os.RemoveAll(dir)
				_, fixtures := c02Setup(t, sc, dir)
				res, err := c02SysRun(sc, dir, "sys", fmt.Sprintf("%s:signal=SIGKILL:when=%d", j.name, j.k))
				if res.skipped != "" {
					skip(res.skipped)
					return
				}
				if err != nil {
					run.Inconclusive(fmt.Sprintf("syskill: child (%s #%d) failed: %v", j.name, j.k, err))
					return
				}
				_, ackErr := os.Stat(filepath.Join(dir, "acked"))
				acked := ackErr == nil
				// where it died: the last call in the log, and how many
				// mutating calls on the volumes had completed
				last := "none"
				done := 0
				for _, l := range res.lines {
					cls := c02SysClassify(l, dir)
					if cls == "other" {
						continue
					}
					last = l.name + ":" + cls
					if l.ok && cls != "ack" {
						done++
					}
				}
				if res.killed {
					run.Count("sys_children_killed", 1)
					run.Count("syskill_at:"+last, 1)
				} else {
					run.Count("sys_child_not_killed", 1)
					last = "not-killed"
				}
				judgeMu.Lock()
				viol, ev := c02Judge(t, sc, dir, fixtures, acked, hs, "after-syskill")
				judgeMu.Unlock()
				run.Eval(ev)
				run.Feature(fmt.Sprintf("sys:%s,done=%d,size=%d,nvol=%d,pre=%s,acked=%v", last, done, sc.Size, sc.NVol, sc.Pre, acked))
				for _, v := range viol {
					run.Violation(v.sig, fmt.Sprintf("%s; scenario=%+v process killed by the kernel at its %d-th %s (last call seen: %s, %d mutating calls on the volumes completed) acked=%v",
						v.detail, sc, j.k, j.name, last, done, acked), map[string]interface{}{"scenario": sc, "mode": "syskill", "syscall": j.name, "k": j.k})
				}
			}(j)
		}
		wg.Wait()
	})
}
