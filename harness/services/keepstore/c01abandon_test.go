//go:build verif

package main

// Streams shared by C01 and C02 that exercise what the handlers SHARE between
// requests — the pooled block buffers:
//
// "abandon": a GET whose client disconnects while the volume is still reading
// the block. The volume read is parked at its yield point inside ReadBlock,
// the client "hangs up" (CloseNotify), the handler returns and gives its
// buffer back to the pool; a PUT of another block then takes a buffer, passes
// its checksum and is parked at the first yield point of WriteBlock; now the
// abandoned read is released and, once it has run dry, the PUT. Whatever the
// abandoned read still does must not reach the PUT's data: an acknowledged
// PUT must be retrievable, with the right bytes, from a new server on the same
// directory (c02Judge).
//
// "stalebuf": a request leaves block H in a pooled buffer; the next PUT of H
// announces the full Content-Length but its body ends early. The received
// bytes do not hash to H, so the PUT must not be acknowledged, whatever an
// earlier request left in the buffer.
//
// GOMAXPROCS is 1 while these streams run so that the pool hands the buffer
// just returned to the next request (sync.Pool's per-P slot); when it does
// not (GC emptied the pool) the case simply observes nothing.

import (
	"bytes"
	"fmt"
	"io"
	"net/http/httptest"
	"os"
	"path/filepath"
	"runtime"
	"strings"
	"sync"
	"sync/atomic"
	"testing"
	"time"

	"git.arvados.org/arvados.git/internal/verifkit"
)

type vkShortBody struct {
	data []byte
	off  int
}

func (b *vkShortBody) Read(p []byte) (int, error) {
	if b.off >= len(b.data) {
		return 0, io.EOF
	}
	n := copy(p, b.data[b.off:])
	b.off += n
	return n, nil
}
func (b *vkShortBody) Close() error { return nil }

func vkSharedBuffers(t *testing.T, run *verifkit.Run, hs *vkHTTP, newDir func() string, judgeMu *sync.Mutex, prop string) {
	defer runtime.GOMAXPROCS(runtime.GOMAXPROCS(1))

	type ab struct {
		SizeA  int    `json:"size_of_block_being_read"`
		SizeB  int    `json:"size_of_block_put"`
		Victim string `json:"victim"` // put-new | put-over-corrupt
	}
	var cases []ab
	for _, sa := range []int{64 << 10, 300 << 10, 1 << 20} {
		for _, sb := range []int{1000, 64 << 10, 300 << 10, 1 << 20} {
			for _, v := range []string{"put-new", "put-over-corrupt"} {
				cases = append(cases, ab{sa, sb, v})
			}
		}
	}
	run.Cases("abandon", len(cases), func(i int, rng *verifkit.Rand) {
		c := cases[i]
		if !run.Thorough() && (i+int(run.Seed()))%3 != 0 {
			return // quick: a seed-chosen third
		}
		pre := "none"
		if c.Victim == "put-over-corrupt" {
			pre = "corrupt_first"
		}
		sc := c02Scenario{Size: c.SizeB, NVol: 1, Pre: pre, Cseed: rng.Uint64()}
		run.Input(map[string]interface{}{"abandon": c, "scenario": sc}, false)
		dataB, hB := c02Data(sc)
		dir := newDir()
		defer os.RemoveAll(dir)
		vols, fixtures := c02Setup(t, sc, dir)
		dataA := rng.Bytes(c.SizeA)
		hA := verifkit.MD5Hex(dataA)
		vkPlant(t, vols[0].Root, hA, dataA, time.Now().Add(-100*time.Hour))
		fixtures[filepath.Join("v0", hA[:3], hA)] = dataA
		cluster := vkCluster(t)
		srv := vkNewServer(t, cluster, vols, false)
		defer srv.Close()

		var phase int32 // 0: waiting for the GET's read; 1: waiting for the PUT's write
		rHeld, wHeld := make(chan struct{}), make(chan struct{})
		releaseR, releaseW := make(chan struct{}), make(chan struct{})
		var onceR, onceW sync.Once
		verifSetHook(func(label string) {
			switch {
			case atomic.LoadInt32(&phase) == 0 && label == "ReadBlock.io.Copy#1":
				held := false
				onceR.Do(func() { held = true; close(rHeld) })
				if held {
					<-releaseR
				}
			case atomic.LoadInt32(&phase) == 1 && strings.HasPrefix(label, "WriteBlock."):
				held := false
				onceW.Do(func() { held = true; close(wHeld) })
				if held {
					<-releaseW
				}
			}
		})
		defer verifSetHook(nil)
		released := false
		defer func() {
			if !released {
				close(releaseR)
				close(releaseW)
			}
		}()

		// 1. GET A; its volume read parks inside ReadBlock
		cnA := make(chan bool, 1)
		recA := &c02Recorder{ResponseRecorder: httptest.NewRecorder(), cn: cnA}
		getDone := make(chan struct{})
		go func() {
			defer close(getDone)
			req := httptest.NewRequest("GET", "/"+hA, nil)
			req.Header.Set("Authorization", "OAuth2 "+vkRootToken)
			srv.handler.ServeHTTP(recA, req)
		}()
		select {
		case <-rHeld:
		case <-getDone:
			run.Count("abandon_read_not_parked", 1)
			run.Trivial()
			return
		case <-time.After(20 * time.Second):
			run.Inconclusive("abandon: the GET neither reached ReadBlock's copy nor returned")
			return
		}
		// 2. the client hangs up; the handler must return without its data
		cnA <- true
		select {
		case <-getDone:
		case <-time.After(20 * time.Second):
			// it waits for the read: then nothing is abandoned; let everything go
			run.Count("abandon_get_waits_for_read", 1)
			released = true
			close(releaseR)
			close(releaseW)
			<-getDone
			run.Trivial()
			return
		}
		// 3. PUT B takes a buffer, passes its checksum, parks in WriteBlock
		atomic.StoreInt32(&phase, 1)
		recB := &c02Recorder{ResponseRecorder: httptest.NewRecorder(), cn: make(chan bool)}
		putDone := make(chan struct{})
		go func() {
			defer close(putDone)
			req := httptest.NewRequest("PUT", "/"+hB, bytes.NewReader(dataB))
			req.ContentLength = int64(len(dataB))
			req.Header.Set("Authorization", "OAuth2 "+vkRootToken)
			srv.handler.ServeHTTP(recB, req)
		}()
		parked := false
		select {
		case <-wHeld:
			parked = true
		case <-putDone:
		case <-time.After(20 * time.Second):
			run.Inconclusive("abandon: the PUT neither reached WriteBlock nor returned")
			return
		}
		// 4. the abandoned read runs until nothing moves any more
		released = true
		close(releaseR)
		last := atomic.LoadInt64(&verifPointsHit)
		for idle := 0; idle < 8; {
			time.Sleep(3 * time.Millisecond)
			if cur := atomic.LoadInt64(&verifPointsHit); cur == last {
				idle++
			} else {
				idle, last = 0, cur
			}
		}
		// 5. the PUT goes on
		close(releaseW)
		select {
		case <-putDone:
		case <-time.After(60 * time.Second):
			run.Inconclusive("abandon: the PUT did not return after its release")
			return
		}
		acked := recB.Code == 200
		run.Count("abandon_steered", 1)
		if parked {
			run.Count("abandon_put_parked_in_writeblock", 1)
		}
		judgeMu.Lock()
		viol, ev := c02Judge(t, sc, dir, fixtures, acked, hs, "after-abandoned-get")
		judgeMu.Unlock()
		run.Eval(ev)
		run.Feature(fmt.Sprintf("abandon:a=%d,b=%d,%s,get=%d,put=%d,parked=%v", c.SizeA, c.SizeB, c.Victim, recA.Code, recB.Code, parked))
		for _, v := range viol {
			run.Violation(strings.Replace(v.sig, "C02:", prop+":", 1), fmt.Sprintf("%s; a GET of block A (%d bytes) was abandoned by its client while the volume was reading A; a PUT of block B (%d bytes, %s) that started afterwards answered %d",
				v.detail, c.SizeA, c.SizeB, c.Victim, recB.Code), map[string]interface{}{"abandon": c, "scenario": sc})
		}
	})

	// ---- stale pooled data + short body
	type sb struct {
		Size  int    `json:"size"`
		Sent  int    `json:"body_bytes_sent"`
		First string `json:"first_request"` // put | get | put-refused
	}
	var scs []sb
	for _, sz := range []int{10, 1000, 100000} {
		for _, sent := range []int{0, 1, sz / 2, sz - 1} {
			for _, f := range []string{"put", "get", "put-refused"} {
				scs = append(scs, sb{sz, sent, f})
			}
		}
	}
	run.Cases("stalebuf", len(scs), func(i int, rng *verifkit.Rand) {
		c := scs[i]
		if c.Sent >= c.Size || c.Sent < 0 {
			run.Trivial()
			return
		}
		run.Input(c, false)
		dir := newDir()
		defer os.RemoveAll(dir)
		root := filepath.Join(dir, "v0")
		os.MkdirAll(root, 0755)
		data := rng.Bytes(c.Size)
		h := verifkit.MD5Hex(data)
		cluster := vkCluster(t)
		srv := vkNewServer(t, cluster, []vkVol{{UUID: "zzzzz-nyw5e-000000000000000", Root: root}}, false)
		defer srv.Close()
		do := func(method string, body io.ReadCloser, n int) *httptest.ResponseRecorder {
			req := httptest.NewRequest(method, "/"+h, nil)
			if body != nil {
				req.Body = body
				req.ContentLength = int64(n)
			}
			req.Header.Set("Authorization", "OAuth2 "+vkRootToken)
			rec := httptest.NewRecorder()
			srv.handler.ServeHTTP(&c02Recorder{ResponseRecorder: rec, cn: make(chan bool)}, req)
			return rec
		}
		stored := false
		switch c.First {
		case "put":
			r := do("PUT", &vkShortBody{data: data}, len(data))
			stored = r.Code == 200
		case "get":
			vkPlant(t, root, h, data, time.Now())
			do("GET", nil, 0)
			stored = true
		case "put-refused":
			// the volume refuses the write (a regular file in the way of the
			// block directory): the buffer has held the block, nothing is stored
			os.WriteFile(filepath.Join(root, h[:3]), []byte("x"), 0644)
			do("PUT", &vkShortBody{data: data}, len(data))
			os.Remove(filepath.Join(root, h[:3]))
		}
		r := do("PUT", &vkShortBody{data: data[:c.Sent]}, len(data))
		run.Eval(1)
		run.Feature(fmt.Sprintf("stalebuf:size=%d,sent=%d,first=%s,status=%d", c.Size, c.Sent, c.First, r.Code))
		if r.Code == 200 {
			run.Violation(prop+":P1:put-acknowledged-although-received-body-does-not-match-hash:short-body", fmt.Sprintf(
				"PUT %s announced Content-Length %d but only %d body bytes arrived (they do not hash to the locator); answered 200 %q. The previous request through the pool was %q of the same block (block stored before the PUT: %v)",
				h, len(data), c.Sent, strings.TrimSpace(r.Body.String()), c.First, stored), c)
		}
	})
}
