//go:build verif

package main

// C07 — block signatures verify only for the exact hash, token, expiry and
// key. Part 2 of 2 (services/keepstore): the real router with
// Collections.BlobSigning on, driven over a loopback HTTP connection, plus
// keepstore's own SignLocator/VerifySignature wrappers (which go through
// sdk/go/keepclient's). Expectations come from verifkit/c07ref.go only.
// See /verif/DESIGN.md §5 C07.

import (
	"bytes"
	"fmt"
	"io/ioutil"
	"os"
	"regexp"
	"runtime"
	"strconv"
	"strings"
	"testing"
	"time"

	"git.arvados.org/arvados.git/internal/verifkit"
	"git.arvados.org/arvados.git/sdk/go/arvados"
)

type c07KSCase struct {
	verifkit.C07Case
	DataSeed uint64 `json:"data_seed"`
	LenA     int    `json:"len_a"`
	LenB     int    `json:"len_b"`
	LenC     int    `json:"len_c"`
}

var c07Routeable = regexp.MustCompile(`^[0-9a-f]{32}(\+[^/]+)?$`)

func c07KSOutcome(err error) string {
	switch err {
	case nil:
		return "ok"
	case ExpiredError:
		return "expired"
	case PermissionError:
		return "invalid" // keepstore folds missing and invalid into one error
	}
	return "other"
}

func TestVerifC07(t *testing.T) {
	run := verifkit.Start(t, "C07")
	defer run.Finish()
	if msg := verifkit.C07SelfTest(verifkit.NewRand(run.Seed() ^ 0xc07)); msg != "" {
		run.Inconclusive("reference HMAC self-test failed: " + msg)
		return
	}
	// keepstore's buffer pool is a sync.Pool of 64 MiB slices, which is
	// per-P: with many Ps nearly every authorised GET allocates (and clears)
	// a fresh 64 MiB buffer. The workload is strictly sequential, so one P
	// loses nothing and keeps one buffer alive.
	defer runtime.GOMAXPROCS(runtime.GOMAXPROCS(1))
	hs := vkNewHTTP()
	defer hs.Close()
	root, err := ioutil.TempDir("", "verif-c07-")
	if err != nil {
		t.Fatal(err)
	}
	defer os.RemoveAll(root)
	vols := []vkVol{{UUID: "zzzzz-nyw5e-000000000000c07", Root: root}}

	// the default configuration is loaded once (the config loader costs ~50 ms);
	// every server gets its own shallow copy with its own key/TTL/volume map
	baseCluster := vkCluster(t)
	newServer := func(key []byte, ttl time.Duration) *vkServer {
		cl := *baseCluster
		cluster := &cl
		cluster.Collections.BlobSigning = true
		cluster.Collections.BlobSigningKey = string(key)
		cluster.Collections.BlobSigningTTL = arvados.Duration(ttl)
		return vkNewServer(t, cluster, vols, false)
	}

	run.Cases("keepstore", run.N(1200, 12000), func(i int, rng *verifkit.Rand) {
		now := time.Now().Unix()
		var c c07KSCase
		c.C07Case = verifkit.C07GenCase(rng, now)
		c.DataSeed = rng.Uint64()
		c.LenA, c.LenB, c.LenC = rng.Range(8, 300), rng.Range(8, 300), rng.Range(8, 300)
		dr := verifkit.NewRand(c.DataSeed)
		dataA, dataB, dataC := dr.Bytes(c.LenA), dr.Bytes(c.LenB), dr.Bytes(c.LenC)
		c.Hash = verifkit.MD5Hex(dataA)
		if c.Size != "" {
			c.Size = strconv.Itoa(len(dataA))
		}
		if rng.Chance(1, 6) {
			// an +R hint next to the signature (never generated without one:
			// "+R without +A" is the remote-proxy route, which is not this property)
			c.RHint = true
			h := "Rzzzzz-" + rng.String(rng.Range(1, 30), "abcdefghijklmnopqrstuvwxyz0123456789@_-")
			if rng.Bool() {
				c.HintsBefore = append(c.HintsBefore, h)
			} else {
				c.HintsAfter = append([]string{h}, c.HintsAfter...)
			}
		}
		run.Input(c, false)
		hashB, hashC := verifkit.MD5Hex(dataB), verifkit.MD5Hex(dataC)
		vkPlant(t, root, c.Hash, dataA, time.Time{})
		vkPlant(t, root, hashB, dataB, time.Time{})
		defer os.Remove(vkBlockPath(root, c.Hash))
		defer os.Remove(vkBlockPath(root, hashB))
		defer os.Remove(vkBlockPath(root, hashC))
		key, ttl := c.Key(), c.TTL()
		srv := newServer(key, ttl)
		defer srv.Close()
		hs.Set(srv.handler)

		// W1: keepstore's signer wrapper against the reference
		signed := c.RefSigned()
		run.Eval(1)
		if got, want := SignLocator(srv.cluster, c.Base(), c.Token, time.Unix(c.Expiry, c.ExpiryNanos)), c.Base()+"+"+verifkit.C07RefHint(key, c.Hash, c.Token, c.Expiry, ttl); got != want {
			run.Violation("C07:keepstore:sign-wrapper-differs-from-reference", fmt.Sprintf("keepstore SignLocator(%q, %q, %d) = %q, want %q (ttl %v key %s)", c.Base(), c.Token, c.Expiry, got, want, ttl, c.KeyHex), c)
		}

		data := map[string][]byte{c.Hash: dataA, hashB: dataB, hashC: dataC}
		// get presents p to the server currently installed (configured with skey/sttl)
		get := func(p *verifkit.C07Pert, skey []byte, sttl time.Duration, noToken bool) {
			tok := p.Token
			if noToken {
				tok = ""
			}
			e := verifkit.C07Expect(p.Loc, tok, sttl, skey, now)
			if e.NearNow {
				run.Count("skipped_near_now", 1)
				return
			}
			r := hs.Do("GET", "/"+p.Loc, nil, tok)
			run.Eval(1)
			run.Count(fmt.Sprintf("http:%s:%d", e.Class, r.Status), 1)
			run.Count("get:"+p.Kind, 1)
			detail := func() string {
				return fmt.Sprintf("GET /%s with token %q -> %d %q; server key %x ttl %v; reference says %s (presentation %s %s of a locator signed for token %q ttl %v key %s expiry %d; now %d)",
					p.Loc, tok, r.Status, c07Trunc(r.Body), skey, sttl, e.Class, p.Kind, p.What, c.Token, ttl, c.KeyHex, c.Expiry, now)
			}
			in := map[string]interface{}{"case": c, "presented": p, "no_token": noToken}
			if r.Err != nil && r.Status == 0 {
				run.Violation("C07:keepstore:transport:"+p.Kind, detail()+" transport error "+r.Err.Error(), in)
				return
			}
			want := data[strings.SplitN(p.Loc, "+", 2)[0]]
			if e.MustVerify {
				if r.Status != 200 || !bytes.Equal(r.Body, want) {
					run.Violation("C07:keepstore:valid-locator-refused:"+p.Kind+c07R(strings.Contains(p.Loc, "+R")), detail(), in)
				}
				return
			}
			leaked := false
			for _, d := range data {
				if bytes.Contains(r.Body, d) {
					leaked = true
				}
			}
			if r.Status/100 == 2 || leaked {
				run.Violation("C07:keepstore:data-served-without-valid-signature:"+p.Kind+":"+e.Class+c07R(strings.Contains(p.Loc, "+R")), detail(), in)
				return
			}
			if !c07Routeable.MatchString(p.Loc) || (strings.Contains(p.Loc, "+R") && !strings.Contains(p.Loc, "+A")) {
				// not the signed-GET route (400 from the router / remote proxy): only "no data" is fixed
				run.Count("status_unjudged_other_route", 1)
				return
			}
			var sym string
			switch {
			case e.MustExpired:
				if r.Status != 401 {
					sym = fmt.Sprintf("expired-reported-as-%d", r.Status)
				}
			case e.MayExpired:
				if r.Status != 401 && r.Status != 403 {
					sym = fmt.Sprintf("unexpected-status-%d", r.Status)
				}
			default:
				if r.Status == 401 {
					sym = "unexpired-reported-as-expired"
				} else if r.Status != 403 {
					sym = fmt.Sprintf("unexpected-status-%d", r.Status)
				}
			}
			if sym != "" {
				run.Violation("C07:keepstore:status:"+sym+":"+p.Kind+":"+e.Class, detail(), in)
			}
		}

		perts := verifkit.C07Perturbations(&c.C07Case, signed, rng, 1)

		// W2: keepstore's verifier wrapper on every presentation that uses the server's key and TTL
		for k := range perts {
			p := &perts[k]
			if p.KeyHx != c.KeyHex || p.TTLNs != c.TTLNanos {
				continue
			}
			e := verifkit.C07Expect(p.Loc, p.Token, ttl, key, now)
			if e.NearNow {
				continue
			}
			out := c07KSOutcome(VerifySignature(srv.cluster, p.Loc, p.Token))
			run.Eval(1)
			run.Count("wrapper:"+e.Class+":"+out, 1)
			if sym := verifkit.C07Judge(e, out); sym != "" {
				run.Violation("C07:keepstore:verify-wrapper:"+sym+":"+p.Kind+":"+e.Class,
					fmt.Sprintf("keepstore VerifySignature(%q, token %q) = %s (key %s ttl %v), reference says %s", p.Loc, p.Token, out, c.KeyHex, ttl, e.Class),
					map[string]interface{}{"case": c, "presented": p})
			}
		}

		// G*: HTTP. Always: unperturbed, no token, signature removed, other tokens;
		// plus a sample of the single-character perturbations.
		var sameCfg, otherCfg []int
		for k := range perts {
			if perts[k].KeyHx != c.KeyHex || perts[k].TTLNs != c.TTLNanos {
				otherCfg = append(otherCfg, k)
			} else if k > 0 {
				sameCfg = append(sameCfg, k)
			}
		}
		get(&perts[0], key, ttl, false)
		get(&perts[0], key, ttl, true)
		picked := map[int]bool{}
		for _, k := range sameCfg {
			switch perts[k].Kind {
			case "sig-removed", "token", "hash-digit", "hash-upcase", "sig-all-upcase":
				picked[k] = true
			}
		}
		for _, j := range rng.Perm(len(sameCfg))[:28] {
			picked[sameCfg[j]] = true
		}
		for _, k := range sameCfg {
			if picked[k] {
				get(&perts[k], key, ttl, false)
			}
		}
		// a second valid locator, and its signature transplanted onto the first block (and vice versa)
		{
			hintA := verifkit.C07RefHint(key, c.Hash, c.Token, c.Expiry, ttl)
			hintB := verifkit.C07RefHint(key, hashB, c.Token, c.Expiry, ttl)
			mk := func(kind, loc string) *verifkit.C07Pert {
				return &verifkit.C07Pert{Kind: kind, Loc: loc, Token: c.Token, TTLNs: c.TTLNanos, KeyHx: c.KeyHex}
			}
			get(mk("none", hashB+"+"+hintB), key, ttl, false)
			get(mk("transplant", hashB+"+"+strconv.Itoa(len(dataB))+"+"+hintA), key, ttl, false)
			get(mk("transplant", c.Base()+"+"+hintB+c.Tail()), key, ttl, false)
		}
		// locators signed under another TTL / key: present them to this server
		// (equivalently: this locator to a server configured otherwise)
		var pickCfg []int
		for _, kind := range []string{"ttl", "key"} {
			var ks []int
			for _, k := range otherCfg {
				if perts[k].Kind == kind {
					ks = append(ks, k)
				}
			}
			if len(ks) > 0 {
				pickCfg = append(pickCfg, ks[rng.Intn(len(ks))])
			}
		}
		for _, k := range pickCfg {
			p := &perts[k]
			// (a) the locator signed for (p.key, p.ttl) by the reference, presented here
			alt := *p
			alt.Loc = c.Base() + "+" + verifkit.C07RefHint(p.Key(), c.Hash, c.Token, c.Expiry, p.TTL()) + c.Tail()
			alt.KeyHx, alt.TTLNs = c.KeyHex, c.TTLNanos
			get(&alt, key, ttl, false)
			// (b) this locator presented to a server configured with (p.key, p.ttl)
			s2 := newServer(p.Key(), p.TTL())
			hs.Set(s2.handler)
			get(p, p.Key(), p.TTL(), false)
			hs.Set(srv.handler)
			s2.Close()
		}

		// P*: the locator returned by PUT is signed for the caller's token
		r := hs.Do("PUT", "/"+hashC, dataC, c.Token)
		run.Eval(1)
		if r.Status != 200 {
			run.Inconclusive(fmt.Sprintf("PUT answered %d %q", r.Status, c07Trunc(r.Body)))
		} else {
			loc := strings.TrimSpace(string(r.Body))
			ai := strings.Index(loc, "+A")
			at := strings.LastIndex(loc, "@")
			switch {
			case ai < 0 || at < ai:
				run.Violation("C07:keepstore:put-returns-unsigned-locator", fmt.Sprintf("PUT /%s with token %q returned %q (key %s ttl %v)", hashC, c.Token, loc, c.KeyHex, ttl), c)
			case len(loc)-at-1 != 8:
				run.Count("put_expiry_outside_8_digit_range_unjudged", 1)
			default:
				e := verifkit.C07Expect(loc, c.Token, ttl, key, now)
				run.Count("put:"+e.Class, 1)
				if e.Class == "fail" {
					run.Violation("C07:keepstore:put-signature-differs-from-reference", fmt.Sprintf("PUT /%s with token %q returned %q; reference hint for that expiry: +A%s@… (key %s ttl %v)", hashC, c.Token, loc,
						verifkit.C07RefSig(key, hashC, c.Token, loc[at+1:], verifkit.C07TTLHex(ttl)), c.KeyHex, ttl), c)
				} else if e.MustVerify {
					p := &verifkit.C07Pert{Kind: "put-returned", Loc: loc, Token: c.Token, TTLNs: c.TTLNanos, KeyHx: c.KeyHex}
					get(p, key, ttl, false)
					p2 := *p
					p2.Kind, p2.Token = "put-returned-other-token", c.Token+"x"
					get(&p2, key, ttl, false)
				}
			}
		}

		run.Feature(c.Feature())
		if i < 2 {
			run.Sample(map[string]interface{}{"case": c, "reference_signed_locator": signed})
		}
	})

	// the +R-without-+A route (verification delegated to the remote cluster)
	c07RemoteStream(t, run, hs, root, baseCluster)
}

func c07R(r bool) string {
	if r {
		return ":with-R-hint"
	}
	return ""
}

func c07Trunc(b []byte) string {
	if len(b) > 80 {
		return string(b[:80]) + "…"
	}
	return string(b)
}
