//go:build verif

package arvados

// C09 — saved manifests reproduce the tree and reference only blocks that
// were stored. See /verif/DESIGN.md §5 C09.
//
// Same world as C08 (c08_world_test.go) with a recording, failing Keep stub
// and names over bytes 0x01-0xff. Oracles, on every save (MarshalManifest,
// Sync, Flush followed by MarshalManifest):
//
//	M1 a successful save returns a manifest that is valid under the published grammar;
//	M2 interpreting that manifest with an independent interpreter over the blocks Keep
//	   acknowledged, and loading it into a second filesystem, both give exactly the
//	   model's directories (including empty ones), names and contents;
//	M3 every locator in it was in the original manifest or was returned by a successful
//	   PutB (string identity: the stub signs every acknowledgement differently and
//	   also hands out a well-formed locator together with an error);
//	M4 a save during which a PutB failed returns an error; afterwards the whole tree
//	   still reads as the model says; a save with no failing PutB succeeds (in
//	   particular the final one, after failures have stopped);
//	M5 (own stream) load a generated valid manifest, save it unchanged: every file's
//	   content and the total size are preserved, and no block is written.
//
// Stream "conc" (c09_conc_test.go) applies M1-M4 to saves that run while
// other goroutines keep writing through open handles.

import (
	"fmt"
	"os"
	"runtime"
	"sort"
	"strconv"
	"strings"
	"sync/atomic"
	"testing"
	"time"

	"git.arvados.org/arvados.git/internal/verifkit"
)

const c09EmptyBlock = "d41d8cd98f00b204e9800998ecf8427e+0"

// c09StackSummary keeps the goroutines of a dump that are inside the
// collection filesystem.
func c09StackSummary(dump string) string {
	var out []string
	for _, g := range strings.Split(dump, "\n\n") {
		if strings.Contains(g, "fs_collection.go") || strings.Contains(g, "throttle.go") || strings.Contains(g, "fs_base.go") {
			lines := strings.Split(g, "\n")
			if len(lines) > 14 {
				lines = lines[:14]
			}
			out = append(out, strings.Join(lines, "\n"))
		}
		if len(out) >= 6 {
			break
		}
	}
	return strings.Join(out, "\n\n")
}

func (w *c08World) c09Violate(sig, detail string) { w.violate(sig, detail) }

func (w *c08World) c09Save(op *c08Op) {
	fail0, _, _, _ := w.keep.counts()
	w.keep.setInSave(true)
	var txt string
	var err error
	// The save runs on its own goroutine so that a save that never returns
	// ("a later save can still succeed" is part of the statement) is a
	// verdict, not a watchdog kill. It counts as hung only after the Keep
	// stub has seen no activity at all for 60 s, every parked write has been
	// released, and another 60 s without activity have passed.
	type c09SaveRes struct {
		txt    string
		err    error
		noText bool
	}
	resCh := make(chan c09SaveRes, 1)
	go func() {
		var r c09SaveRes
		if op.K == "sync" {
			r.err = w.fs.Sync()
			if r.err == nil {
				var got bool
				r.txt, got = w.api.last()
				r.noText = !got
			}
		} else {
			r.txt, r.err = w.fs.MarshalManifest(".")
		}
		resCh <- r
	}()
	activity := func() int {
		w.keep.mu.Lock()
		defer w.keep.mu.Unlock()
		return w.keep.serial + w.keep.done
	}
	last, lastChange, released := activity(), time.Now(), false
	tick := time.NewTicker(20 * time.Millisecond)
	defer tick.Stop()
wait:
	for {
		select {
		case r := <-resCh:
			txt, err = r.txt, r.err
			if r.noText {
				w.keep.setInSave(false)
				w.c09Violate("C09:sync-succeeded-without-sending-a-manifest", "Sync() returned nil but no manifest_text reached the API")
				return
			}
			break wait
		case <-tick.C:
			if a := activity(); a != last {
				last, lastChange = a, time.Now()
			} else if time.Since(lastChange) > 60*time.Second {
				if !released {
					w.keep.setGate(false)
					released, lastChange = true, time.Now()
					continue
				}
				fails, _, _, _ := w.keep.counts()
				buf := make([]byte, 1<<16)
				buf = buf[:runtime.Stack(buf, true)]
				w.keep.setInSave(false)
				w.hung = true
				w.c09Violate("C09:M4:save-never-returns",
					fmt.Sprintf("%s has not returned: no Keep activity for 2x60 s with every parked write released and a Keep stub that answers at once (%d block writes failed earlier in this sequence)\n%s", op, fails, c09StackSummary(string(buf))))
				return
			}
		}
	}
	w.keep.setInSave(false)
	fail1, _, _, _ := w.keep.counts()
	failed := fail1 - fail0
	w.eval(1)
	w.cnt["m4_evaluations"]++
	if err == nil && failed > 0 {
		w.c09Violate("C09:M4:save-succeeded-although-a-block-write-failed",
			fmt.Sprintf("%s returned nil although %d PutB call(s) issued during it failed; manifest %q", op, failed, txt))
		return
	}
	if err != nil {
		w.savesErr++
		if failed == 0 {
			w.c09Violate("C09:M4:save-failed-without-a-failing-block-write",
				fmt.Sprintf("%s failed with %q although no PutB issued during it failed", op, err))
			return
		}
		w.cnt["saves_failed_by_injected_fault"]++
		if kind, what := w.compareTree(w.fs, 1+w.cfg.BS); what != "" {
			w.c09Violate("C09:M4:data-not-intact-after-failed-save:"+kind, fmt.Sprintf("after %s failed (%v): %s", op, err, what))
		}
		return
	}
	w.savesOK++
	w.c09CheckManifest(txt, op.String())
	if w.viol == nil {
		if kind, what := w.compareTree(w.fs, 2+w.cfg.BS); what != "" {
			w.c09Violate("C09:live-tree-differs-after-save:"+kind, fmt.Sprintf("after %s: %s", op, what))
		}
	}
}

// c09CheckManifest applies M1-M3 to the text of a successful save.
func (w *c08World) c09CheckManifest(txt, when string) {
	w.eval(1)
	w.cnt["m1_evaluations"]++
	rule, detail, streams := c09Validate(txt)
	if rule != "" {
		v := c08Viol{sig: "C09:M1:" + rule, detail: fmt.Sprintf("%s returned an invalid manifest: %s\nmanifest: %q", when, detail, txt), opIdx: len(w.ops) - 1}
		if strings.HasPrefix(rule, "raw-control-byte:0x7f") {
			// self-contained: the text is still interpretable, keep checking M2/M3 on it
			w.findings = append(w.findings, v)
			txt2 := strings.ReplaceAll(txt, "\x7f", "\\177")
			if r2, d2, s2 := c09Validate(txt2); r2 != "" {
				w.c09Violate("C09:M1:"+r2, fmt.Sprintf("%s returned an invalid manifest: %s\nmanifest: %q", when, d2, txt))
				return
			} else {
				streams = s2
			}
		} else {
			w.viol = &v
			return
		}
	}
	// M3
	for _, st := range streams {
		for _, loc := range st.locs {
			w.eval(1)
			w.cnt["m3_evaluations"]++
			if loc == c09EmptyBlock {
				// the constant locator of the zero-length block carries no data: the
				// segments claim zero bytes of it, nothing has to be stored (the format
				// document itself uses it unsigned for empty files)
				w.cnt["m3_locator_empty_block_constant"]++
				continue
			}
			switch w.keep.locatorStatus(loc) {
			case "orig":
				w.cnt["m3_locator_from_original_manifest"]++
			case "acked":
				w.cnt["m3_locator_from_successful_put"]++
			case "refused":
				w.c09Violate("C09:M3:locator-from-a-failed-put", fmt.Sprintf("%s: locator %s was handed out by a PutB that returned an error\nmanifest: %q", when, loc, txt))
				return
			default:
				w.c09Violate("C09:M3:locator-never-returned-by-keep", fmt.Sprintf("%s: locator %s is neither from the original manifest nor returned by any PutB\nmanifest: %q", when, loc, txt))
				return
			}
		}
	}
	// M2 (a) independent interpretation
	w.eval(1)
	w.cnt["m2_evaluations"]++
	files, dirs, problem := c09Interpret(streams, w.keep.block)
	if problem != "" {
		w.c09Violate("C09:M2:manifest-not-interpretable", fmt.Sprintf("%s: %s\nmanifest: %q", when, problem, txt))
		return
	}
	mdirs, mfiles := w.m.walk()
	for _, p := range mfiles {
		n, _ := w.m.resolve(p)
		got, ok := files[p]
		if !ok {
			w.c09Violate("C09:M2:manifest:file-missing", fmt.Sprintf("%s: file %q (%d bytes) is not in the manifest\nmanifest: %q", when, p, len(n.data), txt))
			return
		}
		if d := c08Diff(got, n.data); d != "" {
			w.c09Violate("C09:M2:manifest:file-content", fmt.Sprintf("%s: file %q per manifest: %s\nmanifest: %q", when, p, d, txt))
			return
		}
	}
	if len(files) != len(mfiles) {
		w.c09Violate("C09:M2:manifest:extra-file", fmt.Sprintf("%s: manifest describes %d files, the filesystem has %d\nmanifest: %q", when, len(files), len(mfiles), txt))
		return
	}
	for _, d := range mdirs {
		if !dirs[d] {
			w.c09Violate("C09:M2:manifest:directory-missing", fmt.Sprintf("%s: directory %q is not preserved by the manifest\nmanifest: %q", when, d, txt))
			return
		}
	}
	if len(dirs) != len(mdirs) {
		w.c09Violate("C09:M2:manifest:extra-directory", fmt.Sprintf("%s: manifest describes %d directories, the filesystem has %d\nmanifest: %q", when, len(dirs), len(mdirs), txt))
		return
	}
	// M2 (b) reload through the real loader
	w.eval(1)
	fs2, err := (&Collection{ManifestText: txt}).FileSystem(&c08API{}, w.keep)
	if err != nil {
		w.c09Violate("C09:M2:saved-manifest-does-not-load", fmt.Sprintf("%s: FileSystem() rejects the saved manifest: %v\nmanifest: %q", when, err, txt))
		return
	}
	if kind, what := w.compareTree(fs2, 3+w.cfg.BS); what != "" {
		w.c09Violate("C09:M2:reloaded-tree:"+kind, fmt.Sprintf("%s: filesystem loaded from the saved manifest: %s\nmanifest: %q", when, what, txt))
	}
}

// c09Finish: failures stop; the next save must succeed and satisfy M1-M3.
func (w *c08World) c09Finish() {
	w.faultsOff = true
	op := c08Op{K: "save"}
	w.ops = append(w.ops, op)
	w.cnt["final_saves"]++
	w.c09Save(&op)
}

func c09GenFault(rng *verifkit.Rand) c09Fault {
	switch r := rng.Intn(100); {
	case r < 12:
		return c09Fault{Mode: "none"}
	case r < 45:
		return c09Fault{Mode: "kth", K: rng.Range(1, 14)}
	case r < 65:
		return c09Fault{Mode: "rate", Pct: rng.PickInt(5, 20, 50, 80)}
	case r < 82:
		return c09Fault{Mode: "background", Pct: rng.PickInt(30, 60, 100)}
	default:
		return c09Fault{Mode: "save", Pct: rng.PickInt(20, 50, 100)}
	}
}

// c09Next biases the C08 generator towards saves.
func c09Next(g *c08Gen) c08Op {
	rng := g.rng
	switch r := rng.Intn(100); {
	case r < 5:
		return c08Op{K: "save"}
	case r < 7:
		return c08Op{K: "sync"}
	case r < 9:
		return c08Op{K: "flush", P: "", Short: true}
	}
	return g.next()
}

func c09Feature(w *c08World, cfg c08Cfg) string {
	b := func(v bool, s string) string {
		if v {
			return s
		}
		return "-"
	}
	special := map[string]bool{}
	dirs, files := w.m.walk()
	for _, p := range append(dirs, files...) {
		for i := 0; i < len(p); i++ {
			switch c := p[i]; {
			case c == ' ':
				special["sp"] = true
			case c < 0x20:
				special["ctl"] = true
			case c == 0x7f:
				special["del"] = true
			case c >= 0x80:
				special["hi"] = true
			case c == '\\':
				special["bsl"] = true
			case c == ':':
				special["col"] = true
			}
		}
	}
	var sp []string
	for k := range special {
		sp = append(sp, k)
	}
	sort.Strings(sp)
	emptyDir := false
	var rec func(n *c08Node)
	rec = func(n *c08Node) {
		for _, k := range n.kids {
			if k.dir {
				if len(k.kids) == 0 {
					emptyDir = true
				}
				rec(k)
			}
		}
	}
	rec(w.m.root)
	return fmt.Sprintf("bs=%d,init=%s,fault=%s,%s,%s,%s,%s,%s,names=[%s]", cfg.BS, cfg.Init, cfg.Fault.Mode,
		b(w.keep.nFailBg > 0, "bgfail"), b(w.keep.nFailSave > 0, "savefail"), b(w.savesErr > 0, "save-err"), b(w.savesOK > 1, "save-ok"),
		b(emptyDir, "emptydir"), strings.Join(sp, "+"))
}

type c09M5Input struct {
	BS        int    `json:"max_block_size"`
	ManifestQ string `json:"manifest"`
}

func TestVerifC09(t *testing.T) {
	run := verifkit.Start(t, "C09")
	defer run.Finish()
	defer func(a, b int) { maxBlockSize, concurrentWriters = a, b }(maxBlockSize, concurrentWriters)
	// one driving goroutine plus short-lived flush goroutines: two Ps give real
	// parallelism between them without the scheduling overhead of 16 idle Ps
	// in each of the parallel child processes
	defer runtime.GOMAXPROCS(runtime.GOMAXPROCS(2))
	runtime.GC()
	r := &c08Runner{run: run, baseG: runtime.NumGoroutine()}

	// Stall monitor. Every filesystem call of a sequence runs on the test
	// goroutine; if one of them never returns (e.g. it waits for a write-
	// throttle slot that a failed block write never gave back) the statement's
	// "the buffered data stays readable and a later save can still succeed" is
	// violated, and without this monitor the run would merely end at the
	// driver's watchdog as inconclusive. Verdict only after 150 s with no
	// operation starting or finishing and no Keep stub activity; it is a C09
	// violation only if block writes had failed earlier in that sequence,
	// otherwise inconclusive (deadlocks as such belong to C13).
	stopMon := make(chan struct{})
	defer close(stopMon)
	go func() {
		lastP, lastA, lastChange := int64(-1), -1, time.Now()
		for {
			select {
			case <-stopMon:
				return
			case <-time.After(time.Second):
			}
			p := atomic.LoadInt64(&c08Progress)
			a := 0
			w, _ := c08CurWorld.Load().(*c08World)
			if w != nil {
				w.keep.mu.Lock()
				a = w.keep.serial + w.keep.done
				w.keep.mu.Unlock()
			}
			if p != lastP || a != lastA || p%2 == 0 {
				// p even: between operations
				lastP, lastA, lastChange = p, a, time.Now()
				continue
			}
			if time.Since(lastChange) < 150*time.Second {
				continue
			}
			w.keep.setGate(false)
			time.Sleep(20 * time.Second)
			if atomic.LoadInt64(&c08Progress) != p {
				lastChange = time.Now()
				continue
			}
			opDesc, _ := c08CurOp.Load().(string)
			fs, fb, _, _ := w.keep.counts()
			buf := make([]byte, 1<<16)
			buf = buf[:runtime.Stack(buf, true)]
			detail := fmt.Sprintf("operation %s has not returned after 170 s without any Keep activity, every parked write released (%d block writes failed earlier in this sequence: %d during saves, %d in the background)\n%s", opDesc, fs+fb, fs, fb, c09StackSummary(string(buf)))
			if fs+fb > 0 {
				run.Violation("C09:M4:operation-never-returns-after-failed-block-writes", detail, nil)
			} else {
				run.Inconclusive("C09: " + detail)
			}
			run.Count("batch_abandoned_after_stall", 1)
			run.Finish()
			os.Exit(0)
		}
	}()

	// the monitor goroutine is part of the goroutine baseline the quiescence
	// helper compares against
	time.Sleep(10 * time.Millisecond)
	r.baseG = runtime.NumGoroutine()

	// ---- random sequences x random fault patterns
	n := run.N(1200, 40000)
	run.Cases("seq", n, func(i int, rng *verifkit.Rand) {
		if r.hung {
			run.Count("cases_skipped_after_a_save_that_never_returned", 1)
			return
		}
		cfg := c08GenCfg(rng, true)
		cfg.Fault = c09GenFault(rng)
		nops := rng.Range(10, 160)
		run.Input(c08Input{Cfg: cfg, NOps: nops}, false)
		w, err := c08NewWorld(cfg, r.baseG)
		if err != nil {
			run.Eval(1)
			run.Violation("C09:M5:generated-valid-manifest-rejected", fmt.Sprintf("FileSystem() rejected the generated manifest %q: %v", cfg.manifest, err), nil)
			return
		}
		g := &c08Gen{rng: rng, w: w, maxSz: 8*cfg.BS + 16}
		for j := 0; j < nops && w.viol == nil && w.stopped == ""; j++ {
			w.apply(c09Next(g))
		}
		w.finish()
		r.report(w, cfg, nops, "C09")
		if w.savesOK+w.savesErr == 0 {
			run.Trivial()
		} else {
			run.Feature(c09Feature(w, cfg))
		}
		if i < 2 {
			run.Sample(c08Input{Cfg: cfg, NOps: nops, Ops: c08OpStrings(w.ops[:c08Min(len(w.ops), 30)])})
		}
	})

	// ---- fault enumeration: one sequence, the k-th PutB fails, for every k
	nk := run.N(90, 2500)
	run.Cases("kth", nk, func(i int, rng *verifkit.Rand) {
		if r.hung {
			run.Count("cases_skipped_after_a_save_that_never_returned", 1)
			return
		}
		cfg := c08GenCfg(rng, true)
		cfg.Gate = cfg.Gate && rng.Bool()
		nops := rng.Range(10, 90)
		run.Input(c08Input{Cfg: cfg, NOps: nops}, false)
		w, err := c08NewWorld(cfg, r.baseG)
		if err != nil {
			run.Eval(1)
			run.Violation("C09:M5:generated-valid-manifest-rejected", fmt.Sprintf("FileSystem() rejected the generated manifest %q: %v", cfg.manifest, err), nil)
			return
		}
		g := &c08Gen{rng: rng, w: w, maxSz: 8*cfg.BS + 16}
		for j := 0; j < nops && w.viol == nil && w.stopped == ""; j++ {
			w.apply(c09Next(g))
		}
		w.finish()
		r.report(w, cfg, nops, "C09")
		if w.viol != nil {
			return
		}
		ops := append([]c08Op(nil), w.ops[:len(w.ops)-2]...) // without the final cmp and save that finish() appended
		total := w.keep.nPut
		limit := total
		if max := run.N(16, 64); limit > max {
			limit = max
		}
		fired := 0
		for k := 1; k <= limit; k++ {
			kc := cfg
			kc.Fault = c09Fault{Mode: "kth", K: k}
			_, wk := c08Replay(kc, ops, r.baseG, "")
			if wk == nil {
				continue
			}
			if wk.keep.nFailBg+wk.keep.nFailSave > 0 {
				fired++
			}
			r.report(wk, kc, len(ops), "C09")
			if wk.viol != nil {
				break
			}
		}
		run.Count("kth_enumerations", limit)
		run.Count("kth_faults_fired", fired)
		if total == 0 {
			run.Trivial()
		} else {
			run.Feature(fmt.Sprintf("kth:bs=%d,init=%s,puts=%d,gate=%v", cfg.BS, cfg.Init, c08Min(total, 16), cfg.Gate))
		}
	})

	// ---- saves concurrent with writers (c09_conc_test.go)
	c09ConcStream(run, r)

	// ---- M5: load a valid manifest, save it unchanged
	n5 := run.N(1500, 40000)
	run.Cases("m5", n5, func(i int, rng *verifkit.Rand) {
		bs := c08BlockSizes[rng.Intn(len(c08BlockSizes))]
		names := c09GenNames(rng)
		if rng.Chance(1, 3) {
			names = c08PlainNames
		}
		var txt string
		var blocks [][]byte
		var tree map[string][]byte
		for try := 0; try < 5 && txt == ""; try++ {
			txt, blocks, tree, _ = c08GenManifest(rng, bs, names, true)
		}
		run.Input(c09M5Input{BS: bs, ManifestQ: strconv.Quote(txt)}, false)
		if txt == "" {
			run.Trivial()
			return
		}
		in := c09M5Input{BS: bs, ManifestQ: strconv.Quote(txt)}
		bad := func(sig, detail string) {
			run.Violation(sig, detail+fmt.Sprintf("\noriginal manifest: %q", txt), in)
		}
		// the generator's own output must satisfy the validator (self-check of the harness)
		if rule, detail, _ := c09Validate(txt); rule != "" {
			run.Inconclusive("C09 m5: generator produced an invalid manifest (" + rule + ": " + detail + ")")
			return
		}
		maxBlockSize, concurrentWriters = bs, 4
		keep := c08NewKeep()
		for _, b := range blocks {
			keep.blocks[c08MD5(b)] = b
		}
		for _, tok := range strings.Fields(strings.ReplaceAll(txt, "\n", " ")) {
			if c09LocatorRe.MatchString(tok) {
				keep.orig[tok] = true
			}
		}
		fs, err := (&Collection{ManifestText: txt}).FileSystem(&c08API{}, keep)
		run.Eval(1)
		if err != nil {
			bad("C09:M5:generated-valid-manifest-rejected", fmt.Sprintf("FileSystem() rejected a valid manifest: %v", err))
			return
		}
		var want int64
		for _, d := range tree {
			want += int64(len(d))
		}
		run.Eval(1)
		if fs.Size() != want {
			bad("C09:M5:loaded-size", fmt.Sprintf("Size() after loading = %d, the manifest's files total %d bytes", fs.Size(), want))
			return
		}
		if rng.Chance(1, 2) {
			// reading before saving must not change what is saved
			for p, d := range tree {
				got, err := c08ReadAll(fs, p, 1+rng.Intn(2*bs+2))
				run.Eval(1)
				if err != nil || c08Diff(got, d) != "" {
					bad("C09:M5:loaded-content", fmt.Sprintf("file %q read after loading: err=%v %s", p, err, c08Diff(got, d)))
					return
				}
			}
		}
		out, err := fs.MarshalManifest(".")
		run.Eval(1)
		if err != nil {
			bad("C09:M5:unchanged-save-failed", fmt.Sprintf("MarshalManifest of an unchanged filesystem failed: %v", err))
			return
		}
		run.Eval(1)
		if keep.nPut != 0 {
			run.Count("m5_saves_that_wrote_blocks", 1)
		}
		rule, detail, streams := c09Validate(out)
		run.Eval(1)
		if rule != "" {
			sig := "C09:M1:" + rule
			bad(sig, fmt.Sprintf("unchanged save returned an invalid manifest: %s\nsaved manifest: %q", detail, out))
			if !strings.HasPrefix(rule, "raw-control-byte:0x7f") {
				return
			}
			_, _, streams = c09Validate(strings.ReplaceAll(out, "\x7f", "\\177"))
		}
		for _, st := range streams {
			for _, loc := range st.locs {
				run.Eval(1)
				if s := keep.locatorStatus(loc); s != "orig" && s != "acked" && loc != c09EmptyBlock {
					bad("C09:M3:locator-never-returned-by-keep", fmt.Sprintf("unchanged save: locator %s is not from the original manifest\nsaved manifest: %q", loc, out))
					return
				}
			}
		}
		files, _, problem := c09Interpret(streams, keep.block)
		run.Eval(1)
		if problem != "" {
			bad("C09:M5:saved-manifest-not-interpretable", problem+fmt.Sprintf("\nsaved manifest: %q", out))
			return
		}
		var total int64
		for p, d := range tree {
			run.Eval(1)
			got, ok := files[p]
			if !ok {
				bad("C09:M5:file-lost", fmt.Sprintf("file %q is missing after load+save\nsaved manifest: %q", p, out))
				return
			}
			if df := c08Diff(got, d); df != "" {
				bad("C09:M5:file-content-changed", fmt.Sprintf("file %q after load+save: %s\nsaved manifest: %q", p, df, out))
				return
			}
		}
		for _, d := range files {
			total += int64(len(d))
		}
		run.Eval(1)
		if total != want || len(files) != len(tree) {
			bad("C09:M5:total-size-changed", fmt.Sprintf("%d files / %d bytes after load+save, %d files / %d bytes before\nsaved manifest: %q", len(files), total, len(tree), want, out))
			return
		}
		run.Count("m5_roundtrips", 1)
		nonNorm := strings.Count(txt, "\n") > 0
		run.Feature(fmt.Sprintf("m5:bs=%d,streams=%d,files=%d,zero-block=%v,marker=%v,%v", bs, c08Min(strings.Count(txt, "\n"), 4), c08Min(len(tree), 4),
			strings.Contains(txt, "d41d8cd98f00b204e9800998ecf8427e+0 ") && len(tree) > 0, strings.Contains(txt, "\\056"), nonNorm))
		if i < 2 {
			run.Sample(in)
		}
	})
}
