//go:build verif

// C13 harness part 2: per-worker operation streams on own files with an exact
// sequential byte-array model (C-1), and the version log used by C-3.

package arvados

import (
	"bytes"
	"fmt"
	"io"
	"os"
	"path"
	"runtime"
	"sort"
	"strings"
	"sync/atomic"

	"git.arvados.org/arvados.git/internal/verifkit"
)

// c13MFile is the model of one file object (an inode, not a path).
type c13MFile struct {
	data []byte
	path string   // "" when unlinked
	hist [][]byte // a few earlier contents, to classify a mismatch
}

type c13H struct {
	f        File
	mf       *c13MFile
	off      int64
	rd, wr   bool
	app      bool
	lastWOff int64
	lastWLen int
}

// c13Ver: after operation number op (1-based) of the worker the path held
// this content (or did not exist).
type c13Ver struct {
	op      int64
	present bool
	data    []byte
}

type c13Worker struct {
	id      int
	e       *c13Env
	rng     *verifkit.Rand
	files   map[string]*c13MFile
	hs      []*c13H
	vers    map[string][]c13Ver
	started int64 // atomic: operations started
	done    int64 // atomic: operations completed
	priv    string
	mov     string // current location of the movable directory
	movLocs []string
	oplog   []string
	sh      []*c13SharedH
	late    []string   // directories made during the activity that this worker has joined
	cur     string     // path the current operation works on (for signatures)
	joins   []*c13Join // in the order (at, idx): the same order for every worker
}

func (w *c13Worker) logf(format string, a ...interface{}) {
	if len(w.oplog) >= 60 {
		w.oplog = append(w.oplog[:0], w.oplog[20:]...)
	}
	w.oplog = append(w.oplog, fmt.Sprintf("#%d ", atomic.LoadInt64(&w.started))+fmt.Sprintf(format, a...))
}

func (w *c13Worker) viol(sig, detail string) {
	if !strings.HasSuffix(sig, c13NsDoubled) {
		sig += w.e.doubledSuffix(w.cur)
	}
	w.e.violation(sig, fmt.Sprintf("worker %d: %s\nlast operations of this worker:\n  %s", w.id, detail, strings.Join(w.oplog, "\n  ")))
}

func (w *c13Worker) eval(n int) { atomic.AddInt64(&w.e.evals, int64(n)) }

// version log ---------------------------------------------------------------

func (w *c13Worker) ver(p string, mf *c13MFile) {
	if len(w.vers[p]) == 0 {
		w.vers[p] = append(w.vers[p], c13Ver{op: 0})
	}
	v := c13Ver{op: atomic.LoadInt64(&w.started)}
	if mf != nil {
		v.present = true
		v.data = append([]byte(nil), mf.data...)
	}
	w.vers[p] = append(w.vers[p], v)
}

// changed is called after a mutation of mf's content.
func (w *c13Worker) changed(mf *c13MFile, old []byte) {
	if len(mf.hist) >= 8 {
		mf.hist = mf.hist[1:]
	}
	mf.hist = append(mf.hist, old)
	if mf.path != "" {
		w.ver(mf.path, mf)
	}
}

// helpers -------------------------------------------------------------------

func (w *c13Worker) dirs() []string {
	d := []string{w.priv, w.mov}
	d = append(d, w.late...)
	return append(d, w.e.sdirs...)
}

func (w *c13Worker) sortedPaths() []string {
	ps := make([]string, 0, len(w.files))
	for p := range w.files {
		ps = append(ps, p)
	}
	sort.Strings(ps)
	return ps
}

func (w *c13Worker) pickExisting() string {
	ps := w.sortedPaths()
	if len(ps) == 0 {
		return ""
	}
	return ps[w.rng.Intn(len(ps))]
}

func (w *c13Worker) newPath() string {
	d := w.dirs()
	return d[w.rng.Intn(len(d))] + fmt.Sprintf("/w%d_%d", w.id, w.rng.Intn(4))
}

func (w *c13Worker) payload(n int) []byte {
	b := w.rng.Bytes(n)
	for i := range b {
		if b[i] == 0 {
			b[i] = byte(1 + i%250)
		}
	}
	return b
}

func (w *c13Worker) sizeChoice() int {
	bs := w.e.cfg.BlockSize
	switch w.rng.Intn(8) {
	case 0:
		return bs
	case 1:
		return 2 * bs
	case 2:
		return bs + 1
	case 3:
		if bs > 1 {
			return bs - 1
		}
		return 1
	case 4:
		return 1
	default:
		return w.rng.Range(1, 3*bs+2)
	}
}

func c13Resize(b []byte, n int) []byte {
	if n <= len(b) {
		return append([]byte(nil), b[:n]...)
	}
	nb := make([]byte, n)
	copy(nb, b)
	return nb
}

func c13WriteAt(b []byte, off int, p []byte) []byte {
	n := len(b)
	if off+len(p) > n {
		n = off + len(p)
	}
	nb := make([]byte, n)
	copy(nb, b)
	copy(nb[off:], p)
	return nb
}

func c13Show(b []byte) string {
	if len(b) > 96 {
		return fmt.Sprintf("%x…(%d bytes)", b[:96], len(b))
	}
	return fmt.Sprintf("%x", b)
}

// c13Classify says what kind of wrong data was read.
func c13Classify(mf *c13MFile, off int, got []byte) string {
	for i := len(mf.hist) - 1; i >= 0; i-- {
		h := mf.hist[i]
		if off <= len(h) && off+len(got) <= len(h) && bytes.Equal(h[off:off+len(got)], got) && len(got) > 0 {
			return "data-of-an-earlier-version"
		}
	}
	if len(got) < len(mf.data)-off {
		// may be a short file
	}
	return "data-never-in-this-range"
}

// readN reads up to n bytes with as many Read calls as needed.
func c13ReadN(f File, n int) ([]byte, error) {
	buf := make([]byte, n)
	got := 0
	idle := 0
	for got < n {
		k, err := f.Read(buf[got:])
		got += k
		if err == io.EOF {
			break
		}
		if err != nil {
			return buf[:got], err
		}
		if k == 0 {
			idle++
			if idle > 3 {
				return buf[:got], fmt.Errorf("Read returned 0 bytes and no error %d times", idle)
			}
		}
	}
	return buf[:got], nil
}

// the operation stream --------------------------------------------------------

func (w *c13Worker) runStream() {
	defer func() {
		if e := recover(); e != nil {
			buf := make([]byte, 16384)
			buf = buf[:runtime.Stack(buf, false)]
			w.viol("C13:panic:"+c13PanicSite(string(buf)), fmt.Sprintf("panic: %v\n%s", e, buf))
		}
	}()
	for _, sh := range w.sh {
		if !sh.open(w) {
			return
		}
	}
	for i := 0; i < w.e.cfg.OpsPer && !w.e.aborted(); i++ {
		for _, j := range w.joins {
			if j.at == i && !w.e.aborted() {
				atomic.AddInt64(&w.started, 1)
				w.e.ctl.event(true, false)
				w.opJoin(j)
				atomic.AddInt64(&w.done, 1)
				w.e.ctl.event(true, true)
			}
		}
		atomic.AddInt64(&w.started, 1)
		w.e.ctl.event(true, false)
		wrote := w.step()
		atomic.AddInt64(&w.done, 1)
		w.e.ctl.event(true, wrote)
	}
}

func (w *c13Worker) pickH(want func(*c13H) bool) *c13H {
	var c []*c13H
	for _, h := range w.hs {
		if want == nil || want(h) {
			c = append(c, h)
		}
	}
	if len(c) == 0 {
		return nil
	}
	return c[w.rng.Intn(len(c))]
}

// step performs one operation; it reports whether it was a data write.
func (w *c13Worker) step() bool {
	w.cur = ""
	if sh := w.joinBurst(); sh != nil {
		w.sharedOp(sh)
		return false
	}
	r := w.rng.Intn(100)
	if len(w.hs) == 0 && r >= 12 {
		r = 12 // open something first
	}
	switch {
	case r < 12:
		if sh := w.pickShared(); sh != nil {
			w.sharedOp(sh)
			return false
		}
		fallthrough
	case r < 24:
		w.opOpen()
	case r < 46:
		return w.opWrite(false)
	case r < 56:
		return w.opWrite(true)
	case r < 61:
		w.opSeek()
	case r < 73:
		w.opRead(false)
	case r < 77:
		w.opRead(true)
	case r < 82:
		return w.opTruncate()
	case r < 87:
		w.opRename()
	case r < 89:
		w.opRemove()
	case r < 93:
		w.opStat()
	case r < 95:
		w.opReaddir()
	case r < 96:
		w.opClose()
	default:
		w.opSave()
	}
	return false
}

func (w *c13Worker) opOpen() {
	e := w.e
	var p string
	if len(w.files) > 0 && w.rng.Chance(3, 5) {
		p = w.pickExisting()
	} else {
		p = w.newPath()
	}
	mf := w.files[p]
	mode := w.rng.Intn(4) // 0 rdonly, 1,2 rdwr, 3 wronly
	flag, rd, wr := os.O_RDONLY, true, false
	switch mode {
	case 1, 2:
		flag, wr = os.O_RDWR, true
	case 3:
		flag, rd, wr = os.O_WRONLY, false, true
	}
	create := w.rng.Chance(3, 5)
	excl := create && w.rng.Chance(1, 6)
	trunc := wr && w.rng.Chance(1, 6)
	app := wr && w.rng.Chance(1, 5)
	if create {
		flag |= os.O_CREATE
	}
	if excl {
		flag |= os.O_EXCL
	}
	if trunc {
		flag |= os.O_TRUNC
	}
	if app {
		flag |= os.O_APPEND
	}
	if len(w.hs) >= 5 {
		i := w.rng.Intn(len(w.hs))
		w.hs[i].f.Close()
		w.hs = append(w.hs[:i], w.hs[i+1:]...)
	}
	w.cur = p
	w.logf("open %s flag=%#x (exists=%v)", p, flag, mf != nil)
	e.count("ops_open", 1)
	f, err := e.fs.OpenFile(p, flag, 0644)
	w.eval(1)
	switch {
	case mf == nil && !create:
		if err == nil || !os.IsNotExist(err) {
			w.viol("C13:C1:open-missing-file-outcome", fmt.Sprintf("OpenFile(%q) of a file that does not exist returned err=%v", p, err))
		}
		return
	case mf != nil && excl:
		if err != ErrFileExists {
			w.viol("C13:C1:open-excl-existing-outcome", fmt.Sprintf("OpenFile(%q, O_CREATE|O_EXCL) of an existing file returned err=%v", p, err))
		}
		return
	}
	if err != nil {
		w.viol(w.nsSig(p, err, "C13:C1:unexpected-error:open"), fmt.Sprintf("OpenFile(%q, %#x): %v (file exists in model: %v)", p, flag, err, mf != nil))
		return
	}
	if mf == nil {
		mf = &c13MFile{path: p}
		w.files[p] = mf
		w.ver(p, mf)
	} else if trunc && len(mf.data) > 0 {
		old := mf.data
		mf.data = nil
		w.changed(mf, old)
	}
	w.hs = append(w.hs, &c13H{f: f, mf: mf, rd: rd, wr: wr, app: app})
}

func (w *c13Worker) opWrite(overwrite bool) bool {
	e := w.e
	h := w.pickH(func(h *c13H) bool { return h.wr && (!overwrite || h.lastWLen > 0) })
	if h == nil {
		h = w.pickH(nil)
		if h == nil {
			return false
		}
		if !h.wr {
			// writing through a read-only handle is refused and changes nothing
			n, err := h.f.Write([]byte{1})
			w.logf("write on read-only handle of %s", h.mf.path)
			w.eval(1)
			e.count("ops_write_refused", 1)
			if err != ErrReadOnlyFile || n != 0 {
				w.viol("C13:C1:write-on-readonly-handle-outcome", fmt.Sprintf("Write on an O_RDONLY handle returned n=%d err=%v", n, err))
			}
			return false
		}
	}
	w.cur = h.mf.path
	var data []byte
	if overwrite {
		// go back into the range written last through this handle
		delta := w.rng.Intn(h.lastWLen)
		off := h.lastWOff + int64(delta)
		pos, err := h.f.Seek(off, io.SeekStart)
		if err != nil || pos != off {
			w.viol("C13:C1:unexpected-error:seek", fmt.Sprintf("Seek(%d, start) = %d, %v", off, pos, err))
			return false
		}
		h.off = off
		n := w.rng.Range(1, h.lastWLen)
		if w.rng.Chance(1, 4) {
			n = w.sizeChoice()
		}
		data = w.payload(n)
		e.count("ops_overwrite", 1)
	} else {
		data = w.payload(w.sizeChoice())
		e.count("ops_write", 1)
		if h.app {
			e.count("ops_append", 1)
		}
	}
	off := h.off
	if h.app {
		off = int64(len(h.mf.data))
	}
	w.logf("write %s off=%d append=%v data=%x", h.mf.path, off, h.app, data)
	n, err := h.f.Write(data)
	w.eval(1)
	if err != nil || n != len(data) {
		w.viol("C13:C1:unexpected-error:write", fmt.Sprintf("Write of %d bytes at %d returned n=%d err=%v", len(data), off, n, err))
		return true
	}
	old := h.mf.data
	h.mf.data = c13WriteAt(old, int(off), data)
	h.off = off + int64(len(data))
	h.lastWOff, h.lastWLen = off, len(data)
	w.changed(h.mf, old)
	return true
}

func (w *c13Worker) opSeek() {
	h := w.pickH(nil)
	if h == nil {
		return
	}
	w.e.count("ops_seek", 1)
	w.cur = h.mf.path
	size := int64(len(h.mf.data))
	var off, want int64
	whence := w.rng.Intn(3)
	switch whence {
	case io.SeekStart:
		off = int64(w.rng.Range(0, int(size)+w.e.cfg.BlockSize))
		want = off
	case io.SeekCurrent:
		off = int64(w.rng.Range(-int(h.off), w.e.cfg.BlockSize))
		want = h.off + off
	case io.SeekEnd:
		off = int64(w.rng.Range(-int(size), 2))
		want = size + off
	}
	w.logf("seek %s off=%d whence=%d", h.mf.path, off, whence)
	pos, err := h.f.Seek(off, whence)
	w.eval(1)
	if err != nil || pos != want {
		w.viol("C13:C1:seek-outcome", fmt.Sprintf("Seek(%d,%d) with offset %d, size %d returned %d, %v; want %d", off, whence, h.off, size, pos, err, want))
		return
	}
	h.off = want
}

func (w *c13Worker) opRead(all bool) {
	e := w.e
	h := w.pickH(func(h *c13H) bool { return h.rd })
	if h == nil {
		h = w.pickH(nil)
		if h == nil {
			return
		}
		n, err := h.f.Read(make([]byte, 4))
		w.logf("read on write-only handle of %s", h.mf.path)
		w.eval(1)
		e.count("ops_read_refused", 1)
		if err != ErrWriteOnlyMode || n != 0 {
			w.viol("C13:C1:read-on-writeonly-handle-outcome", fmt.Sprintf("Read on an O_WRONLY handle returned n=%d err=%v", n, err))
		}
		return
	}
	w.cur = h.mf.path
	n := w.sizeChoice() + w.rng.Intn(2*e.cfg.BlockSize+1)
	if all {
		if pos, err := h.f.Seek(0, io.SeekStart); err != nil || pos != 0 {
			w.viol("C13:C1:unexpected-error:seek", fmt.Sprintf("Seek(0, start) = %d, %v", pos, err))
			return
		}
		h.off = 0
		n = len(h.mf.data) + 3
	}
	w.logf("read %s off=%d n=%d", h.mf.path, h.off, n)
	e.count("ops_read", 1)
	got, err := c13ReadN(h.f, n)
	w.eval(1)
	var want []byte
	if h.off < int64(len(h.mf.data)) {
		want = h.mf.data[h.off:]
		if len(want) > n {
			want = want[:n]
		}
	}
	if err != nil {
		w.viol("C13:C1:unexpected-error:read", fmt.Sprintf("Read of %q at %d: %v (after %d bytes)", h.mf.path, h.off, err, len(got)))
		return
	}
	if !bytes.Equal(got, want) {
		w.viol("C13:C1:own-file-read-mismatch:"+c13Classify(h.mf, int(h.off), got),
			fmt.Sprintf("file %q (only this worker writes it) read at offset %d:\n  got  %s\n  want %s\n  whole model content %s", h.mf.path, h.off, c13Show(got), c13Show(want), c13Show(h.mf.data)))
		return
	}
	h.off += int64(len(got))
}

func (w *c13Worker) opTruncate() bool {
	h := w.pickH(func(h *c13H) bool { return h.wr })
	if h == nil {
		return false
	}
	size := w.rng.Range(0, len(h.mf.data)+2*w.e.cfg.BlockSize)
	if w.rng.Chance(1, 5) {
		size = 0
	}
	w.cur = h.mf.path
	w.logf("truncate %s %d -> %d", h.mf.path, len(h.mf.data), size)
	w.e.count("ops_truncate", 1)
	err := h.f.Truncate(int64(size))
	w.eval(1)
	if err != nil {
		w.viol("C13:C1:unexpected-error:truncate", fmt.Sprintf("Truncate(%d): %v", size, err))
		return true
	}
	old := h.mf.data
	h.mf.data = c13Resize(old, size)
	w.changed(h.mf, old)
	return true
}

func (w *c13Worker) opRename() {
	e := w.e
	if w.rng.Chance(1, 6) {
		// move the movable directory (with everything in it)
		var to string
		for {
			to = w.movLocs[w.rng.Intn(len(w.movLocs))]
			if to != w.mov {
				break
			}
		}
		from := w.mov
		w.cur = from + "/"
		w.logf("rename dir %s -> %s", from, to)
		e.count("ops_rename", 1)
		e.count("ops_rename_dir", 1)
		err := e.fs.Rename(from, to)
		w.eval(1)
		if err != nil {
			w.viol("C13:C1:unexpected-error:rename-dir", fmt.Sprintf("Rename(%q, %q): %v", from, to, err))
			return
		}
		for _, p := range w.sortedPaths() {
			if strings.HasPrefix(p, from+"/") {
				mf := w.files[p]
				np := to + strings.TrimPrefix(p, from)
				delete(w.files, p)
				w.ver(p, nil)
				w.files[np] = mf
				mf.path = np
				w.ver(np, mf)
			}
		}
		w.mov = to
		return
	}
	src := w.pickExisting()
	if src == "" || w.rng.Chance(1, 12) {
		src = w.newPath()
		if w.files[src] != nil {
			return
		}
		dst := w.newPath()
		w.cur = src
		w.logf("rename missing %s -> %s", src, dst)
		err := e.fs.Rename(src, dst)
		w.eval(1)
		if err == nil || !os.IsNotExist(err) {
			w.viol("C13:C1:rename-missing-file-outcome", fmt.Sprintf("Rename(%q, %q) of a missing file returned %v", src, dst, err))
		}
		return
	}
	dst := w.newPath()
	if dst == src {
		return // Rename(x, x) is not determined by the statement
	}
	if path.Dir(dst) == path.Dir(src) {
		e.count("ops_rename_same_dir", 1)
	} else {
		e.count("ops_rename_across_dirs", 1)
	}
	w.cur = src
	if e.inLate(dst) && !e.inLate(src) {
		w.cur = dst
	}
	w.logf("rename %s -> %s (dst exists=%v)", src, dst, w.files[dst] != nil)
	e.count("ops_rename", 1)
	err := e.fs.Rename(src, dst)
	w.eval(1)
	if err != nil {
		w.viol(w.nsSig(src, err, "C13:C1:unexpected-error:rename"), fmt.Sprintf("Rename(%q, %q): %v", src, dst, err))
		return
	}
	mf := w.files[src]
	if old := w.files[dst]; old != nil {
		old.path = ""
	}
	delete(w.files, src)
	w.ver(src, nil)
	w.files[dst] = mf
	mf.path = dst
	w.ver(dst, mf)
}

func (w *c13Worker) opRemove() {
	e := w.e
	p := w.pickExisting()
	if p == "" || w.rng.Chance(1, 8) {
		p = w.newPath()
		if w.files[p] != nil {
			return
		}
		w.cur = p
		w.logf("remove missing %s", p)
		err := e.fs.Remove(p)
		w.eval(1)
		if err == nil || !os.IsNotExist(err) {
			w.viol("C13:C1:remove-missing-file-outcome", fmt.Sprintf("Remove(%q) of a missing file returned %v", p, err))
		}
		return
	}
	w.cur = p
	w.logf("remove %s", p)
	e.count("ops_remove", 1)
	err := e.fs.Remove(p)
	w.eval(1)
	if err != nil {
		w.viol(w.nsSig(p, err, "C13:C1:unexpected-error:remove"), fmt.Sprintf("Remove(%q): %v", p, err))
		return
	}
	w.files[p].path = ""
	delete(w.files, p)
	w.ver(p, nil)
}

func (w *c13Worker) opStat() {
	e := w.e
	e.count("ops_stat", 1)
	if h := w.pickH(nil); h != nil && w.rng.Bool() {
		w.cur = h.mf.path
		w.logf("handle stat %s", h.mf.path)
		var size int64
		if w.rng.Bool() {
			size = h.f.Size()
		} else {
			fi, err := h.f.Stat()
			if err != nil {
				w.viol("C13:C1:unexpected-error:stat", fmt.Sprintf("File.Stat: %v", err))
				return
			}
			size = fi.Size()
		}
		w.eval(1)
		if size != int64(len(h.mf.data)) {
			w.viol("C13:C1:own-file-size-mismatch", fmt.Sprintf("handle of %q reports size %d, model %d", h.mf.path, size, len(h.mf.data)))
		}
		return
	}
	p := w.pickExisting()
	if p == "" || w.rng.Chance(1, 8) {
		p = w.newPath()
	}
	w.cur = p
	w.logf("stat %s", p)
	fi, err := e.fs.Stat(p)
	w.eval(1)
	mf := w.files[p]
	if mf == nil {
		if err == nil || !os.IsNotExist(err) {
			w.viol("C13:C1:stat-missing-file-outcome", fmt.Sprintf("Stat(%q) of a missing file returned %v", p, err))
		}
		return
	}
	if err != nil {
		w.viol(w.nsSig(p, err, "C13:C1:unexpected-error:stat"), fmt.Sprintf("Stat(%q): %v", p, err))
		return
	}
	if fi.Size() != int64(len(mf.data)) || fi.Name() != path.Base(p) || fi.IsDir() {
		w.viol("C13:C1:own-file-size-mismatch", fmt.Sprintf("Stat(%q) = name %q size %d dir %v, model size %d", p, fi.Name(), fi.Size(), fi.IsDir(), len(mf.data)))
	}
}

func (w *c13Worker) opReaddir() {
	e := w.e
	d := w.dirs()
	dir := d[w.rng.Intn(len(d))]
	w.cur = dir + "/"
	w.logf("readdir %s", dir)
	e.count("ops_readdir", 1)
	f, err := e.fs.Open(dir)
	if err != nil {
		w.viol("C13:C1:unexpected-error:readdir", fmt.Sprintf("Open(%q): %v", dir, err))
		return
	}
	fis, err := f.Readdir(-1)
	w.eval(1)
	if err != nil {
		w.viol("C13:C1:unexpected-error:readdir", fmt.Sprintf("Readdir(%q): %v", dir, err))
		return
	}
	own := fmt.Sprintf("w%d_", w.id)
	private := dir == w.priv || dir == w.mov
	got := map[string]int64{}
	for _, fi := range fis {
		if private || strings.HasPrefix(fi.Name(), own) {
			if fi.IsDir() {
				got[fi.Name()] = -1
			} else {
				got[fi.Name()] = fi.Size()
			}
		}
	}
	want := map[string]int64{}
	for p, mf := range w.files {
		if path.Dir(p) == dir {
			want[path.Base(p)] = int64(len(mf.data))
		}
	}
	if path.Dir(w.mov) == dir {
		want[path.Base(w.mov)] = -1
	}
	if fmt.Sprint(got) != fmt.Sprint(want) {
		w.viol("C13:C1:directory-listing-mismatch", fmt.Sprintf("Readdir(%q): own entries name:size (dir=-1) got %v, want %v", dir, got, want))
	}
}

func (w *c13Worker) opClose() {
	if len(w.hs) == 0 {
		return
	}
	i := w.rng.Intn(len(w.hs))
	w.logf("close handle of %s", w.hs[i].mf.path)
	w.hs[i].f.Close()
	w.hs = append(w.hs[:i], w.hs[i+1:]...)
}

func (w *c13Worker) opSave() {
	w.cur = ""
	w.logf("save/flush")
	w.e.saveOp(w.rng, w.dirs())
}

// finalCheck compares every own file (by path and through the handles that
// are still open, including unlinked files) with the model.
func (w *c13Worker) finalCheck(stage string) {
	e := w.e
	check := func(what string, f File, mf *c13MFile) {
		w.cur = mf.path
		if pos, err := f.Seek(0, io.SeekStart); err != nil || pos != 0 {
			w.viol("C13:C1:unexpected-error:seek", fmt.Sprintf("%s: Seek(0) = %d, %v", what, pos, err))
			return
		}
		got, err := c13ReadN(f, len(mf.data)+8)
		w.eval(1)
		e.count("final_file_comparisons", 1)
		if err != nil {
			w.viol("C13:C1:unexpected-error:final-read", fmt.Sprintf("%s (%s): %v", what, stage, err))
		} else if !bytes.Equal(got, mf.data) {
			w.viol("C13:C1:final-content-mismatch:"+c13Classify(mf, 0, got), fmt.Sprintf("%s, %s:\n  got  %s\n  want %s", what, stage, c13Show(got), c13Show(mf.data)))
		}
	}
	for _, p := range w.sortedPaths() {
		w.cur = p
		f, err := e.fs.OpenFile(p, os.O_RDONLY, 0)
		if err != nil {
			w.viol(w.nsSig(p, err, "C13:C1:unexpected-error:final-open"), fmt.Sprintf("OpenFile(%q) (%s): %v", p, stage, err))
			continue
		}
		check(fmt.Sprintf("file %q", p), f, w.files[p])
	}
	for _, h := range w.hs {
		if h.rd {
			check(fmt.Sprintf("open handle of %q (\"\" = unlinked)", h.mf.path), h.f, h.mf)
			h.off = int64(len(h.mf.data))
		}
	}
}
