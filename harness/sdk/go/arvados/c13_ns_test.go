//go:build verif

// C13 harness part 5: namespace operations racing with each other. A "late"
// directory does not exist when the activity starts; 2..all workers reach the
// same point of their streams, each makes sure the directory exists (Mkdir of
// every path component, "already exists" is fine) and then creates, writes and
// closes an own file in it. From then on the directory is one more shared
// directory of that worker's stream. The files are ordinary own files: the
// sequential model (C-1) and the saved-manifest check (C-3) apply to them
// unchanged — a file whose create+write+close returned no error is there, with
// its content, in the live tree and in every manifest saved afterwards.

package arvados

import (
	"fmt"
	"os"
	"runtime"
	"strings"
	"sync/atomic"
	"time"
)

type c13Join struct {
	idx      int
	prefixes []string // path components to Mkdir, outermost first; the last one is the directory
	parts    []int    // participating workers
	at       int      // index in the stream at which the participants do it
	arrived  int32    // rendezvous, steering only
	ready    int32
	inflight int32   // Mkdir calls of this join running right now
	overlaps int32   // Mkdir calls that started while another one of this join was running
	full     int32   // 1: all participants were at the rendezvous
	nilRet   []int32 // per component: Mkdir calls that returned nil (evidence only, not judged)
}

func (j *c13Join) dir() string { return j.prefixes[len(j.prefixes)-1] }

const c13NsSuffix = ":in-directory-created-by-concurrent-mkdirs-of-several-workers"

// c13NsDoubled marks any symptom on a path in a late directory for which Mkdir
// returned nil to more than one worker (observed at the API boundary). That
// outcome alone is not judged; it names the root cause of what is.
const c13NsDoubled = ":in-directory-that-more-than-one-concurrent-mkdir-reported-creating"

func (e *c13Env) doubledSuffix(p string) string {
	for _, j := range e.joins {
		if !strings.HasPrefix(p, j.prefixes[0]+"/") {
			continue
		}
		// (violation path only) the victim of a replaced directory is often the
		// goroutine that waited for the lock of the replacing Mkdir: let the
		// Mkdir calls of this directory return before looking at their results
		for i := 0; atomic.LoadInt32(&j.inflight) > 0 && i < 2000; i++ {
			time.Sleep(500 * time.Microsecond)
		}
		for k := range j.prefixes {
			if atomic.LoadInt32(&j.nilRet[k]) > 1 {
				return c13NsDoubled
			}
		}
	}
	return ""
}

// inLate: p lies in (or below) a directory that was created during the
// activity by several workers at once.
func (e *c13Env) inLate(p string) bool {
	for _, j := range e.joins {
		if strings.HasPrefix(p, j.prefixes[0]+"/") {
			return true
		}
	}
	return false
}

// nsSig: an own file that exists in the model is reported as missing, and it
// lives in a late directory — that is its own symptom class.
func (w *c13Worker) nsSig(p string, err error, sig string) string {
	if err != nil && os.IsNotExist(err) && w.files[p] != nil && w.e.inLate(p) {
		if s := w.e.doubledSuffix(p); s != "" {
			return "C13:N1:own-file-vanished-from-live-tree" + s
		}
		return "C13:N1:own-file-vanished-from-live-tree" + c13NsSuffix
	}
	return sig
}

// rendezvous brings the participants to the same instant (steering only: who
// is not there after 2 s is not waited for). Phase 1 sleeps, phase 2 — when
// everybody is known to be there — spins briefly so that all leave together.
func (j *c13Join) rendezvous(w *c13Worker) {
	n := int32(len(j.parts))
	atomic.AddInt32(&j.arrived, 1)
	deadline := time.Now().Add(2 * time.Second)
	for atomic.LoadInt32(&j.arrived) < n {
		if w.e.aborted() || time.Now().After(deadline) {
			return
		}
		time.Sleep(50 * time.Microsecond)
	}
	atomic.StoreInt32(&j.full, 1)
	atomic.AddInt32(&j.ready, 1)
	for spins := 0; atomic.LoadInt32(&j.ready) < n && spins < 200000; spins++ {
		if spins%1024 == 1023 {
			runtime.Gosched()
		}
	}
}

func (w *c13Worker) opJoin(j *c13Join) {
	e := w.e
	w.cur = j.dir() + "/"
	w.logf("join: mkdir %v (with workers %v), then create a file in it", j.prefixes, j.parts)
	j.rendezvous(w)
	if e.aborted() {
		return
	}
	e.count("ns_join_ops", 1)
	for k, d := range j.prefixes {
		if atomic.AddInt32(&j.inflight, 1) > 1 {
			atomic.AddInt32(&j.overlaps, 1)
		}
		err := e.fs.Mkdir(d, 0755)
		atomic.AddInt32(&j.inflight, -1)
		w.eval(1)
		e.count("ops_mkdir", 1)
		switch {
		case err == nil:
			atomic.AddInt32(&j.nilRet[k], 1)
			e.count("ns_mkdir_created", 1)
		case os.IsExist(err):
			e.count("ns_mkdir_exists", 1)
		default:
			w.viol("C13:C1:unexpected-error:mkdir", fmt.Sprintf("Mkdir(%q) while other workers make the same directory: %v", d, err))
			return
		}
	}
	dir := j.dir()
	p := fmt.Sprintf("%s/w%d_j", dir, w.id)
	flag, rd := os.O_CREATE|os.O_WRONLY, false
	if w.rng.Bool() {
		flag, rd = os.O_CREATE|os.O_RDWR, true
	}
	f, err := e.fs.OpenFile(p, flag, 0644)
	w.eval(1)
	if err != nil {
		w.viol("C13:C1:unexpected-error:open", fmt.Sprintf("OpenFile(%q, %#x) right after Mkdir(%q) returned nil or \"exists\": %v", p, flag, dir, err))
		return
	}
	mf := &c13MFile{path: p}
	w.files[p] = mf
	w.ver(p, mf)
	data := w.payload(w.sizeChoice())
	w.logf("write %s off=0 data=%x", p, data)
	n, err := f.Write(data)
	w.eval(1)
	if err != nil || n != len(data) {
		w.viol("C13:C1:unexpected-error:write", fmt.Sprintf("Write of %d bytes to the new file %q returned n=%d err=%v", len(data), p, n, err))
		return
	}
	mf.data = c13WriteAt(nil, 0, data)
	w.changed(mf, nil)
	if w.rng.Chance(2, 3) || len(w.hs) >= 5 {
		if err := f.Close(); err != nil {
			w.viol("C13:C1:unexpected-error:close", fmt.Sprintf("Close of the new file %q: %v", p, err))
			return
		}
	} else {
		// keep writing through the handle obtained now
		w.hs = append(w.hs, &c13H{f: f, mf: mf, off: int64(len(data)), rd: rd, wr: true, lastWOff: 0, lastWLen: len(data)})
	}
	e.count("ns_files_created_in_late_dirs", 1)
	w.late = append(w.late, dir)
}

// nsEvidence adds the counters of the namespace races of one case.
func (e *c13Env) nsEvidence() (raced bool) {
	for _, j := range e.joins {
		e.count("ns_late_dirs", 1)
		if atomic.LoadInt32(&j.full) == 1 {
			e.count("ns_rendezvous_complete", 1)
		}
		if ov := int(atomic.LoadInt32(&j.overlaps)); ov > 0 {
			e.count("ns_mkdir_overlapping_calls", ov)
			raced = true
		}
		for k := range j.prefixes {
			if atomic.LoadInt32(&j.nilRet[k]) > 1 {
				// not judged: the statement says nothing about who "wins" a Mkdir
				e.count("ns_mkdir_same_dir_returned_nil_more_than_once", 1)
			}
		}
	}
	return raced
}
