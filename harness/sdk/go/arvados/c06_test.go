//go:build verif

package arvados

// C06 (b) — an index response cut short at any byte is reported as an error
// by KeepService.Index and KeepService.IndexMount; the untruncated response
// yields exactly its entries. See /verif/DESIGN.md §5 C06.
//
// The response bytes come from a raw TCP server (verifkit.C06RawServer), so
// status line, framing and the point at which the connection closes are
// exactly what the case says.

import (
	"context"
	"fmt"
	"net/http"
	"testing"
	"time"

	"git.arvados.org/arvados.git/internal/verifkit"
)

type c06IdxCase struct {
	Entries int    `json:"entries"`
	Len     int    `json:"len_F"`
	Shard   int    `json:"shard"`
	K       int    `json:"k,omitempty"`
	Framing string `json:"framing,omitempty"`
	Reader  string `json:"reader,omitempty"`
	Prefix  string `json:"prefix_tail,omitempty"`
}

// c06IndexSizes is the list of entry counts whose every prefix is served.
func c06IndexSizes(run *verifkit.Run) []int {
	if run.Thorough() {
		var ns []int
		for n := 0; n <= 40; n++ {
			ns = append(ns, n)
		}
		return ns
	}
	seed := verifkit.CaseRand(run.Seed(), "c06-index-sizes", 0)
	return []int{0, 1, 2, 3, seed.Range(4, 12), seed.Range(13, 40)}
}

const c06Shards = 4

func c06Tail(b []byte) string {
	if len(b) > 50 {
		b = b[len(b)-50:]
	}
	return string(b)
}

func TestVerifC06(t *testing.T) {
	run := verifkit.Start(t, "C06")
	defer run.Finish()
	srv, err := verifkit.C06NewRawServer()
	if err != nil {
		t.Fatal(err)
	}
	defer srv.Close()
	client := &Client{
		Client:    &http.Client{Transport: &http.Transport{DisableKeepAlives: true, DisableCompression: true}, Timeout: 5 * time.Minute},
		Scheme:    "http",
		APIHost:   "verif.invalid",
		AuthToken: "veriftoken",
	}
	addr := srv.Addr()
	ks := &KeepService{UUID: "zzzzz-bi6l4-verifc06arvados", ServiceHost: addr.IP.String(), ServicePort: addr.Port, ServiceType: "disk"}
	readers := []struct {
		name string
		call func() ([]KeepServiceIndexEntry, error)
	}{
		{"arvados.KeepService.Index", func() ([]KeepServiceIndexEntry, error) { return ks.Index(context.Background(), client, "") }},
		{"arvados.KeepService.IndexMount", func() ([]KeepServiceIndexEntry, error) {
			return ks.IndexMount(context.Background(), client, "zzzzz-nyw5e-000000000000000", "")
		}},
	}

	sizes := c06IndexSizes(run)
	// case i = (body F number i/c06Shards, shard i%c06Shards): the shard checks
	// the cut points k with k % c06Shards == shard, so that the prefixes of one
	// long body are spread over the parallel children. F depends only on
	// (seed, i/c06Shards).
	run.Cases("index-arvados", len(sizes)*c06Shards, func(i int, _ *verifkit.Rand) {
		n := sizes[i/c06Shards]
		shard := i % c06Shards
		rng := verifkit.CaseRand(run.Seed(), "c06-index-body", i/c06Shards)
		ents, F := verifkit.C06GenIndex(rng, n)
		base := c06IdxCase{Entries: n, Len: len(F), Shard: shard}
		run.Input(base, false)
		if i == 0 || i == 2*c06Shards {
			run.Sample(map[string]interface{}{"part": "b", "entries": n, "F": string(F)})
		}
		reqs0, _ := srv.Requests()
		nk := 0
		for k := shard; k <= len(F); k += c06Shards {
			nk++
			prefix := F[:k]
			class := verifkit.C06PrefixClass(F, k)
			for _, fr := range verifkit.C06Framings {
				srv.Set(verifkit.C06Frame(fr, prefix, len(F), k == len(F), rng))
				for _, rd := range readers {
					got, err := rd.call()
					run.Eval(1)
					c := base
					c.K, c.Framing, c.Reader, c.Prefix = k, fr, rd.name, c06Tail(prefix)
					if k < len(F) {
						run.Count("b_truncated_prefixes_checked", 1)
						run.Count("b_truncated_"+fr, 1)
						if err == nil {
							run.Violation("C06:b:truncated-index-accepted:"+rd.name+":"+fr,
								fmt.Sprintf("%s returned %d entries and no error for an index response cut at byte %d of %d (%s, framing %s); tail of what was sent: %q",
									rd.name, len(got), k, len(F), class, fr, c06Tail(prefix)), c)
						} else {
							run.Count("b_truncated_rejected", 1)
						}
					} else {
						run.Count("b_complete_checked", 1)
						if err != nil {
							run.Violation("C06:b:complete-index-rejected:"+rd.name+":"+fr,
								fmt.Sprintf("%s rejected the complete well-formed index (%d entries, framing %s): %v", rd.name, n, fr, err), c)
						} else if msg := c06CompareEntries(got, ents); msg != "" {
							run.Violation("C06:b:complete-index-wrong-entries:"+rd.name+":"+fr,
								fmt.Sprintf("%s on the complete index (%d entries, framing %s): %s", rd.name, n, fr, msg), c)
						}
					}
				}
				run.Feature(fmt.Sprintf("b:arvados:n=%s:%s:%s", c06NClass(n), fr, class))
			}
		}
		reqs1, last := srv.Requests()
		if want := int64(nk * len(verifkit.C06Framings) * len(readers)); reqs1-reqs0 != want {
			run.Inconclusive(fmt.Sprintf("C06(b) arvados: raw server answered %d requests, expected %d (last %q)", reqs1-reqs0, want, last))
		}
	})
}

func c06NClass(n int) string {
	switch {
	case n <= 3:
		return fmt.Sprint(n)
	case n <= 12:
		return "4-12"
	}
	return "13-40"
}

func c06CompareEntries(got []KeepServiceIndexEntry, want []verifkit.C06Entry) string {
	if len(got) != len(want) {
		return fmt.Sprintf("got %d entries, want %d", len(got), len(want))
	}
	for i := range want {
		w := fmt.Sprintf("%s+%d", want[i].Hash, want[i].Size)
		if string(got[i].SizedDigest) != w || got[i].Mtime != want[i].Mtime {
			return fmt.Sprintf("entry %d is {%s %d}, want {%s %d}", i, got[i].SizedDigest, got[i].Mtime, w, want[i].Mtime)
		}
	}
	return ""
}
