//go:build verif

// C13 harness part 4: one case = one filesystem + workers + savers; saves and
// their reload (C-3), deadlock verdict (C-4), final checks, evidence.

package arvados

import (
	"bytes"
	"fmt"
	"os"
	"sort"
	"strings"
	"sync"
	"sync/atomic"
	"time"

	"git.arvados.org/arvados.git/internal/verifkit"
)

type c13Save struct {
	kind     string
	lo, hi   []int64 // per worker: ops completed before the call / started when it returned
	clk1     int64
	content  map[string][]byte
	loadErr  string
	manifest string
	final    bool
}

type c13Env struct {
	run     *verifkit.Run
	cfg     c13Cfg
	fs      CollectionFileSystem
	ctl     *c13Ctl
	keep    *c13Keep
	api     *c13API
	clk     int64
	abort   int32
	evals   int64
	workers []*c13Worker
	shared  []*c13Shared
	sdirs   []string
	joins   []*c13Join
	saveMu  sync.Mutex
	saves   []*c13Save
	syncMu  sync.Mutex
	cntMu   sync.Mutex
	cnt     map[string]int
	nviol   int32
	overlap int
	maxHist int
}

func (e *c13Env) aborted() bool { return atomic.LoadInt32(&e.abort) != 0 }

func (e *c13Env) count(name string, k int) {
	e.cntMu.Lock()
	e.cnt[name] += k
	e.cntMu.Unlock()
}

// violation records a violation and stops the case: after a divergence the
// models are no longer meaningful.
func (e *c13Env) violation(sig, detail string) {
	atomic.StoreInt32(&e.abort, 1)
	if atomic.AddInt32(&e.nviol, 1) > 4 {
		return
	}
	cfg := e.cfg
	e.run.Violation(sig, fmt.Sprintf("%s\ncase: %+v", detail, cfg), nil)
}

// ------------------------------------------------------------ saves

func (e *c13Env) snapshot(started bool) []int64 {
	out := make([]int64, len(e.workers))
	for i, w := range e.workers {
		if started {
			out[i] = atomic.LoadInt64(&w.started)
		} else {
			out[i] = atomic.LoadInt64(&w.done)
		}
	}
	return out
}

// saveOp performs one of Flush("",·), Flush(dir,·), MarshalManifest, Sync.
func (e *c13Env) saveOp(rng *verifkit.Rand, dirs []string) {
	switch r := rng.Intn(100); {
	case r < 25:
		short := rng.Bool()
		e.count("ops_flush_all", 1)
		if err := e.fs.Flush("", short); err != nil {
			e.violation("C13:C1:unexpected-error:flush", fmt.Sprintf("Flush(\"\", %v): %v", short, err))
		}
	case r < 55:
		d := dirs[rng.Intn(len(dirs))]
		short := rng.Bool()
		e.count("ops_flush_dir", 1)
		err := e.fs.Flush(d, short)
		if err != nil && !os.IsNotExist(err) {
			// (a movable directory of another worker may just have moved: not-exist is fine)
			e.violation("C13:C1:unexpected-error:flush", fmt.Sprintf("Flush(%q, %v): %v", d, short, err))
		}
	case r < 85:
		e.save("MarshalManifest", false)
	default:
		e.save("Sync", false)
	}
}

func (e *c13Env) save(kind string, final bool) *c13Save {
	if kind == "Sync" {
		// one Sync at a time, so that the collection update seen by the API
		// stub during the call is this call's
		e.syncMu.Lock()
		defer e.syncMu.Unlock()
		e.api.take()
	}
	s := &c13Save{kind: kind, final: final}
	s.lo = e.snapshot(false)
	fails0 := atomic.LoadInt64(&e.ctl.failed)
	atomic.AddInt32(&e.ctl.savers, 1)
	var txt string
	var err error
	if kind == "Sync" {
		if err = e.fs.Sync(); err == nil {
			var n int
			txt, n = e.api.take()
			if n != 1 {
				e.violation("C13:C3:sync-did-not-update-collection-once", fmt.Sprintf("Sync returned nil after %d collection updates", n))
				atomic.AddInt32(&e.ctl.savers, -1)
				return nil
			}
		}
	} else {
		txt, err = e.fs.MarshalManifest(".")
	}
	atomic.AddInt32(&e.ctl.savers, -1)
	fails1 := atomic.LoadInt64(&e.ctl.failed)
	s.hi = e.snapshot(true)
	s.clk1 = atomic.AddInt64(&e.clk, 1)
	atomic.AddInt64(&e.evals, 1)
	e.count("ops_"+strings.ToLower(kind), 1)
	if err != nil {
		if fails1 == fails0 {
			e.violation("C13:C3:save-failed-without-keep-failure:"+kind, fmt.Sprintf("%s returned %q although no Keep write failed during the call", kind, err))
		} else {
			e.count("saves_failed_with_keep_failure", 1)
		}
		return nil
	}
	s.manifest = txt
	// reload right now: the stub serves only blocks acknowledged so far
	s.content, s.loadErr = c13Load(txt, e.keep)
	e.count("manifests_saved", 1)
	e.saveMu.Lock()
	e.saves = append(e.saves, s)
	e.saveMu.Unlock()
	return s
}

// c13Load loads a manifest into a fresh filesystem over the same Keep stub
// and reads every file.
func c13Load(txt string, keep keepClient) (map[string][]byte, string) {
	lfs, err := (&Collection{ManifestText: txt}).FileSystem(&c13API{}, keep)
	if err != nil {
		return nil, "load: " + err.Error()
	}
	out := map[string][]byte{}
	var walk func(dir string) string
	walk = func(dir string) string {
		d, err := lfs.Open(dir + "/")
		if err != nil {
			return fmt.Sprintf("open dir %q: %v", dir, err)
		}
		fis, err := d.Readdir(-1)
		if err != nil {
			return fmt.Sprintf("readdir %q: %v", dir, err)
		}
		for _, fi := range fis {
			p := fi.Name()
			if dir != "." {
				p = dir + "/" + fi.Name()
			}
			if fi.IsDir() {
				if msg := walk(p); msg != "" {
					return msg
				}
				continue
			}
			f, err := lfs.OpenFile(p, os.O_RDONLY, 0)
			if err != nil {
				return fmt.Sprintf("open %q: %v", p, err)
			}
			data, err := c13ReadN(f, int(fi.Size())+4)
			if err != nil {
				return fmt.Sprintf("read %q: %v", p, err)
			}
			if int64(len(data)) != fi.Size() {
				return fmt.Sprintf("read %q: %d bytes, size says %d", p, len(data), fi.Size())
			}
			out[p] = data
		}
		return ""
	}
	if msg := walk("."); msg != "" {
		return out, msg
	}
	return out, ""
}

func c13Acceptable(vers []c13Ver, lo, hi int64, got []byte, present bool) bool {
	start := 0
	for i, v := range vers {
		if v.op <= lo {
			start = i
		}
	}
	for i := start; i < len(vers) && (i == start || vers[i].op <= hi); i++ {
		v := vers[i]
		if v.present == present && (!present || bytes.Equal(v.data, got)) {
			return true
		}
	}
	return false
}

func c13VersText(vers []c13Ver, lo, hi int64) string {
	var sb strings.Builder
	for _, v := range vers {
		mark := " "
		if v.op > lo && v.op <= hi {
			mark = "*"
		}
		if v.present {
			fmt.Fprintf(&sb, "   %s after op %d: %s\n", mark, v.op, c13Show(v.data))
		} else {
			fmt.Fprintf(&sb, "   %s after op %d: (absent)\n", mark, v.op)
		}
	}
	return sb.String()
}

// checkSave judges one saved manifest (C-3) once all version logs are complete.
func (e *c13Env) checkSave(s *c13Save, sharedFinal map[string][]byte) {
	atomic.AddInt64(&e.evals, 1)
	if s.loadErr != "" {
		class := "load-or-read-error"
		if strings.Contains(s.loadErr, c13ErrNoBlock.Error()) {
			class = "references-block-never-acknowledged"
		}
		e.violation("C13:C3:saved-manifest-unreadable:"+class, fmt.Sprintf("manifest returned by %s does not load/read over the Keep stub: %s\nmanifest:\n%s", s.kind, s.loadErr, s.manifest))
		return
	}
	e.count("manifests_reloaded", 1)
	known := map[string]bool{}
	for _, w := range e.workers {
		lo, hi := s.lo[w.id], s.hi[w.id]
		paths := make([]string, 0, len(w.vers))
		for p := range w.vers {
			paths = append(paths, p)
		}
		sort.Strings(paths)
		for _, p := range paths {
			known[p] = true
			got, present := s.content[p]
			atomic.AddInt64(&e.evals, 1)
			e.count("manifest_file_checks", 1)
			if c13Acceptable(w.vers[p], lo, hi, got, present) {
				continue
			}
			sig := "C13:C3:own-file-content-never-held"
			what := "holds " + c13Show(got)
			if !present {
				sig = "C13:C3:own-file-missing-from-saved-manifest"
				what = "is absent"
			} else {
				for _, v := range w.vers[p] {
					if v.present && bytes.Equal(v.data, got) {
						sig += ":content-of-another-time"
					}
				}
			}
			if s := e.doubledSuffix(p); s != "" {
				sig += s
			} else if !present && e.inLate(p) {
				sig += c13NsSuffix
			}
			if s.final {
				sig += ":quiescent-save"
			}
			e.violation(sig, fmt.Sprintf("manifest returned by %s: %q (written only by worker %d) %s; the save started after %d completed operations of that worker and returned when %d had started; contents of that path over time (* = inside the window):\n%s", s.kind, p, w.id, what, lo, hi, c13VersText(w.vers[p], lo, hi)))
			return
		}
	}
	for _, sf := range e.shared {
		known[sf.path] = true
		got, present := s.content[sf.path]
		atomic.AddInt64(&e.evals, 1)
		if !present {
			e.violation("C13:C3:shared-file-missing-from-saved-manifest", fmt.Sprintf("manifest returned by %s lacks %q", s.kind, sf.path))
			return
		}
		if s.final {
			if want := sharedFinal[sf.path]; !bytes.Equal(got, want) {
				e.violation("C13:C3:shared-file-content-differs:quiescent-save", fmt.Sprintf("final manifest: %q holds %s, the live file reads %s", sf.path, c13Show(got), c13Show(want)))
				return
			}
			continue
		}
		// every byte is zero or was written at that offset by a write that started before the save returned
		for off, b := range got {
			ok := b == 0
			for _, wr := range sf.writes {
				if ok {
					break
				}
				if wr.call < s.clk1 && wr.tag == b && (wr.off < 0 || (off >= wr.off && off < wr.off+wr.n)) {
					ok = true
				}
			}
			if !ok {
				e.violation("C13:C3:shared-file-byte-never-written-there", fmt.Sprintf("manifest returned by %s: %q holds %s; byte %#02x at offset %d was never written there before the save returned", s.kind, sf.path, c13Show(got), b, off))
				return
			}
		}
	}
	var extra []string
	for p := range s.content {
		if !known[p] {
			extra = append(extra, p)
		}
	}
	if len(extra) > 0 {
		sort.Strings(extra)
		e.violation("C13:C3:unknown-path-in-saved-manifest", fmt.Sprintf("manifest returned by %s contains files nobody created: %v\n%s", s.kind, extra, s.manifest))
	}
}

// ------------------------------------------------------------ the case

func c13PanicSite(st string) string {
	lines := strings.Split(st, "\n")
	seen := false
	for _, l := range lines {
		if strings.HasPrefix(l, "panic(") {
			seen = true
			continue
		}
		if !seen || strings.HasPrefix(l, "\t") || strings.HasPrefix(l, "runtime.") || l == "" {
			continue
		}
		if i := strings.LastIndex(l, "("); i > 0 {
			l = l[:i]
		}
		if i := strings.LastIndex(l, "/"); i >= 0 {
			l = l[i+1:]
		}
		return l
	}
	return "?"
}

func c13Case(run *verifkit.Run, caseNo int, rng *verifkit.Rand) {
	cfg := c13GenCfg(rng)
	run.Input(cfg, true)
	maxBlockSize = cfg.BlockSize // no filesystem is active between cases

	e := &c13Env{run: run, cfg: cfg, cnt: map[string]int{}, api: &c13API{}}
	e.ctl = c13NewCtl(&e.cfg, rng.Fork())
	e.keep = &c13Keep{ctl: e.ctl}

	// initial tree: optionally loaded from a manifest (stored segments from the start)
	type pre struct {
		w    int
		name string
		data []byte
	}
	var pres []pre
	var mtxt strings.Builder
	if cfg.Preload {
		for wi := 0; wi < cfg.Workers; wi++ {
			n := rng.Intn(3)
			if n == 0 {
				continue
			}
			var locs, toks []string
			pos := 0
			for k := 0; k < n; k++ {
				data := rng.Bytes(rng.Range(1, 3*cfg.BlockSize))
				for i := range data {
					if data[i] == 0 {
						data[i] = 7
					}
				}
				name := fmt.Sprintf("w%d_%d", wi, k)
				locs = append(locs, e.keep.preload(data))
				toks = append(toks, fmt.Sprintf("%d:%d:%s", pos, len(data), name))
				pos += len(data)
				pres = append(pres, pre{wi, name, data})
			}
			fmt.Fprintf(&mtxt, "./p%d %s %s\n", wi, strings.Join(locs, " "), strings.Join(toks, " "))
		}
	}
	cfs, err := (&Collection{UUID: "zzzzz-4zz18-c13c13c13c13c13", ManifestText: mtxt.String()}).FileSystem(e.api, e.keep)
	if err != nil {
		run.Inconclusive("cannot build the initial filesystem: " + err.Error())
		return
	}
	e.fs = cfs
	mk := func(d string) {
		if err := cfs.Mkdir(d, 0755); err != nil && !os.IsExist(err) {
			run.Inconclusive("setup mkdir " + d + ": " + err.Error())
		}
	}
	for k := 0; k < cfg.SharedDirs; k++ {
		e.sdirs = append(e.sdirs, fmt.Sprintf("s%d", k))
		mk(e.sdirs[k])
	}
	mk("s0/n")
	e.sdirs = append(e.sdirs, "s0/n")
	for wi := 0; wi < cfg.Workers; wi++ {
		w := &c13Worker{id: wi, e: e, rng: rng.Fork(), files: map[string]*c13MFile{}, vers: map[string][]c13Ver{}, priv: fmt.Sprintf("p%d", wi)}
		mk(w.priv)
		w.mov = w.priv + "/sub"
		mk(w.mov)
		w.movLocs = []string{w.priv + "/sub", w.priv + "/sub2"}
		for _, sd := range e.sdirs {
			w.movLocs = append(w.movLocs, fmt.Sprintf("%s/w%d_d", sd, wi))
		}
		e.workers = append(e.workers, w)
	}
	for _, p := range pres {
		w := e.workers[p.w]
		pth := w.priv + "/" + p.name
		w.files[pth] = &c13MFile{path: pth, data: p.data}
		w.vers[pth] = []c13Ver{{op: 0, present: true, data: p.data}}
	}
	for k := 0; k < cfg.SharedFiles; k++ {
		sf := &c13Shared{idx: k, path: fmt.Sprintf("%s/shared_%d", e.sdirs[rng.Intn(len(e.sdirs))], k)}
		f, err := cfs.OpenFile(sf.path, os.O_CREATE|os.O_RDWR, 0644)
		if err != nil {
			run.Inconclusive("setup shared file: " + err.Error())
			return
		}
		f.Close()
		np := rng.Range(2, 3)
		if np > cfg.Workers {
			np = cfg.Workers
		}
		sf.parts = rng.Perm(cfg.Workers)[:np]
		for pi, wi := range sf.parts {
			e.workers[wi].sh = append(e.workers[wi].sh, &c13SharedH{sf: sf, app: pi == 0 && rng.Chance(1, 3), quota: 50 / np})
		}
		e.shared = append(e.shared, sf)
	}

	// late directories: created during the activity by several workers at once
	for k := 0; k < cfg.LateDirs; k++ {
		base := fmt.Sprintf("j%d", k)
		if rng.Chance(1, 3) {
			base = e.sdirs[rng.Intn(len(e.sdirs))] + "/" + base
		}
		j := &c13Join{idx: k, prefixes: []string{base}}
		for _, c := range []string{"a", "b"}[:rng.Intn(3)] {
			j.prefixes = append(j.prefixes, j.dir()+"/"+c)
		}
		j.nilRet = make([]int32, len(j.prefixes))
		np := cfg.Workers
		if rng.Bool() {
			np = rng.Range(2, cfg.Workers)
		}
		j.parts = rng.Perm(cfg.Workers)[:np]
		if !rng.Chance(1, 3) { // else: at the very start of the streams
			j.at = rng.Intn(cfg.OpsPer)
		}
		e.joins = append(e.joins, j)
	}
	for at := 0; at < cfg.OpsPer; at++ {
		for _, j := range e.joins {
			if j.at == at {
				for _, wi := range j.parts {
					e.workers[wi].joins = append(e.workers[wi].joins, j)
				}
			}
		}
	}

	// concurrent phase ------------------------------------------------------
	t0 := time.Now()
	stopMon := make(chan struct{})
	deadlock := make(chan string, 1)
	go e.ctl.monitor(stopMon, deadlock)
	defer close(stopMon)

	var wg sync.WaitGroup
	var workersLeft int32 = int32(cfg.Workers)
	for _, w := range e.workers {
		wg.Add(1)
		go func(w *c13Worker) {
			defer wg.Done()
			defer atomic.AddInt32(&workersLeft, -1)
			w.runStream()
		}(w)
	}
	for s := 0; s < cfg.Savers; s++ {
		srng := rng.Fork()
		wg.Add(1)
		go func() {
			defer wg.Done()
			alld := append([]string{}, e.sdirs...)
			for _, w := range e.workers {
				alld = append(alld, w.priv)
			}
			for _, j := range e.joins {
				alld = append(alld, j.dir()) // may not exist yet: not-exist is fine
			}
			for atomic.LoadInt32(&workersLeft) > 0 && !e.aborted() {
				target := e.ctl.eventCount() + int64(srng.Range(15, 120))
				for e.ctl.eventCount() < target && atomic.LoadInt32(&workersLeft) > 0 {
					time.Sleep(200 * time.Microsecond)
				}
				e.ctl.event(true, false)
				e.saveOp(srng, alld)
				e.ctl.event(true, false)
			}
		}()
	}
	phase := func(f func()) bool {
		done := make(chan struct{})
		go func() { defer close(done); f() }()
		select {
		case <-done:
			return true
		case dump := <-deadlock:
			site, filtered := c13BlockedSites(dump)
			c13Dead = true
			atomic.StoreInt32(&e.abort, 1)
			e.run.Violation("C13:C4:no-progress:"+site,
				fmt.Sprintf("no operation finished, and no Keep write arrived or completed, for 30 s while no Keep write was parked (%d still in flight); goroutines inside the collection filesystem:\n%s", e.ctl.inflightCount(), filtered), nil)
			return false
		}
	}
	alive := phase(wg.Wait)
	concurrentWall := time.Since(t0)

	// final phase -------------------------------------------------------------
	sharedFinal := map[string][]byte{}
	var finalSave *c13Save
	if alive && !e.aborted() {
		alive = phase(func() {
			e.ctl.startDrain()
			waitQuiet := func() bool {
				for i := 0; e.ctl.inflightCount() > 0; i++ {
					if i > 120000 {
						run.Inconclusive("Keep writes still in flight 60 s after the last one was released")
						return false
					}
					time.Sleep(500 * time.Microsecond)
				}
				return true
			}
			if !waitQuiet() {
				return
			}
			for _, w := range e.workers {
				w.finalCheck("after all operations, all Keep writes completed")
			}
			if e.aborted() {
				return
			}
			e.ctl.event(true, false)
			if err := e.fs.Flush("", true); err != nil {
				e.violation("C13:C1:unexpected-error:flush", fmt.Sprintf("final Flush(\"\", true) with a healthy Keep: %v", err))
				return
			}
			if !waitQuiet() {
				return
			}
			for _, w := range e.workers {
				w.finalCheck("after the final Flush")
			}
			for _, sf := range e.shared {
				data, err := e.finalReads(sf)
				if err != nil {
					e.violation("C13:C2:shared-op-error:final-read", fmt.Sprintf("reading %q at the end: %v", sf.path, err))
					return
				}
				sharedFinal[sf.path] = data
			}
			if e.aborted() {
				return
			}
			e.ctl.event(true, false)
			finalSave = e.save("MarshalManifest", true)
			if finalSave == nil && !e.aborted() {
				e.violation("C13:C3:final-save-failed-with-healthy-keep", "MarshalManifest after the activity, with a Keep stub that no longer fails, returned an error")
				return
			}
			for _, w := range e.workers {
				w.finalCheck("after the final MarshalManifest")
			}
		})
	}
	if !alive {
		run.Note(fmt.Sprintf("case %d ended in a no-progress verdict; remaining cases of this process are skipped", caseNo))
		return
	}
	close0 := time.Now()

	// offline checks ------------------------------------------------------------
	if !e.aborted() {
		for _, sf := range e.shared {
			if !sf.tainted {
				e.checkShared(sf)
			}
		}
		for _, s := range e.saves {
			if e.aborted() {
				break
			}
			e.checkSave(s, sharedFinal)
		}
	}
	e.ctl.mu.Lock()
	stubViol := append([]string(nil), e.ctl.stubViol...)
	ctlCnt := map[string]int{}
	for k, v := range e.ctl.cnt {
		ctlCnt[k] = v
	}
	maxParked := e.ctl.maxParked
	e.ctl.mu.Unlock()
	for _, s := range stubViol {
		e.violation("C13:H:keep-write-buffer-modified-in-flight", "a buffer handed to PutB was modified before PutB returned (it is shared with a file segment that was written in place): "+s)
	}

	// evidence --------------------------------------------------------------------
	nsRaced := e.nsEvidence()
	run.Eval(int(atomic.LoadInt64(&e.evals)))
	c13Count(run, "runs", 1)
	c13Count(run, "workers", cfg.Workers)
	c13Count(run, "saver_goroutines", cfg.Savers)
	for k, v := range ctlCnt {
		c13Count(run, k, v)
	}
	for k, v := range e.cnt {
		c13Count(run, k, v)
	}
	run.CountMax("max_putb_parked_at_once", maxParked)
	run.CountMax("max_history_ops", e.maxHist)
	run.CountMax("max_concurrent_phase_ms", int(concurrentWall/time.Millisecond))
	c13Count(run, "wall_ms_concurrent", int(concurrentWall/time.Millisecond))
	c13Count(run, "wall_ms_offline_checks", int(time.Since(close0)/time.Millisecond))
	reloaded := e.cnt["manifests_reloaded"]
	if ctlCnt["putb_parked"] == 0 || reloaded == 0 {
		run.Trivial()
	} else {
		ov := "0"
		switch {
		case e.overlap > 20:
			ov = ">20"
		case e.overlap > 0:
			ov = "1-20"
		}
		run.Feature(fmt.Sprintf("w=%d,bs=%d,fault=%s,shared=%d,stall=%d,reordered=%v,failed=%v,overlap=%s,mkdirs_overlapped=%v",
			cfg.Workers, cfg.BlockSize, cfg.Fault, cfg.SharedFiles, cfg.StallMs, ctlCnt["putb_reordered"] > 0, ctlCnt["putb_failed"] > 0, ov, nsRaced))
	}
	if caseNo < 3 {
		run.Sample(map[string]interface{}{"case": caseNo, "cfg": cfg, "keep_writes": ctlCnt, "ops": e.cnt, "saves_reloaded": reloaded, "overlapping_shared_pairs": e.overlap})
	}
}
