//go:build verif

package arvados

// C10 — all manifest codecs agree with the published manifest format.
// This file: the collection filesystem loader (Collection.FileSystem /
// dirnode.loadManifest), MarshalManifest, PortableDataHash and
// Collection.SizedDigests. See DESIGN.md §5 C10 and
// internal/verifkit/mfgen (generator, reference interpreter, worker).

import (
	"fmt"
	"io"
	"os"
	"runtime"
	"runtime/debug"
	"sort"
	"strings"
	"testing"

	"git.arvados.org/arvados.git/internal/verifkit"
	"git.arvados.org/arvados.git/internal/verifkit/mfgen"
)

// c10Keep serves block content derived from the locator (mfgen.Content).
type c10Keep struct{ reads int }

func (k *c10Keep) ReadAt(locator string, p []byte, off int) (int, error) {
	k.reads++
	h, sz := mfgen.LocHashSize(locator)
	if sz > 1<<20 {
		return 0, fmt.Errorf("c10Keep: block too large to materialize")
	}
	data := mfgen.Content(h, sz)
	if off < 0 || off > len(data) {
		return 0, fmt.Errorf("c10Keep: read at %d outside %d-byte block", off, len(data))
	}
	n := copy(p, data[off:])
	if n < len(p) {
		return n, io.ErrUnexpectedEOF
	}
	return n, nil
}

func (k *c10Keep) PutB(p []byte) (string, int, error) {
	return "", 0, fmt.Errorf("c10Keep: unexpected write")
}

func (k *c10Keep) LocalLocator(locator string) (string, error) { return locator, nil }

// TestVerifC10Worker is the worker side (inert unless started by the harness).
func TestVerifC10Worker(t *testing.T) {
	if os.Getenv("VERIF_C10_WORKER") == "" {
		t.Skip("worker entry point")
	}
	runtime.GOMAXPROCS(2)
	debug.SetGCPercent(400) // SizedDigests allocates 1 MiB per call; collect less often
	mfgen.Serve(c10Handle)
	if os.Getenv("VERIF_C10_WORKER_PROF") == "" {
		os.Exit(0)
	}
}

func c10Walk(dn *dirnode, prefix string, resp *mfgen.Resp) {
	resp.Dirs = append(resp.Dirs, prefix)
	names := make([]string, 0, len(dn.inodes))
	for name := range dn.inodes {
		names = append(names, name)
	}
	sort.Strings(names)
	for _, name := range names {
		switch node := dn.inodes[name].(type) {
		case *dirnode:
			c10Walk(node, prefix+"/"+name, resp)
		case *filenode:
			fo := mfgen.FileObs{Path: prefix + "/" + name, Size: node.Size()}
			for _, seg := range node.segments {
				switch seg := seg.(type) {
				case storedSegment:
					fo.Segs = append(fo.Segs, mfgen.Seg{Loc: seg.locator, Off: int64(seg.offset), Len: int64(seg.length)})
				default:
					fo.Err = fmt.Sprintf("segment of type %T after load", seg)
				}
			}
			resp.Files = append(resp.Files, fo)
		}
	}
}

func c10Handle(req *mfgen.Req, resp *mfgen.Resp) {
	c10PDH(req, resp)
	c10FS(req, resp)
}

func c10FS(req *mfgen.Req, resp *mfgen.Resp) {
	{
		kc := &c10Keep{}
		coll := &Collection{ManifestText: req.Text}
		fs, err := coll.FileSystem(nil, kc)
		resp.NonNil = fs != nil
		if err != nil {
			resp.Err = "error: " + err.Error()
			return
		}
		if fs == nil {
			resp.Err = "nil filesystem without error"
			return
		}
		root, ok := fs.(*collectionFileSystem).root.(*dirnode)
		if !ok {
			resp.Err = "root is not a dirnode"
			return
		}
		c10Walk(root, ".", resp)
		for i := range resp.Files {
			fo := &resp.Files[i]
			if fo.Size > 1<<16 {
				continue
			}
			f, err := fs.Open(fo.Path)
			if err != nil {
				fo.Err = "open: " + err.Error()
				continue
			}
			fo.Data, err = io.ReadAll(f)
			if err != nil {
				fo.Err = "read: " + err.Error()
			}
			if fi, err := f.Stat(); err != nil {
				fo.Err += " stat: " + err.Error()
			} else if fi.Size() != fo.Size {
				fo.Err += fmt.Sprintf(" stat: size %d vs %d", fi.Size(), fo.Size)
			}
			f.Close()
		}
		resp.Strs = []string{fmt.Sprint(fs.Size())}
		txt, err := fs.MarshalManifest(".")
		resp.Text = txt
		if err != nil {
			resp.TextErr = "error: " + err.Error()
		}
	}
}

func c10PDH(req *mfgen.Req, resp *mfgen.Resp) {
	{
		resp.PDH = PortableDataHash(req.Text)
		coll := &Collection{ManifestText: req.Text}
		if req.Text == "" {
			coll.PortableDataHash = "d41d8cd98f00b204e9800998ecf8427e+0"
		}
		sds, err := coll.SizedDigests()
		for _, sd := range sds {
			resp.SD = append(resp.SD, string(sd))
		}
		if err != nil {
			resp.SDErr = "error: " + err.Error()
		}
	}
}

// c10Prep is one case prepared for execution and (after exec) its answer.
type c10Prep struct {
	c     *mfgen.Case
	p     *mfgen.Parsed // meaning, if the input is a judgeable valid manifest
	ref   map[string][]byte
	req   *mfgen.Req
	resp  *mfgen.Resp
	crash *mfgen.Crash
	bad   string
}

type c10Harness struct {
	run      *verifkit.Run
	w        *mfgen.Worker
	rep      *mfgen.Reporter
	quiet    bool
	cache    map[int]*c10Prep
	cacheStr string
	hangs    int
	giveUp   bool // two confirmed stalls: stop feeding inputs (each costs two watchdog periods)
}

const c10Window = 32

func (h *c10Harness) eval(n int) {
	if !h.quiet {
		h.run.Eval(n)
	}
}

func (h *c10Harness) count(name string, n int) {
	if !h.quiet {
		h.run.Count(name, n)
	}
}

func (h *c10Harness) prepValid(c *mfgen.Case) *c10Prep {
	pr := &c10Prep{c: c}
	p, rej := mfgen.Interpret(c.Raw)
	if rej != nil || p.Conflict != "" || len(p.Unspecified) > 0 {
		pr.bad = fmt.Sprintf("generator produced a manifest the reference does not accept: %v %v: %q", rej, p, c.Raw)
		return pr
	}
	ref, err := mfgen.RefBytes(p)
	if err != nil {
		pr.bad = err.Error()
		return pr
	}
	pr.p, pr.ref = p, ref
	pr.req = &mfgen.Req{Op: "all", Text: c.Raw}
	return pr
}

func (h *c10Harness) prepAny(c *mfgen.Case) *c10Prep {
	return &c10Prep{c: c, req: &mfgen.Req{Op: "all", Text: c.Raw}}
}

func (h *c10Harness) exec(preps []*c10Prep) {
	var reqs []*mfgen.Req
	var idx []int
	for i, pr := range preps {
		if pr.req != nil {
			reqs = append(reqs, pr.req)
			idx = append(idx, i)
		}
	}
	resps, crashes, err := h.w.CallMany(reqs)
	if err != nil {
		h.run.Inconclusive("go-fs worker: " + err.Error())
	}
	for j, i := range idx {
		preps[i].resp, preps[i].crash = resps[j], crashes[j]
	}
}

func (h *c10Harness) window(stream string, i, n int, build func(rng *verifkit.Rand) *c10Prep) *c10Prep {
	if h.cacheStr != stream {
		h.cache, h.cacheStr = map[int]*c10Prep{}, stream
	}
	if pr, ok := h.cache[i]; ok {
		delete(h.cache, i)
		return pr
	}
	if h.giveUp {
		return build(verifkit.CaseRand(h.run.Seed(), stream, i))
	}
	var idxs []int
	var preps []*c10Prep
	w := c10Window
	if h.run.Replaying() {
		w = 1
	}
	for idx := i; idx < n && len(idxs) < w; idx += h.run.BatchN() {
		idxs = append(idxs, idx)
		preps = append(preps, build(verifkit.CaseRand(h.run.Seed(), stream, idx)))
	}
	h.exec(preps)
	for k, idx := range idxs {
		h.cache[idx] = preps[k]
	}
	pr := h.cache[i]
	delete(h.cache, i)
	return pr
}

func (h *c10Harness) noteHang() {
	h.hangs++
	if h.hangs >= 2 && !h.giveUp {
		h.giveUp = true
		h.run.Inconclusive("two confirmed stalls in this batch: the remaining cases of the batch were not run")
	}
}

// ready makes sure a prepared case was executed (a stall in its window
// leaves the cases behind it unexecuted). false: the batch has given up.
func (h *c10Harness) ready(pr *c10Prep) bool {
	if h.giveUp {
		h.run.Count("skipped_after_stalls", 1)
		return false
	}
	if pr.req != nil && pr.resp == nil && pr.crash == nil {
		h.exec([]*c10Prep{pr})
	}
	return true
}

func (h *c10Harness) outcome(pr *c10Prep) (*mfgen.Resp, *mfgen.Finding) {
	req, crash, resp := pr.req, pr.crash, pr.resp
	if req == nil {
		return nil, nil
	}
	if crash != nil && crash.Kind == "hang" {
		// a stall is a violation only if it reproduces in isolation
		ok, why := h.w.ConfirmHang(req)
		if !ok {
			h.run.Inconclusive(fmt.Sprintf("go-fs worker stalled on %q but the stall was not confirmed: %s", req.Text, why))
			return nil, nil
		}
		crash.Log = why
		h.noteHang()
	}
	if crash != nil {
		h.count("worker_crashes", 1)
		return nil, &mfgen.Finding{Key: "X4:go-fs:" + crash.Kind,
			Detail: fmt.Sprintf("go-fs: process-fatal %s in %s on input %q: %s\n%s", crash.Kind, crash.Site, req.Text, crash.Headline, crash.Log)}
	}
	if resp == nil {
		return nil, nil
	}
	if resp.Panic != "" {
		return nil, &mfgen.Finding{Key: "X4:go-fs:panic",
			Detail: fmt.Sprintf("go-fs: panic in %s on input %q: %s", mfgen.PanicSite(resp.Panic), req.Text, resp.Panic)}
	}
	return resp, nil
}

// goValid: X1 (loader), X2 (MarshalManifest), X3 for a valid manifest.
func (h *c10Harness) goValid(pr *c10Prep) []mfgen.Finding {
	var out []mfgen.Finding
	p, ref, text := pr.p, pr.ref, pr.c.Raw
	resp, f := h.outcome(pr)
	if f != nil {
		return []mfgen.Finding{*f}
	}
	if resp == nil {
		return nil
	}
	// X3
	h.eval(2)
	if want := p.PDH(); resp.PDH != want {
		out = append(out, mfgen.Finding{Key: "X3:go-pdh:mismatch", Detail: fmt.Sprintf("PortableDataHash(%q) = %s, MD5+length of the text with locators reduced to hash+size (%q) is %s", text, resp.PDH, p.StrippedText(), want)})
	}
	wantSD := p.SizedDigests()
	if resp.SDErr != "" {
		out = append(out, mfgen.Finding{Key: "X3:go-sizeddigests:valid-rejected", Detail: fmt.Sprintf("SizedDigests of valid %q: %s", text, resp.SDErr)})
	} else if strings.Join(resp.SD, " ") != strings.Join(wantSD, " ") {
		out = append(out, mfgen.Finding{Key: "X3:go-sizeddigests:mismatch", Detail: fmt.Sprintf("SizedDigests of %q = %q, expected %q", text, resp.SD, wantSD)})
	}
	// X1
	h.eval(1)
	if resp.Err != "" {
		return append(out, mfgen.Finding{Key: "X1:go-fs:valid-rejected", Detail: fmt.Sprintf("the collection filesystem refuses the valid manifest %q: %s", text, resp.Err)})
	}
	got := map[string][]mfgen.Seg{}
	for _, fo := range resp.Files {
		got[fo.Path] = fo.Segs
	}
	h.eval(len(p.Paths))
	out = append(out, mfgen.JudgeFileSet("go-fs", p, got)...)
	var total int64
	for _, fo := range resp.Files {
		want, ok := ref[fo.Path]
		if !ok {
			continue
		}
		total += int64(len(want))
		h.eval(1)
		switch {
		case fo.Err != "":
			out = append(out, mfgen.Finding{Key: "X1:go-fs:read-error", Detail: fmt.Sprintf("go-fs: reading %q of %q: %s", fo.Path, text, fo.Err)})
		case string(fo.Data) != string(want) || fo.Size != int64(len(want)):
			out = append(out, mfgen.Finding{Key: "X1:go-fs:read-mismatch", Detail: fmt.Sprintf("go-fs: file %q of %q has segments %s, Size()=%d, and reads (Open+ReadAll) as %q; the format defines %q", fo.Path, text, mfgen.SegsString(fo.Segs), fo.Size, fo.Data, want)})
		}
	}
	if len(resp.Strs) == 1 && resp.Strs[0] != fmt.Sprint(total) {
		out = append(out, mfgen.Finding{Key: "X1:go-fs:size-mismatch", Detail: fmt.Sprintf("go-fs: Size() of %q is %s, the files hold %d bytes", text, resp.Strs[0], total)})
	}
	// X2: the saved manifest, re-read by the reference
	h.eval(1)
	if resp.TextErr != "" {
		out = append(out, mfgen.Finding{Key: "X2:go-fs-marshal:error", Detail: fmt.Sprintf("MarshalManifest of unmodified %q: %s", text, resp.TextErr)})
	} else {
		fs, judged := mfgen.JudgeOutput("go-fs-marshal", ref, resp.Text)
		if judged {
			for _, f := range fs {
				f.Detail = fmt.Sprintf("MarshalManifest after loading %q: %s", text, f.Detail)
				out = append(out, f)
			}
		} else {
			h.count("x2_go_fs_output_unspecified", 1)
		}
	}
	return out
}

func (h *c10Harness) recheck(valid bool, fn func(*c10Prep) []mfgen.Finding) func(string) []mfgen.Finding {
	return func(t string) []mfgen.Finding {
		h.quiet = true
		defer func() { h.quiet = false }()
		c := &mfgen.Case{Kind: "shrink", Raw: t}
		var pr *c10Prep
		if valid {
			pr = h.prepValid(c)
			if pr.bad != "" {
				return nil
			}
		} else {
			pr = h.prepAny(c)
		}
		h.exec([]*c10Prep{pr})
		return fn(pr)
	}
}

func (h *c10Harness) valid(pr *c10Prep) {
	run := h.run
	if pr.bad != "" {
		run.Inconclusive(pr.bad)
		return
	}
	feats := mfgen.Features(pr.p)
	nontrivial := false
	for _, b := range pr.ref {
		if len(b) > 0 {
			nontrivial = true
		}
	}
	if nontrivial {
		run.Feature(mfgen.FeatureSig(feats))
	} else {
		run.Trivial()
	}
	for _, f := range feats {
		run.Count("feat:"+f, 1)
	}
	run.Sample(pr.c)
	h.rep.Valid(pr.c, h.goValid(pr), h.recheck(true, h.goValid))
}

// anyInput: X4 on arbitrary text, plus "an error comes without a filesystem".
func (h *c10Harness) anyInput(pr *c10Prep) (out []mfgen.Finding) {
	text := pr.c.Raw
	resp, f := h.outcome(pr)
	h.eval(2)
	if f != nil {
		return []mfgen.Finding{*f}
	}
	if resp == nil {
		return nil
	}
	if resp.Err != "" && resp.NonNil {
		out = append(out, mfgen.Finding{Key: "X5:go-fs:error-with-content", Detail: fmt.Sprintf("FileSystem() of %q returned %s together with a filesystem", text, resp.Err)})
	}
	if resp.Err != "" {
		h.count("fs_rejected", 1)
	} else {
		h.count("fs_accepted", 1)
	}
	if resp.SDErr != "" {
		h.count("sizeddigests_rejected", 1)
	} else {
		h.count("sizeddigests_accepted", 1)
	}
	return out
}

func (h *c10Harness) garbage(pr *c10Prep) {
	c := pr.c
	h.run.Count("garbage:"+c.Class, 1)
	if pr.p != nil {
		// happens to be a valid manifest: the full oracle applies (X4 included)
		h.run.Count("garbage_valid_judged", 1)
		h.valid(pr)
		return
	}
	h.rep.Text(c, "", h.anyInput(pr), h.recheck(false, h.anyInput))
	h.run.Feature("garbage:" + c.Class + ":" + mfgen.InvalidClass(c.Raw))
}

func (h *c10Harness) mustReject(pr *c10Prep, class string) {
	c := pr.c
	text := c.Raw
	found := h.anyInput(pr)
	h.eval(1)
	if resp := pr.resp; resp != nil && resp.Panic == "" && resp.Err == "" {
		var names []string
		for _, fo := range resp.Files {
			names = append(names, fo.Path)
		}
		found = append(found, mfgen.Finding{Key: "X5:go-fs:accepted", Detail: fmt.Sprintf("the collection filesystem accepted the malformed manifest %q (%s: %s); files %q", text, class, c.Detail, names)})
	}
	if resp := pr.resp; resp != nil && resp.SDErr == "" {
		// SizedDigests is observed, not judged: it extracts the block list
		// and does not interpret file tokens (see the report)
		h.count("sizeddigests_accepted_must_reject:"+class, 1)
	}
	var crash, x5 []mfgen.Finding
	for _, f := range found {
		if strings.HasPrefix(f.Key, "X5:") {
			x5 = append(x5, f)
		} else {
			crash = append(crash, f)
		}
	}
	h.rep.Text(c, class, x5, nil)
	h.rep.Text(c, "", crash, h.recheck(false, h.anyInput))
}

func (h *c10Harness) reject(pr *c10Prep) {
	c := pr.c
	if p, rej := mfgen.Interpret(c.Raw); rej == nil && p.Conflict == "" {
		h.run.Inconclusive(fmt.Sprintf("must-reject generator (%s) produced a manifest the reference accepts: %q", c.Class, c.Raw))
		return
	}
	h.run.Feature("reject:" + c.Class)
	h.run.Count("reject:"+c.Class, 1)
	h.mustReject(pr, c.Class)
}

// Verbatim from sdk/go/arvados/fs_collection_test.go (upstream's statement of
// intent; that suite cannot run offline).
var c10UpstreamBroken = []string{
	"\n",
	".\n",
	". \n",
	". d41d8cd98f00b204e9800998ecf8427e+0\n",
	". d41d8cd98f00b204e9800998ecf8427e+0 \n",
	". 0:0:foo\n",
	".  0:0:foo\n",
	". 0:0:foo 0:0:bar\n",
	". d41d8cd98f00b204e9800998ecf8427e 0:0:foo\n",
	". d41d8cd98f00b204e9800998ecf8427e+0 :0:0:foo\n",
	". d41d8cd98f00b204e9800998ecf8427e+0 foo:0:foo\n",
	". d41d8cd98f00b204e9800998ecf8427e+0 0:foo:foo\n",
	". d41d8cd98f00b204e9800998ecf8427e+1 0:1:foo 1:1:bar\n",
	". d41d8cd98f00b204e9800998ecf8427e+1 0:1:\\056\n",
	". d41d8cd98f00b204e9800998ecf8427e+1 0:1:\\056\\057\\056\n",
	". d41d8cd98f00b204e9800998ecf8427e+1 0:1:.\n",
	". d41d8cd98f00b204e9800998ecf8427e+1 0:1:..\n",
	". d41d8cd98f00b204e9800998ecf8427e+0 0:0:..\n",
	". d41d8cd98f00b204e9800998ecf8427e+0 0:0:foo/..\n",
	". d41d8cd98f00b204e9800998ecf8427e+1 0:0:foo\n./foo d41d8cd98f00b204e9800998ecf8427e+1 0:0:bar\n",
	"./foo d41d8cd98f00b204e9800998ecf8427e+1 0:0:bar\n. d41d8cd98f00b204e9800998ecf8427e+1 0:0:foo\n",
}

var c10UpstreamEdge = []string{
	"",
	". d41d8cd98f00b204e9800998ecf8427e+0 0:0:foo\n",
	". d41d8cd98f00b204e9800998ecf8427e+0 0:0:...\n",
	". d41d8cd98f00b204e9800998ecf8427e+0 0:0:. 0:0:. 0:0:\\056 0:0:\\056\n",
	". d41d8cd98f00b204e9800998ecf8427e+0 0:0:foo/. 0:0:. 0:0:foo\\057bar\\057\\056\n",
	". d41d8cd98f00b204e9800998ecf8427e+0 0:0:foo 0:0:foo 0:0:bar\n",
	". d41d8cd98f00b204e9800998ecf8427e+0 0:0:foo/bar\n./foo d41d8cd98f00b204e9800998ecf8427e+0 0:0:bar\n",
}

func TestVerifC10(t *testing.T) {
	if os.Getenv("VERIF_C10_WORKER") != "" {
		t.Skip("worker process")
	}
	runtime.GOMAXPROCS(2) // the harness is sequential; fewer Ps = less scheduler churn on a busy machine
	debug.SetGCPercent(400)
	run := verifkit.Start(t, "C10")
	defer run.Finish()
	h := &c10Harness{run: run, w: mfgen.NewWorker("TestVerifC10Worker"), rep: mfgen.NewReporter(run)}
	defer h.w.Close()
	one := func(pr *c10Prep) *c10Prep {
		h.exec([]*c10Prep{pr})
		return pr
	}

	// regression anchors: every batch process runs each of them once, first
	anchorsDone := map[int]bool{}
	na := mfgen.NAnchors * run.BatchN() // NAnchors is coprime to the batch counts in use: each process gets each anchor once
	if run.Replaying() {
		na = mfgen.NAnchors * 64
	}
	run.Cases("anchors", na, func(i int, rng *verifkit.Rand) {
		a := i % mfgen.NAnchors
		if anchorsDone[a] {
			return
		}
		anchorsDone[a] = true
		c := &mfgen.Case{Kind: "fixed", Class: "anchor", Text: mfgen.FixedValid[a], Raw: mfgen.FixedValid[a]}
		run.Input(c, true)
		h.valid(one(h.prepValid(c)))
	})
	run.Cases("upstream-broken", len(c10UpstreamBroken), func(i int, rng *verifkit.Rand) {
		txt := c10UpstreamBroken[i]
		c := &mfgen.Case{Kind: "fixed", Class: "upstream-TestBrokenManifests", Detail: fmt.Sprintf("entry %d", i), Text: txt, Raw: txt}
		run.Input(c, true)
		run.Feature(fmt.Sprintf("upstream-broken:%d", i))
		h.mustReject(one(h.prepAny(c)), fmt.Sprintf("upstream-TestBrokenManifests-%d", i))
	})
	run.Cases("upstream-edge", len(c10UpstreamEdge), func(i int, rng *verifkit.Rand) {
		txt := c10UpstreamEdge[i]
		c := &mfgen.Case{Kind: "fixed", Class: "upstream-TestEdgeCaseManifests", Detail: fmt.Sprintf("entry %d", i), Text: txt, Raw: txt}
		run.Input(c, true)
		run.Feature(fmt.Sprintf("upstream-edge:%d", i))
		pr := one(h.prepAny(c))
		found := h.anyInput(pr)
		run.Eval(1)
		if pr.resp != nil && pr.resp.Err != "" {
			found = append(found, mfgen.Finding{Key: "X5:go-fs:must-accept-rejected", Detail: fmt.Sprintf("the collection filesystem refuses %q, which upstream's TestEdgeCaseManifests requires it to accept: %s", txt, pr.resp.Err)})
		}
		h.rep.Text(c, fmt.Sprintf("upstream-TestEdgeCaseManifests-%d", i), found, nil)
		if p := mfgen.Judgeable(txt); p != nil {
			h.valid(one(h.prepValid(c)))
		}
	})
	fixed := append(append([]string{}, mfgen.FixedValid[mfgen.NAnchors:]...), "")
	run.Cases("fixed", len(fixed), func(i int, rng *verifkit.Rand) {
		c := &mfgen.Case{Kind: "fixed", Text: mfgen.JSONSafe(fixed[i]), Raw: fixed[i]}
		run.Input(c, true)
		h.valid(one(h.prepValid(c)))
	})
	run.Cases("fixed-garbage", len(mfgen.FixedGarbage), func(i int, rng *verifkit.Rand) {
		c := &mfgen.Case{Kind: "garbage", Class: "fixed", Text: mfgen.JSONSafe(mfgen.FixedGarbage[i]), Raw: mfgen.FixedGarbage[i]}
		run.Input(c, true)
		var pr *c10Prep
		if p := mfgen.Judgeable(c.Raw); p != nil && len(p.Streams) > 0 {
			pr = h.prepValid(c)
		} else {
			pr = h.prepAny(c)
		}
		h.garbage(one(pr))
	})
	n := run.N(16000, 500000)
	run.Cases("main", n, func(i int, _ *verifkit.Rand) {
		pr := h.window("main", i, n, func(rng *verifkit.Rand) *c10Prep { return h.prepValid(mfgen.MainCase(rng)) })
		run.Input(pr.c, true)
		if !h.ready(pr) {
			return
		}
		h.valid(pr)
		if i%2000 < run.BatchN() {
			run.Checkpoint()
		}
	})
	n = run.N(3000, 60000)
	run.Cases("reject", n, func(i int, _ *verifkit.Rand) {
		pr := h.window("reject", i, n, func(rng *verifkit.Rand) *c10Prep { return h.prepAny(mfgen.RejectCase(rng)) })
		run.Input(pr.c, true)
		if !h.ready(pr) {
			return
		}
		h.reject(pr)
	})
	n = run.N(5000, 150000)
	run.Cases("garbage", n, func(i int, _ *verifkit.Rand) {
		pr := h.window("garbage", i, n, func(rng *verifkit.Rand) *c10Prep {
			c := mfgen.GarbageCase(rng)
			if p := mfgen.Judgeable(c.Raw); p != nil && len(p.Streams) > 0 {
				return h.prepValid(c)
			}
			return h.prepAny(c)
		})
		run.Input(pr.c, true)
		if !h.ready(pr) {
			return
		}
		h.garbage(pr)
	})
	h.w.Close()
	self, kids := mfgen.CPUSeconds()
	run.Count("cpu_ms_harness", int(self*1000))
	run.Count("cpu_ms_worker", int(kids*1000))
	run.Count("worker_spawns", h.w.Spawns)
	run.Count("worker_calls", h.w.Calls)
	if h.w.Calls == 0 && !run.Replaying() {
		run.Inconclusive("the collection filesystem loader was never exercised")
	}
}
