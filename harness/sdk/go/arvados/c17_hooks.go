//go:build verif

package arvados

// Hook for /verif property C17 (see /verif/DESIGN.md §2.1, §5 C17): the
// crunch-run output copier (lib/crunchrun) writes through a collection
// filesystem whose block size limit is the unexported maxBlockSize. The
// harness lowers it so that "files of several blocks" are a few hundred
// bytes. Never compiled without the build tag `verif`.

// VerifSetMaxBlockSize sets the collection filesystem's maximum block size
// and returns the previous value. Not safe for concurrent use with any
// collection filesystem activity.
func VerifSetMaxBlockSize(n int) (old int) {
	old = maxBlockSize
	maxBlockSize = n
	return old
}
