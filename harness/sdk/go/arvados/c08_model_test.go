//go:build verif

package arvados

// C08 — reference model: a tree of directories and byte-array files, handles
// with independent offsets, and three-valued expectations. Written from the
// property statement and the corner cases DESIGN §5 C08 "FA" pins to
// upstream's test intent; it shares no code with the filesystem under test.

import (
	"errors"
	"io"
	"os"
	"sort"
	"strings"
)

type c08Node struct {
	id     int
	dir    bool
	data   []byte
	kids   map[string]*c08Node
	parent *c08Node
	name   string
	tag    string // input feature of this file that goes into signatures (see c08ZeroLenInsideBlock)
}

type c08Model struct {
	root   *c08Node
	nextID int
}

func c08NewModel() *c08Model {
	m := &c08Model{}
	m.root = &c08Node{dir: true, kids: map[string]*c08Node{}, name: "."}
	m.root.parent = m.root
	return m
}

func (m *c08Model) newNode(dir bool) *c08Node {
	m.nextID++
	n := &c08Node{id: m.nextID, dir: dir}
	if dir {
		n.kids = map[string]*c08Node{}
	}
	return n
}

func (m *c08Model) attach(parent *c08Node, name string, n *c08Node) {
	parent.kids[name] = n
	n.parent = parent
	n.name = name
}

// mkdirAll / putFile are used to build the initial state from a generated tree.
func (m *c08Model) mkdirAll(path string) *c08Node {
	cur := m.root
	for _, c := range strings.Split(path, "/") {
		if c == "" || c == "." {
			continue
		}
		n := cur.kids[c]
		if n == nil {
			n = m.newNode(true)
			m.attach(cur, c, n)
		}
		cur = n
	}
	return cur
}

func (m *c08Model) putFile(path string, data []byte) {
	i := strings.LastIndex(path, "/")
	d := m.mkdirAll(path[:i+1])
	n := m.newNode(false)
	n.data = append([]byte{}, data...)
	m.attach(d, path[i+1:], n)
}

// resolve walks a path. class is "" or the reason it cannot be walked.
func (m *c08Model) resolve(p string) (*c08Node, string) {
	cur := m.root
	for _, c := range strings.Split(p, "/") {
		if !cur.dir {
			return nil, "notdir"
		}
		switch c {
		case "", ".":
			continue
		case "..":
			cur = cur.parent
			continue
		}
		n := cur.kids[c]
		if n == nil {
			return nil, "notexist"
		}
		cur = n
	}
	return cur, ""
}

func c08Split(p string) (dir, base string) {
	i := strings.LastIndex(p, "/")
	return p[:i+1], p[i+1:]
}

func c08DotName(s string) bool { return s == "" || s == "." || s == ".." }

func c08IsAncestorOrSelf(a, n *c08Node) bool {
	for {
		if n == a {
			return true
		}
		if n.parent == n {
			return false
		}
		n = n.parent
	}
}

// walk lists every directory and file path (relative, no leading "./").
func (m *c08Model) walk() (dirs, files []string) {
	var rec func(n *c08Node, prefix string)
	rec = func(n *c08Node, prefix string) {
		names := make([]string, 0, len(n.kids))
		for name := range n.kids {
			names = append(names, name)
		}
		sort.Strings(names)
		for _, name := range names {
			k := n.kids[name]
			p := prefix + name
			if k.dir {
				dirs = append(dirs, p)
				rec(k, p+"/")
			} else {
				files = append(files, p)
			}
		}
	}
	rec(m.root, "")
	return
}

func (m *c08Model) totalSize() (n int64) {
	var rec func(x *c08Node)
	rec = func(x *c08Node) {
		for _, k := range x.kids {
			if k.dir {
				rec(k)
			} else {
				n += int64(len(k.data))
			}
		}
	}
	rec(m.root)
	return
}

// ---------------------------------------------------------------- expectations

const (
	c08MustOK = iota
	c08MustFail
	c08Unspec
)

type c08Expect struct {
	kind    int
	classes []string // acceptable error classes for c08MustFail; empty = any error
	why     string   // the rule that produced the expectation (goes into signatures)
}

func c08OK(why string) c08Expect { return c08Expect{kind: c08MustOK, why: why} }
func c08Fail(why string, classes ...string) c08Expect {
	return c08Expect{kind: c08MustFail, classes: classes, why: why}
}
func c08Un(why string) c08Expect { return c08Expect{kind: c08Unspec, why: why} }

// c08Class maps an error of the filesystem to the error classes the property
// statement talks about.
func c08Class(err error) string {
	if err == nil {
		return "ok"
	}
	s := err.Error()
	switch {
	case errors.Is(err, ErrReadOnlyFile):
		return "readonly"
	case errors.Is(err, ErrWriteOnlyMode):
		return "writeonly"
	case errors.Is(err, ErrDirectoryNotEmpty):
		return "notempty"
	case errors.Is(err, ErrIsDirectory):
		return "isdir"
	case errors.Is(err, ErrFileExists) || os.IsExist(err):
		return "exists"
	case os.IsNotExist(err) || strings.Contains(s, "does not exist"):
		return "notexist"
	case errors.Is(err, ErrNotADirectory) || strings.Contains(s, "not a directory"):
		return "notdir"
	case errors.Is(err, ErrInvalidArgument):
		return "invalid"
	case errors.Is(err, ErrNegativeOffset):
		return "negoff"
	case errors.Is(err, ErrSyncNotSupported):
		return "nosync"
	case err == io.EOF:
		return "eof"
	case errors.Is(err, c08ErrPut):
		return "keepfail"
	}
	return "other"
}

func c08In(list []string, s string) bool {
	for _, x := range list {
		if x == s {
			return true
		}
	}
	return false
}

func c08AddClass(list []string, s string) []string {
	if s == "" || c08In(list, s) {
		return list
	}
	return append(list, s)
}

// ---------------------------------------------------------------- open

type c08OpenPlan struct {
	exp        c08Expect
	target     *c08Node // existing node the handle will refer to
	parent     *c08Node // for creation
	base       string
	create     bool
	createDir  bool
	trunc      bool
	adopt      bool // content after success is not determined: take it from the implementation
	bailOnOK   bool // success of an unspecified case the model cannot follow
	rd, wr, ap bool
}

const c08AccMask = os.O_RDONLY | os.O_WRONLY | os.O_RDWR

func (m *c08Model) planOpen(p string, flag int, wantDir bool) c08OpenPlan {
	var pl c08OpenPlan
	acc := flag & 3
	pl.rd = acc == os.O_RDONLY || acc == os.O_RDWR
	pl.wr = acc == os.O_WRONLY || acc == os.O_RDWR
	pl.ap = flag&os.O_APPEND != 0
	create := flag&os.O_CREATE != 0
	excl := flag&os.O_EXCL != 0
	trunc := flag&os.O_TRUNC != 0
	if flag&os.O_SYNC != 0 {
		pl.exp = c08Fail("O_SYNC-refused")
		return pl
	}
	if acc == 3 {
		pl.exp = c08Fail("O_RDWR|O_WRONLY-refused")
		return pl
	}
	dirpart, base := c08Split(p)
	parent, cls := m.resolve(dirpart)
	if cls != "" {
		pl.exp = c08Fail("open:path-"+cls, cls)
		return pl
	}
	if c08DotName(base) {
		pl.target = parent
		if base == ".." {
			pl.target = parent.parent
		}
		if !pl.wr && !excl && !trunc {
			pl.exp = c08OK("open-dir-by-dot-name")
		} else {
			pl.exp = c08Un("open-dot-name-with-write/excl/trunc")
			pl.bailOnOK = true
		}
		return pl
	}
	n := parent.kids[base]
	if n == nil {
		if !create {
			pl.exp = c08Fail("open:missing-without-O_CREATE", "notexist")
			return pl
		}
		pl.create, pl.parent, pl.base, pl.createDir = true, parent, base, wantDir
		switch {
		case trunc && !pl.wr:
			pl.exp = c08Un("O_TRUNC-on-read-only-handle")
		case wantDir && pl.wr:
			pl.exp = c08Un("create-directory-for-writing")
		default:
			pl.exp = c08OK("create")
		}
		return pl
	}
	pl.target = n
	if excl {
		if create {
			pl.exp = c08Fail("O_CREATE|O_EXCL-on-existing", "exists")
		} else {
			pl.exp = c08Un("O_EXCL-without-O_CREATE")
			pl.bailOnOK = trunc
		}
		return pl
	}
	if n.dir {
		if pl.wr || trunc {
			pl.exp = c08Un("open-directory-for-writing")
			pl.bailOnOK = trunc
		} else {
			pl.exp = c08OK("open-dir")
		}
		return pl
	}
	if trunc {
		if !pl.wr {
			pl.exp = c08Un("O_TRUNC-on-read-only-handle")
			pl.adopt = true
			return pl
		}
		pl.trunc = true
	}
	pl.exp = c08OK("open-file")
	return pl
}

// ---------------------------------------------------------------- mkdir / remove / rename

type c08DirPlan struct {
	exp      c08Expect
	parent   *c08Node
	base     string
	node     *c08Node
	bailOnOK bool
}

func (m *c08Model) planMkdir(p string) c08DirPlan {
	var pl c08DirPlan
	dirpart, base := c08Split(p)
	parent, cls := m.resolve(dirpart)
	if cls != "" {
		pl.exp = c08Fail("mkdir:path-"+cls, cls)
		return pl
	}
	if c08DotName(base) {
		pl.exp = c08Un("mkdir-dot-name-or-trailing-slash")
		pl.bailOnOK = true
		return pl
	}
	pl.parent, pl.base = parent, base
	if parent.kids[base] != nil {
		pl.exp = c08Fail("mkdir:existing-target", "exists")
		return pl
	}
	pl.exp = c08OK("mkdir")
	return pl
}

func (m *c08Model) planRemove(p string, recursive bool) c08DirPlan {
	var pl c08DirPlan
	op := "remove"
	if recursive {
		op = "removeall"
	}
	trimmed := strings.TrimRight(p, "/")
	hadSlash := trimmed != p
	dirpart, base := c08Split(trimmed)
	parent, cls := m.resolve(dirpart)
	if c08DotName(base) {
		if base == "" || recursive {
			pl.exp = c08Un(op + "-root-or-dot-name")
			pl.bailOnOK = true
			return pl
		}
		// upstream TestRemove: Remove("x/.") and Remove("x/..") are invalid-argument errors
		pl.exp = c08Fail("remove:dot-name", c08AddClass([]string{"invalid"}, cls)...)
		return pl
	}
	if cls != "" {
		if recursive && cls == "notexist" {
			pl.exp = c08OK("removeall:missing-is-not-an-error")
			return pl
		}
		pl.exp = c08Fail(op+":path-"+cls, cls)
		return pl
	}
	n := parent.kids[base]
	if n == nil {
		if recursive {
			pl.exp = c08OK("removeall:missing-is-not-an-error")
			return pl
		}
		pl.exp = c08Fail("remove:missing", "notexist")
		return pl
	}
	pl.parent, pl.base, pl.node = parent, base, n
	if hadSlash && !n.dir {
		pl.exp = c08Un(op + "-file-with-trailing-slash")
		return pl
	}
	if !recursive && n.dir && len(n.kids) > 0 {
		pl.node = nil
		pl.exp = c08Fail("remove:non-empty-directory", "notempty")
		return pl
	}
	pl.exp = c08OK(op)
	return pl
}

type c08RenamePlan struct {
	exp              c08Expect
	src, dst         *c08Node
	oparent, nparent *c08Node
	obase, nbase     string
	self             bool // source and target are the same node
	bailOnOK         bool
}

func (m *c08Model) planRename(oldp, newp string) c08RenamePlan {
	var pl c08RenamePlan
	odir, obase := c08Split(oldp)
	ndir, nbase := c08Split(newp)
	if c08DotName(obase) {
		pl.exp = c08Un("rename:source-dot-name-or-trailing-slash")
		pl.bailOnOK = true
		return pl
	}
	op, ocls := m.resolve(odir)
	np, ncls := m.resolve(ndir)
	var classes []string
	classes = c08AddClass(classes, ocls)
	classes = c08AddClass(classes, ncls)
	if ocls == "" && op.kids[obase] == nil {
		classes = c08AddClass(classes, "notexist")
	}
	if nbase == "." || nbase == ".." {
		// upstream TestRenameDirectory: Rename("baz/foo", ".") is an invalid-argument error
		classes = c08AddClass(classes, "invalid")
		pl.exp = c08Fail("rename:target-dot-name", classes...)
		return pl
	}
	if nbase == "" {
		// upstream TestRenameDirectory: Rename("foo", "baz/") moves foo into baz
		nbase = obase
	}
	why := ""
	if len(classes) > 0 {
		why = "rename:path-" + strings.Join(classes, "+")
	}
	if ocls == "" && ncls == "" && op.kids[obase] != nil {
		src := op.kids[obase]
		dst := np.kids[nbase]
		pl.src, pl.dst, pl.oparent, pl.nparent, pl.obase, pl.nbase = src, dst, op, np, obase, nbase
		if src.dir && c08IsAncestorOrSelf(src, np) {
			classes = c08AddClass(classes, "invalid")
			why = "rename:directory-into-itself"
		}
		if dst != nil && dst == src {
			pl.self = true
			if src.dir {
				pl.exp = c08Un("rename:directory-onto-itself")
				return pl
			}
		} else if dst != nil && dst.dir {
			classes = c08AddClass(classes, "isdir")
			if why == "" {
				if src.dir {
					why = "rename:directory-onto-directory"
				} else {
					why = "rename:file-onto-directory"
				}
			}
		} else if dst != nil && src.dir && len(classes) == 0 {
			pl.exp = c08Un("rename:directory-onto-file")
			return pl
		}
	}
	if len(classes) > 0 {
		pl.exp = c08Fail(why, classes...)
		return pl
	}
	pl.exp = c08OK("rename")
	return pl
}
