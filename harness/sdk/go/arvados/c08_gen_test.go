//go:build verif

package arvados

// C08 — generators: configuration, initial manifest (from the published
// grammar), and the state-aware operation-sequence generator.

import (
	"fmt"
	"io"
	"os"
	"sort"
	"strconv"
	"strings"

	"git.arvados.org/arvados.git/internal/verifkit"
)

var c08BlockSizes = []int{1, 2, 3, 5, 8, 16, 64}

// c09Escape is the generator's own manifest escaping (independent of
// manifestEscape): everything the grammar cannot carry raw becomes \ooo.
func c09Escape(s string, escColon bool) string {
	var sb strings.Builder
	for i := 0; i < len(s); i++ {
		c := s[i]
		if c <= 0x20 || c == 0x7f || c == '\\' || (escColon && c == ':') {
			fmt.Fprintf(&sb, "\\%03o", c)
		} else {
			sb.WriteByte(c)
		}
	}
	return sb.String()
}

func c08EscapePath(p string, escColon bool) string {
	parts := strings.Split(p, "/")
	for i := range parts {
		parts[i] = c09Escape(parts[i], escColon)
	}
	return strings.Join(parts, "/")
}

func c08GenLen(rng *verifkit.Rand, bs int) int {
	if rng.Chance(1, 2) {
		return rng.PickInt(0, 1, bs-1, bs, bs+1, 2*bs-1, 2*bs, 2*bs+1, 3*bs, bs/2, bs/2+1)
	}
	return rng.Range(0, 3*bs+2)
}

type c08Chunk struct {
	file     string // path of the file
	idx      int    // chunk number within the file
	data     []byte
	pos      int
	tokName  string // file name as written in the token (relative to the stream)
	streamOf string
}

// c08GenManifest generates a tree and a manifest for it that is valid under
// the published grammar but not necessarily normalized: files split into
// several tokens, tokens of different files interleaved, junk between file
// data, blocks cut at arbitrary points (independent of maxBlockSize),
// zero-length blocks, repeated identical blocks, files addressed from the
// parent's stream ("sub/name"), empty directories as "\056" markers, streams
// in arbitrary order.
func c08GenManifest(rng *verifkit.Rand, bs int, names []string, zeroInside bool) (text string, blocks [][]byte, tree map[string][]byte, dirs []string) {
	tree = map[string][]byte{}
	dirset := map[string]bool{}
	var dirlist []string
	for i, nd := 0, rng.Intn(4); i < nd; i++ {
		parent := ""
		if len(dirlist) > 0 && rng.Chance(1, 2) {
			parent = dirlist[rng.Intn(len(dirlist))] + "/"
		}
		if strings.Count(parent, "/") >= 3 {
			continue
		}
		d := parent + names[rng.Intn(len(names))]
		if !dirset[d] {
			dirset[d] = true
			dirlist = append(dirlist, d)
		}
	}
	for i, nf := 0, rng.Range(0, 5); i < nf; i++ {
		d := ""
		if len(dirlist) > 0 && rng.Chance(2, 3) {
			d = dirlist[rng.Intn(len(dirlist))] + "/"
		}
		p := d + names[rng.Intn(len(names))]
		if dirset[p] || tree[p] != nil {
			continue
		}
		n := c08GenLen(rng, bs)
		if rng.Chance(1, 6) {
			n += rng.Range(0, 2*bs)
		}
		data := c08Data(uint32(rng.Uint64()), n)
		if rng.Chance(1, 8) && n >= 2 {
			// periodic content: gives identical consecutive blocks
			l := rng.Range(1, 1+n/2)
			for j := l; j < n; j++ {
				data[j] = data[j%l]
			}
		}
		tree[p] = data
	}
	// streams
	type stream struct {
		name   string
		chunks []*c08Chunk
		marker []string // "\056" marker tokens (with optional sub-path)
	}
	streams := map[string]*stream{}
	get := func(d string) *stream {
		if streams[d] == nil {
			streams[d] = &stream{name: d}
		}
		return streams[d]
	}
	files := make([]string, 0, len(tree))
	for p := range tree {
		files = append(files, p)
	}
	sort.Strings(files)
	escColon := rng.Bool()
	for _, p := range files {
		dir, base := c08Split(p)
		dir = strings.TrimSuffix(dir, "/")
		sd, tok := dir, base
		if dir != "" && rng.Chance(1, 6) {
			pd, last := c08Split(dir)
			sd, tok = strings.TrimSuffix(pd, "/"), last+"/"+base
		}
		st := get(sd)
		data := tree[p]
		nchunk := 1
		if len(data) >= 2 {
			nchunk = rng.Range(1, 3)
		}
		cuts := []int{0}
		for c := 1; c < nchunk; c++ {
			cuts = append(cuts, rng.Range(1, len(data)-1))
		}
		cuts = append(cuts, len(data))
		sort.Ints(cuts)
		for c := 0; c+1 < len(cuts); c++ {
			if c > 0 && cuts[c] == cuts[c+1] {
				continue
			}
			st.chunks = append(st.chunks, &c08Chunk{file: p, idx: c, data: data[cuts[c]:cuts[c+1]], tokName: tok})
		}
	}
	// empty leaf directories need a marker
	sort.Strings(dirlist)
	for _, d := range dirlist {
		implied := false
		for _, o := range dirlist {
			if strings.HasPrefix(o, d+"/") {
				implied = true
			}
		}
		for p := range tree {
			if strings.HasPrefix(p, d+"/") {
				implied = true
			}
		}
		if implied {
			continue
		}
		pd, last := c08Split(d)
		pd = strings.TrimSuffix(pd, "/")
		if st := streams[pd]; st != nil && rng.Chance(1, 3) {
			st.marker = append(st.marker, c09Escape(last, escColon)+"/\\056")
		} else {
			get(d).marker = append(get(d).marker, "\\056")
		}
	}
	hintStyle := rng.Intn(3)
	seenBlock := map[string]bool{}
	var lines []string
	snames := make([]string, 0, len(streams))
	for d := range streams {
		snames = append(snames, d)
	}
	sort.Strings(snames)
	for _, d := range snames {
		st := streams[d]
		// lay the chunks out in the stream
		order := rng.Perm(len(st.chunks))
		if rng.Chance(2, 3) {
			for i := range order {
				order[i] = i
			}
		}
		var data []byte
		for _, ci := range order {
			if rng.Chance(1, 5) {
				data = append(data, c08Data(uint32(rng.Uint64()), rng.Range(1, bs+1))...)
			}
			st.chunks[ci].pos = len(data)
			data = append(data, st.chunks[ci].data...)
		}
		if rng.Chance(1, 6) {
			data = append(data, c08Data(uint32(rng.Uint64()), rng.Range(1, bs+1))...)
		}
		// cut into blocks
		var locs []string
		bounds := []int{0}
		addBlock := func(b []byte) {
			bounds = append(bounds, bounds[len(bounds)-1]+len(b))
			h := c08MD5(b)
			if !seenBlock[h] {
				seenBlock[h] = true
				blocks = append(blocks, append([]byte{}, b...))
			}
			hint := ""
			switch hintStyle {
			case 1:
				hint = fmt.Sprintf("+A%040x@%08x", rng.Uint64(), 0x7ffffff0)
			case 2:
				hint = fmt.Sprintf("+Zx-y_z+A%040x@%08x", rng.Uint64(), 0x7ffffff0)
			}
			locs = append(locs, fmt.Sprintf("%s+%d%s", h, len(b), hint))
		}
		maxb := rng.PickInt(1, bs, 2*bs, 4*bs+3)
		if maxb < 1 {
			maxb = 1
		}
		fixed := rng.Chance(1, 3)
		for off := 0; off < len(data); {
			if rng.Chance(1, 12) {
				addBlock(nil)
			}
			n := rng.Range(1, maxb)
			if fixed {
				n = maxb
			}
			if off+n > len(data) {
				n = len(data) - off
			}
			addBlock(data[off : off+n])
			off += n
		}
		if len(locs) == 0 || rng.Chance(1, 15) {
			addBlock(nil)
		}
		// file tokens: files in random order, each file's chunks in content order
		byFile := map[string][]*c08Chunk{}
		var forder []string
		for _, c := range st.chunks {
			if byFile[c.file] == nil {
				forder = append(forder, c.file)
			}
			byFile[c.file] = append(byFile[c.file], c)
		}
		if rng.Chance(1, 2) {
			p := rng.Perm(len(forder))
			o2 := make([]string, len(forder))
			for i, j := range p {
				o2[i] = forder[j]
			}
			forder = o2
		}
		var toks []string
		var late []string
		for _, f := range forder {
			cs := byFile[f]
			for i, c := range cs {
				pos := c.pos
				if len(c.data) == 0 {
					// an empty file may be declared anywhere in the stream; strictly inside a
					// block only when the caller asks for it (see c08ZeroLenInsideBlock)
					pos = bounds[rng.Intn(len(bounds))]
					if zeroInside && rng.Chance(1, 2) {
						pos = rng.Range(0, len(data))
					}
				}
				tok := fmt.Sprintf("%d:%d:%s", pos, len(c.data), c08EscapePath(c.tokName, escColon))
				if i > 0 && i == len(cs)-1 && rng.Chance(1, 5) {
					late = append(late, tok) // interleave with the other files' tokens
				} else {
					toks = append(toks, tok)
				}
			}
		}
		toks = append(toks, late...)
		for _, m := range st.marker {
			toks = append(toks, "0:0:"+m)
		}
		sn := "."
		if d != "" {
			sn = "./" + c08EscapePath(d, escColon)
		}
		lines = append(lines, sn+" "+strings.Join(locs, " ")+" "+strings.Join(toks, " ")+"\n")
	}
	if rng.Chance(1, 3) {
		p := rng.Perm(len(lines))
		l2 := make([]string, len(lines))
		for i, j := range p {
			l2[i] = lines[j]
		}
		lines = l2
	}
	return strings.Join(lines, ""), blocks, tree, dirlist
}

var c08PlainNames = []string{"a", "b", "c", "d", "e", "f"}

// c09NameBytes: the interesting bytes of the 0x01-0xff (minus '/') name space.
var c09NameBytes = []byte{' ', ' ', ':', '\\', '\\', '\n', '\t', 0x01, 0x1f, 0x7f, 0x80, 0xff, 0xc3, 0xa9, '.', '.', '0', '4', '5', '6', 'a', 'b', '#', '"', '\'', '+', '%', 0x0d, 0x0b}

func c09GenNames(rng *verifkit.Rand) []string {
	var out []string
	seen := map[string]bool{}
	for len(out) < 6 {
		n := rng.Range(1, 4)
		b := make([]byte, n)
		for i := range b {
			if rng.Chance(1, 6) {
				b[i] = byte(rng.Range(1, 255))
				if b[i] == '/' {
					b[i] = '_'
				}
			} else {
				b[i] = c09NameBytes[rng.Intn(len(c09NameBytes))]
			}
		}
		s := string(b)
		if s == "." || s == ".." || seen[s] {
			continue
		}
		seen[s] = true
		out = append(out, s)
	}
	return out
}

func c08GenCfg(rng *verifkit.Rand, c09 bool) c08Cfg {
	cfg := c08Cfg{C09: c09}
	cfg.BS = c08BlockSizes[rng.Intn(len(c08BlockSizes))]
	cfg.CW = rng.PickInt(4, 4, 4, 2, 1)
	cfg.Gate = rng.Chance(3, 4)
	cfg.names = c08PlainNames
	if c09 {
		cfg.names = c09GenNames(rng)
	}
	cfg.Init = "empty"
	if rng.Chance(2, 5) {
		cfg.Init = "manifest"
		var dirs []string
		cfg.manifest, cfg.blocks, cfg.initTree, dirs = c08GenManifest(rng, cfg.BS, cfg.names, !c09 && rng.Chance(1, 6))
		cfg.initDirs = dirs
		cfg.ManifestQ = strconv.Quote(cfg.manifest)
	}
	for _, n := range cfg.names {
		cfg.NamesQ = append(cfg.NamesQ, strconv.Quote(n))
	}
	cfg.Fault.Mode = "none"
	return cfg
}

// ---------------------------------------------------------------- operation generator

type c08Gen struct {
	rng   *verifkit.Rand
	w     *c08World
	nextH int
	maxSz int
	queue []c08Op // operations of a planned burst, emitted before anything else
}

// planFlushRace queues a burst that keeps an explicit background flush in
// flight while the same file is modified: (optionally a save or drain first,
// so that the file consists of stored segments) two handles on one file,
// 2-4 small overwrites scattered over the file (each becomes its own small
// in-memory segment between stored ones, and several of them get packed into
// one block), Flush(dir, true) whose PutB is parked by the Keep stub, 1-3
// small writes through either handle while it is parked (splitting earlier
// or later stored segments, so that segment indices shift), then the parked
// writes complete and the file is read back. Random sequences reach this
// shape only rarely because it needs five steps in order on the same file.
func (g *c08Gen) planFlushRace() bool {
	rng, w := g.rng, g.w
	bs := w.cfg.BS
	_, files := w.m.walk()
	var cand []string
	for _, p := range files {
		if n, cls := w.m.resolve(p); cls == "" && len(n.data) >= 3 {
			cand = append(cand, p)
		}
	}
	if len(cand) == 0 {
		return false
	}
	p := cand[rng.Intn(len(cand))]
	n, _ := w.m.resolve(p)
	size := len(n.data)
	small := func() int {
		m := bs / 2
		if m < 1 {
			m = 1
		}
		if m > 2 && rng.Chance(2, 3) {
			m = 1 + m/2
		}
		return rng.Range(1, m)
	}
	h1, h2 := g.nextH, g.nextH+1
	g.nextH += 2
	var q []c08Op
	switch rng.Intn(4) {
	case 0, 1:
		q = append(q, c08Op{K: "save"})
	case 2:
		q = append(q, c08Op{K: "drain"})
	}
	q = append(q, c08Op{K: "open", H: h1, P: p, Flag: os.O_RDWR},
		c08Op{K: "open", H: h2, P: p, Flag: rng.PickInt(os.O_WRONLY, os.O_RDWR)})
	pos := func() int {
		if rng.Chance(1, 3) {
			return rng.Range(0, size/bs) * bs
		}
		return rng.Range(0, size-1)
	}
	k := rng.Range(2, 4)
	first := size
	for i := 0; i < k; i++ {
		off := pos()
		if off >= size {
			off = size - 1
		}
		if off < first {
			first = off
		}
		q = append(q, c08Op{K: "seek", H: h1, Wh: io.SeekStart, Off: int64(off)},
			c08Op{K: "write", H: h1, N: small(), Pat: uint32(rng.Uint64())})
	}
	dir, _ := c08Split(p)
	fp := strings.TrimSuffix(dir, "/")
	if fp == "" {
		fp = rng.PickStr("", "", ".", "/")
	} else if rng.Chance(1, 3) {
		fp = ""
	}
	q = append(q, c08Op{K: "flush", P: fp, Short: rng.Chance(5, 6)})
	for i, m := 0, rng.Range(1, 3); i < m; i++ {
		off := pos()
		if first > 0 && rng.Chance(2, 3) {
			off = rng.Range(0, first-1)
		}
		h := h2
		if rng.Chance(1, 4) {
			h = h1
		}
		q = append(q, c08Op{K: "seek", H: h, Wh: io.SeekStart, Off: int64(off)},
			c08Op{K: "write", H: h, N: rng.Range(1, 2), Pat: uint32(rng.Uint64())})
	}
	if rng.Chance(1, 2) {
		q = append(q, c08Op{K: "drain"})
	} else {
		for i, m := 0, rng.Range(1, 3); i < m; i++ {
			q = append(q, c08Op{K: "release", N: rng.Intn(4)})
		}
	}
	q = append(q, c08Op{K: "seek", H: h1, Wh: io.SeekStart, Off: 0}, c08Op{K: "readall", H: h1, N: rng.Range(1, 2*bs+2)})
	if rng.Chance(1, 3) {
		q = append(q, c08Op{K: "cmp"})
	}
	q = append(q, c08Op{K: "close", H: h1}, c08Op{K: "close", H: h2})
	g.queue = q
	g.w.cnt["flush_race_bursts"]++
	return true
}

func (g *c08Gen) name() string { return g.w.cfg.names[g.rng.Intn(len(g.w.cfg.names))] }

func (g *c08Gen) path(kind string) string {
	rng := g.rng
	dirs, files := g.w.m.walk()
	pick := func(l []string) (string, bool) {
		if len(l) == 0 {
			return "", false
		}
		return l[rng.Intn(len(l))], true
	}
	switch kind {
	case "file":
		if p, ok := pick(files); ok {
			return p
		}
		return g.path("new")
	case "dir":
		if p, ok := pick(dirs); ok && rng.Chance(5, 6) {
			return p
		}
		return rng.PickStr(".", "", "/")
	case "any":
		if p, ok := pick(append(dirs, files...)); ok {
			return p
		}
		return g.path("new")
	case "new":
		if p, ok := pick(dirs); ok && rng.Chance(3, 5) {
			return p + "/" + g.name()
		}
		return g.name()
	default: // wild
		n := rng.Range(1, 3)
		parts := make([]string, n)
		for i := range parts {
			parts[i] = g.name()
		}
		return strings.Join(parts, "/")
	}
}

// decorate adds the path spellings upstream's TestPathMunge documents.
func (g *c08Gen) decorate(p string, allowTail bool) string {
	rng := g.rng
	switch rng.Intn(40) {
	case 0, 1:
		return "/" + p
	case 2:
		return "./" + p
	case 3:
		return "//" + p
	case 4, 5:
		dirs, _ := g.w.m.walk()
		if len(dirs) > 0 {
			return dirs[rng.Intn(len(dirs))] + "/../" + p
		}
		return "../" + p
	case 6:
		return strings.Replace(p, "/", "/./", 1)
	case 7:
		return strings.Replace(p, "/", "//", 1)
	case 8, 9:
		if allowTail {
			return p + rng.PickStr("/", "/.", "/..", "/", "/./")
		}
	}
	return p
}

func (g *c08Gen) handle(pred func(h *c08Handle) bool) (int, bool) {
	var ids []int
	for id, h := range g.w.h {
		if pred == nil || pred(h) {
			ids = append(ids, id)
		}
	}
	if len(ids) == 0 {
		return 0, false
	}
	sort.Ints(ids)
	return ids[g.rng.Intn(len(ids))], true
}

func (g *c08Gen) openOp() c08Op {
	rng := g.rng
	op := c08Op{K: "open", H: g.nextH}
	g.nextH++
	acc := rng.PickInt(os.O_RDONLY, os.O_WRONLY, os.O_RDWR, os.O_RDWR, os.O_RDWR)
	flag := acc
	if rng.Chance(1, 2) {
		flag |= os.O_CREATE
	}
	if rng.Chance(1, 7) {
		flag |= os.O_EXCL
	}
	if rng.Chance(1, 7) {
		flag |= os.O_TRUNC
	}
	if rng.Chance(1, 4) {
		flag |= os.O_APPEND
	}
	switch rng.Intn(100) {
	case 0:
		flag |= os.O_SYNC
	case 1:
		flag |= 3
	}
	var p string
	tail := false
	switch r := rng.Intn(100); {
	case r < 50:
		p = g.path("file")
	case r < 78:
		p = g.path("new")
		flag |= os.O_CREATE
	case r < 86:
		p = g.path("dir")
		tail = true
		if rng.Chance(5, 6) {
			flag = os.O_RDONLY | (flag & os.O_CREATE)
		}
	case r < 94:
		p = g.path("any")
	default:
		p = g.path("wild")
	}
	if flag&os.O_CREATE != 0 && rng.Chance(1, 25) {
		op.Dir = true
		if rng.Chance(4, 5) {
			flag &^= 3
		}
	}
	tailOK := tail && flag&(3|os.O_EXCL|os.O_TRUNC) == 0
	op.P = g.decorate(p, tailOK)
	op.Flag = flag
	return op
}

func (g *c08Gen) next() c08Op {
	rng := g.rng
	w := g.w
	bs := w.cfg.BS
	if len(g.queue) == 0 && w.cfg.Gate && w.cfg.CW >= 2 && bs >= 2 && rng.Chance(1, 80) {
		g.planFlushRace()
	}
	if len(g.queue) > 0 {
		op := g.queue[0]
		g.queue = g.queue[1:]
		return op
	}
	isFile := func(h *c08Handle) bool { return !h.node.dir }
	nfh := 0
	for _, h := range w.h {
		if !h.node.dir {
			nfh++
		}
	}
	if nfh == 0 && rng.Chance(3, 4) {
		return g.openOp()
	}
	if len(w.h) > 9 {
		if id, ok := g.handle(nil); ok {
			return c08Op{K: "close", H: id}
		}
	}
	r := rng.Intn(1000)
	fileOp := func(k string) c08Op {
		id, ok := g.handle(isFile)
		if !ok {
			return g.openOp()
		}
		return c08Op{K: k, H: id}
	}
	switch {
	case r < 130:
		return g.openOp()
	case r < 370:
		op := fileOp("write")
		op.N = c08GenLen(rng, bs)
		op.Pat = uint32(rng.Uint64())
		if h := w.h[op.H]; h != nil && op.K == "write" && int(h.off)+op.N > g.maxSz && !h.ap {
			return c08Op{K: "seek", H: op.H, Wh: io.SeekStart, Off: int64(rng.Range(0, len(h.node.data)))}
		}
		return op
	case r < 480:
		op := fileOp("read")
		op.N = rng.Range(1, 2*bs+2)
		return op
	case r < 520:
		op := fileOp("readall")
		op.N = rng.Range(1, 2*bs+2)
		return op
	case r < 640:
		op := fileOp("seek")
		h := w.h[op.H]
		if h == nil || op.K != "seek" {
			return op
		}
		size := len(h.node.data)
		op.Wh = rng.Intn(3)
		var target int
		switch rng.Intn(6) {
		case 0:
			target = 0
		case 1:
			target = size
		case 2:
			target = (rng.Range(0, size/bs+1)) * bs
		case 3:
			target = size + rng.Range(1, bs+1)
		case 4:
			target = -rng.Range(1, 3)
			if rng.Chance(2, 3) {
				target = rng.Range(0, size)
			}
		default:
			target = rng.Range(0, size)
		}
		if target > g.maxSz {
			target = g.maxSz
		}
		switch op.Wh {
		case io.SeekStart:
			op.Off = int64(target)
		case io.SeekCurrent:
			op.Off = int64(target) - h.off
		case io.SeekEnd:
			op.Off = int64(target - size)
		}
		return op
	case r < 710:
		op := fileOp("trunc")
		h := w.h[op.H]
		if h == nil || op.K != "trunc" {
			return op
		}
		size := len(h.node.data)
		switch rng.Intn(7) {
		case 0:
			op.N = 0
		case 1:
			op.N = size
		case 2:
			op.N = rng.Range(0, size)
		case 3:
			op.N = (rng.Range(0, size/bs+2)) * bs
		case 4:
			op.N = size + rng.Range(1, 2*bs+1)
		case 5:
			op.N = size - 1
		default:
			op.N = size + 1
		}
		if op.N < 0 {
			op.N = 0
		}
		if op.N > g.maxSz {
			op.N = g.maxSz
		}
		return op
	case r < 735:
		if id, ok := g.handle(nil); ok {
			return c08Op{K: "hstat", H: id}
		}
		return g.openOp()
	case r < 760:
		if id, ok := g.handle(nil); ok {
			return c08Op{K: "close", H: id}
		}
		return g.openOp()
	case r < 800:
		p := g.path("new")
		if rng.Chance(1, 6) {
			p = g.path("any")
		} else if rng.Chance(1, 10) {
			p = g.path("wild")
		}
		return c08Op{K: "mkdir", P: g.decorate(p, rng.Chance(1, 8))}
	case r < 830:
		p := g.path("any")
		if rng.Chance(1, 8) {
			p = g.path("wild")
		}
		tail := rng.Chance(1, 3)
		return c08Op{K: "remove", P: g.decorate(p, tail)}
	case r < 838:
		p := g.path("any")
		if rng.Chance(1, 5) {
			p = g.path("wild")
		}
		return c08Op{K: "removeall", P: g.decorate(p, false)}
	case r < 900:
		src := g.path("any")
		if rng.Chance(1, 10) {
			src = g.path("wild")
		}
		var dst string
		switch q := rng.Intn(100); {
		case q < 45:
			dst = g.path("new")
		case q < 70:
			dst = g.path("any")
		case q < 80:
			dst = g.path("dir") + "/"
		case q < 90:
			// into own subtree / onto itself
			if rng.Chance(1, 6) {
				dst = src
			} else {
				dst = src + "/" + g.name()
				if rng.Chance(1, 3) {
					dst = src + "/"
				}
			}
		case q < 94:
			dst = rng.PickStr(".", "..", "", g.path("dir")+"/.")
		default:
			dst = g.path("wild")
		}
		return c08Op{K: "rename", P: g.decorate(src, false), P2: g.decorate(dst, false)}
	case r < 925:
		p := g.path("any")
		if rng.Chance(1, 6) {
			p = g.path("wild")
		}
		return c08Op{K: "stat", P: g.decorate(p, true)}
	case r < 945:
		p := g.path("dir")
		if rng.Chance(1, 8) {
			p = g.path("any")
		}
		if rng.Chance(1, 3) {
			return c08Op{K: "readdirn", P: g.decorate(p, true), N: rng.Range(1, 3)}
		}
		return c08Op{K: "readdir", P: g.decorate(p, true)}
	case r < 965:
		p := ""
		if rng.Chance(1, 2) {
			p = g.path("dir")
		}
		return c08Op{K: "flush", P: p, Short: rng.Bool()}
	case r < 978:
		if rng.Chance(1, 3) {
			return c08Op{K: "sync"}
		}
		return c08Op{K: "save"}
	case r < 993:
		return c08Op{K: "release", N: rng.Intn(4)}
	case r < 997:
		return c08Op{K: "drain"}
	default:
		return c08Op{K: "cmp"}
	}
}
