//go:build verif

package arvados

// C13, stream "savefault": a save (Sync / MarshalManifest / Flush) that FAILS
// half-way — LocalLocator cannot reach Keep for a remotely signed segment, or
// a block write is refused — while other block writes of the same save are
// still in flight. The save's block-write goroutines replace segments without
// taking the file lock (they rely on the locks of the caller that is waiting
// for them), so nothing of a save may still be running once it has returned.
//
// Steering: PutB is gated; the failing LocalLocator call waits until a block
// write of the same save is in flight. As soon as the save has returned, every
// file is rewritten with new content through its open handle; then the gate
// is opened, the stragglers (if any) finish, and every file is read back.
// Oracle (byte-array model): a file reads as the last content written to it
// without error; a final fault-free save succeeds and its manifest, loaded
// into a fresh filesystem, reproduces exactly that content.

import (
	"bytes"
	"crypto/md5"
	"errors"
	"fmt"
	"io/ioutil"
	"os"
	"sort"
	"strings"
	"sync"
	"sync/atomic"
	"time"

	"git.arvados.org/arvados.git/internal/verifkit"
)

type c13lfKeep struct {
	mu        sync.Mutex
	blocks    map[string][]byte
	gate      chan struct{}
	gated     int32 // 1: PutB waits for the gate
	inflight  int32
	entered   chan struct{}
	failLoc   int32 // 1: LocalLocator fails for +R locators
	failPutNo int32 // k>0: the k-th PutB from now fails
	putSeen   int32
}

func (k *c13lfKeep) PutB(p []byte) (string, int, error) {
	buf := append([]byte(nil), p...)
	n := atomic.AddInt32(&k.putSeen, 1)
	atomic.AddInt32(&k.inflight, 1)
	defer atomic.AddInt32(&k.inflight, -1)
	if fp := atomic.LoadInt32(&k.failPutNo); fp > 0 && n == fp {
		// refused only after another write of the save is in flight
		for i := 0; i < 300 && atomic.LoadInt32(&k.inflight) < 2; i++ {
			time.Sleep(time.Millisecond)
		}
		return "", 0, errors.New("verif: keep refuses this block")
	}
	select {
	case k.entered <- struct{}{}:
	default:
	}
	if atomic.LoadInt32(&k.gated) == 1 {
		<-k.gate
	}
	loc := fmt.Sprintf("%x+%d", md5.Sum(buf), len(buf))
	k.mu.Lock()
	k.blocks[loc[:32]] = buf
	k.mu.Unlock()
	return loc, 1, nil
}

func (k *c13lfKeep) ReadAt(locator string, p []byte, off int) (int, error) {
	k.mu.Lock()
	defer k.mu.Unlock()
	b, ok := k.blocks[locator[:32]]
	if !ok {
		return 0, os.ErrNotExist
	}
	if off > len(b) {
		return 0, errors.New("verif: read past end of block")
	}
	return copy(p, b[off:]), nil
}

func (k *c13lfKeep) LocalLocator(locator string) (string, error) {
	if strings.Contains(locator, "+R") && atomic.LoadInt32(&k.failLoc) == 1 {
		// by now an earlier block write of the same save should be in flight
		for i := 0; i < 300 && atomic.LoadInt32(&k.inflight) == 0; i++ {
			time.Sleep(time.Millisecond)
		}
		return "", errors.New("verif: keep service unreachable")
	}
	return locator, nil
}

func (k *c13lfKeep) preload(b []byte) string {
	h := fmt.Sprintf("%x", md5.Sum(b))
	k.mu.Lock()
	k.blocks[h] = append([]byte(nil), b...)
	k.mu.Unlock()
	return h
}

type c13lfCase struct {
	Fault   string   `json:"fault"`   // localloc | putb
	Save    string   `json:"save"`    // marshal | sync | flush
	Files   []string `json:"files"`   // in-memory files written before the save, in name order
	Sizes   []int    `json:"sizes"`   // their sizes
	Remote  string   `json:"remote"`  // name of the stored, remotely signed file
	Block   int      `json:"max_block_size"`
	FailPut int      `json:"fail_put_no,omitempty"`
}

func c13SaveFault(run *verifkit.Run) {
	n := run.N(60, 320)
	run.Cases("savefault", n, func(i int, rng *verifkit.Rand) {
		// Only configurations that cannot exhaust the filesystem's write
		// throttle (4 slots) while the gate is shut: at most 3 files, each
		// bigger than half a block (committed on its own by the save) but
		// smaller than a block (no background write is ever started by a
		// Write), synchronous saves only.
		c := c13lfCase{Fault: "localloc", Save: rng.PickStr("marshal", "sync"), Block: rng.PickInt(8, 16, 64)}
		// names: a few files that sort before and after the remote one
		names := []string{"a", "b", "c", "n", "x", "y"}
		nf := rng.Range(1, 3)
		perm := rng.Perm(len(names))[:nf]
		sort.Ints(perm)
		for _, p := range perm {
			c.Files = append(c.Files, names[p])
			// bigger than half a block: committed on its own
			c.Sizes = append(c.Sizes, rng.Range(c.Block/2+1, c.Block-1))
		}
		c.Remote = rng.PickStr("m", "z", "0")
		if c.Fault == "putb" && nf < 2 {
			c.Fault = "localloc"
		}
		if c.Fault == "putb" {
			c.FailPut = rng.Range(1, nf)
		}
		run.Input(c, true)
		old := maxBlockSize
		maxBlockSize = c.Block
		defer func() { maxBlockSize = old }()

		kc := &c13lfKeep{blocks: map[string][]byte{}, gate: make(chan struct{}), entered: make(chan struct{}, 16)}
		remoteData := rng.Bytes(rng.Range(1, c.Block))
		rh := kc.preload(remoteData)
		mt := fmt.Sprintf(". %s+%d+Rzzzzz-%s@ffffffff 0:%d:%s\n", rh, len(remoteData), strings.Repeat("ab", 20), len(remoteData), c.Remote)
		api := &c13API{}
		fs, err := (&Collection{UUID: "zzzzz-4zz18-verifverifverif", ManifestText: mt}).FileSystem(api, kc)
		if err != nil {
			run.Inconclusive(fmt.Sprintf("savefault: cannot load the initial manifest: %v", err))
			return
		}
		model := map[string][]byte{c.Remote: remoteData}
		handles := map[string]File{}
		for j, name := range c.Files {
			f, err := fs.OpenFile(name, os.O_CREATE|os.O_RDWR, 0644)
			if err != nil {
				run.Inconclusive(fmt.Sprintf("savefault: create %s: %v", name, err))
				return
			}
			d := bytes.Repeat([]byte{byte('a' + j)}, c.Sizes[j])
			if _, err := f.Write(d); err != nil {
				run.Inconclusive(fmt.Sprintf("savefault: write %s: %v", name, err))
				return
			}
			handles[name] = f
			model[name] = d
		}
		// ---- the failing save, with gated block writes
		atomic.StoreInt32(&kc.gated, 1)
		atomic.StoreInt32(&kc.putSeen, 0)
		if c.Fault == "localloc" {
			atomic.StoreInt32(&kc.failLoc, 1)
		} else {
			atomic.StoreInt32(&kc.failPutNo, int32(c.FailPut))
		}
		saveDone := make(chan error, 1)
		go func() {
			var err error
			switch c.Save {
			case "marshal":
				_, err = fs.MarshalManifest(".")
			case "sync":
				err = fs.Sync()
			default:
				err = fs.Flush("", true)
			}
			saveDone <- err
		}()
		var saveErr error
		returnedEarly := false
		select {
		case saveErr = <-saveDone:
			returnedEarly = atomic.LoadInt32(&kc.inflight) > 0
		case <-time.After(300 * time.Millisecond):
			// the save waits for its gated writes: let them go
		}
		if returnedEarly {
			run.Count("save_returned_with_own_block_writes_in_flight", 1)
		}
		gateOpen := false
		if !returnedEarly {
			close(kc.gate)
			gateOpen = true
			select {
			case saveErr = <-saveDone:
			case <-time.After(60 * time.Second):
				run.Inconclusive("savefault: the save did not return after its block writes were released")
				return
			}
		}
		if saveErr != nil {
			run.Count("saves_failed", 1)
		} else {
			run.Count("saves_succeeded", 1)
		}
		// ---- the save is over: rewrite every file
		for j, name := range c.Files {
			f := handles[name]
			d := bytes.Repeat([]byte{byte('A' + j)}, c.Sizes[j])
			if _, err := f.Seek(0, 0); err != nil {
				continue
			}
			if _, err := f.Write(d); err == nil {
				model[name] = d
			}
		}
		if !gateOpen {
			close(kc.gate)
		}
		// stragglers (if any) finish
		for w := 0; w < 3000 && atomic.LoadInt32(&kc.inflight) > 0; w++ {
			time.Sleep(time.Millisecond)
		}
		time.Sleep(20 * time.Millisecond)
		atomic.StoreInt32(&kc.gated, 0)
		atomic.StoreInt32(&kc.failLoc, 0)
		atomic.StoreInt32(&kc.failPutNo, 0)
		// ---- read back through the live tree
		feature := fmt.Sprintf("savefault:%s,%s,files=%d,early=%v,err=%v", c.Fault, c.Save, len(c.Files), returnedEarly, saveErr != nil)
		for name, want := range model {
			f, err := fs.Open(name)
			run.Eval(1)
			if err != nil {
				run.Violation("C13:S1:file-lost-after-failed-save:"+c.Fault, fmt.Sprintf("after a %s that failed with %v, file %q cannot be opened: %v", c.Save, saveErr, name, err), c)
				continue
			}
			got, err := ioutil.ReadAll(f)
			f.Close()
			if err != nil || !bytes.Equal(got, want) {
				kind := "other"
				if name != c.Remote && len(got) == len(want) && len(got) > 0 && got[0] >= 'a' && got[0] <= 'z' {
					kind = "content-of-before-the-rewrite-came-back"
				}
				run.Violation("C13:S1:file-content-wrong-after-failed-save:"+c.Fault+":"+kind, fmt.Sprintf(
					"%s failed with %v (returned while %v of its block writes were in flight); file %q was then rewritten with %q… without error, but reads %q (err %v)",
					c.Save, saveErr, returnedEarly, name, firstBytes(want, 8), firstBytes(got, 8), err), c)
			}
		}
		// ---- a later fault-free save succeeds and reproduces the tree
		txt, err := fs.MarshalManifest(".")
		run.Eval(1)
		if err != nil {
			run.Violation("C13:S2:later-save-fails-after-failed-save:"+c.Fault, fmt.Sprintf("a fault-free MarshalManifest after the failed %s returned %v", c.Save, err), c)
		} else {
			files, lerr := c13Load(txt, kc)
			if lerr != "" {
				run.Violation("C13:S2:saved-manifest-unreadable-after-failed-save:"+c.Fault, lerr+"; manifest="+txt, c)
			} else {
				for name, want := range model {
					if got, ok := files[name]; !ok || !bytes.Equal(got, want) {
						run.Violation("C13:S2:saved-manifest-differs-after-failed-save:"+c.Fault, fmt.Sprintf("file %q: manifest has %q…, expected %q… (present=%v)", name, firstBytes(got, 8), firstBytes(want, 8), ok), c)
					}
				}
			}
		}
		run.Feature(feature)
	})
}

func firstBytes(b []byte, n int) string {
	if len(b) > n {
		b = b[:n]
	}
	return string(b)
}
