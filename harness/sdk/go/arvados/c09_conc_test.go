//go:build verif

package arvados

// C09, stream "conc" — saves that overlap with clients that are still writing.
//
// The statement quantifies over every reachable filesystem state and every
// save; a save (MarshalManifest / Sync) issued while other goroutines write
// through handles they opened earlier is such a save (crunch-run and keep-web
// do exactly that), and it meets states no single-threaded sequence has: a
// background block write of a file (pruneMemSegments) that is still on the
// wire at the moment the save locks and flushes that file.
//
// Workload: a small tree (optionally loaded from a generated manifest), 2-6
// files with open read-write handles, 1-3 writer goroutines (every file is
// owned by exactly one writer, so its history is a sequence of exact states),
// one saver goroutine issuing 1-3 saves while the writers run. The Keep stub
// parks exactly the writes issued by pruneMemSegments (at most
// concurrentWriters-1 at a time, the oldest is released on overflow); a
// releaser lets one randomly chosen parked write finish whenever nothing has
// moved for a moment (steering only). Block writes fail by origin with the
// case's rates.
//
// Oracles per concurrent save (judged after everything has been joined):
//
//	M4 a save during which one of its own block writes (origin commitBlock; no
//	   asynchronous Flush runs in this stream) failed returns an error, one
//	   without such a failure succeeds;
//	M1 the text of a successful save is valid; M3 every locator is original or
//	   acknowledged;
//	M2 the directories and file names are exactly the (static) tree, and every
//	   file's content per the manifest — by the independent interpreter and
//	   through the real loader — is one of the states that file had between
//	   the save's call and its return (states lo..hi, lo = last operation
//	   completed before the call, hi = last operation started before the
//	   return; every operation is atomic under the file's lock);
//
// and afterwards, as in the other streams: the live tree equals the final
// states (buffered data intact whatever failed), and with failures off a
// final save succeeds and satisfies M1-M3 exactly.

import (
	"fmt"
	"io"
	"os"
	"sort"
	"strconv"
	"strings"
	"sync"
	"sync/atomic"
	"time"

	"git.arvados.org/arvados.git/internal/verifkit"
)

type c09ConcOp struct {
	F   int // index into the file list
	K   string
	Off int
	N   int
	Pat uint32
}

func (o c09ConcOp) String() string {
	switch o.K {
	case "append":
		return fmt.Sprintf("f%d: Seek(end); Write(%d bytes pat=%d)", o.F, o.N, o.Pat)
	case "pwrite":
		return fmt.Sprintf("f%d: Seek(%d); Write(%d bytes pat=%d)", o.F, o.Off, o.N, o.Pat)
	}
	return fmt.Sprintf("f%d: Truncate(%d)", o.F, o.N)
}

type c09ConcInput struct {
	Cfg       c08Cfg     `json:"cfg"`
	NewDirsQ  []string   `json:"new_dirs"`
	FilesQ    []string   `json:"files"`
	Writers   [][]string `json:"writers"`
	Saves     []string   `json:"saves"`
	DelayUS   []int      `json:"saver_delay_us"`
	PrunePct  int        `json:"background_write_failure_pct"`
	CommitPct int        `json:"save_write_failure_pct"`
}

type c09ConcFile struct {
	path      string
	h         *c08Handle
	states    [][]byte // states[0] = content when the concurrent phase starts; appended by the owner only
	started   int32    // index of the state the operation in progress (or the last one) produces
	completed int32    // index of the last state reached
}

type c09ConcSave struct {
	kind       string
	txt        string
	err        error
	noText     bool
	lo, hi     []int32
	s0, s1     int // Keep stub serial before the call / after the return
	parkedNew  int // background writes entered during the save and still on the wire when it returned
	parkedAll  int
	returnedAt int64
}

var c09ConcTotMu sync.Mutex
var c09ConcTot = map[string]int{}

func c09ConcCount(run *verifkit.Run, name string, k int) {
	if k == 0 {
		return
	}
	run.Count(name, k)
	c09ConcTotMu.Lock()
	c09ConcTot[name] += k
	c09ConcTotMu.Unlock()
}

func c09ConcStream(run *verifkit.Run, r *c08Runner) {
	n := run.N(360, 12000)
	run.Cases("conc", n, func(i int, rng *verifkit.Rand) {
		if r.hung {
			run.Count("cases_skipped_after_a_save_that_never_returned", 1)
			return
		}
		c09ConcCase(run, r, i, rng)
	})
	if run.Replaying() {
		return
	}
	c09ConcTotMu.Lock()
	defer c09ConcTotMu.Unlock()
	if c09ConcTot["conc_saves"] >= 40 {
		for _, must := range []string{"conc_saves_overlapping_a_write_to_a_saved_file", "conc_saves_returning_with_a_background_write_of_the_same_period_on_the_wire", "conc_background_writes_parked", "conc_saves_ok"} {
			if c09ConcTot[must] == 0 {
				run.Inconclusive("C09 conc: counter " + must + " is zero in this batch: the stream did not produce the overlap it is meant to judge")
			}
		}
	}
}

func c09ConcCase(run *verifkit.Run, r *c08Runner, caseIdx int, rng *verifkit.Rand) {
	// ---------------------------------------------------------------- generate
	cfg := c08GenCfg(rng, true)
	if cfg.BS > 16 {
		cfg.BS = rng.PickInt(1, 2, 3, 5, 8, 16)
		if cfg.Init == "manifest" {
			var dirs []string
			cfg.manifest, cfg.blocks, cfg.initTree, dirs = c08GenManifest(rng, cfg.BS, cfg.names, false)
			cfg.initDirs = dirs
			cfg.ManifestQ = strconv.Quote(cfg.manifest)
		}
	}
	cfg.CW = rng.PickInt(2, 3, 4, 4)
	cfg.Gate = true
	prunePct, commitPct := 0, 0
	switch rng.Intn(6) {
	case 0:
		prunePct = rng.PickInt(30, 100)
	case 1:
		commitPct = rng.PickInt(10, 30)
	case 2:
		prunePct, commitPct = rng.PickInt(30, 60), rng.PickInt(10, 30)
	}
	cfg.Fault = c09Fault{Mode: "none"}
	if prunePct+commitPct > 0 {
		cfg.Fault = c09Fault{Mode: "by-origin", K: prunePct, Pct: commitPct}
	}
	bs := cfg.BS

	// the tree as it is when the handles are opened: directories and files of
	// the initial manifest, 0-2 new directories, new files
	dirSet := map[string]bool{"": true}
	for _, d := range cfg.initDirs {
		d = strings.Trim(strings.TrimPrefix(d, "./"), "/")
		if d != "" && d != "." {
			dirSet[d] = true
		}
	}
	taken := map[string]bool{}
	var initFiles []string
	for p := range cfg.initTree {
		initFiles = append(initFiles, p)
		taken[p] = true
		for j := 0; j < len(p); j++ {
			if p[j] == '/' {
				dirSet[p[:j]] = true
			}
		}
	}
	sort.Strings(initFiles)
	for d := range dirSet {
		taken[d] = true
	}
	sortedDirs := func() []string {
		var l []string
		for d := range dirSet {
			l = append(l, d)
		}
		sort.Strings(l)
		return l
	}
	var newDirs []string
	for k, nd := 0, rng.Intn(3); k < nd; k++ {
		dirs := sortedDirs()
		parent := dirs[rng.Intn(len(dirs))]
		p := cfg.names[rng.Intn(len(cfg.names))]
		if parent != "" {
			p = parent + "/" + p
		}
		if taken[p] || strings.Count(p, "/") > 2 {
			continue
		}
		taken[p], dirSet[p] = true, true
		newDirs = append(newDirs, p)
	}
	var files []string
	initLen := map[string]int{}
	for _, k := range rng.Perm(len(initFiles)) {
		if len(files) < 3 {
			files = append(files, initFiles[k])
			initLen[initFiles[k]] = len(cfg.initTree[initFiles[k]])
		}
	}
	want := rng.Range(2, 6)
	for try := 0; len(files) < want && try < 30; try++ {
		dirs := sortedDirs()
		parent := dirs[rng.Intn(len(dirs))]
		if rng.Chance(1, 2) {
			parent = dirs[rng.Intn(c08Min(len(dirs), 2))] // crowd one directory: siblings are what a save waits for one after the other
		}
		p := cfg.names[rng.Intn(len(cfg.names))]
		if parent != "" {
			p = parent + "/" + p
		}
		if taken[p] {
			continue
		}
		taken[p] = true
		files = append(files, p)
	}
	nw := rng.Range(1, 3)
	if nw > len(files) {
		nw = len(files)
	}
	curLen := make([]int, len(files))
	for k, p := range files {
		curLen[k] = initLen[p]
	}
	wops := make([][]c09ConcOp, nw)
	for wi := range wops {
		var own []int
		for k := range files {
			if k%nw == wi {
				own = append(own, k)
			}
		}
		for k, nops := 0, rng.Range(3, 14); k < nops; k++ {
			f := own[rng.Intn(len(own))]
			op := c09ConcOp{F: f, Pat: uint32(rng.Intn(1 << 30))}
			size := func() int {
				return rng.PickInt(bs, bs, bs, 2*bs, bs+1, c08Max(1, bs-1), 3*bs, rng.Range(1, 2*bs+2))
			}
			switch x := rng.Intn(10); {
			case x < 6 || curLen[f] == 0:
				op.K, op.N = "append", size()
				curLen[f] += op.N
			case x < 8:
				op.K, op.Off, op.N = "pwrite", rng.Intn(curLen[f]+1), size()
				if op.Off+op.N > curLen[f] {
					curLen[f] = op.Off + op.N
				}
			default:
				op.K, op.N = "trunc", rng.Intn(curLen[f]+bs+1)
				curLen[f] = op.N
			}
			wops[wi] = append(wops[wi], op)
		}
	}
	var saves []string
	var delays []int
	for k, ns := 0, rng.Range(1, 3); k < ns; k++ {
		saves = append(saves, rng.PickStr("save", "save", "sync"))
		delays = append(delays, rng.PickInt(0, 0, 20, 100, 300))
	}
	relRng := rng.Fork()
	faultRng := rng.Fork()

	in := c09ConcInput{Cfg: cfg, Saves: saves, DelayUS: delays, PrunePct: prunePct, CommitPct: commitPct}
	for _, d := range newDirs {
		in.NewDirsQ = append(in.NewDirsQ, strconv.Quote(d))
	}
	for _, p := range files {
		in.FilesQ = append(in.FilesQ, strconv.Quote(p))
	}
	for _, l := range wops {
		var s []string
		for _, o := range l {
			s = append(s, o.String())
		}
		in.Writers = append(in.Writers, s)
	}
	// persisted before anything runs: a panic on one of the filesystem's own
	// goroutines kills the process, the driver attributes it to this case
	run.Input(in, true)

	// ---------------------------------------------------------------- set up
	w, err := c08NewWorld(cfg, r.baseG)
	if err != nil {
		run.Eval(1)
		run.Violation("C09:M5:generated-valid-manifest-rejected", fmt.Sprintf("FileSystem() rejected the generated manifest %q: %v", cfg.manifest, err), in)
		return
	}
	w.keep.failFn = func(serial int, origin string, inSave bool) bool { // called with keep.mu held
		if w.faultsOff {
			return false
		}
		switch origin {
		case "prune":
			return prunePct > 0 && faultRng.Intn(100) < prunePct
		case "commit":
			return commitPct > 0 && faultRng.Intn(100) < commitPct
		}
		return false
	}
	finish := func() {
		w.finish()
		ns := r.noShrink
		r.noShrink = true // the recorded operation list is only the frame of this case; it cannot be re-run to a smaller witness
		r.report(w, cfg, len(w.ops), "C09")
		r.noShrink = ns
	}
	for _, d := range newDirs {
		w.apply(c08Op{K: "mkdir", P: d})
	}
	cf := make([]*c09ConcFile, len(files))
	for k, p := range files {
		w.apply(c08Op{K: "open", H: k + 1, P: p, Flag: os.O_CREATE | os.O_RDWR})
		h := w.h[k+1]
		if w.viol != nil || w.stopped != "" || h == nil || h.node.dir {
			finish()
			if w.viol == nil {
				run.Trivial()
			}
			return
		}
		cf[k] = &c09ConcFile{path: p, h: h, states: [][]byte{append([]byte{}, h.node.data...)}}
	}
	mdirs, mfiles := w.m.walk()

	// ---------------------------------------------------------------- concurrent phase
	w.keep.mu.Lock()
	w.keep.parkPrune = true
	w.keep.mu.Unlock()
	c08CurWorld.Store(w)
	c08CurOp.Store("concurrent phase: writers and saves")
	atomic.AddInt64(&c08Progress, 1)
	var progress int64
	var opErrMu sync.Mutex
	var opErr string
	var wg sync.WaitGroup
	start := make(chan struct{})
	for wi := range wops {
		wi := wi
		wg.Add(1)
		go func() {
			defer wg.Done()
			<-start
			for _, op := range wops[wi] {
				f := cf[op.F]
				cur := f.states[len(f.states)-1]
				j := int32(len(f.states))
				atomic.StoreInt32(&f.started, j)
				var next []byte
				var err error
				switch op.K {
				case "append", "pwrite":
					off := op.Off
					if op.K == "append" || off > len(cur) {
						off = len(cur)
					}
					data := c08Data(op.Pat, op.N)
					_, err = f.h.f.Seek(int64(off), io.SeekStart)
					if err == nil {
						var n int
						n, err = f.h.f.Write(data)
						if err == nil && n != len(data) {
							err = fmt.Errorf("short write: n=%d of %d, nil", n, len(data))
						}
					}
					next = append([]byte{}, cur...)
					if off+len(data) > len(next) {
						next = append(next, make([]byte, off+len(data)-len(next))...)
					}
					copy(next[off:], data)
				default:
					err = f.h.f.Truncate(int64(op.N))
					if op.N <= len(cur) {
						next = append([]byte{}, cur[:op.N]...)
					} else {
						next = append(append([]byte{}, cur...), make([]byte, op.N-len(cur))...)
					}
				}
				if err != nil {
					opErrMu.Lock()
					if opErr == "" {
						opErr = fmt.Sprintf("%s on %q: %v", op, f.path, err)
					}
					opErrMu.Unlock()
					return
				}
				f.states = append(f.states, next)
				atomic.StoreInt32(&f.completed, j)
				atomic.AddInt64(&progress, 1)
			}
		}()
	}
	results := make([]*c09ConcSave, 0, len(saves))
	wg.Add(1)
	go func() {
		defer wg.Done()
		<-start
		for si, kind := range saves {
			if d := delays[si]; d > 0 {
				time.Sleep(time.Duration(d) * time.Microsecond)
			}
			sv := &c09ConcSave{kind: kind, lo: make([]int32, len(cf)), hi: make([]int32, len(cf))}
			for k, f := range cf {
				sv.lo[k] = atomic.LoadInt32(&f.completed)
			}
			w.keep.mu.Lock()
			sv.s0 = w.keep.serial
			w.keep.mu.Unlock()
			if kind == "sync" {
				sv.err = w.fs.Sync()
				if sv.err == nil {
					var got bool
					sv.txt, got = w.api.last()
					sv.noText = !got
				}
			} else {
				sv.txt, sv.err = w.fs.MarshalManifest(".")
			}
			for k, f := range cf {
				sv.hi[k] = atomic.LoadInt32(&f.started)
			}
			w.keep.mu.Lock()
			sv.s1 = w.keep.serial
			sv.parkedAll = len(w.keep.parkedSer)
			for _, s := range w.keep.parkedSer {
				if s > sv.s0 {
					sv.parkedNew++
				}
			}
			w.keep.mu.Unlock()
			results = append(results, sv)
			atomic.AddInt64(&progress, 1)
		}
	}()
	done := make(chan struct{})
	go func() { wg.Wait(); close(done) }()
	activity := func() int64 {
		w.keep.mu.Lock()
		defer w.keep.mu.Unlock()
		return atomic.LoadInt64(&progress) + int64(w.keep.serial+w.keep.done)
	}
	close(start)
	released := 0
	last, idle := activity(), 0
phase:
	for {
		select {
		case <-done:
			break phase
		case <-time.After(150 * time.Microsecond):
		}
		if a := activity(); a != last {
			last, idle = a, 0
			continue
		}
		if idle++; idle >= 2 {
			idle = 0
			if w.keep.releaseOne(relRng.Intn(12)) {
				released++
			}
		}
	}
	atomic.AddInt64(&c08Progress, 1)
	w.keep.mu.Lock()
	w.keep.parkPrune = false
	w.keep.mu.Unlock()
	w.quiesce()

	// ---------------------------------------------------------------- judge
	c09ConcCount(run, "conc_cases", 1)
	c09ConcCount(run, "conc_parked_writes_released_by_the_releaser", released)
	w.keep.mu.Lock()
	puts := append([]c08Put(nil), w.keep.puts...)
	c09ConcCount(run, "conc_background_writes_parked", w.keep.nParked)
	w.keep.mu.Unlock()
	nops := 0
	for _, f := range cf {
		nops += len(f.states) - 1
	}
	c09ConcCount(run, "conc_writer_operations", nops)
	// follow the writers in the model of the world (final states)
	for _, f := range cf {
		f.h.node.data = f.states[len(f.states)-1]
	}
	if opErr != "" {
		run.Eval(1)
		run.Violation("C09:fs:unexpected-failure:write-or-truncate:concurrent-with-save", "a write through an open handle failed while a save was running: "+opErr, in)
		w.stop("writer-operation-failed")
		w.quiesce()
		return
	}
	bad := func(sig, detail string) {
		if w.viol == nil {
			w.viol = &c08Viol{sig: sig, detail: detail, opIdx: len(w.ops) - 1}
			run.Violation(sig, detail, in)
		}
	}
	overlapAny, parkedAny, savesOK, savesErr := false, false, 0, 0
	for si, sv := range results {
		when := fmt.Sprintf("save %d (%s) concurrent with %d writer(s)", si+1, map[string]string{"save": "MarshalManifest", "sync": "Sync"}[sv.kind], nw)
		c09ConcCount(run, "conc_saves", 1)
		failed := 0
		for _, p := range puts {
			if p.Serial > sv.s0 && p.Serial <= sv.s1 && p.Origin == "commit" && p.Failed {
				failed++
			}
		}
		overlap := false
		for k := range cf {
			if sv.hi[k] > sv.lo[k] {
				overlap = true
			}
		}
		if overlap {
			overlapAny = true
			c09ConcCount(run, "conc_saves_overlapping_a_write_to_a_saved_file", 1)
		}
		if sv.parkedNew > 0 {
			parkedAny = true
			c09ConcCount(run, "conc_saves_returning_with_a_background_write_of_the_same_period_on_the_wire", 1)
		}
		run.Eval(1)
		if sv.noText {
			bad("C09:sync-succeeded-without-sending-a-manifest", when+": Sync() returned nil but no manifest_text reached the API")
			break
		}
		if sv.err == nil && failed > 0 {
			bad("C09:M4:save-succeeded-although-a-block-write-failed", fmt.Sprintf("%s returned nil although %d PutB call(s) issued by it failed; manifest %q", when, failed, sv.txt))
			break
		}
		if sv.err != nil {
			savesErr++
			c09ConcCount(run, "conc_saves_failed_by_injected_fault", 1)
			if failed == 0 {
				bad("C09:M4:save-failed-without-a-failing-block-write", fmt.Sprintf("%s failed with %q although none of its PutB calls failed", when, sv.err))
				break
			}
			continue
		}
		savesOK++
		c09ConcCount(run, "conc_saves_ok", 1)
		c09ConcCheck(run, w, sv, when, cf, mdirs, mfiles, bad)
		if w.viol != nil {
			break
		}
	}
	if w.viol != nil {
		w.quiesce()
		return
	}
	w.savesOK += savesOK
	w.savesErr += savesErr
	for k := range cf {
		w.apply(c08Op{K: "close", H: k + 1})
	}
	// whole live tree against the final states, then the final save with
	// failures off (M1-M3 exactly, as in the other streams)
	finish()
	emptyDir := false
	for _, d := range mdirs {
		if n, cls := w.m.resolve(d); cls == "" && n.dir && len(n.kids) == 0 {
			emptyDir = true
		}
	}
	b := func(v bool, s string) string {
		if v {
			return s
		}
		return "-"
	}
	run.Feature(fmt.Sprintf("conc:bs=%d,cw=%d,init=%s,writers=%d,files=%d,dirs=%d,prunefail=%v,commitfail=%v,%s,%s,%s,%s,%s", bs, cfg.CW, cfg.Init, nw, c08Min(len(cf), 4), c08Min(len(mdirs), 2),
		prunePct > 0, commitPct > 0, b(overlapAny, "overlap"), b(parkedAny, "bg-on-the-wire-at-return"), b(savesErr > 0, "save-err"), b(savesOK > 0, "save-ok"), b(emptyDir, "emptydir")))
	if caseIdx < 2 {
		run.Sample(in)
	}
}

// c09ConcCheck applies M1-M3 to the text of a successful save that ran
// concurrently with writers.
func c09ConcCheck(run *verifkit.Run, w *c08World, sv *c09ConcSave, when string, cf []*c09ConcFile, mdirs, mfiles []string, bad func(sig, detail string)) {
	txt := sv.txt
	run.Eval(1)
	rule, detail, streams := c09Validate(txt)
	if rule != "" {
		bad("C09:M1:"+rule, fmt.Sprintf("%s returned an invalid manifest: %s\nmanifest: %q", when, detail, txt))
		return
	}
	for _, st := range streams {
		for _, loc := range st.locs {
			run.Eval(1)
			if loc == c09EmptyBlock {
				continue
			}
			switch w.keep.locatorStatus(loc) {
			case "orig", "acked":
			case "refused":
				bad("C09:M3:locator-from-a-failed-put", fmt.Sprintf("%s: locator %s was handed out by a PutB that returned an error\nmanifest: %q", when, loc, txt))
				return
			default:
				bad("C09:M3:locator-never-returned-by-keep", fmt.Sprintf("%s: locator %s is neither from the original manifest nor returned by any PutB\nmanifest: %q", when, loc, txt))
				return
			}
		}
	}
	run.Eval(1)
	files, dirs, problem := c09Interpret(streams, w.keep.block)
	if problem != "" {
		bad("C09:M2:manifest-not-interpretable", fmt.Sprintf("%s: %s\nmanifest: %q", when, problem, txt))
		return
	}
	owned := map[string]int{}
	for k, f := range cf {
		owned[f.path] = k
	}
	snap := c08NewModel()
	for _, d := range mdirs {
		snap.mkdirAll(d)
	}
	for _, p := range mfiles {
		got, ok := files[p]
		run.Eval(1)
		if !ok {
			bad("C09:M2:manifest:file-missing", fmt.Sprintf("%s: file %q is not in the manifest\nmanifest: %q", when, p, txt))
			return
		}
		k, isOwned := owned[p]
		if !isOwned {
			// not touched in the concurrent phase
			n, _ := w.m.resolve(p)
			if d := c08Diff(got, n.data); d != "" {
				bad("C09:M2:manifest:file-content", fmt.Sprintf("%s: file %q (not written during the save) per manifest: %s\nmanifest: %q", when, p, d, txt))
				return
			}
			snap.putFile(p, got)
			continue
		}
		f := cf[k]
		lo, hi := int(sv.lo[k]), int(sv.hi[k])
		if hi > len(f.states)-1 {
			hi = len(f.states) - 1
		}
		match := false
		for j := lo; j <= hi && !match; j++ {
			match = c08Diff(got, f.states[j]) == ""
		}
		if !match {
			sig := "C09:M2:manifest:file-content"
			if hi > lo {
				sig += ":not-a-state-the-file-had-during-the-save"
			}
			bad(sig, fmt.Sprintf("%s: file %q per manifest (%d bytes) is none of the %d state(s) the file had between the call and the return of the save (state %d: %s)\nmanifest: %q",
				when, p, len(got), hi-lo+1, lo, c08Diff(got, f.states[lo]), txt))
			return
		}
		snap.putFile(p, got)
	}
	if len(files) != len(mfiles) {
		bad("C09:M2:manifest:extra-file", fmt.Sprintf("%s: manifest describes %d files, the filesystem has %d\nmanifest: %q", when, len(files), len(mfiles), txt))
		return
	}
	for _, d := range mdirs {
		if !dirs[d] {
			bad("C09:M2:manifest:directory-missing", fmt.Sprintf("%s: directory %q is not preserved by the manifest\nmanifest: %q", when, d, txt))
			return
		}
	}
	if len(dirs) != len(mdirs) {
		bad("C09:M2:manifest:extra-directory", fmt.Sprintf("%s: manifest describes %d directories, the filesystem has %d\nmanifest: %q", when, len(dirs), len(mdirs), txt))
		return
	}
	// reload through the real loader: must be the tree the interpreter found
	run.Eval(1)
	fs2, err := (&Collection{ManifestText: txt}).FileSystem(&c08API{}, w.keep)
	if err != nil {
		bad("C09:M2:saved-manifest-does-not-load", fmt.Sprintf("%s: FileSystem() rejects the saved manifest: %v\nmanifest: %q", when, err, txt))
		return
	}
	tmp := &c08World{cfg: w.cfg, m: snap, cnt: map[string]int{}}
	kind, what := tmp.compareTree(fs2, 3+w.cfg.BS)
	run.Eval(tmp.evals)
	if what != "" {
		bad("C09:M2:reloaded-tree:"+kind, fmt.Sprintf("%s: filesystem loaded from the saved manifest: %s\nmanifest: %q", when, what, txt))
	}
}

func c08Max(a, b int) int {
	if a > b {
		return a
	}
	return b
}
