//go:build verif

package arvados

// C08/C09 — in-memory Keep and API stand-ins for the collection filesystem
// harness. See /verif/DESIGN.md §5 C08, C09.
//
// The Keep stub mimics the real client where the filesystem can tell the
// difference (keepclient.BlockCache.ReadAt: short copy, io.ErrUnexpectedEOF
// only when off > len; LocalLocator: identity for locators without +R; PutB:
// md5 taken first), and is adversarial where the real client is free:
//   - a background PutB (one issued while no save is in progress) can be
//     parked until the harness releases it, so that the following file
//     operations run while the block write is "on the wire";
//   - the bytes stored are the ones seen when PutB was entered; if the caller
//     changes the buffer during the call a counter records it;
//   - a failing PutB returns a well-formed locator together with the error
//     (as keepclient.PutHR does) and stores nothing.

import (
	"bytes"
	"crypto/md5"
	"errors"
	"fmt"
	"io"
	"runtime"
	"strings"
	"sync"
	"time"
)

var c08ErrPut = errors.New("c08 keep stub: injected PutB failure")
var c08ErrNoBlock = errors.New("c08 keep stub: block not found")

type c08Put struct {
	Serial  int
	Origin  string // prune | commit | other
	InSave  bool
	Failed  bool
	Locator string
	Size    int
}

type c08Keep struct {
	mu        sync.Mutex
	blocks    map[string][]byte // md5 hex -> content (original and acknowledged blocks only)
	orig      map[string]bool   // locators present in the original manifest
	acked     map[string]bool   // locators returned by a successful PutB
	refused   map[string]bool   // locators returned together with an error
	serial    int
	gate      bool
	maxParked int
	parked    []chan struct{}
	parkedSer []int // serial of each parked write (parallel to parked)
	parkPrune bool  // C09 conc stream: park exactly the writes issued by pruneMemSegments, whether or not a save is running
	inflight  int
	inSave    bool
	failFn    func(serial int, origin string, inSave bool) bool // called with mu held
	puts      []c08Put

	nPut, nParked, nBufChanged int
	nFailSave, nFailBg         int
	nPutSave, nPutBg           int
	nRead, nReadMiss           int
	nLocal                     int
	done                       int // completed PutB calls
}

func c08NewKeep() *c08Keep {
	return &c08Keep{blocks: map[string][]byte{}, orig: map[string]bool{}, acked: map[string]bool{}, refused: map[string]bool{}}
}

func c08MD5(b []byte) string { return fmt.Sprintf("%x", md5.Sum(b)) }

func c08Origin() string {
	pcs := make([]uintptr, 24)
	n := runtime.Callers(3, pcs)
	frames := runtime.CallersFrames(pcs[:n])
	for {
		fr, more := frames.Next()
		if strings.Contains(fr.Function, "pruneMemSegments") {
			return "prune"
		}
		if strings.Contains(fr.Function, "commitBlock") {
			return "commit"
		}
		if !more {
			break
		}
	}
	return "other"
}

func (k *c08Keep) preload(data []byte, hints string) string {
	h := c08MD5(data)
	k.mu.Lock()
	defer k.mu.Unlock()
	k.blocks[h] = append([]byte(nil), data...)
	loc := fmt.Sprintf("%s+%d%s", h, len(data), hints)
	k.orig[loc] = true
	return loc
}

func (k *c08Keep) ReadAt(locator string, p []byte, off int) (int, error) {
	k.mu.Lock()
	defer k.mu.Unlock()
	k.nRead++
	if len(locator) < 32 {
		k.nReadMiss++
		return 0, c08ErrNoBlock
	}
	buf, ok := k.blocks[locator[:32]]
	if !ok {
		k.nReadMiss++
		return 0, c08ErrNoBlock
	}
	if off > len(buf) {
		return 0, io.ErrUnexpectedEOF
	}
	return copy(p, buf[off:]), nil
}

func (k *c08Keep) LocalLocator(locator string) (string, error) {
	k.mu.Lock()
	k.nLocal++
	k.mu.Unlock()
	return locator, nil
}

func (k *c08Keep) releaseLocked(i int) {
	if i < 0 || i >= len(k.parked) {
		return
	}
	close(k.parked[i])
	k.parked = append(k.parked[:i], k.parked[i+1:]...)
	if i < len(k.parkedSer) {
		k.parkedSer = append(k.parkedSer[:i], k.parkedSer[i+1:]...)
	}
}

func (k *c08Keep) PutB(p []byte) (string, int, error) {
	snap := append([]byte(nil), p...)
	hash := c08MD5(snap)
	origin := c08Origin()
	k.mu.Lock()
	k.serial++
	k.nPut++
	serial := k.serial
	inSave := k.inSave
	fail := k.failFn != nil && k.failFn(serial, origin, inSave)
	k.inflight++
	if inSave {
		k.nPutSave++
	} else {
		k.nPutBg++
	}
	var ch chan struct{}
	if k.gate && k.maxParked > 0 && ((!k.parkPrune && !inSave) || (k.parkPrune && origin == "prune")) {
		ch = make(chan struct{})
		k.parked = append(k.parked, ch)
		k.parkedSer = append(k.parkedSer, serial)
		k.nParked++
		for len(k.parked) > k.maxParked {
			k.releaseLocked(0)
		}
	}
	k.mu.Unlock()
	if ch != nil {
		<-ch
	}
	changed := !bytes.Equal(snap, p)
	k.mu.Lock()
	defer k.mu.Unlock()
	k.inflight--
	k.done++
	if changed {
		k.nBufChanged++
	}
	rec := c08Put{Serial: serial, Origin: origin, InSave: inSave, Failed: fail, Size: len(snap)}
	if fail {
		loc := fmt.Sprintf("%s+%d+A%040x@%08x", hash, len(snap), 0xbad0000000+serial, 0x7ffffff0)
		k.refused[loc] = true
		if inSave {
			k.nFailSave++
		} else {
			k.nFailBg++
		}
		rec.Locator = loc
		k.puts = append(k.puts, rec)
		return loc, 0, c08ErrPut
	}
	loc := fmt.Sprintf("%s+%d+A%040x@%08x", hash, len(snap), serial, 0x7fffffff)
	k.blocks[hash] = snap
	k.acked[loc] = true
	rec.Locator = loc
	k.puts = append(k.puts, rec)
	return loc, 2, nil
}

// setGate(true) parks background writes; setGate(false) releases everything
// that is parked and lets later writes pass.
func (k *c08Keep) setGate(on bool) {
	k.mu.Lock()
	defer k.mu.Unlock()
	k.gate = on
	if !on {
		for len(k.parked) > 0 {
			k.releaseLocked(0)
		}
	}
}

func (k *c08Keep) nParkedNow() int {
	k.mu.Lock()
	defer k.mu.Unlock()
	return len(k.parked)
}

// releaseOne releases the i-th parked write (mod the number parked).
func (k *c08Keep) releaseOne(i int) bool {
	k.mu.Lock()
	defer k.mu.Unlock()
	if len(k.parked) == 0 {
		return false
	}
	k.releaseLocked(i % len(k.parked))
	return true
}

func (k *c08Keep) setInSave(on bool) {
	k.mu.Lock()
	k.inSave = on
	k.mu.Unlock()
}

func (k *c08Keep) counts() (failSave, failBg, putSave, putBg int) {
	k.mu.Lock()
	defer k.mu.Unlock()
	return k.nFailSave, k.nFailBg, k.nPutSave, k.nPutBg
}

func (k *c08Keep) block(hash string) ([]byte, bool) {
	k.mu.Lock()
	defer k.mu.Unlock()
	b, ok := k.blocks[hash]
	return b, ok
}

// locatorStatus: "orig", "acked", "refused" (returned together with an error)
// or "unknown" (never returned by this stub at all).
func (k *c08Keep) locatorStatus(loc string) string {
	k.mu.Lock()
	defer k.mu.Unlock()
	switch {
	case k.orig[loc]:
		return "orig"
	case k.acked[loc]:
		return "acked"
	case k.refused[loc]:
		return "refused"
	}
	return "unknown"
}

// c08WaitGoroutines waits (scheduling aid only, never a verdict) until the
// number of goroutines is back to base, i.e. every background flush started
// by the filesystem has finished its post-write bookkeeping.
func c08WaitGoroutines(base int, d time.Duration) bool {
	deadline := time.Now().Add(d)
	for i := 0; ; i++ {
		if runtime.NumGoroutine() <= base {
			return true
		}
		if i < 200 {
			runtime.Gosched()
		} else {
			time.Sleep(20 * time.Microsecond)
			if time.Now().After(deadline) {
				return false
			}
		}
	}
}

// c08API records the manifest handed to the API by Sync().
type c08API struct {
	mu       sync.Mutex
	calls    int
	manifest string
	got      bool
}

func (a *c08API) RequestAndDecode(dst interface{}, method, path string, body io.Reader, params interface{}) error {
	a.mu.Lock()
	defer a.mu.Unlock()
	a.calls++
	a.got = false
	if m, ok := params.(map[string]interface{}); ok {
		if c, ok := m["collection"].(map[string]string); ok {
			a.manifest, a.got = c["manifest_text"], true
		}
	}
	return nil
}

func (a *c08API) last() (string, bool) {
	a.mu.Lock()
	defer a.mu.Unlock()
	return a.manifest, a.got
}
