//go:build verif

package arvados

// C08 — a collection filesystem behaves like an ordinary in-memory
// filesystem. See /verif/DESIGN.md §5 C08.
//
// Each case: pick maxBlockSize in {1,2,3,5,8,16,64}, the number of concurrent
// background writers, whether background block writes are parked "on the
// wire" by the Keep stub, and an initial state (empty, or a generated
// non-normalized manifest whose blocks are preloaded). Then 50-400
// operations are generated against the current model state, executed on the
// real filesystem through its exported interface, and every result is
// compared with the byte-array model (c08_model_test.go). The whole tree is
// compared after every save and at the end. The first violation ends the
// sequence and is shrunk to a small witness by delta debugging.

import (
	"fmt"
	"runtime"
	"sort"
	"strings"
	"testing"

	"git.arvados.org/arvados.git/internal/verifkit"
)

type c08Input struct {
	Cfg     c08Cfg   `json:"cfg"`
	NOps    int      `json:"n_ops"`
	Ops     []string `json:"ops,omitempty"`
	Minimal []string `json:"minimal_witness,omitempty"`
	MinCfg  *c08Cfg  `json:"minimal_witness_cfg,omitempty"`
}

// c08Replay executes a fixed list of operations in a fresh world and returns
// the signature of the first violation (or of a non-stopping finding equal to
// want).
func c08Replay(cfg c08Cfg, ops []c08Op, baseG int, want string) (string, *c08World) {
	w, err := c08NewWorld(cfg, baseG)
	if err != nil {
		return "", nil
	}
	for _, op := range ops {
		if op.K == "cmp" && w.viol != nil {
			break
		}
		w.apply(op)
		if w.viol != nil || w.stopped != "" {
			break
		}
	}
	w.finish()
	if w.viol != nil {
		return w.viol.sig, w
	}
	for _, f := range w.findings {
		if f.sig == want {
			return f.sig, w
		}
	}
	return "", w
}

// c08Shrink is ddmin over the operation list: it keeps a candidate only if
// the same signature shows up again.
func c08Shrink(cfg c08Cfg, ops []c08Op, sig string, baseG int, budget int) []c08Op {
	cur := append([]c08Op(nil), ops...)
	n := 2
	for len(cur) >= 2 && budget > 0 {
		chunk := (len(cur) + n - 1) / n
		reduced := false
		for start := 0; start < len(cur) && budget > 0; start += chunk {
			end := start + chunk
			if end > len(cur) {
				end = len(cur)
			}
			cand := append(append([]c08Op(nil), cur[:start]...), cur[end:]...)
			budget--
			if s, _ := c08Replay(cfg, cand, baseG, sig); s == sig {
				cur = cand
				if n > 2 {
					n--
				}
				reduced = true
				break
			}
		}
		if !reduced {
			if chunk == 1 {
				break
			}
			n *= 2
			if n > len(cur) {
				n = len(cur)
			}
		}
	}
	return cur
}

// c08ShrinkCfg tries simpler configurations for the shrunk witness.
func c08ShrinkCfg(cfg c08Cfg, ops []c08Op, sig string, baseG int) c08Cfg {
	try := func(c c08Cfg) bool {
		s, _ := c08Replay(c, ops, baseG, sig)
		return s == sig
	}
	if cfg.Gate {
		c := cfg
		c.Gate = false
		if try(c) {
			cfg = c
		}
	}
	if cfg.Init == "manifest" {
		c := cfg
		c.Init, c.manifest, c.ManifestQ, c.blocks, c.initTree, c.initDirs = "empty", "", "", nil, nil, nil
		if try(c) {
			cfg = c
		}
	}
	if cfg.CW != 4 {
		c := cfg
		c.CW = 4
		if try(c) {
			cfg = c
		}
	}
	return cfg
}

type c08Runner struct {
	run      *verifkit.Run
	baseG    int
	shrinks  int
	shrunk   map[string]int
	noShrink bool
	hung     bool // a save never returned: stop (leaked goroutines hold fs locks and throttle slots only of their own fs, but each further hang costs minutes)
}

// report records the outcome of one executed world.
func (r *c08Runner) report(w *c08World, cfg c08Cfg, nops int, prop string) {
	run := r.run
	run.Eval(w.evals)
	keys := make([]string, 0, len(w.cnt))
	for k := range w.cnt {
		keys = append(keys, k)
	}
	sort.Strings(keys)
	for _, k := range keys {
		if strings.HasPrefix(k, "open_") {
			continue // per flag combination: only counted as distinct combos below
		}
		run.Count(k, w.cnt[k])
	}
	k := w.keep
	k.mu.Lock()
	run.Count("keep_putb", k.nPut)
	run.Count("keep_putb_background", k.nPutBg)
	run.Count("keep_putb_during_save", k.nPutSave)
	run.Count("keep_putb_parked_on_the_wire", k.nParked)
	run.Count("keep_putb_buffer_changed_during_call", k.nBufChanged)
	run.Count("keep_putb_failed_background", k.nFailBg)
	run.Count("keep_putb_failed_during_save", k.nFailSave)
	run.Count("keep_readat", k.nRead)
	run.Count("keep_readat_block_missing", k.nReadMiss)
	k.mu.Unlock()
	run.Count("saves_ok", w.savesOK)
	run.Count("saves_failed", w.savesErr)
	if w.cnt["quiesce_timeout"] > 0 {
		run.Inconclusive(prop + ": background flushes did not finish within the watchdog")
	}
	report := func(v c08Viol) {
		ops := w.ops
		if v.opIdx >= 0 && v.opIdx+1 < len(ops) {
			ops = ops[:v.opIdx+1]
		}
		in := c08Input{Cfg: cfg, NOps: nops, Ops: c08OpStrings(ops)}
		detail := v.detail
		if r.shrunk == nil {
			r.shrunk = map[string]int{}
		}
		if w.hung {
			// a witness that never returns cannot be minimised by re-running it
			// (each attempt would block for minutes); after the first such
			// verdict this process also stops running further sequences
			r.hung = true
		} else if !r.noShrink && r.shrunk[v.sig] < 1 && r.shrinks < 6 {
			r.shrunk[v.sig]++
			r.shrinks++
			min := c08Shrink(cfg, ops, v.sig, r.baseG, 400)
			mcfg := c08ShrinkCfg(cfg, min, v.sig, r.baseG)
			min = c08Shrink(mcfg, min, v.sig, r.baseG, 200)
			if s, _ := c08Replay(mcfg, min, r.baseG, v.sig); s == v.sig {
				in.Minimal = c08OpStrings(min)
				in.MinCfg = &mcfg
				detail += fmt.Sprintf("\nminimal witness (maxBlockSize=%d, init=%s, parked-writes=%v):\n  %s", mcfg.BS, mcfg.Init, mcfg.Gate, strings.Join(in.Minimal, "\n  "))
			}
			// restore the package variables for the next case
			maxBlockSize, concurrentWriters = cfg.BS, cfg.CW
		}
		run.Violation(v.sig, detail, in)
	}
	if w.viol != nil {
		report(*w.viol)
	}
	seen := map[string]bool{}
	for _, f := range w.findings {
		if !seen[f.sig] {
			seen[f.sig] = true
			report(f)
		}
	}
}

func c08Feature(w *c08World, cfg c08Cfg) string {
	b := func(v bool, s string) string {
		if v {
			return s
		}
		return "-"
	}
	flags := 0
	for k := range w.cnt {
		if strings.HasPrefix(k, "open_") {
			flags++
		}
	}
	bucket := func(n int) string {
		switch {
		case n == 0:
			return "0"
		case n < 5:
			return "1-4"
		case n < 10:
			return "5-9"
		case n < 15:
			return "10-14"
		}
		return "15+"
	}
	return fmt.Sprintf("bs=%d,cw=%d,init=%s,%s,%s,%s,%s,%s,%s,openflags=%s,mustfail-rules=%s", cfg.BS, cfg.CW, cfg.Init,
		b(w.keep.nParked > 0, "parked"), b(w.keep.nPutBg > 0, "bgflush"), b(w.cnt["renamed"] > 0, "rename"),
		b(w.cnt["trunc_grow"] > 0 && w.cnt["trunc_shrink"] > 0, "trunc"), b(w.cnt["write_past_eof"] > 0, "sparse"),
		b(w.savesOK > 0, "saved"), bucket(flags), bucket(len(w.failSeen)))
}

func TestVerifC08(t *testing.T) {
	run := verifkit.Start(t, "C08")
	defer run.Finish()
	defer func(a, b int) { maxBlockSize, concurrentWriters = a, b }(maxBlockSize, concurrentWriters)
	// one driving goroutine plus short-lived flush goroutines: two Ps give real
	// parallelism between them without the scheduling overhead of 16 idle Ps
	// in each of the parallel child processes
	defer runtime.GOMAXPROCS(runtime.GOMAXPROCS(2))
	runtime.GC()
	r := &c08Runner{run: run, baseG: runtime.NumGoroutine()}

	n := run.N(2000, 100000)
	run.Cases("seq", n, func(i int, rng *verifkit.Rand) {
		cfg := c08GenCfg(rng, false)
		nops := rng.Range(50, 400)
		run.Input(c08Input{Cfg: cfg, NOps: nops}, false)
		w, err := c08NewWorld(cfg, r.baseG)
		if err != nil {
			run.Eval(1)
			run.Violation("C08:init:generated-valid-manifest-rejected", fmt.Sprintf("FileSystem() rejected the generated manifest %q: %v", cfg.manifest, err), nil)
			return
		}
		g := &c08Gen{rng: rng, w: w, maxSz: 8*cfg.BS + 16}
		for j := 0; j < nops && w.viol == nil && w.stopped == ""; j++ {
			w.apply(g.next())
		}
		w.finish()
		r.report(w, cfg, nops, "C08")
		if w.cnt["bytes_written"] == 0 && cfg.Init == "empty" {
			run.Trivial()
		} else {
			run.Feature(c08Feature(w, cfg))
		}
		if i < 2 {
			run.Sample(c08Input{Cfg: cfg, NOps: nops, Ops: c08OpStrings(w.ops[:c08Min(len(w.ops), 40)])})
		}
	})

	if run.Thorough() {
		// one smoke sequence at the production block size (64 MiB)
		run.Cases("smoke64m", 1, func(i int, rng *verifkit.Rand) {
			c08Smoke64M(r, rng)
		})
	}
}

func c08Min(a, b int) int {
	if a < b {
		return a
	}
	return b
}

// c08Smoke64M: writes that straddle the production 64 MiB block limit.
func c08Smoke64M(r *c08Runner, rng *verifkit.Rand) {
	cfg := c08Cfg{BS: 1 << 26, CW: 4, Init: "empty", names: c08PlainNames}
	cfg.Fault.Mode = "none"
	r.run.Input(c08Input{Cfg: cfg}, false)
	w, err := c08NewWorld(cfg, r.baseG)
	if err != nil {
		r.run.Inconclusive("C08 smoke64m: " + err.Error())
		return
	}
	bs := cfg.BS
	ops := []c08Op{
		{K: "open", H: 1, P: "big", Flag: 0x42}, // O_RDWR|O_CREATE
		{K: "write", H: 1, N: bs - 3, Pat: 1},
		{K: "write", H: 1, N: 7, Pat: 2},
		{K: "open", H: 2, P: "big", Flag: 0},
		{K: "seek", H: 2, Off: int64(bs - 5), Wh: 0},
		{K: "read", H: 2, N: 16},
		{K: "readall", H: 2, N: 1 << 20},
		{K: "seek", H: 1, Off: int64(bs - 1), Wh: 0},
		{K: "write", H: 1, N: bs + 2, Pat: 3},
		{K: "drain"},
		{K: "trunc", H: 1, N: bs + 1},
		{K: "seek", H: 2, Off: int64(bs - 2), Wh: 0},
		{K: "readall", H: 2, N: 5},
		{K: "save"},
		{K: "trunc", H: 1, N: bs - 1},
		{K: "hstat", H: 1},
	}
	for _, op := range ops {
		if w.viol != nil {
			break
		}
		w.apply(op)
	}
	w.finish()
	r.noShrink = true // no shrinking at this size
	r.report(w, cfg, len(ops), "C08")
	r.run.Feature("smoke-64MiB")
}
