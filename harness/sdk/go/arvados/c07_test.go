//go:build verif

package arvados

// C07 — block signatures verify only for the exact hash, token, expiry and
// key. Part 1 of 2 (sdk/go/arvados): SignLocator / VerifySignature /
// SignManifest against the reference in verifkit/c07ref.go (HMAC-SHA1 built
// from crypto/sha1, hand-written locator parser) and against
// /verif/pyref/c07_hmac.py (Python hmac; blob.rb transcribed).
// See /verif/DESIGN.md §5 C07.

import (
	"bufio"
	"encoding/hex"
	"encoding/json"
	"fmt"
	"io"
	"os"
	"os/exec"
	"path/filepath"
	"strings"
	"sync"
	"sync/atomic"
	"testing"
	"time"

	"git.arvados.org/arvados.git/internal/verifkit"
)

func c07Outcome(err error) string {
	switch err {
	case nil:
		return "ok"
	case ErrSignatureExpired:
		return "expired"
	case ErrSignatureInvalid:
		return "invalid"
	case ErrSignatureMissing:
		return "missing"
	}
	return "other"
}

// ---------------------------------------------------------------- python reference process

type c07Py struct {
	cmd  *exec.Cmd
	in   io.WriteCloser
	out  *bufio.Reader
	dead string
}

type c07PyItem struct {
	Op     string `json:"op"`
	Loc    string `json:"loc"`
	Token  string `json:"token"`
	Key    string `json:"key"`
	Expire int64  `json:"expire,omitempty"`
	Now    int64  `json:"now,omitempty"`
	TTL    int64  `json:"ttl"`
}

type c07PyResult struct {
	Signed    string `json:"signed"`
	Signature string `json:"signature"`
	Message   string `json:"message"`
	OK        bool   `json:"ok"`
	Why       string `json:"why"`
	Error     string `json:"error"`
}

func c07StartPy() *c07Py {
	p := &c07Py{}
	root := os.Getenv("VERIF_ROOT")
	if root == "" {
		root = "/verif"
	}
	script := filepath.Join(root, "pyref", "c07_hmac.py")
	if _, err := os.Stat(script); err != nil {
		p.dead = "python reference script missing: " + err.Error()
		return p
	}
	var exe string
	for _, name := range []string{"python3", "python3-vt"} {
		if x, err := exec.LookPath(name); err == nil {
			exe = x
			break
		}
	}
	if exe == "" {
		p.dead = "no python3 on PATH"
		return p
	}
	p.cmd = exec.Command(exe, "-u", script)
	p.cmd.Stderr = os.Stderr
	var err error
	if p.in, err = p.cmd.StdinPipe(); err != nil {
		p.dead = err.Error()
		return p
	}
	so, err := p.cmd.StdoutPipe()
	if err != nil {
		p.dead = err.Error()
		return p
	}
	p.out = bufio.NewReaderSize(so, 1<<20)
	if err := p.cmd.Start(); err != nil {
		p.dead = "cannot start python: " + err.Error()
	}
	return p
}

func (p *c07Py) Ask(items []c07PyItem) ([]c07PyResult, error) {
	if p.dead != "" {
		return nil, fmt.Errorf("%s", p.dead)
	}
	b, _ := json.Marshal(map[string]interface{}{"items": items})
	if _, err := p.in.Write(append(b, '\n')); err != nil {
		p.dead = "write to python: " + err.Error()
		return nil, err
	}
	line, err := p.out.ReadBytes('\n')
	if err != nil {
		p.dead = "read from python: " + err.Error()
		return nil, err
	}
	var resp struct {
		Results []c07PyResult `json:"results"`
		Error   string        `json:"error"`
	}
	if err := json.Unmarshal(line, &resp); err != nil {
		return nil, fmt.Errorf("python answered %q: %v", line, err)
	}
	if resp.Error != "" {
		return nil, fmt.Errorf("python: %s", resp.Error)
	}
	if len(resp.Results) != len(items) {
		return nil, fmt.Errorf("python answered %d results for %d items", len(resp.Results), len(items))
	}
	return resp.Results, nil
}

func (p *c07Py) Close() {
	if p.in != nil {
		p.in.Close()
	}
	if p.cmd != nil && p.cmd.Process != nil {
		done := make(chan bool, 1)
		go func() { p.cmd.Wait(); done <- true }()
		select {
		case <-done:
		case <-time.After(10 * time.Second):
			p.cmd.Process.Kill()
		}
	}
}

// ---------------------------------------------------------------- manifests

type c07MTok struct {
	Kind  string   `json:"kind"` // stream | loc | file
	Text  string   `json:"text"`
	Hash  string   `json:"hash,omitempty"`
	Other []string `json:"-"` // the '+'-separated parts after the hash that are not +A hints, in order
	OldA  int      `json:"old_sigs,omitempty"`
}

type c07Manifest struct {
	Text     string    `json:"text"`
	Toks     []c07MTok `json:"-"`
	Token    string    `json:"token"`
	KeyHex   string    `json:"key_hex"`
	TTLNanos int64     `json:"ttl_ns"`
	Expiry   int64     `json:"expiry_unix"`
	ExpNanos int64     `json:"expiry_ns_part"`
}

func c07GenName(rng *verifkit.Rand, file bool) string {
	pieces := []string{"a", "b", "foo", "bar", ".", "_", "-", "+", "@", ":", "\\040", "\\134", "\\011", "A", "+A", "0", "9", "é", "+A0123456789abcdef0123456789abcdef01234567@7fffffff"}
	n := rng.Range(1, 5)
	s := ""
	for i := 0; i < n; i++ {
		s += pieces[rng.Intn(len(pieces))]
	}
	if rng.Chance(1, 12) {
		// a name that is itself a (signed) locator
		s = rng.Hex(32) + "+" + fmt.Sprint(rng.Intn(1000)) + "+A" + rng.Hex(40) + "@" + rng.Hex(8)
	}
	if !file && (s == "." || s == "..") {
		s = "d" + s
	}
	return s
}

func c07GenManifest(rng *verifkit.Rand, now int64) c07Manifest {
	var m c07Manifest
	base := verifkit.C07GenCase(rng, now) // token, key, ttl, expiry drawn as for locators
	m.Token, m.KeyHex, m.TTLNanos, m.Expiry, m.ExpNanos = base.Token, base.KeyHex, base.TTLNanos, base.Expiry, base.ExpiryNanos
	var sb strings.Builder
	nstreams := rng.PickInt(1, 1, 2, 3, 4, 6)
	for s := 0; s < nstreams; s++ {
		name := "."
		for d := rng.PickInt(0, 0, 1, 1, 2, 3); d > 0; d-- {
			name += "/" + c07GenName(rng, false)
		}
		m.Toks = append(m.Toks, c07MTok{Kind: "stream", Text: name})
		for b := rng.PickInt(1, 1, 2, 3, 5, 9); b > 0; b-- {
			lc := verifkit.C07GenCase(rng, now)
			if lc.Size == "" && !rng.Chance(1, 6) {
				lc.Size = fmt.Sprint(rng.Intn(1 << 26))
			}
			t := c07MTok{Kind: "loc", Hash: lc.Hash}
			var parts []string
			if lc.Size != "" {
				parts = append(parts, lc.Size)
			}
			parts = append(parts, lc.HintsBefore...)
			oldsig := func() string {
				switch rng.Intn(4) {
				case 0: // a genuinely valid signature, for another token/expiry/key
					return verifkit.C07RefHint(lc.Key(), lc.Hash, lc.Token, lc.Expiry, lc.TTL())
				case 1: // the very signature SignManifest is about to produce
					return verifkit.C07RefHint(base.Key(), lc.Hash, m.Token, m.Expiry, time.Duration(m.TTLNanos))
				case 2:
					return "A" + strings.ToUpper(rng.Hex(40)) + "@" + rng.Hex(8)
				}
				return "A" + rng.Hex(40) + "@" + rng.Hex(8)
			}
			switch rng.Intn(10) {
			case 0, 1, 2: // unsigned
				parts = append(parts, lc.HintsAfter...)
			case 3: // two old signatures
				parts = append(parts, oldsig())
				parts = append(parts, lc.HintsAfter...)
				parts = append(parts, oldsig())
				t.OldA = 2
			case 4: // old signature first, every other hint after it
				parts = append([]string{}, parts[:0]...)
				if lc.Size != "" {
					parts = append(parts, lc.Size)
				}
				parts = append(parts, oldsig())
				parts = append(parts, lc.HintsBefore...)
				parts = append(parts, lc.HintsAfter...)
				t.OldA = 1
			default: // old signature between the hints
				parts = append(parts, oldsig())
				parts = append(parts, lc.HintsAfter...)
				t.OldA = 1
			}
			t.Text = lc.Hash
			for _, p := range parts {
				t.Text += "+" + p
				if p[0] != 'A' {
					t.Other = append(t.Other, p)
				}
			}
			m.Toks = append(m.Toks, t)
		}
		pos := 0
		for f := rng.PickInt(1, 1, 2, 3, 6); f > 0; f-- {
			sz := rng.PickInt(0, 1, 3, 1000, 67108864)
			m.Toks = append(m.Toks, c07MTok{Kind: "file", Text: fmt.Sprintf("%d:%d:%s", pos, sz, c07GenName(rng, true))})
			pos += sz
		}
	}
	// serialise: tokens of one stream separated by one space, streams ended by "\n"
	for i, t := range m.Toks {
		if i > 0 {
			if t.Kind == "stream" {
				sb.WriteString("\n")
			} else {
				sb.WriteString(" ")
			}
		}
		sb.WriteString(t.Text)
	}
	sb.WriteString("\n")
	m.Text = sb.String()
	return m
}

// c07Split cuts s into alternating runs: ws[0] tok[0] ws[1] tok[1] … ws[n]
// (whitespace = space, \t, \n, \v, \f, \r — the ASCII set of \s).
func c07Split(s string) (ws, toks []string) {
	isWS := func(b byte) bool { return b == ' ' || (b >= 9 && b <= 13) }
	i := 0
	for {
		j := i
		for j < len(s) && isWS(s[j]) {
			j++
		}
		ws = append(ws, s[i:j])
		if j == len(s) {
			return
		}
		i = j
		for j < len(s) && !isWS(s[j]) {
			j++
		}
		toks = append(toks, s[i:j])
		i = j
	}
}

// ---------------------------------------------------------------- the check

func TestVerifC07(t *testing.T) {
	run := verifkit.Start(t, "C07")
	defer run.Finish()

	if msg := verifkit.C07SelfTest(verifkit.NewRand(run.Seed() ^ 0xc07)); msg != "" {
		run.Inconclusive("reference HMAC self-test failed: " + msg)
		return
	}
	c07Concurrent(run)
	py := c07StartPy()
	defer py.Close()
	pyFailed := func(err error) {
		run.Inconclusive("python reference (pyref/c07_hmac.py) unusable: " + err.Error())
	}
	// the upstream unit-test vector, through Python only (sanity of the transcription)
	if res, err := py.Ask([]c07PyItem{{Op: "sign", Loc: "acbd18db4cc2f85cedef654fccc4a4d8+3", Token: "hocfupkn2pjhrpgp2vxv8rsku7tvtx49arbc9s4bvu7p7wxqvk",
		Key: fmt.Sprintf("%x", "13u9fkuccnboeewr0ne3mvapk28epf68a3bhj9q8sb4l6e4e5mkk"+
			"p6nhj2mmpscgu1zze5h5enydxfe3j215024u16ij4hjaiqs5u4pzsl3nczmaoxnc"+
			"ljkm4875xqn4xv058koz3vkptmzhyheiy6wzevzjmdvxhvcqsvr5abhl15c2d4o4"+
			"jhl0s91lojy1mtrzqqvprqcverls0xvy9vai9t1l1lvvazpuadafm71jl4mrwq2y"+
			"gokee3eamvjy8qq1fvy238838enjmy5wzy2md7yvsitp5vztft6j4q866efym7e6"+
			"vu5wm9fpnwjyxfldw3vbo01mgjs75rgo7qioh8z8ij7jpyp8508okhgbbex3ceei"+
			"786u5rw2a9gx743dj3fgq2irk"), Expire: 0x7fffffff, TTL: 1209600}}); err != nil {
		pyFailed(err)
	} else if res[0].Signed != "acbd18db4cc2f85cedef654fccc4a4d8+3+A89118b78732c33104a4d6231e8b5a5fa1e4301e3@7fffffff" {
		run.Inconclusive("python reference does not reproduce the published test vector: " + res[0].Signed)
	}

	pyReported := false
	expAlts := 2
	if run.Thorough() {
		expAlts = 15
	}

	// ------------------------------------------------------------ locators
	run.Cases("locators", run.N(10000, 100000), func(i int, rng *verifkit.Rand) {
		now := time.Now().Unix()
		c := verifkit.C07GenCase(rng, now)
		if rng.Chance(1, 16) {
			// an +R hint next to the signature (never without one)
			c.RHint = true
			h := "Rzzzzz-" + rng.String(rng.Range(1, 30), "abcdefghijklmnopqrstuvwxyz0123456789@_-")
			if rng.Bool() {
				c.HintsBefore = append(c.HintsBefore, h)
			} else {
				c.HintsAfter = append([]string{h}, c.HintsAfter...)
			}
		}
		run.Input(c, false)
		key, ttl := c.Key(), c.TTL()

		// S1: the real signer against the reference
		want := c.Base() + "+" + verifkit.C07RefHint(key, c.Hash, c.Token, c.Expiry, ttl)
		got := SignLocator(c.Base(), c.Token, time.Unix(c.Expiry, c.ExpiryNanos), ttl, key)
		run.Eval(1)
		if got != want {
			what := "signature"
			switch {
			case !strings.HasPrefix(got, c.Base()+"+A"):
				what = "locator-prefix"
			case len(got) != len(want):
				what = "length"
			case got[len(got)-9:] != want[len(want)-9:]:
				what = "expiry-field"
			}
			sub := ""
			if c.TTLNanos%1e9 != 0 {
				sub = ":subsecond-ttl"
			}
			run.Violation("C07:sign:differs-from-reference:"+what+sub,
				fmt.Sprintf("SignLocator(%q, token %q, expiry %d(+%dns), ttl %v, key %s)\n   = %q\n want %q  (HMAC-SHA1(key, %q))", c.Base(), c.Token, c.Expiry, c.ExpiryNanos, ttl, c.KeyHex, got, want,
					c.Hash+"@"+c.Token+"@"+verifkit.C07ExpHex(c.Expiry)+"@"+verifkit.C07TTLHex(ttl)), c)
		}

		// V*: every presentation, judged by the reference
		signed := want + c.Tail()
		perts := verifkit.C07Perturbations(&c, signed, rng, expAlts)
		outs := make([]string, len(perts))
		exps := make([]verifkit.C07Exp, len(perts))
		for k := range perts {
			p := &perts[k]
			out := c07Outcome(VerifySignature(p.Loc, p.Token, p.TTL(), p.Key()))
			e := verifkit.C07Expect(p.Loc, p.Token, p.TTL(), p.Key(), now)
			outs[k], exps[k] = out, e
			if e.NearNow {
				run.Count("skipped_near_now", 1)
				continue
			}
			run.Eval(1)
			run.Count("obs:"+e.Class+":"+out, 1)
			run.Count("pert:"+p.Kind, 1)
			if p.Kind != "none" && e.MustVerify {
				// a "perturbation" that is the same HMAC key (trailing NUL of a short key)
				run.Count("perturbation_equivalent_by_reference", 1)
			}
			if sym := verifkit.C07Judge(e, out); sym != "" {
				run.Violation("C07:verify:"+sym+":"+p.Kind+":"+e.Class,
					fmt.Sprintf("VerifySignature(%q, token %q, ttl %v, key %s) = %s; the reference says %s (perturbation %s %s of a locator signed for token %q ttl %v key %s expiry %d; now %d)",
						p.Loc, p.Token, p.TTL(), p.KeyHx, out, e.Class, p.Kind, p.What, c.Token, ttl, c.KeyHex, c.Expiry, now),
					map[string]interface{}{"case": c, "presented": p})
			}
		}

		// X*: the Python transcription of blob.rb on the signer and on a sample of the presentations
		items := []c07PyItem{{Op: "sign", Loc: c.Base(), Token: c.Token, Key: c.KeyHex, Expire: c.Expiry, TTL: c.TTLNanos / 1e9}}
		idx := []int{0}
		for _, k := range rng.Perm(len(perts) - 1)[:10] {
			idx = append(idx, k+1)
		}
		for _, k := range idx {
			p := &perts[k]
			items = append(items, c07PyItem{Op: "verify", Loc: p.Loc, Token: p.Token, Key: p.KeyHx, Now: now, TTL: p.TTLNs / 1e9})
		}
		if res, err := py.Ask(items); err != nil {
			run.Count("python_errors", 1)
			if !pyReported { // say it once per child
				pyReported = true
				pyFailed(err)
			}
		} else {
			run.Eval(1)
			run.Count("python_sign_pairs", 1)
			if res[0].Signed != want {
				run.Inconclusive(fmt.Sprintf("the two references disagree on a signature: python %q, go-ref %q", res[0].Signed, want))
			} else if res[0].Signed != got {
				run.Violation("C07:sign:differs-from-blob.rb", fmt.Sprintf("SignLocator = %q, blob.rb transcription = %q (message %q)", got, res[0].Signed, res[0].Message), c)
			}
			for j, k := range idx {
				r, e, p := res[j+1], exps[k], &perts[k]
				if e.NearNow {
					continue
				}
				run.Eval(1)
				run.Count("python_verify_pairs", 1)
				if r.OK != e.MustVerify {
					run.Inconclusive(fmt.Sprintf("the two references disagree: python ok=%v (%s), go-ref %s for %q token %q", r.OK, r.Why, e.Class, p.Loc, p.Token))
				} else if r.OK != (outs[k] == "ok") {
					run.Violation("C07:verify:differs-from-blob.rb:"+p.Kind+":"+e.Class,
						fmt.Sprintf("VerifySignature(%q, token %q, ttl %v, key %s) = %s but blob.rb's verify_signature says ok=%v (%s)", p.Loc, p.Token, p.TTL(), p.KeyHx, outs[k], r.OK, r.Why),
						map[string]interface{}{"case": c, "presented": p})
				}
			}
		}

		run.Feature(c.Feature())
		if i < 2 {
			run.Sample(map[string]interface{}{"case": c, "reference_signed_locator": signed, "presentations": len(perts)})
		}
	})

	// ------------------------------------------------------------ manifests
	run.Cases("manifests", run.N(2400, 24000), func(i int, rng *verifkit.Rand) {
		now := time.Now().Unix()
		m := c07GenManifest(rng, now)
		run.Input(m, false)
		key, _ := hex.DecodeString(m.KeyHex)
		ttl := time.Duration(m.TTLNanos)
		out := SignManifest(m.Text, m.Token, time.Unix(m.Expiry, m.ExpNanos), ttl, key)
		bad := func(sig, detail string) {
			run.Violation(sig, fmt.Sprintf("%s\n  in : %q\n  out: %q\n  token %q ttl %v expiry %d key %s", detail, m.Text, out, m.Token, ttl, m.Expiry, m.KeyHex), m)
		}
		wsIn, tokIn := c07Split(m.Text)
		wsOut, tokOut := c07Split(out)
		run.Eval(1)
		if len(tokIn) != len(m.Toks) {
			run.Inconclusive(fmt.Sprintf("manifest generator/tokenizer mismatch: %d vs %d tokens in %q", len(tokIn), len(m.Toks), m.Text))
			return
		}
		if len(tokOut) != len(tokIn) {
			bad("C07:manifest:token-count-changed", fmt.Sprintf("%d tokens in, %d tokens out", len(tokIn), len(tokOut)))
			return
		}
		for k := range wsIn {
			if wsIn[k] != wsOut[k] {
				bad("C07:manifest:whitespace-changed", fmt.Sprintf("whitespace run %d: %q -> %q", k, wsIn[k], wsOut[k]))
				return
			}
		}
		nloc, nold := 0, 0
		for k, tk := range m.Toks {
			run.Eval(1)
			o := tokOut[k]
			if tk.Kind != "loc" {
				run.Count("manifest_"+tk.Kind+"_tokens", 1)
				if o != tk.Text {
					bad("C07:manifest:"+tk.Kind+"-token-changed", fmt.Sprintf("token %d (%s): %q -> %q", k, tk.Kind, tk.Text, o))
				}
				continue
			}
			nloc++
			nold += tk.OldA
			run.Count("manifest_locators", 1)
			run.Count(fmt.Sprintf("manifest_locators_with_%d_old_signatures", tk.OldA), 1)
			parts := strings.Split(o, "+")
			var ahints, other []string
			for _, p := range parts[1:] {
				if strings.HasPrefix(p, "A") {
					ahints = append(ahints, p)
				} else {
					other = append(other, p)
				}
			}
			wantA := verifkit.C07RefHint(key, tk.Hash, m.Token, m.Expiry, ttl)
			old := fmt.Sprintf("old%d", tk.OldA)
			switch {
			case parts[0] != tk.Hash:
				bad("C07:manifest:locator-hash-changed", fmt.Sprintf("token %d: %q -> %q", k, tk.Text, o))
			case len(ahints) == 0:
				bad("C07:manifest:locator-not-signed:"+old, fmt.Sprintf("token %d: %q -> %q (want +%s)", k, tk.Text, o, wantA))
			case len(ahints) > 1:
				bad("C07:manifest:old-signature-kept:"+old, fmt.Sprintf("token %d: %q -> %q carries %d +A hints (want only +%s)", k, tk.Text, o, len(ahints), wantA))
			case ahints[0] != wantA:
				bad("C07:manifest:signature-differs-from-reference:"+old, fmt.Sprintf("token %d: %q -> %q, want +%s", k, tk.Text, o, wantA))
			}
			if strings.Join(other, "+") != strings.Join(tk.Other, "+") {
				bad("C07:manifest:other-hints-changed:"+old, fmt.Sprintf("token %d: %q -> %q: hints other than +A were %q, are %q", k, tk.Text, o, tk.Other, other))
			}
			// the freshly signed locator must be usable (judged by the reference)
			e := verifkit.C07Expect(o, m.Token, ttl, key, now)
			if !e.NearNow {
				run.Eval(1)
				res := c07Outcome(VerifySignature(o, m.Token, ttl, key))
				if sym := verifkit.C07Judge(e, res); sym != "" {
					bad("C07:manifest:verify:"+sym+":"+e.Class, fmt.Sprintf("token %d: VerifySignature(%q) = %s, reference says %s", k, o, res, e.Class))
				}
			}
		}
		run.Feature(fmt.Sprintf("manifest:streams%d,locs<=%d,oldsigs<=%d", strings.Count(m.Text, "\n"), c07Bucket(nloc), c07Bucket(nold)))
		if i < 2 {
			run.Sample(map[string]interface{}{"manifest": m.Text, "signed": out})
		}
	})

	// ------------------------------------------------------------ unjudged observation
	// ttl-hex of a TTL whose fraction is within a float64 ulp of the next
	// second: the statement does not say how a fractional TTL is rendered
	// beyond "ttl-hex"; observed and reported, never judged.
	run.Cases("ttl-fraction-observation", 64, func(i int, rng *verifkit.Rand) {
		c := verifkit.C07GenCase(rng, time.Now().Unix())
		sec := int64(rng.Range(1<<24, 1<<30))
		c.TTLNanos = sec*1e9 + 999999999
		run.Input(c, false)
		got := SignLocator(c.Hash, c.Token, time.Unix(c.Expiry, 0), c.TTL(), c.Key())
		switch got {
		case c.Hash + "+" + verifkit.C07RefHint(c.Key(), c.Hash, c.Token, c.Expiry, time.Duration(sec)*time.Second):
			run.Count("unjudged_ttl_x.999999999s_signed_as_floor", 1)
		case c.Hash + "+" + verifkit.C07RefHint(c.Key(), c.Hash, c.Token, c.Expiry, time.Duration(sec+1)*time.Second):
			run.Count("unjudged_ttl_x.999999999s_signed_as_next_second", 1)
		default:
			run.Count("unjudged_ttl_x.999999999s_signed_as_other", 1)
		}
		run.Trivial()
	})

	if py.dead != "" && !run.Replaying() {
		run.Inconclusive("python reference died: " + py.dead)
	}
}

func c07Bucket(n int) int {
	switch {
	case n <= 3:
		return n
	case n <= 8:
		return 8
	case n <= 20:
		return 20
	}
	return 99
}

// c07Concurrent: signing and verifying from several goroutines at once (as
// concurrent keepstore handlers do) must give exactly the same results as
// one call at a time: whatever state the implementation shares between calls
// (compiled regexps, keyed hashes, caches), a signature is the reference HMAC
// of ITS OWN hash/token/expiry/ttl/key, a correct locator verifies, and a
// locator verified with another key or token does not.
func c07Concurrent(run *verifkit.Run) {
	n := run.N(12, 200)
	run.Cases("conc", n, func(i int, rng *verifkit.Rand) {
		workers := rng.Range(4, 8)
		iters := run.N(400, 1500)
		now := time.Now().Unix()
		var wg sync.WaitGroup
		var bad int64
		var first atomic.Value
		// a process normally signs and verifies with ONE key (the cluster's):
		// all workers share it; every fourth case uses two keys alternately
		keys := [][]byte{rng.Bytes(rng.Range(1, 80))}
		if i%4 == 3 {
			keys = append(keys, rng.Bytes(rng.Range(1, 80)))
		}
		for w := 0; w < workers; w++ {
			wrng := rng.Fork()
			wg.Add(1)
			go func() {
				defer wg.Done()
				for k := 0; k < iters; k++ {
					key := keys[wrng.Intn(len(keys))]
					key2 := append(append([]byte(nil), key...), 'x')
					hash := wrng.Hex(32)
					token := wrng.String(wrng.Range(1, 50), "abcdefghijklmnopqrstuvwxyz0123456789")
					ttl := time.Duration(wrng.Range(1, 1209600)) * time.Second
					exp := now + int64(wrng.Range(3600, 86400*30))
					loc := fmt.Sprintf("%s+%d", hash, wrng.Range(0, 67108864))
					signed := SignLocator(loc, token, time.Unix(exp, 0), ttl, key)
					want := loc + "+" + verifkit.C07RefHint(key, hash, token, exp, ttl)
					fail := ""
					if signed != want {
						fail = fmt.Sprintf("SignLocator under concurrency returned %q, reference %q", signed, want)
					} else if err := VerifySignature(want, token, ttl, key); err != nil {
						fail = fmt.Sprintf("VerifySignature under concurrency rejected a correct unexpired locator: %v", err)
					} else if err := VerifySignature(want, token, ttl, key2); err == nil {
						fail = "VerifySignature under concurrency accepted a locator with another key"
					} else if err := VerifySignature(want, token+"y", ttl, key); err == nil {
						fail = "VerifySignature under concurrency accepted a locator with another token"
					}
					if fail != "" {
						if atomic.AddInt64(&bad, 1) == 1 {
							first.Store(fail)
						}
					}
				}
			}()
		}
		wg.Wait()
		run.Eval(workers * iters * 4)
		run.Count("conc_sign_verify_rounds", workers*iters)
		run.Feature(fmt.Sprintf("conc:workers=%d", workers))
		if bad > 0 {
			msg, _ := first.Load().(string)
			run.Violation("C07:conc:sign-or-verify-differs-under-concurrency", fmt.Sprintf("%d of %d concurrent rounds wrong; first: %s", bad, workers*iters, msg), nil)
		}
	})
}
