//go:build verif

// C13 harness part 3: files shared by several workers through separate
// handles; history recorded at the File boundary and checked for
// linearizability against a byte-array model (C-2).

package arvados

import (
	"fmt"
	"io"
	"os"
	"sort"
	"strings"
	"sync"
	"sync/atomic"
	"time"

	"git.arvados.org/arvados.git/internal/verifkit/porcupine"
)

type c13SIn struct {
	File int
	Kind byte // w write at offset, a append, r read, t truncate, s size
	Off  int
	Data string
	N    int
}

type c13SOut struct {
	N    int
	Data string
	Size int
}

type c13Shared struct {
	idx     int
	path    string
	parts   []int
	mu      sync.Mutex
	hist    []porcupine.Operation
	tainted bool
	nextTag int32
	burst   int32 // >0: participants are asked to operate on this file now
	// for C-3: which byte values were ever written where (recorded before the call)
	writes []c13SWrite
}

type c13SWrite struct {
	call int64
	off  int // -1: append
	n    int
	tag  byte
}

type c13SharedH struct {
	sf    *c13Shared
	f     File
	app   bool
	quota int
}

func (sh *c13SharedH) open(w *c13Worker) bool {
	flag := os.O_RDWR
	if sh.app {
		flag |= os.O_APPEND
	}
	f, err := w.e.fs.OpenFile(sh.sf.path, flag, 0)
	if err != nil {
		w.viol("C13:C2:shared-op-error:open", fmt.Sprintf("OpenFile(%q): %v", sh.sf.path, err))
		return false
	}
	sh.f = f
	return true
}

// joinBurst: another participant is operating on a shared file right now —
// do the same, so that operations on it overlap.
func (w *c13Worker) joinBurst() *c13SharedH {
	for _, sh := range w.sh {
		if sh.quota > 0 && atomic.LoadInt32(&sh.sf.burst) > 0 {
			atomic.AddInt32(&sh.sf.burst, -1)
			return sh
		}
	}
	return nil
}

func (w *c13Worker) pickShared() *c13SharedH {
	var c []*c13SharedH
	for _, sh := range w.sh {
		if sh.quota > 0 {
			c = append(c, sh)
		}
	}
	if len(c) == 0 {
		return nil
	}
	sh := c[w.rng.Intn(len(c))]
	if atomic.LoadInt32(&sh.sf.burst) <= 0 {
		atomic.StoreInt32(&sh.sf.burst, int32(w.rng.Range(3, 8)))
	}
	return sh
}

func (w *c13Worker) sharedOp(sh *c13SharedH) {
	e := w.e
	sf := sh.sf
	sh.quota--
	bs := e.cfg.BlockSize
	maxOff := 3*bs + 2
	in := c13SIn{File: sf.idx}
	switch r := w.rng.Intn(100); {
	case r < 40:
		in.Kind = 'w'
		if sh.app {
			in.Kind = 'a'
		}
	case r < 75:
		in.Kind = 'r'
	case r < 88:
		in.Kind = 't'
	default:
		in.Kind = 's'
	}
	var out c13SOut
	var err error
	var call int64
	switch in.Kind {
	case 'w', 'a':
		tag := byte(atomic.AddInt32(&sf.nextTag, 1))
		n := w.sizeChoice()
		if n > 2*bs+1 {
			n = 2*bs + 1
		}
		in.Data = strings.Repeat(string([]byte{tag}), n)
		in.Off = -1
		if in.Kind == 'w' {
			in.Off = w.rng.Intn(maxOff + 1)
			if w.rng.Chance(1, 3) {
				in.Off = w.rng.Intn(2) * bs // block-aligned, likely to be overwritten again
			}
			if _, err = sh.f.Seek(int64(in.Off), io.SeekStart); err != nil {
				break
			}
		}
		w.logf("shared %s %c off=%d tag=%d n=%d", sf.path, in.Kind, in.Off, tag, n)
		call = atomic.AddInt64(&e.clk, 1)
		sf.mu.Lock()
		sf.writes = append(sf.writes, c13SWrite{call: call, off: in.Off, n: n, tag: tag})
		sf.mu.Unlock()
		out.N, err = sh.f.Write([]byte(in.Data))
		if err == nil && out.N != n {
			err = fmt.Errorf("short write: %d of %d", out.N, n)
		}
	case 'r':
		in.Off = w.rng.Intn(maxOff + bs + 1)
		in.N = w.rng.Range(1, 2*bs+2)
		if _, err = sh.f.Seek(int64(in.Off), io.SeekStart); err != nil {
			break
		}
		w.logf("shared %s read off=%d n=%d", sf.path, in.Off, in.N)
		buf := make([]byte, in.N)
		call = atomic.AddInt64(&e.clk, 1)
		var n int
		n, err = sh.f.Read(buf) // ONE Read call: atomic under the file's read lock
		out.N, out.Data = n, string(buf[:n])
		if err == io.EOF {
			err = nil
		}
	case 't':
		in.N = w.rng.Intn(maxOff + bs)
		if w.rng.Chance(1, 4) {
			in.N = 0
		}
		w.logf("shared %s truncate %d", sf.path, in.N)
		call = atomic.AddInt64(&e.clk, 1)
		err = sh.f.Truncate(int64(in.N))
	case 's':
		w.logf("shared %s size", sf.path)
		call = atomic.AddInt64(&e.clk, 1)
		if w.rng.Bool() {
			out.Size = int(sh.f.Size())
		} else {
			var fi os.FileInfo
			fi, err = sh.f.Stat()
			if err == nil {
				out.Size = int(fi.Size())
			}
		}
	}
	ret := atomic.AddInt64(&e.clk, 1)
	w.eval(1)
	e.count("shared_ops", 1)
	e.count("shared_ops_"+string(in.Kind), 1)
	if err != nil {
		sf.mu.Lock()
		sf.tainted = true
		sf.mu.Unlock()
		w.viol("C13:C2:shared-op-error:"+string(in.Kind), fmt.Sprintf("operation %c on shared file %q failed: %v", in.Kind, sf.path, err))
		return
	}
	sf.mu.Lock()
	sf.hist = append(sf.hist, porcupine.Operation{ClientId: w.id, Input: in, Call: call, Output: out, Return: ret})
	sf.mu.Unlock()
}

// finalReads appends a sequence of single Read calls covering the whole file
// to the history (client 99, after everything else) and returns the content.
func (e *c13Env) finalReads(sf *c13Shared) ([]byte, error) {
	f, err := e.fs.OpenFile(sf.path, os.O_RDONLY, 0)
	if err != nil {
		return nil, err
	}
	var all []byte
	for i := 0; i < 200; i++ {
		in := c13SIn{File: sf.idx, Kind: 'r', Off: len(all), N: 64}
		buf := make([]byte, in.N)
		call := atomic.AddInt64(&e.clk, 1)
		n, err := f.Read(buf)
		ret := atomic.AddInt64(&e.clk, 1)
		if err != nil && err != io.EOF {
			return all, err
		}
		if i < 8 || n == 0 {
			sf.hist = append(sf.hist, porcupine.Operation{ClientId: 99, Input: in, Call: call, Output: c13SOut{N: n, Data: string(buf[:n])}, Return: ret})
		}
		all = append(all, buf[:n]...)
		if n == 0 {
			return all, nil
		}
	}
	return all, fmt.Errorf("no EOF after 200 reads")
}

func c13SharedModel() porcupine.Model {
	return porcupine.Model{
		Partition: func(history []porcupine.Operation) [][]porcupine.Operation {
			m := map[int][]porcupine.Operation{}
			var keys []int
			for _, op := range history {
				k := op.Input.(c13SIn).File
				if _, ok := m[k]; !ok {
					keys = append(keys, k)
				}
				m[k] = append(m[k], op)
			}
			sort.Ints(keys)
			var out [][]porcupine.Operation
			for _, k := range keys {
				out = append(out, m[k])
			}
			return out
		},
		Init: func() interface{} { return "" },
		Step: func(state, input, output interface{}) (bool, interface{}) {
			st := state.(string)
			in := input.(c13SIn)
			out := output.(c13SOut)
			switch in.Kind {
			case 'w':
				return out.N == len(in.Data), string(c13WriteAt([]byte(st), in.Off, []byte(in.Data)))
			case 'a':
				return out.N == len(in.Data), st + in.Data
			case 'r':
				if out.N == 0 {
					return in.Off >= len(st), st // nothing is returned only at/after EOF
				}
				return in.Off+out.N <= len(st) && st[in.Off:in.Off+out.N] == out.Data, st
			case 't':
				return true, string(c13Resize([]byte(st), in.N))
			case 's':
				return out.Size == len(st), st
			}
			return false, st
		},
		Equal: func(a, b interface{}) bool { return a.(string) == b.(string) },
		DescribeOperation: func(in, out interface{}) string {
			return c13DescribeSOp(in.(c13SIn), out.(c13SOut))
		},
	}
}

func c13DescribeSOp(in c13SIn, out c13SOut) string {
	switch in.Kind {
	case 'w':
		return fmt.Sprintf("write(off=%d, %d x %#02x)", in.Off, len(in.Data), in.Data[0])
	case 'a':
		return fmt.Sprintf("append(%d x %#02x)", len(in.Data), in.Data[0])
	case 'r':
		return fmt.Sprintf("read(off=%d, max=%d) -> %x", in.Off, in.N, out.Data)
	case 't':
		return fmt.Sprintf("truncate(%d)", in.N)
	}
	return fmt.Sprintf("size() -> %d", out.Size)
}

// checkShared runs porcupine on one shared file's history.
func (e *c13Env) checkShared(sf *c13Shared) {
	hist := sf.hist
	overlap := 0
	for a := 0; a < len(hist); a++ {
		for b := a + 1; b < len(hist); b++ {
			if hist[a].Call < hist[b].Return && hist[b].Call < hist[a].Return {
				overlap++
			}
		}
	}
	e.count("shared_overlapping_pairs", overlap)
	e.overlap += overlap
	if len(hist) > e.maxHist {
		e.maxHist = len(hist)
	}
	res, _ := porcupine.CheckOperationsVerbose(c13SharedModel(), hist, 120*time.Second)
	atomic.AddInt64(&e.evals, 1)
	switch res {
	case porcupine.Ok:
		e.count("histories_checked", 1)
		e.count("history_ops_checked", len(hist))
	case porcupine.Unknown:
		e.run.Inconclusive(fmt.Sprintf("porcupine timed out on a history of %d operations", len(hist)))
	default:
		sort.Slice(hist, func(a, b int) bool { return hist[a].Call < hist[b].Call })
		var sb strings.Builder
		for _, op := range hist {
			fmt.Fprintf(&sb, "  client %d [%d,%d] %s\n", op.ClientId, op.Call, op.Return, c13DescribeSOp(op.Input.(c13SIn), op.Output.(c13SOut)))
		}
		e.violation("C13:C2:shared-history-not-linearizable", fmt.Sprintf("history of shared file %q (each client has its own handle; [call,return] on one logical clock) is not linearizable w.r.t. a byte array that starts empty:\n%s", sf.path, sb.String()))
	}
}
