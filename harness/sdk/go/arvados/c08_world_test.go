//go:build verif

package arvados

// C08 — the "world": the real collection filesystem next to the reference
// model, the operations that drive both, and the judgement of every result.

import (
	"bytes"
	"fmt"
	"io"
	"os"
	"runtime"
	"sort"
	"strconv"
	"strings"
	"sync/atomic"
	"time"

	"git.arvados.org/arvados.git/internal/verifkit"
)

type c08Op struct {
	K     string // open write read readall seek trunc hstat close mkdir remove removeall rename stat readdir readdirn flush save sync release drain cmp
	P, P2 string
	H     int // handle id
	Flag  int
	Dir   bool
	N     int
	Pat   uint32
	Off   int64
	Wh    int
	Short bool
}

func c08FlagString(flag int) string {
	var s []string
	switch flag & 3 {
	case os.O_RDONLY:
		s = append(s, "O_RDONLY")
	case os.O_WRONLY:
		s = append(s, "O_WRONLY")
	case os.O_RDWR:
		s = append(s, "O_RDWR")
	default:
		s = append(s, "O_WRONLY|O_RDWR")
	}
	for _, f := range []struct {
		v int
		n string
	}{{os.O_CREATE, "O_CREATE"}, {os.O_EXCL, "O_EXCL"}, {os.O_TRUNC, "O_TRUNC"}, {os.O_APPEND, "O_APPEND"}} {
		if flag&f.v != 0 {
			s = append(s, f.n)
		}
	}
	if flag&os.O_SYNC == os.O_SYNC {
		s = append(s, "O_SYNC")
	}
	return strings.Join(s, "|")
}

func (o c08Op) String() string {
	switch o.K {
	case "open":
		d := ""
		if o.Dir {
			d = " perm=ModeDir"
		}
		return fmt.Sprintf("h%d=OpenFile(%q, %s)%s", o.H, o.P, c08FlagString(o.Flag), d)
	case "write":
		return fmt.Sprintf("h%d.Write(%d bytes pat=%d)", o.H, o.N, o.Pat)
	case "read":
		return fmt.Sprintf("h%d.Read(buf[%d])", o.H, o.N)
	case "readall":
		return fmt.Sprintf("h%d.ReadAll(chunk=%d)", o.H, o.N)
	case "seek":
		return fmt.Sprintf("h%d.Seek(%d, %d)", o.H, o.Off, o.Wh)
	case "trunc":
		return fmt.Sprintf("h%d.Truncate(%d)", o.H, o.N)
	case "hstat":
		return fmt.Sprintf("h%d.Stat()", o.H)
	case "close":
		return fmt.Sprintf("h%d.Close()", o.H)
	case "mkdir":
		return fmt.Sprintf("Mkdir(%q)", o.P)
	case "remove":
		return fmt.Sprintf("Remove(%q)", o.P)
	case "removeall":
		return fmt.Sprintf("RemoveAll(%q)", o.P)
	case "rename":
		return fmt.Sprintf("Rename(%q, %q)", o.P, o.P2)
	case "stat":
		return fmt.Sprintf("Stat(%q)", o.P)
	case "readdir":
		return fmt.Sprintf("Readdir(%q)", o.P)
	case "readdirn":
		return fmt.Sprintf("Readdir(%q, page=%d)", o.P, o.N)
	case "flush":
		return fmt.Sprintf("Flush(%q, %v)", o.P, o.Short)
	case "save":
		return "MarshalManifest(\".\")"
	case "sync":
		return "Sync()"
	case "release":
		return fmt.Sprintf("<let parked background PutB #%d finish>", o.N)
	case "drain":
		return "<let all background PutB finish>"
	case "cmp":
		return "<compare whole tree>"
	}
	return o.K
}

func c08OpStrings(ops []c08Op) []string {
	s := make([]string, len(ops))
	for i, o := range ops {
		s[i] = o.String()
	}
	return s
}

// c08Data is the deterministic, zero-free content of a write.
func c08Data(pat uint32, n int) []byte {
	b := make([]byte, n)
	x := uint64(pat)*0x9e3779b97f4a7c15 + 0x1234567
	for i := range b {
		x ^= x << 13
		x ^= x >> 7
		x ^= x << 17
		b[i] = byte(1 + (x>>24)%255)
	}
	return b
}

type c08Handle struct {
	id         int
	node       *c08Node
	off        int64
	rd, wr, ap bool
	f          File
}

// c09Fault describes the Keep write failures of a case (C09 only).
type c09Fault struct {
	Mode string `json:"mode"` // none | kth | rate | background | save
	K    int    `json:"k,omitempty"`
	Pct  int    `json:"pct,omitempty"`
}

type c08Cfg struct {
	BS        int      `json:"max_block_size"`
	CW        int      `json:"concurrent_writers"`
	Gate      bool     `json:"park_background_writes"`
	Init      string   `json:"init"`
	ManifestQ string   `json:"manifest,omitempty"` // Go-quoted
	NamesQ    []string `json:"names,omitempty"`    // Go-quoted
	Fault     c09Fault `json:"fault"`
	C09       bool     `json:"-"`

	manifest string
	blocks   [][]byte
	names    []string
	initTree map[string][]byte // file path -> content
	initDirs []string
}

type c08Viol struct {
	sig, detail string
	opIdx       int
}

type c08World struct {
	cfg     c08Cfg
	m       *c08Model
	fs      CollectionFileSystem
	keep    *c08Keep
	api     *c08API
	h       map[int]*c08Handle
	ops     []c08Op // executed so far
	viol    *c08Viol
	hung    bool   // set by c09Save when a save never returned
	stopped string // non-empty: sequence ended early without a verdict (unspecified outcome the model cannot follow)
	baseG   int

	evals     int
	cnt       map[string]int
	failSeen  map[string]bool
	faultsOff bool
	rngFault  *verifkit.Rand
	findings  []c08Viol // violations that do not end the sequence (known, self-contained)
	savesOK   int
	savesErr  int
}

func c08NewWorld(cfg c08Cfg, baseG int) (*c08World, error) {
	w := &c08World{cfg: cfg, m: c08NewModel(), keep: c08NewKeep(), api: &c08API{}, h: map[int]*c08Handle{}, cnt: map[string]int{}, failSeen: map[string]bool{}, baseG: baseG}
	maxBlockSize = cfg.BS
	concurrentWriters = cfg.CW
	for _, b := range cfg.blocks {
		w.keep.blocks[c08MD5(b)] = b
	}
	for _, tok := range strings.Fields(strings.ReplaceAll(cfg.manifest, "\n", " ")) {
		if c09LocatorRe.MatchString(tok) {
			w.keep.orig[tok] = true
		}
	}
	w.keep.maxParked = cfg.CW - 1
	if w.keep.maxParked > 3 {
		w.keep.maxParked = 3
	}
	w.keep.gate = cfg.Gate
	w.rngFault = verifkit.NewRand(uint64(cfg.Fault.K)*7919 + uint64(cfg.Fault.Pct) + 17)
	if cfg.Fault.Mode != "" && cfg.Fault.Mode != "none" {
		f := cfg.Fault
		w.keep.failFn = func(serial int, origin string, inSave bool) bool {
			if w.faultsOff {
				return false
			}
			switch f.Mode {
			case "kth":
				return serial == f.K
			case "rate":
				return w.rngFault.Intn(100) < f.Pct
			case "background":
				return !inSave && w.rngFault.Intn(100) < f.Pct
			case "save":
				return inSave && w.rngFault.Intn(100) < f.Pct
			}
			return false
		}
	}
	fs, err := (&Collection{UUID: "zzzzz-4zz18-c08c08c08c08c08", ManifestText: cfg.manifest}).FileSystem(w.api, w.keep)
	if err != nil {
		return nil, err
	}
	w.fs = fs
	for _, d := range cfg.initDirs {
		w.m.mkdirAll(d)
	}
	paths := make([]string, 0, len(cfg.initTree))
	for p := range cfg.initTree {
		paths = append(paths, p)
	}
	sort.Strings(paths)
	for _, p := range paths {
		w.m.putFile(p, cfg.initTree[p])
	}
	for _, p := range c08ZeroLenInsideBlock(cfg.manifest) {
		if n, cls := w.m.resolve(p); cls == "" && !n.dir {
			n.tag = "file-loaded-from-zero-length-token-inside-a-block"
			w.cnt["init_files_from_zero_length_token_inside_block"]++
		}
	}
	return w, nil
}

// c08ZeroLenInsideBlock lists the files of a manifest that have a
// zero-length file token whose position lies strictly inside a block (an
// input feature; computed with the independent parser of c09_manifest_test.go).
func c08ZeroLenInsideBlock(manifest string) (paths []string) {
	_, _, streams := c09Validate(manifest)
	for _, st := range streams {
		bound := map[int64]bool{0: true}
		var pos int64
		for _, sz := range st.sizes {
			pos += sz
			bound[pos] = true
		}
		prefix := strings.TrimPrefix(strings.TrimPrefix(st.name, "."), "/")
		if prefix != "" {
			prefix += "/"
		}
		for _, ft := range st.ftoks {
			p, _ := strconv.ParseInt(ft[0], 10, 64)
			if ft[1] == "0" && !bound[p] && !strings.HasSuffix(ft[2], "\\056") {
				paths = append(paths, prefix+c09Unescape(ft[2]))
			}
		}
	}
	return
}

// violateNode is violate() for a symptom observed on one file: input
// features of that file that are known to be necessary for a root cause
// become part of the signature.
func (w *c08World) violateNode(n *c08Node, sig, detail string) {
	if n != nil && n.tag != "" {
		sig += ":" + n.tag
		detail += " [" + n.tag + "]"
	}
	w.violate(sig, detail)
}

func (w *c08World) violate(sig, detail string) {
	if w.cfg.C09 && strings.HasPrefix(sig, "C08:") {
		// the filesystem-level oracles of the shared world, firing inside a C09 run
		sig = "C09:fs:" + sig[4:]
	}
	if w.viol == nil {
		w.viol = &c08Viol{sig: sig, detail: detail, opIdx: len(w.ops) - 1}
	}
}

func (w *c08World) eval(n int) { w.evals += n }

// judge compares the outcome of an operation with the expectation. It
// returns true if the operation succeeded.
func (w *c08World) judge(op *c08Op, exp c08Expect, err error) bool {
	w.eval(1)
	cls := c08Class(err)
	switch exp.kind {
	case c08MustOK:
		if err != nil {
			w.violate(fmt.Sprintf("C08:unexpected-failure:%s:%s:got-%s", op.K, exp.why, cls),
				fmt.Sprintf("%s must succeed (%s) but failed with %q", op, exp.why, err))
		}
	case c08MustFail:
		w.cnt["must_fail"]++
		if err == nil {
			w.violate(fmt.Sprintf("C08:unexpected-success:%s:%s", op.K, exp.why),
				fmt.Sprintf("%s must fail (%s, class %v) but succeeded", op, exp.why, exp.classes))
		} else {
			w.failSeen[exp.why] = true
			w.cnt["fail_"+cls]++
			if len(exp.classes) > 0 && !c08In(exp.classes, cls) {
				w.violate(fmt.Sprintf("C08:wrong-error-class:%s:%s:got-%s", op.K, exp.why, cls),
					fmt.Sprintf("%s must fail with class %v (%s) but failed with %q (class %s)", op, exp.classes, exp.why, err, cls))
			}
		}
	case c08Unspec:
		w.cnt["unspecified"]++
		w.cnt["unspec:"+exp.why]++
	}
	return err == nil
}

func (w *c08World) stop(why string) {
	if w.stopped == "" {
		w.stopped = why
		w.cnt["stopped:"+why]++
	}
}

// readFileVia reads a whole file through a fresh read-only handle.
func c08ReadAll(fs FileSystem, path string, chunk int) ([]byte, error) {
	return c08ReadAllMax(fs, path, chunk, 1<<30)
}

// c08ReadAllMax gives up once more than max bytes have been returned (the
// caller knows how long the file can be at most).
func c08ReadAllMax(fs FileSystem, path string, chunk, max int) ([]byte, error) {
	f, err := fs.OpenFile(path, os.O_RDONLY, 0)
	if err != nil {
		return nil, err
	}
	defer f.Close()
	var out []byte
	buf := make([]byte, chunk)
	for i := 0; i < 1<<22; i++ {
		n, err := f.Read(buf)
		out = append(out, buf[:n]...)
		if err == io.EOF {
			return out, nil
		}
		if err != nil {
			return out, err
		}
		if n == 0 {
			return out, fmt.Errorf("Read returned 0, nil before EOF at offset %d", len(out))
		}
		if len(out) > max {
			return out, fmt.Errorf("file is longer than %d bytes", max)
		}
	}
	return out, fmt.Errorf("no EOF")
}

func c08Diff(got, want []byte) string {
	if len(got) != len(want) {
		n := len(got)
		if len(want) < n {
			n = len(want)
		}
		for i := 0; i < n; i++ {
			if got[i] != want[i] {
				return fmt.Sprintf("length %d, want %d; first difference at byte %d (got %#x want %#x)", len(got), len(want), i, got[i], want[i])
			}
		}
		return fmt.Sprintf("length %d, want %d (common prefix equal)", len(got), len(want))
	}
	for i := range got {
		if got[i] != want[i] {
			return fmt.Sprintf("byte %d of %d is %#x, want %#x", i, len(got), got[i], want[i])
		}
	}
	return ""
}

// listing returns the sorted "name/" or "name:size" entries of a model directory.
func c08ModelListing(n *c08Node) []string {
	var l []string
	for name, k := range n.kids {
		if k.dir {
			l = append(l, strconv.Quote(name)+"/")
		} else {
			l = append(l, fmt.Sprintf("%s:%d", strconv.Quote(name), len(k.data)))
		}
	}
	sort.Strings(l)
	return l
}

func c08RealListing(fis []os.FileInfo) []string {
	var l []string
	for _, fi := range fis {
		if fi.IsDir() {
			l = append(l, strconv.Quote(fi.Name())+"/")
		} else {
			l = append(l, fmt.Sprintf("%s:%d", strconv.Quote(fi.Name()), fi.Size()))
		}
	}
	sort.Strings(l)
	return l
}

// compareTree compares a filesystem (the live one, or one reloaded from a
// saved manifest) with the model through the exported interface only.
// what is "" or a short description of the first difference; kind classifies it.
func (w *c08World) compareTree(fs CollectionFileSystem, chunk int) (kind, what string) {
	tagged := func(k *c08Node, kind string) string {
		if k.tag != "" {
			return kind + ":" + k.tag
		}
		return kind
	}
	var rec func(n *c08Node, path string) (string, string)
	rec = func(n *c08Node, path string) (string, string) {
		p := path
		if p == "" {
			p = "."
		}
		f, err := fs.OpenFile(p, os.O_RDONLY, 0)
		w.eval(1)
		if err != nil {
			return "dir-missing", fmt.Sprintf("directory %q cannot be opened: %v", p, err)
		}
		fis, err := f.Readdir(0)
		f.Close()
		if err != nil {
			return "readdir-failed", fmt.Sprintf("Readdir(%q): %v", p, err)
		}
		got, want := c08RealListing(fis), c08ModelListing(n)
		if strings.Join(got, " ") != strings.Join(want, " ") {
			return "listing", fmt.Sprintf("directory %q lists [%s], model says [%s]", p, strings.Join(got, " "), strings.Join(want, " "))
		}
		names := make([]string, 0, len(n.kids))
		for name := range n.kids {
			names = append(names, name)
		}
		sort.Strings(names)
		for _, name := range names {
			k := n.kids[name]
			kp := path + name
			if k.dir {
				if kd, wh := rec(k, kp+"/"); wh != "" {
					return kd, wh
				}
				continue
			}
			w.eval(2)
			fi, err := fs.Stat(kp)
			if err != nil {
				return "stat-failed", fmt.Sprintf("Stat(%q): %v", kp, err)
			}
			if fi.IsDir() || fi.Size() != int64(len(k.data)) {
				return tagged(k, "size"), fmt.Sprintf("Stat(%q) reports dir=%v size=%d, model says file of %d bytes", kp, fi.IsDir(), fi.Size(), len(k.data))
			}
			data, err := c08ReadAllMax(fs, kp, chunk, len(k.data)+64)
			if err != nil {
				return tagged(k, "read-failed"), fmt.Sprintf("reading %q: %v (after %d bytes, model has %d)", kp, err, len(data), len(k.data))
			}
			if d := c08Diff(data, k.data); d != "" {
				return tagged(k, "content"), fmt.Sprintf("file %q: %s", kp, d)
			}
		}
		return "", ""
	}
	kind, what = rec(w.m.root, "")
	if what == "" {
		w.eval(1)
		if got, want := fs.Size(), w.m.totalSize(); got != want {
			return "total-size", fmt.Sprintf("Size() reports %d data bytes, model has %d", got, want)
		}
	}
	return
}

func (w *c08World) quiesce() {
	w.keep.setGate(false)
	if !c08WaitGoroutines(w.baseG, 60*time.Second) {
		w.cnt["quiesce_timeout"]++
	}
	w.keep.setGate(w.cfg.Gate)
}

// apply executes one operation on the real filesystem and on the model and
// judges the result.
// progress markers for the stall monitor of C09 (see TestVerifC09)
var (
	c08Progress int64
	c08CurWorld atomic.Value // *c08World
	c08CurOp    atomic.Value // string
)

func (w *c08World) apply(op c08Op) {
	c08CurWorld.Store(w)
	c08CurOp.Store(op.String())
	atomic.AddInt64(&c08Progress, 1)
	defer atomic.AddInt64(&c08Progress, 1)
	w.ops = append(w.ops, op)
	w.cnt["op_"+op.K]++
	h := w.h[op.H]
	switch op.K {
	case "open":
		w.opOpen(&op)
	case "write":
		if h == nil || h.node.dir {
			return
		}
		data := c08Data(op.Pat, op.N)
		n, err := h.f.Write(data)
		if !h.wr {
			w.judge(&op, c08Fail("write-through-read-only-handle", "readonly"), err)
			if n != 0 {
				w.violate("C08:write-through-read-only-handle:bytes-accepted", fmt.Sprintf("%s returned n=%d", op, n))
			}
			return
		}
		if !w.judge(&op, c08OK("write"), err) {
			return
		}
		w.eval(1)
		if n != len(data) {
			w.violate("C08:write:short-count", fmt.Sprintf("%s returned n=%d, nil", op, n))
			return
		}
		off := h.off
		if h.ap {
			off = int64(len(h.node.data))
		}
		if off > int64(len(h.node.data)) {
			h.node.data = append(h.node.data, make([]byte, off-int64(len(h.node.data)))...)
			w.cnt["write_past_eof"]++
		}
		end := off + int64(len(data))
		if end > int64(len(h.node.data)) {
			h.node.data = append(h.node.data, make([]byte, end-int64(len(h.node.data)))...)
		}
		copy(h.node.data[off:], data)
		h.off = end
		w.cnt["bytes_written"] += len(data)
	case "read":
		if h == nil || h.node.dir || op.N <= 0 {
			return
		}
		buf := make([]byte, op.N)
		n, err := h.f.Read(buf)
		if !h.rd {
			w.judge(&op, c08Fail("read-through-write-only-handle", "writeonly"), err)
			if n != 0 {
				w.violate("C08:read-through-write-only-handle:bytes-returned", fmt.Sprintf("%s returned n=%d", op, n))
			}
			return
		}
		w.checkRead(&op, h, buf, n, err)
	case "readall":
		if h == nil || h.node.dir || op.N <= 0 || !h.rd {
			return
		}
		buf := make([]byte, op.N)
		for i := 0; i < len(h.node.data)+3 && w.viol == nil; i++ {
			n, err := h.f.Read(buf)
			atEOF := h.off >= int64(len(h.node.data))
			w.checkRead(&op, h, buf, n, err)
			if atEOF {
				break
			}
		}
	case "seek":
		if h == nil || h.node.dir {
			return
		}
		var npos int64
		switch op.Wh {
		case io.SeekStart:
			npos = op.Off
		case io.SeekCurrent:
			npos = h.off + op.Off
		case io.SeekEnd:
			npos = int64(len(h.node.data)) + op.Off
		}
		pos, err := h.f.Seek(op.Off, op.Wh)
		if npos < 0 {
			w.judge(&op, c08Fail("seek-to-negative-offset", "negoff"), err)
			return
		}
		if w.judge(&op, c08OK("seek"), err) {
			w.eval(1)
			if pos != npos {
				w.violate("C08:seek:wrong-position", fmt.Sprintf("%s returned %d, model says %d", op, pos, npos))
			}
			h.off = npos
		}
	case "trunc":
		if h == nil || h.node.dir || op.N < 0 {
			return
		}
		err := h.f.Truncate(int64(op.N))
		exp := c08OK("truncate")
		if !h.wr {
			exp = c08Un("truncate-through-read-only-handle")
		}
		if w.judge(&op, exp, err) {
			if op.N <= len(h.node.data) {
				h.node.data = h.node.data[:op.N:op.N]
				w.cnt["trunc_shrink"]++
			} else {
				h.node.data = append(h.node.data, make([]byte, op.N-len(h.node.data))...)
				w.cnt["trunc_grow"]++
			}
		}
	case "hstat":
		if h == nil {
			return
		}
		fi, err := h.f.Stat()
		if w.judge(&op, c08OK("handle-stat"), err) {
			w.eval(1)
			if fi.IsDir() != h.node.dir {
				w.violate("C08:handle-stat:wrong-type", fmt.Sprintf("%s IsDir=%v, model %v", op, fi.IsDir(), h.node.dir))
			} else if !h.node.dir && (fi.Size() != int64(len(h.node.data)) || h.f.Size() != int64(len(h.node.data))) {
				w.violate("C08:handle-stat:wrong-size", fmt.Sprintf("%s Stat().Size()=%d Size()=%d, model %d", op, fi.Size(), h.f.Size(), len(h.node.data)))
			}
		}
	case "close":
		if h == nil {
			return
		}
		h.f.Close()
		delete(w.h, op.H)
	case "mkdir":
		pl := w.m.planMkdir(op.P)
		err := w.fs.Mkdir(op.P, 0755)
		if w.judge(&op, pl.exp, err) {
			if pl.bailOnOK || pl.parent == nil {
				w.stop("unspecified-success:" + pl.exp.why)
				return
			}
			w.m.attach(pl.parent, pl.base, w.m.newNode(true))
		}
	case "remove", "removeall":
		pl := w.m.planRemove(op.P, op.K == "removeall")
		var err error
		if op.K == "remove" {
			err = w.fs.Remove(op.P)
		} else {
			err = w.fs.RemoveAll(op.P)
		}
		if w.judge(&op, pl.exp, err) {
			if pl.bailOnOK {
				w.stop("unspecified-success:" + pl.exp.why)
				return
			}
			if pl.node != nil {
				delete(pl.parent.kids, pl.base)
			}
		}
	case "rename":
		w.opRename(&op)
	case "stat":
		n, cls := w.m.resolve(op.P)
		fi, err := w.fs.Stat(op.P)
		if cls != "" {
			w.judge(&op, c08Fail("stat:path-"+cls, cls), err)
			return
		}
		if w.judge(&op, c08OK("stat"), err) {
			w.eval(1)
			if fi.IsDir() != n.dir {
				w.violate("C08:stat:wrong-type", fmt.Sprintf("%s IsDir=%v, model %v", op, fi.IsDir(), n.dir))
			} else if !n.dir && fi.Size() != int64(len(n.data)) {
				w.violate("C08:stat:wrong-size", fmt.Sprintf("%s Size=%d, model %d", op, fi.Size(), len(n.data)))
			}
		}
	case "readdir", "readdirn":
		n, cls := w.m.resolve(op.P)
		f, err := w.fs.OpenFile(op.P, os.O_RDONLY, 0)
		if cls != "" {
			w.judge(&op, c08Fail("open:path-"+cls, cls), err)
			return
		}
		if !w.judge(&op, c08OK("open-for-readdir"), err) {
			return
		}
		defer f.Close()
		if !n.dir {
			return
		}
		var fis []os.FileInfo
		if op.K == "readdir" || op.N <= 0 {
			fis, err = f.Readdir(0)
			if err != nil {
				w.violate("C08:readdir:failed", fmt.Sprintf("%s: %v", op, err))
				return
			}
		} else {
			for i := 0; i < len(n.kids)+2; i++ {
				page, err := f.Readdir(op.N)
				if len(page) > op.N {
					w.violate("C08:readdir:page-too-long", fmt.Sprintf("%s returned %d entries", op, len(page)))
					return
				}
				fis = append(fis, page...)
				if err == io.EOF {
					break
				}
				if err != nil {
					w.violate("C08:readdir:failed", fmt.Sprintf("%s: %v", op, err))
					return
				}
				if len(page) == 0 {
					w.violate("C08:readdir:empty-page-without-EOF", op.String())
					return
				}
			}
		}
		w.eval(1)
		got, want := c08RealListing(fis), c08ModelListing(n)
		if strings.Join(got, " ") != strings.Join(want, " ") {
			w.violate("C08:readdir:listing-differs", fmt.Sprintf("%s lists [%s], model says [%s]", op, strings.Join(got, " "), strings.Join(want, " ")))
		}
	case "flush":
		err := w.fs.Flush(op.P, op.Short)
		w.judge(&op, c08Un("flush-outcome"), err)
		if err == nil {
			w.cnt["flush_ok"]++
		}
	case "save", "sync":
		w.opSave(&op)
	case "release":
		before := runtime.NumGoroutine()
		if w.keep.releaseOne(op.N) {
			w.cnt["released_one"]++
			// scheduling aid: give the released goroutine the chance to finish
			for i := 0; i < 2000 && runtime.NumGoroutine() >= before; i++ {
				if i < 100 {
					runtime.Gosched()
				} else {
					time.Sleep(5 * time.Microsecond)
				}
			}
		}
	case "drain":
		w.quiesce()
	case "cmp":
		w.cmpLive(&op, "mid-sequence")
	}
}

func (w *c08World) cmpLive(op *c08Op, when string) {
	w.cnt["tree_compares"]++
	chunk := 1 + (len(w.ops)*7)%(2*w.cfg.BS+3)
	if w.cfg.BS > 1<<16 {
		chunk = 1<<20 + 7 // production block size: do not read 128 MiB in tiny pieces
	}
	if kind, what := w.compareTree(w.fs, chunk); what != "" {
		w.violate("C08:tree:"+kind, fmt.Sprintf("whole-tree comparison (%s): %s", when, what))
	}
}

func (w *c08World) checkRead(op *c08Op, h *c08Handle, buf []byte, n int, err error) {
	w.eval(1)
	w.cnt["reads"]++
	size := int64(len(h.node.data))
	if h.off >= size {
		if n != 0 || err != io.EOF {
			w.violateNode(h.node, "C08:read:at-or-past-EOF", fmt.Sprintf("%s at offset %d of a %d-byte file returned n=%d err=%v, want 0, EOF", op, h.off, size, n, err))
		}
		w.cnt["reads_at_eof"]++
		return
	}
	avail := size - h.off
	if err != nil && err != io.EOF {
		w.violateNode(h.node, "C08:read:failed:"+c08Class(err), fmt.Sprintf("%s at offset %d of a %d-byte file failed: %v", op, h.off, size, err))
		return
	}
	if n <= 0 || n > len(buf) || int64(n) > avail {
		w.violateNode(h.node, "C08:read:bad-count", fmt.Sprintf("%s at offset %d of a %d-byte file returned n=%d err=%v (buffer %d, available %d)", op, h.off, size, n, err, len(buf), avail))
		return
	}
	if !bytes.Equal(buf[:n], h.node.data[h.off:h.off+int64(n)]) {
		w.violateNode(h.node, "C08:read:wrong-bytes", fmt.Sprintf("%s at offset %d of a %d-byte file returned %d bytes: %s", op, h.off, size, n, c08Diff(buf[:n], h.node.data[h.off:h.off+int64(n)])))
		return
	}
	if err == io.EOF && int64(n) != avail {
		w.violateNode(h.node, "C08:read:early-EOF", fmt.Sprintf("%s at offset %d of a %d-byte file returned n=%d with EOF", op, h.off, size, n))
		return
	}
	h.off += int64(n)
	w.cnt["bytes_read"] += n
}

func (w *c08World) opOpen(op *c08Op) {
	pl := w.m.planOpen(op.P, op.Flag, op.Dir)
	perm := os.FileMode(0644)
	if op.Dir {
		perm |= os.ModeDir
	}
	f, err := w.fs.OpenFile(op.P, op.Flag, perm)
	w.cnt["open_"+c08FlagString(op.Flag)]++
	if !w.judge(op, pl.exp, err) {
		return
	}
	if w.viol != nil {
		return
	}
	if pl.bailOnOK {
		w.stop("unspecified-success:" + pl.exp.why)
		return
	}
	node := pl.target
	if pl.create {
		node = w.m.newNode(pl.createDir)
		w.m.attach(pl.parent, pl.base, node)
		w.cnt["created"]++
	}
	if pl.trunc {
		node.data = node.data[:0:0]
	}
	if pl.adopt {
		data, err := c08ReadAll(w.fs, op.P, 64)
		if err != nil {
			w.stop("adopt-failed")
			return
		}
		node.data = data
	}
	w.h[op.H] = &c08Handle{id: op.H, node: node, rd: pl.rd, wr: pl.wr, ap: pl.ap, f: f}
	// what the handle reports right after opening
	w.eval(1)
	fi, err := f.Stat()
	if err != nil {
		w.violate("C08:open:handle-stat-failed", fmt.Sprintf("%s: Stat() on the new handle: %v", op, err))
	} else if fi.IsDir() != node.dir {
		w.violate("C08:open:wrong-type", fmt.Sprintf("%s: handle IsDir=%v, model %v", op, fi.IsDir(), node.dir))
	} else if !node.dir && fi.Size() != int64(len(node.data)) {
		w.violate("C08:open:wrong-size", fmt.Sprintf("%s: handle size %d, model %d", op, fi.Size(), len(node.data)))
	}
}

func (w *c08World) opRename(op *c08Op) {
	pl := w.m.planRename(op.P, op.P2)
	err := w.fs.Rename(op.P, op.P2)
	if !w.judge(op, pl.exp, err) || w.viol != nil {
		return
	}
	if pl.bailOnOK || pl.src == nil {
		w.stop("unspecified-success:" + pl.exp.why)
		return
	}
	w.cnt["renamed"]++
	if pl.self {
		w.cnt["rename_onto_itself"]++
		if pl.src.dir {
			// unspecified outcome; nothing is judged. Whatever the implementation
			// did (leave it alone, or drop it like it does for files) is followed.
			if _, err := w.fs.Stat(op.P); err != nil {
				delete(pl.oparent.kids, pl.obase)
				w.cnt["unspec:rename:directory-onto-itself:directory-gone"]++
			}
			return
		}
		// a file renamed onto itself: an ordinary filesystem leaves it alone
		w.eval(1)
		if _, err := w.fs.Stat(op.P); err != nil {
			if w.cfg.C09 {
				// C08's finding; in a C09 run only follow the implementation
				w.cnt["c08_finding_rename_onto_itself_followed"]++
				delete(pl.oparent.kids, pl.obase)
				return
			}
			w.findings = append(w.findings, c08Viol{sig: "C08:rename:file-onto-itself:file-disappears", opIdx: len(w.ops) - 1,
				detail: fmt.Sprintf("%s succeeded, afterwards Stat(%q) = %v: renaming a file onto itself removed it", op, op.P, err)})
			// follow the implementation so that the rest of the sequence is still checked
			delete(pl.oparent.kids, pl.obase)
		}
		return
	}
	delete(pl.oparent.kids, pl.obase)
	w.m.attach(pl.nparent, pl.nbase, pl.src)
}

// opSave is MarshalManifest / Sync. In C08 the result is not judged (the
// statement is about reads); the tree is compared afterwards. In C09 the
// oracles M1-M4 apply (c09_test.go).
func (w *c08World) opSave(op *c08Op) {
	w.quiesce()
	if w.cfg.C09 {
		w.c09Save(op)
		return
	}
	var err error
	w.keep.setInSave(true) // writes issued by a synchronous save are never parked
	if op.K == "sync" {
		err = w.fs.Sync()
	} else {
		_, err = w.fs.MarshalManifest(".")
	}
	w.keep.setInSave(false)
	if err == nil {
		w.savesOK++
	} else {
		w.savesErr++
	}
	w.cmpLive(op, "after "+op.K)
}

// finish ends a sequence: all background work is allowed to complete and the
// whole tree is compared.
func (w *c08World) finish() {
	c08CurWorld.Store(w)
	c08CurOp.Store("final comparison and save")
	atomic.AddInt64(&c08Progress, 1)
	defer atomic.AddInt64(&c08Progress, 1)
	if w.viol != nil {
		w.quiesce()
		return
	}
	w.quiesce()
	op := c08Op{K: "cmp"}
	w.ops = append(w.ops, op)
	w.cmpLive(&op, "end of sequence")
	if w.viol == nil && w.cfg.C09 {
		w.c09Finish()
	}
	w.quiesce()
}
