//go:build verif

package arvados

// C09 — a manifest validator and a manifest interpreter written from the
// published format (doc/architecture/manifest-format.html.textile.liquid and
// DESIGN §5 C09 M1). Neither uses any code of the filesystem under test.
//
//	manifest       ::= stream*
//	stream         ::= stream-name (" " locator)+ (" " file-segment)+ "\n"
//	stream-name    ::= "." ("/" path-component)*
//	file-segment   ::= position ":" size ":" filename
//	filename       ::= path-component ("/" path-component)*
//	locator        ::= /^[0-9a-f]{32}\+[0-9]+(\+[A-Z][-A-Za-z0-9@_]*)*$/
//
// "A manifest may not contain TAB characters, nor other ASCII whitespace
// characters or control codes other than the spaces or newlines used as
// delimiters": raw bytes 0x00-0x20 and 0x7f must not occur inside a token.
// Bytes >= 0x80 are accepted as text (DESIGN M1). Path components are judged
// as written (escaped form): none is empty, none after the first is "." or
// "..". Every file segment lies inside the stream's data.

import (
	"fmt"
	"regexp"
	"strconv"
	"strings"
)

var c09LocatorRe = regexp.MustCompile(`^[0-9a-f]{32}\+[0-9]+(\+[A-Z][-A-Za-z0-9@_]*)*$`)
var c09FileTokRe = regexp.MustCompile(`^([0-9]+):([0-9]+):(.*)$`)

type c09Stream struct {
	name    string // unescaped
	locs    []string
	sizes   []int64
	total   int64
	ftoks   [][3]string // position, size, filename (escaped)
	rawname string
}

// c09Validate returns "" if text is a valid manifest, else the name of the
// first rule it breaks and a description.
func c09Validate(text string) (rule, detail string, streams []c09Stream) {
	if text == "" {
		return "", "", nil
	}
	if !strings.HasSuffix(text, "\n") {
		return "no-trailing-newline", "manifest does not end with a newline", nil
	}
	lines := strings.Split(text[:len(text)-1], "\n")
	for ln, line := range lines {
		where := fmt.Sprintf("stream %d", ln+1)
		if line == "" {
			return "empty-stream", where + " is empty", nil
		}
		toks := strings.Split(line, " ")
		for ti, tok := range toks {
			if tok == "" {
				return "empty-token", where + " has an empty token (leading, trailing or double space)", nil
			}
			for i := 0; i < len(tok); i++ {
				c := tok[i]
				kind := "locator"
				if ti == 0 || strings.Contains(tok, ":") {
					kind = "name"
				}
				if c == 0x7f {
					return "raw-control-byte:0x7f-in-" + kind, fmt.Sprintf("%s token %q contains the raw control code 0x7f (DEL)", where, tok), nil
				}
				if c < 0x20 {
					return "raw-control-byte:below-0x20-in-" + kind, fmt.Sprintf("%s token %q contains the raw control code %#02x", where, tok, c), nil
				}
			}
		}
		var st c09Stream
		st.rawname = toks[0]
		comps := strings.Split(toks[0], "/")
		if comps[0] != "." {
			return "bad-stream-name", fmt.Sprintf("%s name %q does not start with \".\"", where, toks[0]), nil
		}
		for _, c := range comps[1:] {
			if c == "" || c == "." || c == ".." {
				return "bad-stream-name", fmt.Sprintf("%s name %q has an empty, \".\" or \"..\" component", where, toks[0]), nil
			}
		}
		st.name = c09Unescape(toks[0])
		i := 1
		for ; i < len(toks) && c09LocatorRe.MatchString(toks[i]); i++ {
			sz, err := strconv.ParseInt(strings.SplitN(toks[i], "+", 3)[1], 10, 64)
			if err != nil {
				return "bad-locator", fmt.Sprintf("%s locator %q", where, toks[i]), nil
			}
			st.locs = append(st.locs, toks[i])
			st.sizes = append(st.sizes, sz)
			st.total += sz
		}
		if len(st.locs) == 0 {
			return "no-locator", fmt.Sprintf("%s: token %q after the stream name is not a locator", where, c09Tok(toks, 1)), nil
		}
		if i == len(toks) {
			return "no-file-token", where + " has no file segment", nil
		}
		for ; i < len(toks); i++ {
			m := c09FileTokRe.FindStringSubmatch(toks[i])
			if m == nil {
				return "bad-file-token", fmt.Sprintf("%s token %q is neither a locator nor position:size:name", where, toks[i]), nil
			}
			pos, err1 := strconv.ParseInt(m[1], 10, 64)
			size, err2 := strconv.ParseInt(m[2], 10, 64)
			if err1 != nil || err2 != nil {
				return "bad-file-token", fmt.Sprintf("%s token %q: number out of range", where, toks[i]), nil
			}
			for _, c := range strings.Split(m[3], "/") {
				if c == "" || c == "." || c == ".." {
					return "bad-file-name", fmt.Sprintf("%s file token %q has an empty, \".\" or \"..\" name component", where, toks[i]), nil
				}
			}
			if pos+size > st.total {
				return "segment-outside-stream", fmt.Sprintf("%s file token %q exceeds the %d-byte stream", where, toks[i], st.total), nil
			}
			st.ftoks = append(st.ftoks, [3]string{m[1], m[2], m[3]})
		}
		streams = append(streams, st)
	}
	return "", "", streams
}

func c09Tok(toks []string, i int) string {
	if i < len(toks) {
		return toks[i]
	}
	return ""
}

// c09Unescape decodes \ooo (three octal digits) in one left-to-right pass.
func c09Unescape(s string) string {
	if !strings.Contains(s, "\\") {
		return s
	}
	var b []byte
	for i := 0; i < len(s); i++ {
		if s[i] == '\\' && i+3 < len(s) && c09Oct(s[i+1]) && c09Oct(s[i+2]) && c09Oct(s[i+3]) {
			v := int(s[i+1]-'0')*64 + int(s[i+2]-'0')*8 + int(s[i+3]-'0')
			if v < 256 {
				b = append(b, byte(v))
				i += 3
				continue
			}
		}
		b = append(b, s[i])
	}
	return string(b)
}

func c09Oct(c byte) bool { return c >= '0' && c <= '7' }

// c09Interpret computes the tree a (valid) manifest describes: file path ->
// content and the set of directories (every ancestor of a file plus the
// directories kept alive by a "\056" marker). Paths have no leading "./".
func c09Interpret(streams []c09Stream, block func(hash string) ([]byte, bool)) (files map[string][]byte, dirs map[string]bool, problem string) {
	files = map[string][]byte{}
	dirs = map[string]bool{}
	addDirs := func(p string) {
		for i := 0; i < len(p); i++ {
			if p[i] == '/' {
				dirs[p[:i]] = true
			}
		}
	}
	for _, st := range streams {
		var data []byte
		for i, loc := range st.locs {
			if st.sizes[i] == 0 {
				continue // a zero-length block contributes nothing and need not be stored
			}
			b, ok := block(loc[:32])
			if !ok {
				return nil, nil, fmt.Sprintf("block %s of stream %q is not held by Keep", loc, st.rawname)
			}
			if int64(len(b)) != st.sizes[i] {
				return nil, nil, fmt.Sprintf("block %s of stream %q has %d bytes in Keep", loc, st.rawname, len(b))
			}
			data = append(data, b...)
		}
		prefix := strings.TrimPrefix(strings.TrimPrefix(st.name, "."), "/")
		if prefix != "" {
			prefix += "/"
			addDirs(prefix)
		}
		for _, ft := range st.ftoks {
			pos, _ := strconv.ParseInt(ft[0], 10, 64)
			size, _ := strconv.ParseInt(ft[1], 10, 64)
			name := c09Unescape(ft[2])
			p := prefix + name
			if name == "." || strings.HasSuffix(name, "/.") {
				// empty-directory marker
				if size != 0 {
					return nil, nil, fmt.Sprintf("directory marker %q with non-zero size", ft[2])
				}
				addDirs(strings.TrimSuffix(p, "."))
				continue
			}
			addDirs(p)
			if _, ok := files[p]; !ok {
				files[p] = []byte{}
			}
			files[p] = append(files[p], data[pos:pos+size]...)
		}
	}
	return files, dirs, ""
}
