//go:build verif

// C13 — concurrent use of a collection filesystem never loses or mixes file
// data. See /verif/DESIGN.md §5 "C13". Part 1 of the harness: entry point,
// case configuration, Keep stub + write controller, API stub.

package arvados

import (
	"crypto/md5"
	"errors"
	"fmt"
	"io"
	"runtime"
	"sort"
	"strings"
	"sync"
	"sync/atomic"
	"testing"
	"time"

	"git.arvados.org/arvados.git/internal/verifkit"
)

// c13Dead: a deadlock was observed in this process. The goroutines that are
// stuck stay behind, so no further case is run in this process.
var c13Dead bool

// process-wide totals of the counters (the kit has no getter); used for the
// "monitor saw something" checks at the end of the batch.
var c13TotMu sync.Mutex
var c13Tot = map[string]int64{}

func c13Count(run *verifkit.Run, name string, k int) {
	if k == 0 {
		return
	}
	run.Count(name, k)
	c13TotMu.Lock()
	c13Tot[name] += int64(k)
	c13TotMu.Unlock()
}

func TestVerifC13(t *testing.T) {
	run := verifkit.Start(t, "C13")
	defer run.Finish()
	defer func() {
		if !c13Dead { // goroutines stuck in the filesystem may still read it
			maxBlockSize = 1 << 26
		}
	}()
	n := run.N(400, 6000)
	run.Cases("run", n, func(i int, rng *verifkit.Rand) {
		if c13Dead {
			c13Count(run, "cases_skipped_after_deadlock", 1)
			return
		}
		c13Case(run, i, rng)
	})
	// a save that fails half-way while block writes of its own are in
	// flight, then rewrites (c13_locfail_test.go)
	if !c13Dead {
		c13SaveFault(run)
	}
	if run.Replaying() || c13Dead {
		return
	}
	c13TotMu.Lock()
	defer c13TotMu.Unlock()
	if c13Tot["runs"] >= 5 {
		for _, must := range []string{"putb_parked", "putb_reordered", "putb_completed_after_later_writes", "shared_overlapping_pairs", "manifests_reloaded", "histories_checked", "ops_write", "ops_read", "ops_rename", "putb_failed", "ns_rendezvous_complete", "ns_mkdir_overlapping_calls", "ns_files_created_in_late_dirs"} {
			if c13Tot[must] == 0 {
				run.Inconclusive("counter " + must + " is zero in this batch: the monitor did not observe what it is meant to judge")
			}
		}
	}
}

// ------------------------------------------------------------ configuration

type c13Cfg struct {
	Workers     int    `json:"workers"`
	OpsPer      int    `json:"ops_per_worker"`
	BlockSize   int    `json:"max_block_size"`
	SharedDirs  int    `json:"shared_dirs"`
	SharedFiles int    `json:"shared_files"`
	Fault       string `json:"fault"` // none | rate10 | rate30 | burst
	StallMs     int    `json:"stall_ms"`
	PImm        int    `json:"pct_immediate"`
	PHold       int    `json:"pct_hold"`
	MaxDelay    int    `json:"max_delay_events"`
	Savers      int    `json:"savers"`
	Preload     bool   `json:"preload"`
	LateDirs    int    `json:"late_dirs"` // directories that several workers create at once during the activity
}

func c13GenCfg(rng *verifkit.Rand) c13Cfg {
	var c c13Cfg
	c.Workers = rng.Range(2, 8)
	c.OpsPer = rng.Range(30, 70)
	c.BlockSize = rng.PickInt(1, 2, 3, 4, 5, 8, 8, 16)
	c.SharedDirs = rng.Range(1, 2)
	c.SharedFiles = rng.Range(1, 3)
	switch r := rng.Intn(100); {
	case r < 55:
		c.Fault = "none"
	case r < 70:
		c.Fault = "rate10"
	case r < 80:
		c.Fault = "rate30"
	default:
		c.Fault = "burst"
	}
	c.StallMs = rng.PickInt(5, 10, 20)
	c.PImm = rng.PickInt(10, 25, 40, 60)
	c.PHold = rng.PickInt(5, 15, 30)
	c.MaxDelay = rng.PickInt(3, 8, 20, 40)
	c.Savers = rng.Range(0, 2)
	c.Preload = rng.Bool()
	c.LateDirs = rng.Range(1, 4)
	return c
}

// ------------------------------------------------------------ controller

var c13ErrPut = errors.New("c13 stub: injected Keep write failure")
var c13ErrNoBlock = errors.New("c13 stub: block was never acknowledged")

type c13Ticket struct {
	seq             int64
	due             int64 // event count at which it is released; <0: hold until released
	rel             chan struct{}
	released        bool
	writesAtArrival int64
}

// c13Ctl decides when and how every Keep write completes.
type c13Ctl struct {
	mu       sync.Mutex
	rng      *verifkit.Rand
	cfg      *c13Cfg
	parked   []*c13Ticket
	inflight map[int64]bool // arrived, not yet completed
	events   int64
	lastEv   time.Time // last worker event, for steering only
	drain    bool      // final phase: everything immediate, no failures
	burst    int
	seq      int64
	writes   int64 // completed worker write operations
	savers   int32

	progress int64 // atomic: operations + Keep write arrivals/completions

	bmu    sync.RWMutex
	blocks map[string][]byte // acknowledged blocks by md5 hex

	failed    int64 // atomic
	cnt       map[string]int
	maxParked int
	stubViol  []string
}

func c13NewCtl(cfg *c13Cfg, rng *verifkit.Rand) *c13Ctl {
	return &c13Ctl{rng: rng, cfg: cfg, inflight: map[int64]bool{}, blocks: map[string][]byte{}, cnt: map[string]int{}, lastEv: time.Now()}
}

func (c *c13Ctl) releaseLocked(i int) {
	t := c.parked[i]
	c.parked = append(c.parked[:i], c.parked[i+1:]...)
	if !t.released {
		t.released = true
		close(t.rel)
	}
}

func (c *c13Ctl) releaseDueLocked() {
	for i := 0; i < len(c.parked); {
		if t := c.parked[i]; t.due >= 0 && t.due <= c.events {
			c.releaseLocked(i)
			c.cnt["putb_released_by_event_delay"]++
			continue
		}
		i++
	}
}

// event is logged by workers at the start and end of every operation.
func (c *c13Ctl) event(worker, write bool) {
	atomic.AddInt64(&c.progress, 1)
	c.mu.Lock()
	c.events++
	if write {
		c.writes++
	}
	if worker {
		c.lastEv = time.Now()
	}
	c.releaseDueLocked()
	if len(c.parked) > 0 && c.rng.Chance(1, 16) {
		// release a random parked write (not necessarily the oldest)
		c.releaseLocked(c.rng.Intn(len(c.parked)))
		c.cnt["putb_released_at_random"]++
	}
	c.mu.Unlock()
}

func (c *c13Ctl) eventCount() int64 {
	c.mu.Lock()
	defer c.mu.Unlock()
	return c.events
}

// arrive registers a Keep write and decides its fate. A nil rel channel means
// "complete immediately".
func (c *c13Ctl) arrive(origin string) *c13Ticket {
	atomic.AddInt64(&c.progress, 1)
	c.mu.Lock()
	defer c.mu.Unlock()
	c.events++
	c.seq++
	t := &c13Ticket{seq: c.seq, writesAtArrival: c.writes}
	c.inflight[t.seq] = true
	c.cnt["putb_arrived"]++
	c.cnt["putb_from_"+origin]++
	pimm := c.cfg.PImm
	if atomic.LoadInt32(&c.savers) > 0 {
		pimm += 25 // a save in progress blocks most workers: keep it moving
	}
	r := c.rng.Intn(100)
	switch {
	case c.drain || r < pimm:
		c.cnt["putb_immediate"]++
	case r < pimm+c.cfg.PHold:
		t.due = -1
		t.rel = make(chan struct{})
		c.cnt["putb_held"]++
	default:
		t.due = c.events + 1 + int64(c.rng.Intn(c.cfg.MaxDelay))
		t.rel = make(chan struct{})
		c.cnt["putb_delayed"]++
	}
	if t.rel != nil {
		c.parked = append(c.parked, t)
		c.cnt["putb_parked"]++
		if len(c.parked) > c.maxParked {
			c.maxParked = len(c.parked)
		}
	}
	c.releaseDueLocked()
	return t
}

// complete decides success/failure, stores the block on success.
func (c *c13Ctl) complete(t *c13Ticket, sum string, data []byte) (fail bool) {
	atomic.AddInt64(&c.progress, 1)
	c.mu.Lock()
	c.events++
	delete(c.inflight, t.seq)
	for s := range c.inflight {
		if s < t.seq {
			c.cnt["putb_reordered"]++ // completes while an older write is still in flight
			break
		}
	}
	if c.writes > t.writesAtArrival {
		c.cnt["putb_completed_after_later_writes"]++
	}
	if !c.drain {
		switch c.cfg.Fault {
		case "rate10":
			fail = c.rng.Chance(10, 100)
		case "rate30":
			fail = c.rng.Chance(30, 100)
		case "burst":
			if c.burst > 0 {
				c.burst--
				fail = true
			} else if c.rng.Chance(1, 12) {
				c.burst = c.rng.Range(1, 6)
			}
		}
	}
	if fail {
		c.cnt["putb_failed"]++
		atomic.AddInt64(&c.failed, 1)
	} else {
		c.cnt["putb_acked"]++
	}
	c.releaseDueLocked()
	c.mu.Unlock()
	if !fail {
		c.bmu.Lock()
		c.blocks[sum] = data
		c.bmu.Unlock()
	}
	return fail
}

func (c *c13Ctl) startDrain() {
	c.mu.Lock()
	c.drain = true
	for len(c.parked) > 0 {
		c.releaseLocked(0)
	}
	c.mu.Unlock()
}

func (c *c13Ctl) inflightCount() int {
	c.mu.Lock()
	defer c.mu.Unlock()
	return len(c.inflight)
}

func (c *c13Ctl) noteViolation(s string) {
	c.mu.Lock()
	if len(c.stubViol) < 3 {
		c.stubViol = append(c.stubViol, s)
	}
	c.mu.Unlock()
}

// monitor: (1) steering — whenever no worker event has been logged for the
// stall period while Keep writes are parked, release one (the filesystem's own
// 4-writer throttle means that workers may all be waiting for a parked write);
// (2) C-4 — zero progress for 30 s while nothing is parked.
func (c *c13Ctl) monitor(stop <-chan struct{}, deadlock chan<- string) {
	stall := time.Duration(c.cfg.StallMs) * time.Millisecond
	tick := time.NewTicker(stall / 4)
	defer tick.Stop()
	mrng := verifkit.NewRand(uint64(c.cfg.StallMs)*977 + uint64(c.cfg.Workers))
	lastProg := atomic.LoadInt64(&c.progress)
	lastProgT := time.Now()
	for {
		select {
		case <-stop:
			return
		case <-tick.C:
		}
		now := time.Now()
		c.mu.Lock()
		if len(c.parked) > 0 && now.Sub(c.lastEv) >= stall {
			i := 0
			if mrng.Chance(1, 3) {
				i = mrng.Intn(len(c.parked))
			}
			c.releaseLocked(i)
			c.cnt["putb_released_by_stall_rule"]++
			c.lastEv = now
		}
		np := len(c.parked)
		c.mu.Unlock()
		p := atomic.LoadInt64(&c.progress)
		if p != lastProg || np > 0 {
			lastProg, lastProgT = p, now
		} else if now.Sub(lastProgT) > 30*time.Second {
			buf := make([]byte, 4<<20)
			buf = buf[:runtime.Stack(buf, true)]
			select {
			case deadlock <- string(buf):
			default:
			}
			return
		}
	}
}

// ------------------------------------------------------------ Keep stub

type c13Keep struct {
	ctl *c13Ctl
}

func c13Origin() string {
	var pcs [12]uintptr
	n := runtime.Callers(3, pcs[:])
	fr := runtime.CallersFrames(pcs[:n])
	for {
		f, more := fr.Next()
		switch {
		case strings.Contains(f.Function, "pruneMemSegments"):
			return "prune"
		case strings.Contains(f.Function, "commitBlock"):
			return "commitBlock"
		}
		if !more {
			return "other"
		}
	}
}

func (k *c13Keep) PutB(p []byte) (string, int, error) {
	sum0 := md5.Sum(p)
	t := k.ctl.arrive(c13Origin())
	if t.rel != nil {
		<-t.rel
	}
	// the buffer is read when the write completes, as a network client would
	data := append([]byte(nil), p...)
	sum1 := md5.Sum(data)
	if sum0 != sum1 {
		k.ctl.noteViolation(fmt.Sprintf("the %d-byte buffer passed to PutB changed between the call and its completion (write #%d)", len(p), t.seq))
	}
	hex := fmt.Sprintf("%x", sum1)
	if k.ctl.complete(t, hex, data) {
		return "", 0, c13ErrPut
	}
	return fmt.Sprintf("%s+%d", hex, len(data)), 1, nil
}

func (k *c13Keep) ReadAt(locator string, p []byte, off int) (int, error) {
	if len(locator) < 32 {
		return 0, fmt.Errorf("c13 stub: bad locator %q", locator)
	}
	k.ctl.bmu.RLock()
	buf, ok := k.ctl.blocks[locator[:32]]
	k.ctl.bmu.RUnlock()
	if !ok {
		return 0, c13ErrNoBlock
	}
	if off < 0 || off > len(buf) {
		return 0, fmt.Errorf("c13 stub: offset %d beyond block of %d bytes", off, len(buf))
	}
	return copy(p, buf[off:]), nil
}

func (k *c13Keep) LocalLocator(locator string) (string, error) { return locator, nil }

func (k *c13Keep) preload(data []byte) string {
	hex := fmt.Sprintf("%x", md5.Sum(data))
	k.ctl.bmu.Lock()
	k.ctl.blocks[hex] = append([]byte(nil), data...)
	k.ctl.bmu.Unlock()
	return fmt.Sprintf("%s+%d", hex, len(data))
}

// ------------------------------------------------------------ API stub

// c13API records the manifest of every collection update (Sync).
type c13API struct {
	mu   sync.Mutex
	puts []string
}

func (a *c13API) RequestAndDecode(dst interface{}, method, path string, body io.Reader, params interface{}) error {
	if method != "PUT" {
		return fmt.Errorf("c13 stub: unexpected API call %s %s", method, path)
	}
	m, _ := params.(map[string]interface{})
	coll, _ := m["collection"].(map[string]string)
	txt, ok := coll["manifest_text"]
	if !ok {
		return fmt.Errorf("c13 stub: update without manifest_text")
	}
	a.mu.Lock()
	a.puts = append(a.puts, txt)
	a.mu.Unlock()
	return nil
}

func (a *c13API) take() (string, int) {
	a.mu.Lock()
	defer a.mu.Unlock()
	n := len(a.puts)
	if n == 0 {
		return "", 0
	}
	txt := a.puts[n-1]
	a.puts = nil
	return txt, n
}

// ------------------------------------------------------------ goroutine dump

// c13BlockedSites summarizes a goroutine dump taken after 30 s without
// progress. For the signature: whether some goroutine waits for the writer
// throttle (then nothing else matters: no Keep write is in flight, so nobody
// will ever release it), otherwise the multi-lock API calls that are stuck
// (the candidates for a lock cycle; single-file operations are victims).
func c13BlockedSites(dump string) (sig string, filtered string) {
	multi := map[string]bool{}
	throttled := false
	var sb strings.Builder
	for _, g := range strings.Split(dump, "\n\n") {
		if !strings.Contains(g, "sdk/go/arvados/fs_") && !strings.Contains(g, "sdk/go/arvados/throttle.go") {
			continue
		}
		if strings.Contains(g, "(*throttle).Acquire") {
			throttled = true
		}
		for _, api := range []string{"(*fileSystem).Rename", "(*collectionFileSystem).MarshalManifest", "(*collectionFileSystem).Flush", "(*collectionFileSystem).Sync", "(*fileSystem).remove", "(*fileSystem).Mkdir"} {
			if strings.Contains(g, "arvados."+api+"(") {
				multi[api[strings.LastIndex(api, ".")+1:]] = true
			}
		}
		lines := strings.Split(g, "\n")
		if sb.Len() < 5000 {
			if len(lines) > 14 {
				lines = lines[:14]
			}
			sb.WriteString(strings.Join(lines, "\n") + "\n\n")
		}
	}
	if throttled {
		return "waiting-for-writer-throttle-with-no-keep-write-in-flight", sb.String()
	}
	var sites []string
	for s := range multi {
		sites = append(sites, s)
	}
	sort.Strings(sites)
	return "lock-wait-among:" + strings.Join(sites, "+"), sb.String()
}
