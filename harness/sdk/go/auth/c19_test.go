//go:build verif

package auth

// C19 — a user's token secret never leaves the cluster unsalted.
// This harness covers the salting routine itself (SaltToken) on generated
// tokens × remote ids, cross-checks the reference HMAC (Go stdlib) against
// Python's hmac, and records how the credential loader sees each placement
// (evidence only). See /verif/DESIGN.md §5 C19.

import (
	"bytes"
	"encoding/hex"
	"encoding/json"
	"fmt"
	"net/http"
	"net/url"
	"os"
	"os/exec"
	"path/filepath"
	"strings"
	"testing"

	"git.arvados.org/arvados.git/internal/c19kit"
	"git.arvados.org/arvados.git/internal/verifkit"
)

type c19SaltCase struct {
	Token  c19kit.Tok `json:"tok"`
	Remote string     `json:"remote"`
}

const c19Alnum = "0123456789abcdefghijklmnopqrstuvwxyz"

func c19Remote(rng *verifkit.Rand) string {
	switch rng.Intn(10) {
	case 0:
		return rng.PickStr("zzzzz", "zhome", "z1111", "z2222", "00000")
	default:
		return rng.String(5, c19Alnum)
	}
}

func TestVerifC19(t *testing.T) {
	run := verifkit.Start(t, "C19")
	defer run.Finish()

	type pair struct{ secret, remote string }
	var pysample []pair
	addPy := func(secret, remote string) {
		if len(pysample) < 400 {
			pysample = append(pysample, pair{secret, remote})
		}
	}
	// HMAC key-length boundaries (block size of SHA-1 is 64 bytes)
	for _, n := range []int{0, 1, 39, 40, 41, 63, 64, 65, 80, 200} {
		addPy(strings.Repeat("k", n), "zzzzz")
	}
	addPy("\x00\xff secret with spaces/and+symbols%", "z\x00\xffzz")

	others := []string{"zhome", "z1111", "z2222"}
	nSalted := 0
	n := run.N(80000, 2000000)
	run.Cases("auth-salt", n, func(i int, rng *verifkit.Rand) {
		remote := c19Remote(rng)
		tok := c19kit.GenTok(rng, c19kit.GenOpts{Remote: remote, Others: others})
		c := c19SaltCase{tok, remote}
		run.Input(c, false)
		if i < 2 {
			run.Sample(c)
		}
		bad := func(sig, detail string) {
			run.Violation(sig, fmt.Sprintf("%s; token=%q remote=%q", detail, tok.Str, remote), c)
		}
		got, err := SaltToken(tok.Str, remote)
		got2, err2 := SaltToken(tok.Str, remote)
		run.Eval(1)
		if got != got2 || (err == nil) != (err2 == nil) || (err != nil && err != err2) {
			bad("C19:N1:salt:not-deterministic", fmt.Sprintf("two calls returned (%q,%v) and (%q,%v)", got, err, got2, err2))
		}
		if err != nil && got != "" {
			// a caller that ignores the error must not get something usable
			run.Count("salt_error_with_nonempty_result", 1)
		}
		exp := c19kit.Expected(tok, remote)
		belongs := c19kit.Belongs(tok.UUID, remote)
		run.Count("salt_class_"+tok.Class, 1)
		feat := tok.Class
		switch tok.Class {
		case "v2":
			feat += "," + tok.SecKind + ",len" + c19kit.LenClass(len(tok.Secret)) + ",belongs=" + belongs
			if tok.Extra != "" {
				feat += ",extra"
			}
			if tok.SecKind == "other" && len(tok.Secret) >= 8 {
				addPy(tok.Secret, remote)
			}
			run.Eval(1)
			switch {
			case err == nil && exp.Allows(got):
				d := c19kit.Describe(tok, remote, others, got)
				run.Count("salt_ok_"+d, 1)
				if d == "salted" {
					nSalted++
				}
			case err == nil:
				d := c19kit.Describe(tok, remote, others, got)
				switch {
				case tok.SecKind == "lowerhex40" && d == "salted":
					bad("C19:N2:salt:salted-twice", fmt.Sprintf("a 40-hex (already salted) secret was salted again: %q", got))
				case d == "unsalted" && tok.SecKind == "nonhex40":
					bad("C19:N1:salt:v2-token-returned-unsalted:secret-40-chars-non-hex", "SaltToken returned the token unchanged although its secret is not a 40-hex salt and the token does not belong to the remote")
				case d == "unsalted":
					bad("C19:N1:salt:v2-token-returned-unsalted", "SaltToken returned the token unchanged although it does not belong to the remote")
				default:
					bad("C19:N1:salt:"+d, fmt.Sprintf("SaltToken returned %q, want one of %q", got, exp.Allowed))
				}
			default:
				// an error = refusing to produce a forwardable token: always safe
				run.Count("salt_refused_"+tok.SecKind, 1)
			}
			// N2: "reports it as already salted unless it belongs to R"
			if tok.SecKind == "lowerhex40" {
				run.Eval(1)
				if belongs == "no" && err != ErrSalted {
					bad("C19:N2:salt:no-ErrSalted", fmt.Sprintf("40-hex secret, uuid not of the remote: got (%q,%v), want ErrSalted", got, err))
				}
				if belongs == "yes" && err == ErrSalted {
					bad("C19:N2:salt:ErrSalted-for-own-token-of-remote", "40-hex secret whose uuid belongs to the remote was reported as ErrSalted")
				}
			}
			// N3 on the returned string
			if exp.MustSalt && err == nil && len(tok.Secret) >= c19kit.SearchableSecret && !c19kit.Benign(tok.Secret, exp.Salted, tok.UUID, tok.Extra) {
				run.Eval(1)
				if strings.Contains(got, tok.Secret) {
					bad("C19:N3:salt:unsalted-secret-in-result", fmt.Sprintf("result %q contains the original secret", got))
				}
			}
			// a salt for R must differ from the salt for another cluster
			if err == nil && tok.SecKind == "other" && belongs == "no" {
				other := "zhome"
				if remote == other {
					other = "z1111"
				}
				if c19kit.Belongs(tok.UUID, other) == "no" {
					o, oerr := SaltToken(tok.Str, other)
					run.Eval(1)
					if oerr == nil && o == got {
						bad("C19:N1:salt:same-salt-for-two-clusters", fmt.Sprintf("SaltToken gave %q for both %q and %q", got, remote, other))
					}
				}
			}
		case "legacy":
			feat += ",len" + c19kit.LenClass(len(tok.Str))
			run.Eval(1)
			if err == nil {
				bad("C19:N4:salt:legacy-token-accepted", fmt.Sprintf("SaltToken returned (%q,nil) for a legacy token it cannot resolve", got))
			} else if err == ErrObsoleteToken {
				run.Count("salt_legacy_ErrObsoleteToken", 1)
			} else {
				run.Count("salt_legacy_other_error", 1)
			}
		default:
			run.Eval(1)
			if err == nil && got != tok.Str {
				bad("C19:N4:salt:opaque-token-modified", fmt.Sprintf("non-Arvados token changed to %q", got))
			} else if err == ErrTokenFormat {
				run.Count("salt_opaque_ErrTokenFormat", 1)
			} else if err == ErrObsoleteToken {
				bad("C19:N4:salt:opaque-token-taken-for-legacy", "a token that is not [0-9a-z]{41,} was reported as ErrObsoleteToken")
			}
		}
		run.Feature(feat)
	})

	if nSalted == 0 && !run.Replaying() {
		run.Inconclusive("C19 auth-salt: SaltToken never produced a salted token (everything refused): nothing to judge")
	}

	// ---- credential loading per placement (evidence; non-deciding)
	nl := run.N(4000, 60000)
	run.Cases("auth-load", nl, func(i int, rng *verifkit.Rand) {
		tok := c19kit.GenTok(rng, c19kit.GenOpts{Remote: "z1111", Others: others})
		place := rng.PickStr("auth-oauth2", "auth-bearer", "auth-basic", "query", "form", "form-ctype-param", "cookie")
		run.Input(map[string]interface{}{"tok": tok, "placement": place}, false)
		u := "http://zhome.example/arvados/v1/workflows/z1111-7fd4e-" + rng.String(15, c19Alnum)
		var body *bytes.Buffer = bytes.NewBuffer(nil)
		method := "GET"
		hdr := http.Header{}
		switch place {
		case "auth-oauth2":
			hdr.Set("Authorization", "OAuth2 "+tok.Str)
		case "auth-bearer":
			hdr.Set("Authorization", "Bearer "+tok.Str)
		case "query":
			u += "?" + url.Values{"api_token": {tok.Str}, "x": {"1"}}.Encode()
		case "form", "form-ctype-param":
			method = "POST"
			body = bytes.NewBufferString(url.Values{"api_token": {tok.Str}, "_method": {"GET"}}.Encode())
			hdr.Set("Content-Type", "application/x-www-form-urlencoded")
			if place == "form-ctype-param" {
				hdr.Set("Content-Type", "application/x-www-form-urlencoded; charset=UTF-8")
			}
		}
		req, err := http.NewRequest(method, u, body)
		if err != nil {
			run.Trivial()
			return
		}
		for k, v := range hdr {
			req.Header[k] = v
		}
		switch place {
		case "auth-basic":
			req.SetBasicAuth("git", tok.Str)
		case "cookie":
			req.AddCookie(&http.Cookie{Name: "arvados_api_token", Value: EncodeTokenCookie([]byte(tok.Str))})
		}
		creds := NewCredentials()
		creds.LoadTokensFromHTTPRequest(req)
		creds.LoadTokensFromHTTPRequestBody(req)
		found := false
		for _, x := range creds.Tokens {
			if x == tok.Str {
				found = true
			}
		}
		run.Eval(1)
		if found {
			run.Count("load_found_"+place, 1)
		} else {
			run.Count("load_missed_"+place, 1)
		}
		run.Feature("load," + place + "," + tok.Class)
	})

	// ---- Python cross-check of the reference HMAC
	if run.Replaying() {
		return
	}
	root := os.Getenv("VERIF_ROOT")
	script := filepath.Join(root, "pyref", "c19_hmac.py")
	py := ""
	for _, cand := range []string{"python3-vt", "python3"} {
		if p, err := exec.LookPath(cand); err == nil {
			py = p
			break
		}
	}
	if root == "" || py == "" {
		run.Inconclusive("C19: python reference not runnable (VERIF_ROOT or python3 missing)")
		return
	}
	var in bytes.Buffer
	for _, p := range pysample {
		b, _ := json.Marshal(map[string]string{"secret_hex": hex.EncodeToString([]byte(p.secret)), "remote_hex": hex.EncodeToString([]byte(p.remote))})
		in.Write(b)
		in.WriteByte('\n')
	}
	cmd := exec.Command(py, script)
	cmd.Stdin = &in
	out, err := cmd.Output()
	if err != nil {
		run.Inconclusive(fmt.Sprintf("C19: python reference failed: %v", err))
		return
	}
	lines := strings.Split(strings.TrimSpace(string(out)), "\n")
	if len(lines) != len(pysample) {
		run.Inconclusive(fmt.Sprintf("C19: python reference returned %d lines for %d inputs", len(lines), len(pysample)))
		return
	}
	for k, p := range pysample {
		run.Eval(1)
		run.Count("python_hmac_crosschecks", 1)
		if ref := c19kit.RefSalt(p.secret, p.remote); ref != lines[k] {
			run.Violation("C19:reference:go-stdlib-hmac-differs-from-python", fmt.Sprintf("secret %q remote %q: Go stdlib %s, Python %s", p.secret, p.remote, ref, lines[k]), nil)
		}
	}
}
