//go:build verif

package manifest

// C10 — all manifest codecs agree with the published manifest format.
// This file: the Go manifest package (FileSegmentIterByName, Extract,
// StreamIter, BlockIterWithDuplicates, EscapeName/UnescapeName) and the
// Python SDK range mapper (pyref/c10_ranges_driver.py). See DESIGN.md §5 C10.
//
// Every call into the package is made in a worker process (the iterator
// goroutines of this package panic on their own goroutine, which is
// process-fatal), see internal/verifkit/mfgen/worker.go.

import (
	"encoding/base64"
	"fmt"
	"os"
	"runtime"
	"runtime/debug"
	"strings"
	"testing"
	"unicode/utf8"

	"git.arvados.org/arvados.git/internal/verifkit"
	"git.arvados.org/arvados.git/internal/verifkit/mfgen"
)

// TestVerifC10Worker is the worker side (inert unless started by the harness).
func TestVerifC10Worker(t *testing.T) {
	if os.Getenv("VERIF_C10_WORKER") == "" {
		t.Skip("worker entry point")
	}
	runtime.GOMAXPROCS(2)
	debug.SetGCPercent(400) // SizedDigests allocates 1 MiB per call; collect less often
	mfgen.Serve(c10Handle)
	os.Exit(0)
}

// c10IterInline is the body of Manifest.FileSegmentIterByName run on the
// calling goroutine (so that a panic in sendFileSegmentIterByName can be
// observed without losing the process).
func c10IterInline(streams []ManifestStream, filepath string) (segs []mfgen.Seg, panicked string) {
	defer func() {
		if e := recover(); e != nil {
			panicked = fmt.Sprintf("panic: %v\n%s", e, debug.Stack())
		}
	}()
	filepath = fixStreamName(filepath)
	for i := range streams {
		stream := &streams[i]
		if !strings.HasPrefix(filepath, stream.StreamName+"/") {
			continue
		}
		ch := make(chan *FileSegment, 4096)
		stream.sendFileSegmentIterByName(filepath, ch)
		close(ch)
		for seg := range ch {
			segs = append(segs, mfgen.Seg{Loc: seg.Locator, Off: int64(seg.Offset), Len: int64(seg.Len)})
		}
	}
	return
}

func c10Segs(ch <-chan *FileSegment) (out []mfgen.Seg) {
	for seg := range ch {
		out = append(out, mfgen.Seg{Loc: seg.Locator, Off: int64(seg.Offset), Len: int64(seg.Len)})
	}
	return
}

func c10Handle(req *mfgen.Req, resp *mfgen.Resp) {
	m := Manifest{Text: req.Text}
	switch req.Op {
	case "iter":
		// the real entry point, unprotected
		resp.Segs = c10Segs(m.FileSegmentIterByName(req.Path))
	case "all":
		var streams []ManifestStream
		for ms := range m.StreamIter() {
			streams = append(streams, ms)
			so := mfgen.StreamObs{Name: ms.StreamName, Blocks: ms.Blocks}
			if ms.Err != nil {
				so.Err = "error: " + ms.Err.Error()
			}
			for _, ft := range ms.FileStreamSegments {
				so.Toks = append(so.Toks, mfgen.TokObs{Pos: ft.SegPos, Len: ft.SegLen, Name: ft.Name})
			}
			resp.Streams = append(resp.Streams, so)
		}
		// pre-flight: would an iterator goroutine panic?
		for _, path := range req.Paths {
			if _, p := c10IterInline(streams, path); p != "" {
				resp.InlinePanic, resp.InlinePath = p, path
				return
			}
		}
		// Extract iterates over every path of the manifest, not only the requested ones
		for _, ms := range streams {
			if ms.Err != nil {
				break // Extract stops at the first stream error
			}
			for _, ft := range ms.FileStreamSegments {
				path := ms.StreamName + "/" + ft.Name
				if _, p := c10IterInline([]ManifestStream{ms}, path); p != "" {
					resp.InlinePanic, resp.InlinePath = p, path
					return
				}
			}
		}
		// the real entry points
		for _, path := range req.Paths {
			po := mfgen.PathObs{Path: path, Segs: c10Segs(m.FileSegmentIterByName(path))}
			for _, ms := range streams {
				if ms.Err == nil {
					ms := ms
					po.StreamSegs = append(po.StreamSegs, c10Segs(ms.FileSegmentIterByName(path))...)
				}
			}
			resp.Iter = append(resp.Iter, po)
		}
		for b := range m.BlockIterWithDuplicates() {
			resp.Strs = append(resp.Strs, fmt.Sprintf("%s+%d", b.Digest, b.Size))
		}
		if m.Err != nil {
			resp.BlocksErr = "error: " + m.Err.Error()
		}
		for _, pr := range req.Pairs {
			out := m.Extract(pr[0], pr[1])
			eo := mfgen.ExtractObs{Src: pr[0], Reloc: pr[1], Text: out.Text}
			if out.Err != nil {
				eo.Err = "error: " + out.Err.Error()
			}
			resp.Extracts = append(resp.Extracts, eo)
		}
		for _, s := range req.Strs {
			_, _, _ = UnescapeName(s), EscapeName(s), UnescapeName(EscapeName(s))
			ParseBlockLocator(s)
		}
	}
}

type c10Pair struct{ src, reloc string }

// c10Prep is one case prepared for execution: the requests for the Go worker
// and the Python driver, and (after exec) their answers.
type c10Prep struct {
	c      *mfgen.Case
	p      *mfgen.Parsed // meaning, if the input is a judgeable valid manifest
	ref    map[string][]byte
	req    *mfgen.Req
	resp   *mfgen.Resp
	crash  *mfgen.Crash
	wantPy bool
	py     *mfgen.PyResp
	pyHang bool
	bad    string // oracle self-check failure
}

type c10Harness struct {
	run       *verifkit.Run
	w         *mfgen.Worker
	py        *mfgen.Py
	rep       *mfgen.Reporter
	pyOK      bool
	quiet     bool // inside a shrink loop: do not count
	allPair   bool
	confirmed bool // the process-fatal nature of an inline panic has been demonstrated once
	cache     map[int]*c10Prep
	cacheStr  string
	hangs     int
	giveUp    bool // two confirmed stalls: stop feeding inputs (each costs two watchdog periods)
}

const c10Window = 32

func (h *c10Harness) eval(n int) {
	if !h.quiet {
		h.run.Eval(n)
	}
}

func (h *c10Harness) count(name string, n int) {
	if !h.quiet {
		h.run.Count(name, n)
	}
}

func c10AllPairs(p *mfgen.Parsed) []c10Pair {
	srcs := append(mfgen.Dirs(p), p.Paths...)
	srcs = append(srcs, "./no-such-zz")
	var out []c10Pair
	for _, s := range srcs {
		for _, r := range []string{".", "./n", "./n/", "./n/m", "./a b/"} {
			out = append(out, c10Pair{s, r})
		}
	}
	return out
}

func c10GoOnly(p *mfgen.Parsed) bool {
	for _, f := range mfgen.Features(p) {
		if f == "high-byte-escape" {
			return true
		}
	}
	return false
}

// prepValid prepares a valid manifest. rng == nil: all (src, reloc) pairs
// (bounded); otherwise (".", ".") plus four drawn ones.
func (h *c10Harness) prepValid(c *mfgen.Case, rng *verifkit.Rand, maxPairs int) *c10Prep {
	pr := &c10Prep{c: c}
	p, rej := mfgen.Interpret(c.Raw)
	if rej != nil || p.Conflict != "" || len(p.Unspecified) > 0 {
		pr.bad = fmt.Sprintf("generator produced a manifest the reference does not accept: %v %v: %q", rej, p, c.Raw)
		return pr
	}
	ref, err := mfgen.RefBytes(p)
	if err != nil {
		pr.bad = err.Error()
		return pr
	}
	pr.p, pr.ref = p, ref
	all := c10AllPairs(p)
	pairs := []c10Pair{{".", "."}}
	if h.allPair || rng == nil {
		pairs = all
		if len(pairs) > maxPairs {
			pairs = pairs[:maxPairs]
		}
	} else {
		for k := 0; k < 4; k++ {
			pairs = append(pairs, all[rng.Intn(len(all))])
		}
	}
	pr.req = &mfgen.Req{Op: "all", Text: c.Raw, Paths: append(append([]string{}, p.Paths...), "./no-such-file-zz")}
	for _, x := range pairs {
		pr.req.Pairs = append(pr.req.Pairs, [2]string{x.src, x.reloc})
	}
	pr.wantPy = !c10GoOnly(p)
	return pr
}

// prepAny prepares an arbitrary input (no-panic clause, must-reject inputs).
func (h *c10Harness) prepAny(c *mfgen.Case) *c10Prep {
	toks := strings.Fields(c.Raw)
	if len(toks) > 6 {
		toks = toks[:6]
	}
	return &c10Prep{c: c, wantPy: utf8.ValidString(c.Raw),
		req: &mfgen.Req{Op: "all", Text: c.Raw, Paths: mfgen.CandidateNames(c.Raw, 4), Pairs: [][2]string{{".", "."}}, Strs: toks}}
}

// exec runs the prepared cases through the Go worker and the Python driver
// (pipelined).
func (h *c10Harness) exec(preps []*c10Prep) {
	var reqs []*mfgen.Req
	var idx []int
	for i, pr := range preps {
		if pr.req != nil {
			reqs = append(reqs, pr.req)
			idx = append(idx, i)
		}
	}
	resps, crashes, err := h.w.CallMany(reqs)
	if err != nil {
		h.run.Inconclusive("go-manifest worker: " + err.Error())
	}
	for j, i := range idx {
		preps[i].resp, preps[i].crash = resps[j], crashes[j]
	}
	if !h.pyOK {
		return
	}
	var texts []string
	idx = idx[:0]
	for i, pr := range preps {
		if pr.wantPy {
			texts = append(texts, pr.c.Raw)
			idx = append(idx, i)
		}
	}
	pys, hangs, err := h.py.CallMany(texts, true)
	if err != nil {
		h.run.Inconclusive("python driver: " + err.Error())
		h.pyOK = false
	}
	for j, i := range idx {
		preps[i].py, preps[i].pyHang = pys[j], hangs[j]
	}
}

// window returns the prepared and executed case i of a stream, executing a
// window of this batch's next cases together.
func (h *c10Harness) window(stream string, i, n int, build func(rng *verifkit.Rand) *c10Prep) *c10Prep {
	if h.cacheStr != stream {
		h.cache, h.cacheStr = map[int]*c10Prep{}, stream
	}
	if pr, ok := h.cache[i]; ok {
		delete(h.cache, i)
		return pr
	}
	if h.giveUp {
		return build(verifkit.CaseRand(h.run.Seed(), stream, i))
	}
	var idxs []int
	var preps []*c10Prep
	step := h.run.BatchN()
	w := c10Window
	if h.run.Replaying() {
		w = 1
	}
	for idx := i; idx < n && len(idxs) < w; idx += step {
		idxs = append(idxs, idx)
		preps = append(preps, build(verifkit.CaseRand(h.run.Seed(), stream, idx)))
	}
	h.exec(preps)
	for k, idx := range idxs {
		h.cache[idx] = preps[k]
	}
	pr := h.cache[i]
	delete(h.cache, i)
	return pr
}

func (h *c10Harness) noteHang() {
	h.hangs++
	if h.hangs >= 2 && !h.giveUp {
		h.giveUp = true
		h.run.Inconclusive("two confirmed stalls in this batch: the remaining cases of the batch were not run")
	}
}

// ready makes sure a prepared case was executed (a stall in its window
// leaves the cases behind it unexecuted). false: the batch has given up.
func (h *c10Harness) ready(pr *c10Prep) bool {
	if h.giveUp {
		h.run.Count("skipped_after_stalls", 1)
		return false
	}
	if (pr.req != nil && pr.resp == nil && pr.crash == nil) || (pr.wantPy && h.pyOK && pr.py == nil && !pr.pyHang) {
		h.exec([]*c10Prep{pr})
	}
	return true
}

// goOutcome turns the worker's answer into a response or an X4 finding.
func (h *c10Harness) goOutcome(pr *c10Prep) (*mfgen.Resp, *mfgen.Finding) {
	req, crash, resp := pr.req, pr.crash, pr.resp
	if req == nil {
		return nil, nil
	}
	if crash != nil && crash.Kind == "hang" {
		// a stall is a violation only if it reproduces in isolation
		ok, why := h.w.ConfirmHang(req)
		if !ok {
			h.run.Inconclusive(fmt.Sprintf("go-manifest worker stalled on %q but the stall was not confirmed: %s", req.Text, why))
			return nil, nil
		}
		crash.Log = why
		h.noteHang()
	}
	if crash != nil {
		h.count("worker_crashes", 1)
		return nil, &mfgen.Finding{Key: "X4:go-manifest:" + crash.Kind,
			Detail: fmt.Sprintf("go-manifest: process-fatal %s in %s on input %q: %s\n%s", crash.Kind, crash.Site, req.Text, crash.Headline, crash.Log)}
	}
	if resp == nil {
		return nil, nil
	}
	if resp.Panic != "" {
		return nil, &mfgen.Finding{Key: "X4:go-manifest:panic",
			Detail: fmt.Sprintf("go-manifest: panic in %s on input %q: %s", mfgen.PanicSite(resp.Panic), req.Text, resp.Panic)}
	}
	if resp.InlinePanic != "" {
		detail := fmt.Sprintf("go-manifest: panic in %s while iterating %q of %q; Manifest.FileSegmentIterByName / Extract run this on a goroutine of their own, where it is process-fatal\n%s",
			mfgen.PanicSite(resp.InlinePanic), resp.InlinePath, req.Text, resp.InlinePanic)
		if !h.confirmed && !h.quiet {
			h.confirmed = true
			_, c2, _ := h.w.Call(&mfgen.Req{Op: "iter", Text: req.Text, Path: resp.InlinePath})
			if c2 != nil {
				detail += fmt.Sprintf("\nconfirmed through the real entry point Manifest.FileSegmentIterByName(%q): the process died: %s\n%s", resp.InlinePath, c2.Headline, c2.Log)
				h.run.Count("process_fatal_confirmed", 1)
			} else {
				h.run.Inconclusive(fmt.Sprintf("inline panic for %q of %q did not reproduce through Manifest.FileSegmentIterByName", resp.InlinePath, req.Text))
			}
		}
		h.count("inline_panics", 1)
		return nil, &mfgen.Finding{Key: "X4:go-manifest:panic", Detail: detail}
	}
	return resp, nil
}

// goValid: X1 (iterators), X2 (Extract), X4 for a valid manifest.
func (h *c10Harness) goValid(pr *c10Prep) []mfgen.Finding {
	var out []mfgen.Finding
	p, ref, text := pr.p, pr.ref, pr.c.Raw
	resp, f := h.goOutcome(pr)
	h.eval(1)
	if f != nil {
		return []mfgen.Finding{*f}
	}
	if resp == nil {
		return nil
	}
	for _, po := range resp.Iter {
		h.eval(2)
		if po.Path == "./no-such-file-zz" {
			if len(po.Segs) > 0 || len(po.StreamSegs) > 0 {
				out = append(out, mfgen.Finding{Key: "X1:go-manifest:file-invented", Detail: fmt.Sprintf("segments %s for a path that is not in %q", mfgen.SegsString(po.Segs), text)})
			}
			continue
		}
		if f := mfgen.JudgeSegs("go-manifest", po.Path, p.Segs[po.Path], po.Segs); f != nil {
			f.Detail = "Manifest.FileSegmentIterByName: " + f.Detail + fmt.Sprintf(" (manifest %q)", text)
			out = append(out, *f)
		}
		if f := mfgen.JudgeSegs("go-manifest", po.Path, p.Segs[po.Path], po.StreamSegs); f != nil {
			f.Detail = "ManifestStream.FileSegmentIterByName: " + f.Detail + fmt.Sprintf(" (manifest %q)", text)
			out = append(out, *f)
		}
	}
	h.eval(1)
	for _, s := range resp.Streams {
		if s.Err != "" {
			out = append(out, mfgen.Finding{Key: "X1:go-manifest:valid-rejected", Detail: fmt.Sprintf("stream %q of valid manifest %q: %s", s.Name, text, s.Err)})
		}
	}
	if len(resp.Streams) != len(p.Streams) {
		out = append(out, mfgen.Finding{Key: "X1:go-manifest:stream-count", Detail: fmt.Sprintf("%d streams seen in %q, expected %d", len(resp.Streams), text, len(p.Streams))})
	}
	if resp.BlocksErr != "" {
		out = append(out, mfgen.Finding{Key: "X1:go-manifest:valid-rejected", Detail: fmt.Sprintf("BlockIterWithDuplicates of valid manifest %q: %s", text, resp.BlocksErr)})
	}
	for _, eo := range resp.Extracts {
		h.eval(1)
		if eo.Err != "" {
			out = append(out, mfgen.Finding{Key: "X2:go-extract:valid-rejected", Detail: fmt.Sprintf("Extract(%q,%q) of valid manifest %q: %s", eo.Src, eo.Reloc, text, eo.Err)})
			continue
		}
		want := mfgen.ExtractExpect(p, ref, eo.Src, eo.Reloc)
		fs, judged := mfgen.JudgeOutput("go-extract", want, eo.Text)
		if !judged {
			h.count("x2_go_extract_output_unspecified", 1)
			continue
		}
		for _, f := range fs {
			f.Detail = fmt.Sprintf("Extract(%q,%q) of %q: %s", eo.Src, eo.Reloc, text, f.Detail)
			out = append(out, f)
		}
	}
	return out
}

// ---- Python

func (h *c10Harness) pyOutcome(pr *c10Prep) (*mfgen.PyResp, *mfgen.Finding) {
	if !pr.wantPy || !h.pyOK {
		return nil, nil
	}
	if pr.pyHang {
		ok, why := h.py.ConfirmHang(pr.c.Raw)
		if !ok {
			h.run.Inconclusive(fmt.Sprintf("python driver stalled on %q but the stall was not confirmed: %s", pr.c.Raw, why))
			return nil, nil
		}
		h.noteHang()
		return nil, &mfgen.Finding{Key: "X4:python-ranges:hang", Detail: fmt.Sprintf("python: no answer within %s, twice (the second time in a fresh process that had just answered a control request), on %q", h.py.Timeout, pr.c.Raw)}
	}
	return pr.py, nil
}

func (h *c10Harness) pyValid(pr *c10Prep) []mfgen.Finding {
	var out []mfgen.Finding
	p, ref, text := pr.p, pr.ref, pr.c.Raw
	resp, f := h.pyOutcome(pr)
	if f != nil {
		return []mfgen.Finding{*f}
	}
	if resp == nil {
		return nil
	}
	h.count("python_manifests", 1)
	if !resp.OK {
		h.eval(1)
		switch resp.Where {
		case "ranges", "normalize":
			return []mfgen.Finding{{Key: "X4:python-" + resp.Where + ":exception", Detail: fmt.Sprintf("python %s raised %s on valid manifest %q\n%s", resp.Where, resp.Exc, text, resp.Trace)}}
		default:
			// the mirrored tokenizer is not code under test
			if !h.quiet {
				h.run.Count("python_mirror_rejected_valid", 1)
				h.run.Note(fmt.Sprintf("python mirror (%s) rejected a valid manifest: %s: %q", resp.Where, resp.Exc, text))
			}
			return nil
		}
	}
	got := map[string][]mfgen.Seg{}
	for _, pf := range resp.Files {
		got[pf.Path] = pf.Segs
	}
	h.eval(len(p.Paths))
	out = append(out, mfgen.JudgeFileSet("python-ranges", p, got)...)
	// read lookups: locators_and_ranges(file segments, offset, size)
	for _, rr := range resp.Ranges {
		if len(rr) != 2 {
			continue
		}
		path := c10B64(rr[0])
		reads, _ := rr[1].([]interface{})
		for _, r := range reads {
			t, _ := r.([]interface{})
			if len(t) != 3 {
				continue
			}
			off, n := int64(c10Num(t[0])), int64(c10Num(t[1]))
			var segs []mfgen.Seg
			if l, ok := t[2].([]interface{}); ok {
				for _, s := range l {
					if u, ok := s.([]interface{}); ok && len(u) == 3 {
						loc, _ := u[0].(string)
						segs = append(segs, mfgen.Seg{Loc: loc, Off: int64(c10Num(u[1])), Len: int64(c10Num(u[2]))})
					}
				}
			}
			h.eval(1)
			// judged against the file content python itself holds, if that is right
			whole, ok := mfgen.Bytes(mfgen.Canon(got[path]))
			if !ok || string(whole) != string(ref[path]) || off+n > int64(len(whole)) {
				continue // already reported above
			}
			gb, ok := mfgen.Bytes(mfgen.Canon(segs))
			if ok && string(gb) == string(whole[off:off+n]) {
				continue
			}
			sym := "read-mismatch"
			if len(gb) < int(n) {
				sym = "read-segment-dropped"
			}
			out = append(out, mfgen.Finding{Key: "X1:python-ranges:" + sym, Detail: fmt.Sprintf("python: locators_and_ranges(segments of %q, %d, %d) gives %s = %q, the file's bytes there are %q (manifest %q)", path, off, n, mfgen.SegsString(segs), gb, whole[off:off+n], text)})
		}
	}
	// normalize (its input is what the range mapper resolved: judged only if that was right)
	h.eval(1)
	fs, judged := mfgen.JudgeOutput("python-normalize", ref, resp.Norm)
	if len(out) > 0 {
		h.count("x2_python_skipped_after_x1_finding", 1)
	} else if judged {
		for _, f := range fs {
			f.Detail = fmt.Sprintf("normalized text of %q: %s", text, f.Detail)
			out = append(out, f)
		}
	} else {
		h.count("x2_python_output_unspecified", 1)
	}
	// the reference's portable data hash, cross-checked with hashlib
	if resp.PDH != p.PDH() {
		h.run.Inconclusive(fmt.Sprintf("reference PDH %s differs from the Python cross-check %s for %q (oracle defect)", p.PDH(), resp.PDH, text))
	}
	return out
}

func c10b64dec(s string) ([]byte, error) { return base64.StdEncoding.DecodeString(s) }

func c10Num(v interface{}) float64 { f, _ := v.(float64); return f }

func c10B64(v interface{}) string {
	s, _ := v.(string)
	b, _ := c10b64dec(s)
	return string(b)
}

// recheck runs a candidate text (shrinking) through fn quietly.
func (h *c10Harness) recheck(valid bool, fn func(*c10Prep) []mfgen.Finding) func(string) []mfgen.Finding {
	return func(t string) []mfgen.Finding {
		h.quiet = true
		defer func() { h.quiet = false }()
		c := &mfgen.Case{Kind: "shrink", Raw: t}
		var pr *c10Prep
		if valid {
			pr = h.prepValid(c, nil, 40)
			if pr.bad != "" {
				return nil
			}
		} else {
			pr = h.prepAny(c)
		}
		h.exec([]*c10Prep{pr})
		return fn(pr)
	}
}

// ---- one valid manifest through every codec of this package

func (h *c10Harness) valid(pr *c10Prep) {
	run := h.run
	if pr.bad != "" {
		run.Inconclusive(pr.bad)
		return
	}
	p, c := pr.p, pr.c
	feats := mfgen.Features(p)
	nontrivial := false
	for _, b := range pr.ref {
		if len(b) > 0 {
			nontrivial = true
		}
	}
	if nontrivial {
		run.Feature(mfgen.FeatureSig(feats))
	} else {
		run.Trivial()
	}
	for _, a := range mfgen.Alignments(p) {
		run.Count("align:"+a, 1)
	}
	for _, f := range feats {
		run.Count("feat:"+f, 1)
	}
	run.Sample(c)
	h.rep.Valid(c, h.goValid(pr), h.recheck(true, h.goValid))
	if !pr.wantPy {
		run.Count("python_skipped_high_byte_escape", 1)
	} else if h.pyOK {
		h.rep.Valid(c, h.pyValid(pr), h.recheck(true, h.pyValid))
	}
}

// ---- X4 on arbitrary input (plus "an error comes without content")

func (h *c10Harness) anyInput(pr *c10Prep) []mfgen.Finding {
	var found []mfgen.Finding
	text := pr.c.Raw
	resp, f := h.goOutcome(pr)
	h.eval(4)
	if f != nil {
		found = append(found, *f)
	}
	if resp != nil {
		for _, eo := range resp.Extracts {
			if eo.Err != "" && eo.Text != "" {
				found = append(found, mfgen.Finding{Key: "X5:go-extract:error-with-content", Detail: fmt.Sprintf("Extract of %q returned %s together with text %q", text, eo.Err, eo.Text)})
			}
		}
	}
	if pr.wantPy {
		r, f := h.pyOutcome(pr)
		if f != nil {
			found = append(found, *f)
		}
		h.eval(1)
		if r != nil {
			if r.OK {
				h.count("python_garbage_accepted", 1)
			} else {
				h.count("python_garbage_exception:"+r.Where, 1)
			}
		}
	}
	return found
}

func (h *c10Harness) garbage(pr *c10Prep) {
	c := pr.c
	h.run.Count("garbage:"+c.Class, 1)
	if pr.p != nil {
		// happens to be a valid manifest: the full oracle applies (X4 included)
		h.run.Count("garbage_valid_judged", 1)
		h.valid(pr)
		return
	}
	h.rep.Text(c, "", h.anyInput(pr), h.recheck(false, h.anyInput))
	h.run.Feature("garbage:" + c.Class + ":" + mfgen.InvalidClass(c.Raw))
}

// ---- X5

func (h *c10Harness) reject(pr *c10Prep) {
	run := h.run
	c := pr.c
	text := c.Raw
	if p, rej := mfgen.Interpret(text); rej == nil && p.Conflict == "" {
		run.Inconclusive(fmt.Sprintf("must-reject generator (%s) produced a manifest the reference accepts: %q", c.Class, text))
		return
	}
	run.Feature("reject:" + c.Class)
	run.Count("reject:"+c.Class, 1)
	found := h.anyInput(pr) // no panic on it, whatever the class
	if !mfgen.FSOnlyClass(c.Class) && pr.resp != nil && pr.resp.InlinePanic == "" && pr.resp.Panic == "" {
		h.eval(3)
		for _, eo := range pr.resp.Extracts {
			if eo.Err == "" {
				found = append(found, mfgen.Finding{Key: "X5:go-extract:accepted", Detail: fmt.Sprintf("Extract accepted the malformed manifest %q (%s: %s) and returned %q", text, c.Class, c.Detail, eo.Text)})
			}
		}
		bad := false
		for _, s := range pr.resp.Streams {
			if s.Err != "" {
				bad = true
			}
		}
		if !bad {
			found = append(found, mfgen.Finding{Key: "X5:go-streamiter:accepted", Detail: fmt.Sprintf("StreamIter reported no error for the malformed manifest %q (%s: %s)", text, c.Class, c.Detail)})
		}
		if pr.resp.BlocksErr == "" {
			found = append(found, mfgen.Finding{Key: "X5:go-blockiter:accepted", Detail: fmt.Sprintf("BlockIterWithDuplicates left Err nil for the malformed manifest %q (%s: %s)", text, c.Class, c.Detail)})
		}
	}
	var crash, x5 []mfgen.Finding
	for _, f := range found {
		if strings.HasPrefix(f.Key, "X5:") {
			x5 = append(x5, f)
		} else {
			crash = append(crash, f)
		}
	}
	h.rep.Text(c, c.Class, x5, nil)
	h.rep.Text(c, "", crash, h.recheck(false, h.anyInput))
}

func TestVerifC10(t *testing.T) {
	if os.Getenv("VERIF_C10_WORKER") != "" {
		t.Skip("worker process")
	}
	runtime.GOMAXPROCS(2) // the harness is sequential; fewer Ps = less scheduler churn on a busy machine
	debug.SetGCPercent(400)
	run := verifkit.Start(t, "C10")
	defer run.Finish()
	h := &c10Harness{run: run, w: mfgen.NewWorker("TestVerifC10Worker"), rep: mfgen.NewReporter(run), allPair: run.Thorough()}
	defer h.w.Close()
	py, err := mfgen.NewPy()
	if err != nil {
		run.Inconclusive("python driver not available: " + err.Error())
	} else {
		h.py, h.pyOK = py, true
		defer py.Close()
	}
	one := func(c *mfgen.Case) *c10Prep {
		pr := h.prepValid(c, nil, 80)
		h.exec([]*c10Prep{pr})
		return pr
	}

	// regression anchors: every batch process runs each of them once, first
	anchorsDone := map[int]bool{}
	na := mfgen.NAnchors * run.BatchN() // NAnchors is coprime to the batch counts in use: each process gets each anchor once
	if run.Replaying() {
		na = mfgen.NAnchors * 64
	}
	run.Cases("anchors", na, func(i int, rng *verifkit.Rand) {
		a := i % mfgen.NAnchors
		if anchorsDone[a] {
			return
		}
		anchorsDone[a] = true
		c := &mfgen.Case{Kind: "fixed", Class: "anchor", Text: mfgen.FixedValid[a], Raw: mfgen.FixedValid[a]}
		run.Input(c, true)
		h.valid(one(c))
	})
	fixed := append(append([]string{}, mfgen.FixedValid[mfgen.NAnchors:]...), "")
	run.Cases("fixed", len(fixed), func(i int, rng *verifkit.Rand) {
		c := &mfgen.Case{Kind: "fixed", Text: mfgen.JSONSafe(fixed[i]), Raw: fixed[i]}
		run.Input(c, true)
		h.valid(one(c))
	})
	run.Cases("fixed-garbage", len(mfgen.FixedGarbage), func(i int, rng *verifkit.Rand) {
		c := &mfgen.Case{Kind: "garbage", Class: "fixed", Text: mfgen.JSONSafe(mfgen.FixedGarbage[i]), Raw: mfgen.FixedGarbage[i]}
		run.Input(c, true)
		var pr *c10Prep
		if p := mfgen.Judgeable(c.Raw); p != nil && len(p.Streams) > 0 {
			pr = h.prepValid(c, nil, 20)
		} else {
			pr = h.prepAny(c)
		}
		h.exec([]*c10Prep{pr})
		h.garbage(pr)
	})
	n := run.N(16000, 500000)
	run.Cases("main", n, func(i int, _ *verifkit.Rand) {
		pr := h.window("main", i, n, func(rng *verifkit.Rand) *c10Prep { return h.prepValid(mfgen.MainCase(rng), rng, 80) })
		run.Input(pr.c, true)
		if !h.ready(pr) {
			return
		}
		h.valid(pr)
		if i%2000 < run.BatchN() {
			run.Checkpoint()
		}
	})
	n = run.N(3000, 60000)
	run.Cases("reject", n, func(i int, _ *verifkit.Rand) {
		pr := h.window("reject", i, n, func(rng *verifkit.Rand) *c10Prep { return h.prepAny(mfgen.RejectCase(rng)) })
		run.Input(pr.c, true)
		if !h.ready(pr) {
			return
		}
		h.reject(pr)
	})
	n = run.N(5000, 150000)
	run.Cases("garbage", n, func(i int, _ *verifkit.Rand) {
		pr := h.window("garbage", i, n, func(rng *verifkit.Rand) *c10Prep {
			c := mfgen.GarbageCase(rng)
			if p := mfgen.Judgeable(c.Raw); p != nil && len(p.Streams) > 0 {
				return h.prepValid(c, rng, 80)
			}
			return h.prepAny(c)
		})
		run.Input(pr.c, true)
		if !h.ready(pr) {
			return
		}
		h.garbage(pr)
	})
	h.w.Close()
	if h.py != nil {
		h.py.Close()
	}
	self, kids := mfgen.CPUSeconds()
	run.Count("cpu_ms_harness", int(self*1000))
	run.Count("cpu_ms_worker_and_python", int(kids*1000))
	run.Count("worker_spawns", h.w.Spawns)
	run.Count("worker_calls", h.w.Calls)
	if h.py != nil {
		run.Count("python_spawns", h.py.Spawns)
		run.Count("python_calls", h.py.Calls)
		if h.py.Calls == 0 && !run.Replaying() {
			run.Inconclusive("the Python range mapper was never exercised")
		}
	}
	if h.w.Calls == 0 && !run.Replaying() {
		run.Inconclusive("the Go manifest package was never exercised")
	}
}
