//go:build verif

package keepclient

// C06 (b) — an index response cut short at any byte is reported as an error
// by KeepClient.GetIndex; the untruncated response is delivered exactly
// (minus the terminating blank line). See /verif/DESIGN.md §5 C06.

import (
	"bytes"
	"fmt"
	"io/ioutil"
	"net/http"
	"testing"
	"time"

	"git.arvados.org/arvados.git/internal/verifkit"
	"git.arvados.org/arvados.git/sdk/go/arvadosclient"
)

type c06IdxCase struct {
	Entries int    `json:"entries"`
	Len     int    `json:"len_F"`
	Shard   int    `json:"shard"`
	K       int    `json:"k,omitempty"`
	Framing string `json:"framing,omitempty"`
	Reader  string `json:"reader,omitempty"`
	Prefix  string `json:"prefix_tail,omitempty"`
}

func c06IndexSizes(run *verifkit.Run) []int {
	if run.Thorough() {
		var ns []int
		for n := 0; n <= 40; n++ {
			ns = append(ns, n)
		}
		return ns
	}
	seed := verifkit.CaseRand(run.Seed(), "c06-index-sizes", 1)
	return []int{0, 1, 2, 3, seed.Range(4, 12), seed.Range(13, 40)}
}

const c06Shards = 4

func c06Tail(b []byte) string {
	if len(b) > 50 {
		b = b[len(b)-50:]
	}
	return string(b)
}

func c06NClass(n int) string {
	switch {
	case n <= 3:
		return fmt.Sprint(n)
	case n <= 12:
		return "4-12"
	}
	return "13-40"
}

func TestVerifC06(t *testing.T) {
	run := verifkit.Start(t, "C06")
	defer run.Finish()
	srv, err := verifkit.C06NewRawServer()
	if err != nil {
		t.Fatal(err)
	}
	defer srv.Close()
	kc := &KeepClient{
		Arvados: &arvadosclient.ArvadosClient{
			ApiToken:        "veriftoken",
			ApiServer:       "verif.invalid",
			KeepServiceURIs: []string{srv.URL()},
		},
		Want_replicas: 1,
		HTTPClient:    &http.Client{Transport: &http.Transport{DisableKeepAlives: true, DisableCompression: true}, Timeout: 5 * time.Minute},
	}
	const svcUUID = "00000-bi6l4-000000000000000" // the uuid discoverServices gives KeepServiceURIs[0]
	if kc.LocalRoots()[svcUUID] == "" {
		t.Fatalf("verif: keep service root not set: %v", kc.LocalRoots())
	}
	const rdName = "keepclient.KeepClient.GetIndex"

	sizes := c06IndexSizes(run)
	// case i = (body F number i/c06Shards, shard i%c06Shards): the shard checks
	// the cut points k with k % c06Shards == shard, so that the prefixes of one
	// long body are spread over the parallel children. F depends only on
	// (seed, i/c06Shards).
	run.Cases("index-keepclient", len(sizes)*c06Shards, func(i int, _ *verifkit.Rand) {
		n := sizes[i/c06Shards]
		shard := i % c06Shards
		rng := verifkit.CaseRand(run.Seed(), "c06-index-body", i/c06Shards)
		_, F := verifkit.C06GenIndex(rng, n)
		base := c06IdxCase{Entries: n, Len: len(F), Shard: shard, Reader: rdName}
		run.Input(base, false)
		reqs0, _ := srv.Requests()
		nk := 0
		for k := shard; k <= len(F); k += c06Shards {
			nk++
			prefix := F[:k]
			class := verifkit.C06PrefixClass(F, k)
			for _, fr := range verifkit.C06Framings {
				srv.Set(verifkit.C06Frame(fr, prefix, len(F), k == len(F), rng))
				rdr, err := kc.GetIndex(svcUUID, "")
				run.Eval(1)
				c := base
				c.K, c.Framing, c.Prefix = k, fr, c06Tail(prefix)
				if k < len(F) {
					run.Count("b_truncated_prefixes_checked", 1)
					run.Count("b_truncated_"+fr, 1)
					if err == nil {
						// "The returned reader will return an error (other
						// than EOF) if the complete index cannot be
						// retrieved": give the reader its chance.
						var body []byte
						body, err = ioutil.ReadAll(rdr)
						if err == nil {
							run.Violation("C06:b:truncated-index-accepted:"+rdName+":"+fr,
								fmt.Sprintf("%s delivered %d bytes and no error for an index response cut at byte %d of %d (%s, framing %s); tail of what was sent: %q",
									rdName, len(body), k, len(F), class, fr, c06Tail(prefix)), c)
						}
					}
					if err != nil {
						run.Count("b_truncated_rejected", 1)
					}
				} else {
					run.Count("b_complete_checked", 1)
					if err != nil {
						run.Violation("C06:b:complete-index-rejected:"+rdName+":"+fr,
							fmt.Sprintf("%s rejected the complete well-formed index (%d entries, framing %s): %v", rdName, n, fr, err), c)
					} else if body, err := ioutil.ReadAll(rdr); err != nil || !bytes.Equal(body, F[:len(F)-1]) {
						run.Violation("C06:b:complete-index-wrong-entries:"+rdName+":"+fr,
							fmt.Sprintf("%s on the complete index (%d entries, framing %s): read err=%v, %d bytes, want the %d entry lines (%d bytes)", rdName, n, fr, err, len(body), n, len(F)-1), c)
					}
				}
				run.Feature(fmt.Sprintf("b:keepclient:n=%s:%s:%s", c06NClass(n), fr, class))
			}
		}
		reqs1, last := srv.Requests()
		if want := int64(nk * len(verifkit.C06Framings)); reqs1-reqs0 != want {
			run.Inconclusive(fmt.Sprintf("C06(b) keepclient: raw server answered %d requests, expected %d (last %q)", reqs1-reqs0, want, last))
		}
	})
}
