//go:build verif

package keepclient

// C11 — a Keep client Put reports success only when enough replicas are
// confirmed. See /verif/DESIGN.md §5 C11.
//
// The real KeepClient (PutB / PutHB / PutHR -> putReplicas ->
// uploadToKeepServer) is driven against scripted fake Keep services. Each
// service answers its k-th request with the k-th entry of its script. Two
// transports:
//
//   - in-process: an HTTPClient that reads and MD5-checks the complete upload
//     body, records the exact order of requests and answers, and answers from
//     the script (used for the exhaustive enumeration and most random cases);
//   - real: loopback httptest servers + a real http.Transport (random subset).
//
// The oracle (U1..U7) only looks at the log of requests received / answers
// given and at the (locator, replicas, err) returned by the Put. It never
// calls putReplicas' helpers to compute an expectation.

import (
	"bytes"
	"crypto/md5"
	"encoding/json"
	"errors"
	"fmt"
	"io"
	"net"
	"net/http"
	"net/http/httptest"
	"runtime"
	"sort"
	"strconv"
	"strings"
	"sync"
	"sync/atomic"
	"testing"
	"testing/iotest"
	"time"

	"git.arvados.org/arvados.git/internal/verifkit"
	"git.arvados.org/arvados.git/sdk/go/arvadosclient"
)

// ---------------------------------------------------------------- outcomes

// Outcome tokens. "conn" = connection error after the body was sent, "dial" =
// connection error before anything was read. Prefix "slow:" delays the answer
// until another answer has been delivered (or a short bound expires).
var c11Terminal = []string{"200r1", "200r2", "200nh", "400", "403", "503"}
var c11Retryable = []string{"408", "429", "500", "502", "conn"}

// Prefix "late:" (stream shared-http-client only) delays the answer by a real
// time span that is far inside the request timeout configured for the type of
// this client's services.
func c11Base(o string) string {
	return strings.TrimPrefix(strings.TrimPrefix(o, "slow:"), "late:")
}

func c11IsRetryable(o string) bool {
	switch c11Base(o) {
	case "408", "429", "500", "502", "conn", "dial", "bodyerr":
		return true
	}
	return false
}

func c11Is200(o string) bool { return strings.HasPrefix(c11Base(o), "200") }

// replicas confirmed by a 200 answer of this kind
func c11Rep(o string) int {
	switch c11Base(o) {
	case "200r1", "200nh":
		return 1
	case "200r2":
		return 2
	}
	return 0
}

func c11Status(o string) int {
	b := c11Base(o)
	if strings.HasPrefix(b, "200") {
		return 200
	}
	n, _ := strconv.Atoi(b)
	return n
}

// ---------------------------------------------------------------- case

type c11Svc struct {
	UUID   string   `json:"uuid"`
	Type   string   `json:"type"` // disk | proxy
	RO     bool     `json:"ro"`
	Script []string `json:"script"` // outcome of the k-th request = Script[min(k,len-1)]
}

type c11Case struct {
	Mode     string   `json:"mode"` // enum | random | boundary
	API      string   `json:"api"`  // PutB | PutHB | PutHR | PutHR-wronghash | PutHR-oversize
	Reader   string   `json:"reader,omitempty"`
	Size     int      `json:"size"`
	DataSeed uint64   `json:"data_seed"`
	Hash     string   `json:"hash"`
	Wanted   int      `json:"wanted"`
	Retries  int      `json:"retries"`
	Svcs     []c11Svc `json:"svcs"`
	Real     bool     `json:"real_transport"`
	Decoy    bool     `json:"decoy_headers"` // non-200 answers carry X-Keep-Replicas-Stored too
	// HashBlind: the fake services answer from their script even when the
	// body they received does not hash to the address (a real Keep service
	// answers 422). Only set for some real-transport wrong-hash puts.
	HashBlind bool   `json:"hash_blind_services,omitempty"`
	Kind      string `json:"client_kind,omitempty"` // shared-http-client: disk | proxy | uris | mixed
	EnumIdx   string `json:"enum,omitempty"`
	// History: for multi-step cases on ONE client, the services lists that
	// were loaded (and whether a Put was made) before this step's list
	History []string `json:"history,omitempty"`
	// RefreshStyle (refresh stream, discovery path): "" = one refresh request,
	// the API answers at once; "put-during-fetch" = one refresh request, the
	// Put is issued after it returned while the keep_services/accessible call
	// it caused is still in flight; "second-request-during-fetch" = a second
	// refresh request is made while the call caused by the first is in flight,
	// the Put is issued as soon as all refresh requests have returned.
	// RefreshVia: how each refresh request is made (kc = kc.RefreshServiceDiscovery(),
	// pkg = RefreshServiceDiscovery()).
	RefreshStyle string   `json:"refresh_style,omitempty"`
	RefreshVia   []string `json:"refresh_via,omitempty"`
	// DefaultClient: KeepClient.HTTPClient is nil, the Put goes through the
	// process-wide default http client of the keepclient package (real
	// loopback servers). Insecure = ArvadosClient.ApiInsecure. URIs: the
	// services come from ArvadosClient.KeepServiceURIs (ARVADOS_KEEP_SERVICES)
	// instead of a services list. LateMs: delay of a "late:" answer.
	DefaultClient bool `json:"default_http_client,omitempty"`
	Insecure      bool `json:"api_insecure,omitempty"`
	URIs          bool `json:"keep_service_uris,omitempty"`
	LateMs        int  `json:"late_ms,omitempty"`
	data          []byte
}

func (s *c11Svc) outcome(k int) string {
	if k >= len(s.Script) {
		k = len(s.Script) - 1
	}
	return s.Script[k]
}

// ---------------------------------------------------------------- fake services

type c11Req struct {
	Seq      int    `json:"seq"`
	Svc      int    `json:"svc"`
	Attempt  int    `json:"attempt"`
	Outcome  string `json:"outcome"`
	BodyRead bool   `json:"body_read"`
	BodyErr  string `json:"body_err,omitempty"`
	BodyLen  int    `json:"body_len"`
	CLen     int64  `json:"content_length"`
	BodyMD5  string `json:"body_md5,omitempty"`
	PathHash string `json:"path_hash"`
	Locator  string `json:"locator,omitempty"`
	Method   string `json:"method"`
	Desired  string `json:"desired_hdr"`
}

type c11State struct {
	mu       sync.Mutex
	c        *c11Case
	hostIdx  map[string]int
	nreq     []int
	log      []c11Req
	unknown  []string
	answered int64
	inflight int64
	// verifyHash: refuse (422) complete bodies whose md5 is not the address
	verifyHash bool
	entered    int64
	exited     int64
}

type c11Answer struct {
	abort   error
	status  int
	header  http.Header
	body    string
	outcome string
}

var c11BufPool = sync.Pool{New: func() interface{} { b := make([]byte, 32<<10); return &b }}

var c11StatusText = map[int]string{200: "200 OK", 422: "422 Unprocessable Entity", 400: "400 Bad Request", 403: "403 Forbidden", 408: "408 Request Timeout", 429: "429 Too Many Requests", 500: "500 Internal Server Error", 502: "502 Bad Gateway", 503: "503 Service Unavailable"}

// serve is the behaviour of fake service svc for one request; shared by both
// transports.
func (st *c11State) serve(svc int, method, pathHash, desired string, clen int64, body io.Reader) c11Answer {
	atomic.AddInt64(&st.inflight, 1)
	defer atomic.AddInt64(&st.inflight, -1)
	a0 := atomic.LoadInt64(&st.answered)
	st.mu.Lock()
	attempt := st.nreq[svc]
	st.nreq[svc]++
	out := st.c.Svcs[svc].outcome(attempt)
	st.mu.Unlock()
	rec := c11Req{Svc: svc, Attempt: attempt, Outcome: out, CLen: clen, PathHash: pathHash, Method: method, Desired: desired}
	base := c11Base(out)
	if base == "dial" {
		st.record(&rec)
		return c11Answer{abort: errors.New("dial tcp: connection refused (verif)"), outcome: out}
	}
	var err error
	var blen int64
	h := md5.New()
	if body != nil {
		bp := c11BufPool.Get().(*[]byte)
		blen, err = io.CopyBuffer(struct{ io.Writer }{h}, struct{ io.Reader }{body}, *bp)
		c11BufPool.Put(bp)
	}
	rec.BodyLen = int(blen)
	if err != nil {
		// what a real transport does when the request body fails: the
		// request fails, no answer is seen by the client
		rec.BodyErr = err.Error()
		rec.Outcome = "bodyerr"
		st.record(&rec)
		return c11Answer{abort: err, outcome: "bodyerr"}
	}
	rec.BodyRead = true
	rec.BodyMD5 = fmt.Sprintf("%x", h.Sum(nil))
	if strings.HasPrefix(out, "slow:") {
		// answer after some other request has been answered; give up when no
		// other request is in flight (nothing to wait for) or after a bound
		for i := 0; i < 80 && atomic.LoadInt64(&st.answered) == a0; i++ {
			if i >= 8 && atomic.LoadInt64(&st.inflight) <= 1 {
				break
			}
			if i < 60 {
				runtime.Gosched()
			} else {
				time.Sleep(20 * time.Microsecond)
			}
		}
	}
	if strings.HasPrefix(out, "late:") {
		time.Sleep(time.Duration(st.c.LateMs) * time.Millisecond)
	}
	if st.verifyHash && rec.BodyMD5 != pathHash {
		// a faithful Keep service refuses a body that does not match its address
		out = "422"
		base = "422"
		rec.Outcome = out
	}
	if base == "conn" {
		st.record(&rec)
		return c11Answer{abort: errors.New("read tcp: connection reset by peer (verif)"), outcome: out}
	}
	ans := c11Answer{status: c11Status(out), header: http.Header{}, outcome: out}
	if ans.status == 200 {
		// a signed locator for exactly the hash and size that were
		// received, tagged with service and attempt
		rec.Locator = fmt.Sprintf("%s+%d+A%040x@7fffffff", pathHash, blen, svc*1000+attempt+1)
		ans.body = rec.Locator + "\n"
		switch base {
		case "200r1":
			ans.header.Set(XKeepReplicasStored, "1")
		case "200r2":
			ans.header.Set(XKeepReplicasStored, "2")
		}
	} else {
		// a refusal whose body looks like a locator, and (as keepproxy
		// does) may carry a replicas-stored header
		ans.body = fmt.Sprintf("%s+%d+Adec0ydec0ydec0ydec0ydec0ydec0ydec0ydec0y@7fffffff\n", pathHash, blen)
		if st.c.Decoy {
			ans.header.Set(XKeepReplicasStored, strconv.Itoa(1+(svc+attempt)%2))
		}
	}
	st.record(&rec)
	return ans
}

func (st *c11State) record(rec *c11Req) {
	st.mu.Lock()
	rec.Seq = len(st.log)
	st.log = append(st.log, *rec)
	st.mu.Unlock()
	atomic.AddInt64(&st.answered, 1)
}

func (st *c11State) snapshot() ([]c11Req, []string) {
	st.mu.Lock()
	defer st.mu.Unlock()
	return append([]c11Req(nil), st.log...), append([]string(nil), st.unknown...)
}

type c11RT func(*http.Request) (*http.Response, error)

func (f c11RT) RoundTrip(r *http.Request) (*http.Response, error) { return f(r) }

// c11InProc is the in-process HTTPClient.
type c11InProc struct{ st *c11State }

func (t *c11InProc) Do(req *http.Request) (*http.Response, error) {
	st := t.st
	atomic.AddInt64(&st.entered, 1)
	defer atomic.AddInt64(&st.exited, 1)
	if req.Body != nil {
		defer req.Body.Close()
	}
	svc, ok := st.hostIdx[req.URL.Host]
	if !ok {
		st.mu.Lock()
		st.unknown = append(st.unknown, req.Method+" "+req.URL.String())
		st.mu.Unlock()
		return nil, errors.New("no such host (verif)")
	}
	var body io.Reader
	if req.Body != nil {
		body = req.Body
	}
	ans := st.serve(svc, req.Method, strings.TrimPrefix(req.URL.Path, "/"), req.Header.Get(XKeepDesiredReplicas), req.ContentLength, body)
	if ans.abort != nil {
		return nil, ans.abort
	}
	return &http.Response{
		Status:        c11StatusText[ans.status],
		StatusCode:    ans.status,
		Proto:         "HTTP/1.1",
		ProtoMajor:    1,
		ProtoMinor:    1,
		Header:        ans.header,
		Body:          io.NopCloser(strings.NewReader(ans.body)),
		ContentLength: int64(len(ans.body)),
		Request:       req,
	}, nil
}

// real transport: a pool of loopback servers; the case is found through the
// X-Request-Id the client sends (KeepClient.RequestID is set per case), so a
// late request of an earlier case can never be attributed to another case.
type c11Pool struct {
	servers []*httptest.Server
	hosts   []string
	ports   []int
	states  sync.Map // request id -> *c11State
	client  *http.Client
	stray   int64
}

func c11NewPool(n int) *c11Pool {
	p := &c11Pool{}
	for i := 0; i < n; i++ {
		idx := i
		srv := httptest.NewServer(http.HandlerFunc(func(w http.ResponseWriter, r *http.Request) {
			v, ok := p.states.Load(r.Header.Get("X-Request-Id"))
			if !ok {
				atomic.AddInt64(&p.stray, 1)
				io.Copy(io.Discard, r.Body)
				w.WriteHeader(503)
				return
			}
			st := v.(*c11State)
			ans := st.serve(idx, r.Method, strings.TrimPrefix(r.URL.Path, "/"), r.Header.Get(XKeepDesiredReplicas), r.ContentLength, r.Body)
			if ans.abort != nil {
				if hj, ok := w.(http.Hijacker); ok {
					if conn, _, err := hj.Hijack(); err == nil {
						conn.Close()
						return
					}
				}
				panic(http.ErrAbortHandler)
			}
			for k, vs := range ans.header {
				w.Header()[k] = vs
			}
			w.WriteHeader(ans.status)
			io.WriteString(w, ans.body)
		}))
		p.servers = append(p.servers, srv)
		host, port, _ := net.SplitHostPort(strings.TrimPrefix(srv.URL, "http://"))
		pn, _ := strconv.Atoi(port)
		p.hosts = append(p.hosts, host)
		p.ports = append(p.ports, pn)
	}
	p.client = &http.Client{Transport: &http.Transport{MaxIdleConnsPerHost: 8, IdleConnTimeout: 30 * time.Second}}
	return p
}

func (p *c11Pool) Close() {
	p.client.CloseIdleConnections()
	for _, s := range p.servers {
		s.Close()
	}
}

type c11RealClient struct {
	p  *c11Pool
	st *c11State
}

func (c *c11RealClient) Do(req *http.Request) (*http.Response, error) {
	atomic.AddInt64(&c.st.entered, 1)
	defer atomic.AddInt64(&c.st.exited, 1)
	return c.p.client.Do(req)
}

// ---------------------------------------------------------------- readers for PutHR

func c11MakeReader(kind string, data []byte) io.Reader {
	switch kind {
	case "onebyte":
		return iotest.OneByteReader(bytes.NewReader(data))
	case "dataerr":
		return iotest.DataErrReader(bytes.NewReader(data))
	case "half":
		return iotest.HalfReader(bytes.NewReader(data))
	}
	return bytes.NewReader(data)
}

// ---------------------------------------------------------------- execution + oracle

type c11Env struct {
	run     *verifkit.Run
	pool    *c11Pool
	caseSeq int64
	bigOnce []byte
}

func c11Data(c *c11Case) []byte {
	if c.data == nil || len(c.data) != c.Size {
		c.data = verifkit.NewRand(c.DataSeed).Bytes(c.Size)
	}
	return c.data
}

func c11ServicesJSON(c *c11Case, hosts []string, ports []int) string {
	type item struct {
		UUID string `json:"uuid"`
		Host string `json:"service_host"`
		Port int    `json:"service_port"`
		SSL  bool   `json:"service_ssl_flag"`
		Type string `json:"service_type"`
		RO   bool   `json:"read_only"`
	}
	var items []item
	for i, s := range c.Svcs {
		items = append(items, item{UUID: s.UUID, Host: hosts[i], Port: ports[i], Type: s.Type, RO: s.RO})
	}
	b, _ := json.Marshal(map[string]interface{}{"items": items})
	return string(b)
}

// c11Shared: one KeepClient used for several steps (services list refreshed
// between them). mode json: every step calls LoadKeepServicesFromJSON again;
// mode api: the client discovers its services from a stub API whose
// keep_services/accessible answer is replaced between steps.
type c11Shared struct {
	kc      *KeepClient
	mode    string
	states  sync.Map // request id -> *c11State of the step that made the request
	stray   int64
	mu      sync.Mutex
	list    string
	fetches int
	// gate: while non-nil, a keep_services/accessible call to the stub API
	// stays in flight (its answer - the list as of the arrival of the call -
	// is held back) until the gate is closed; arrived is signalled when such
	// a call comes in.
	gate         chan struct{}
	arrived      chan struct{}
	gateWatchdog int64
}

// apiFetch is the stub API's keep_services/accessible handler.
func (sh *c11Shared) apiFetch() string {
	sh.mu.Lock()
	body := sh.list
	sh.fetches++
	g, arr := sh.gate, sh.arrived
	sh.mu.Unlock()
	if g != nil {
		select {
		case arr <- struct{}{}:
		default:
		}
		select {
		case <-g:
		case <-time.After(10 * time.Second):
			atomic.AddInt64(&sh.gateWatchdog, 1)
		}
	}
	return body
}

// overlappedRefresh makes the refresh requests of c.RefreshVia such that the
// keep_services/accessible call caused by the first one is still in flight
// when the others are made. It returns when all refresh requests have
// returned. If they all return while the call is still in flight, the call is
// left in flight (the caller's Put comes next; the returned open() ends the
// call, and it ends by itself a little later, since a client that waits for
// the fresh list needs it). Otherwise (a refresh request waits for the call)
// the call is allowed to end first. Steering only: the Put that follows is
// judged against the list the API server had when the first refresh request
// was made, whichever way it went.
func (sh *c11Shared) overlappedRefresh(run *verifkit.Run, c *c11Case) (open func()) {
	gate := make(chan struct{})
	arrived := make(chan struct{}, 16)
	sh.mu.Lock()
	sh.gate, sh.arrived = gate, arrived
	sh.mu.Unlock()
	var once sync.Once
	open = func() {
		once.Do(func() {
			sh.mu.Lock()
			sh.gate = nil
			sh.mu.Unlock()
			close(gate)
		})
	}
	done := make(chan struct{}, len(c.RefreshVia))
	issue := func(via string) {
		go func() {
			if via == "pkg" {
				RefreshServiceDiscovery()
			} else {
				sh.kc.RefreshServiceDiscovery()
			}
			done <- struct{}{}
		}()
	}
	issue(c.RefreshVia[0])
	select {
	case <-arrived:
	case <-time.After(10 * time.Second):
		run.Count("refresh_overlap_fetch_never_arrived(non-deciding)", 1)
		open()
	}
	for _, via := range c.RefreshVia[1:] {
		issue(via)
	}
	returned := 0
	grace := time.NewTimer(40 * time.Millisecond)
	defer grace.Stop()
wait:
	for returned < len(c.RefreshVia) {
		select {
		case <-done:
			returned++
		case <-grace.C:
			break wait
		}
	}
	if returned == len(c.RefreshVia) {
		run.Count("refresh_overlap_all_requests_returned_while_fetch_in_flight", 1)
		time.AfterFunc(15*time.Millisecond, open)
		return open
	}
	run.Count("refresh_overlap_a_request_waited_for_the_fetch", 1)
	open()
	for returned < len(c.RefreshVia) {
		select {
		case <-done:
			returned++
		case <-time.After(30 * time.Second):
			run.Inconclusive("C11: a refresh request did not return within 30 s although the keep_services/accessible call was answered")
			return open
		}
	}
	return open
}

// Request timeouts configured (package variables of keepclient) while the
// stream shared-http-client runs, and the delay of a "late:" answer: far above
// the timeout for disk services, far below the timeout for proxies.
const (
	c11DiskRequestTimeout  = 400 * time.Millisecond
	c11ProxyRequestTimeout = 120 * time.Second
	c11LateMs              = 1000
)

// c11AllNonDisk: every listed service is of a type other than disk (the
// client is a pure proxy client; the timeouts for proxies apply to it).
func c11AllNonDisk(c *c11Case) bool {
	for _, s := range c.Svcs {
		if s.Type == "disk" {
			return false
		}
	}
	return true
}

// Do routes a request of the shared client to the step that issued it (the
// client stamps every upload with the request id of its Put), so that a late,
// abandoned upload of an earlier step is never attributed to a later one.
func (sh *c11Shared) Do(req *http.Request) (*http.Response, error) {
	v, ok := sh.states.Load(req.Header.Get("X-Request-Id"))
	if !ok {
		atomic.AddInt64(&sh.stray, 1)
		if req.Body != nil {
			req.Body.Close()
		}
		return nil, errors.New("step is over (verif)")
	}
	return (&c11InProc{st: v.(*c11State)}).Do(req)
}

func (env *c11Env) exec(c *c11Case) { env.execOn(c, nil) }

func (env *c11Env) execOn(c *c11Case, sh *c11Shared) {
	run := env.run
	env.caseSeq++
	st := &c11State{c: c, hostIdx: map[string]int{}, nreq: make([]int, len(c.Svcs)), verifyHash: c.API == "PutHR-wronghash" && !c.HashBlind}
	hosts := make([]string, len(c.Svcs))
	ports := make([]int, len(c.Svcs))
	for i := range c.Svcs {
		if c.Real {
			hosts[i], ports[i] = env.pool.hosts[i], env.pool.ports[i]
		} else {
			hosts[i], ports[i] = fmt.Sprintf("c11-s%d.invalid", i), 25107
		}
		st.hostIdx[fmt.Sprintf("%s:%d", hosts[i], ports[i])] = i
	}
	reqid := fmt.Sprintf("c11-%d-%d", run.BatchK(), env.caseSeq)
	kc := &KeepClient{
		Arvados:       &arvadosclient.ArvadosClient{ApiToken: "veriftoken", Client: http.DefaultClient},
		Want_replicas: c.Wanted,
		Retries:       c.Retries,
		RequestID:     reqid,
	}
	if sh != nil {
		kc = sh.kc
		kc.Want_replicas, kc.Retries, kc.RequestID = c.Wanted, c.Retries, reqid
	}
	if sh != nil {
		sh.states.Store(reqid, st)
		defer sh.states.Delete(reqid)
		kc.HTTPClient = sh
	} else if c.DefaultClient {
		// the package's process-wide default http client
		env.pool.states.Store(reqid, st)
		defer env.pool.states.Delete(reqid)
		kc.HTTPClient = nil
		kc.Arvados.ApiInsecure = c.Insecure
	} else if c.Real {
		env.pool.states.Store(reqid, st)
		defer env.pool.states.Delete(reqid)
		kc.HTTPClient = &c11RealClient{p: env.pool, st: st}
	} else {
		kc.HTTPClient = &c11InProc{st: st}
	}
	if sh != nil && sh.mode == "api" {
		// the stub API now answers with this step's list; make the
		// discovery cache fetch it, and let the client load it
		sh.mu.Lock()
		sh.list = c11ServicesJSON(c, hosts, ports)
		sh.mu.Unlock()
		if c.RefreshStyle == "" {
			kc.RefreshServiceDiscovery()
			kc.WritableLocalRoots()
		} else {
			open := sh.overlappedRefresh(run, c)
			// whatever happens below: end the API call, then let the
			// client load a list, so that no call is in flight when the
			// next step changes the API server's answer
			defer kc.WritableLocalRoots()
			defer open()
		}
	} else if c.URIs {
		for i := range c.Svcs {
			kc.Arvados.KeepServiceURIs = append(kc.Arvados.KeepServiceURIs, fmt.Sprintf("http://%s:%d", hosts[i], ports[i]))
		}
	} else if err := kc.LoadKeepServicesFromJSON(c11ServicesJSON(c, hosts, ports)); err != nil {
		run.Inconclusive("C11: LoadKeepServicesFromJSON failed: " + err.Error())
		return
	}
	if c.API == "none" {
		return // a step that only loads a services list
	}

	var data []byte
	if c.Mode == "boundary" && env.bigOnce != nil {
		data = env.bigOnce
	} else {
		data = c11Data(c)
	}
	trueHash := verifkit.MD5Hex(data)
	useHash := c.Hash
	g0 := runtime.NumGoroutine()

	var loc string
	var rep int
	var err error
	t0 := time.Now()
	switch c.API {
	case "PutB":
		loc, rep, err = kc.PutB(data)
	case "PutHB":
		loc, rep, err = kc.PutHB(useHash, data)
	case "PutHR", "PutHR-wronghash":
		loc, rep, err = kc.PutHR(useHash, c11MakeReader(c.Reader, data), int64(len(data)))
	case "PutHR-oversize":
		loc, rep, err = kc.PutHR(useHash, bytes.NewReader(data), int64(BLOCKSIZE)+int64(1+c.Size))
	default:
		run.Inconclusive("C11: unknown api " + c.API)
		return
	}
	elapsed := time.Since(t0)
	logAtReturn, _ := st.snapshot()
	if c.DefaultClient {
		// Watchdog (non-deciding): the default client has request/connect
		// timeouts. A Put that took longer than 3/4 of the shortest timeout
		// configured for this type of client may have had a request cut off
		// legitimately; it is not judged. (Disk type, or mixed: the 400 ms
		// request timeout set by this harness; pure proxy clients: the 30 s
		// connect timeout.)
		limit := c11DiskRequestTimeout
		if c11AllNonDisk(c) {
			limit = DefaultProxyConnectTimeout
			if c11ProxyRequestTimeout < limit {
				limit = c11ProxyRequestTimeout
			}
		}
		// requests the client has given up may still be held by a service
		for i := 0; i < 20*(c.LateMs+2000) && (atomic.LoadInt64(&st.inflight) > 0 || i < 3); i++ {
			time.Sleep(50 * time.Microsecond)
		}
		if elapsed >= limit*3/4 {
			run.Count("default_client_puts_not_judged(took longer than 3/4 of the client's shortest timeout; non-deciding)", 1)
			run.Trivial()
			return
		}
		run.Count("default_client_puts_judged", 1)
	}

	// wait for abandoned uploads (started, but not needed any more) so that
	// the request log is complete. Non-deciding: on timeout we only lose
	// observations. (putReplicas' deferred drain goroutine never ends when
	// uploads were abandoned - it keeps receiving on a channel nobody closes
	// - hence the "+1".)
	quiesced := false
	for i := 0; i < 1200; i++ {
		if atomic.LoadInt64(&st.entered) == atomic.LoadInt64(&st.exited) {
			if c.Real && i >= 3 {
				quiesced = true
				break
			}
			if !c.Real && runtime.NumGoroutine() <= g0+1 {
				quiesced = true
				break
			}
		}
		if i < 400 {
			runtime.Gosched()
		} else {
			time.Sleep(50 * time.Microsecond)
		}
	}
	if ng := runtime.NumGoroutine(); !c.Real && ng > g0 {
		run.Count("goroutines_left_behind_by_put(drain goroutine leak, non-deciding)", ng-g0)
	}
	if !quiesced {
		run.Count("quiesce_timeouts", 1)
	}
	log, unknown := st.snapshot()
	if len(log) > len(logAtReturn) {
		run.Count("answers_after_put_returned(abandoned uploads)", len(log)-len(logAtReturn))
	}

	bad := func(sig, detail string) {
		if sh != nil {
			sig += ":after-services-list-refresh"
			if c.RefreshStyle != "" {
				sig += ":" + c.RefreshStyle
			}
		}
		if c.DefaultClient {
			sig += ":process-wide-default-http-client"
			for _, r := range log {
				if strings.HasPrefix(r.Outcome, "late:") {
					sig += ":slow-answer-far-inside-the-timeout-for-proxies"
					break
				}
			}
			detail += fmt.Sprintf("\nPut took %v; this client: api_insecure=%v, all services non-disk=%v (request timeout configured: disk %v, proxy %v; late answers are delayed %d ms); default-client users in this process before it: %v", elapsed, c.Insecure, c11AllNonDisk(c), c11DiskRequestTimeout, c11ProxyRequestTimeout, c.LateMs, c.History)
		}
		b, _ := json.Marshal(log)
		run.Violation(sig, fmt.Sprintf("%s\nreturned: locator=%q replicas=%d err=%v\nrequest log: %s", detail, loc, rep, err, b), c)
	}
	wrongHash := c.API == "PutHR-wronghash"
	oversize := c.API == "PutHR-oversize"
	nW := 0
	for _, s := range c.Svcs {
		if !s.RO {
			nW++
		}
	}

	// ---- U1: only writable services of the list are written to
	run.Eval(1)
	for _, u := range unknown {
		bad("C11:U1:request-to-unlisted-host", "request to a host that is not in the service list: "+u)
	}
	for _, r := range log {
		if c.Svcs[r.Svc].RO {
			bad("C11:U1:write-to-readonly-service", fmt.Sprintf("request #%d went to read-only service %d (%s)", r.Seq, r.Svc, c.Svcs[r.Svc].UUID))
			break
		}
	}

	// ---- U2: at most 1+Retries requests per service; a further request
	// only after a retryable answer.
	// Observation limit: with the real transport a wrong-hash PutHR fails on
	// the client side (its body reader reports the checksum error after the
	// last byte) while the server may already have answered; the answers in
	// the server's log are then not the answers the client saw, so U2/U4
	// are not judged for that combination.
	observable := !(c.Real && wrongHash)
	perSvc := make([][]c11Req, len(c.Svcs))
	for _, r := range log {
		perSvc[r.Svc] = append(perSvc[r.Svc], r)
	}
	if observable {
		run.Eval(1)
	}
	for i, rs := range perSvc {
		if !observable {
			break
		}
		sort.Slice(rs, func(a, b int) bool { return rs[a].Attempt < rs[b].Attempt })
		if len(rs) > 1+c.Retries {
			bad("C11:U2:more-than-1+retries-requests", fmt.Sprintf("service %d received %d requests, retry limit %d allows %d", i, len(rs), c.Retries, 1+c.Retries))
		}
		for k := 1; k < len(rs); k++ {
			prev := rs[k-1].Outcome
			if !c11IsRetryable(prev) {
				bad("C11:U2:retry-after-non-retryable:"+c11Class(prev), fmt.Sprintf("service %d received request #%d after answering %q, which is not a transient failure", i, k+1, prev))
				break
			}
		}
		if k := len(rs); k > 1 {
			run.Count("retried_requests", k-1)
		}
	}
	// transient failures are retried up to the limit: when the Put gives up,
	// no service is left whose last answer was transient and which has been
	// asked fewer than 1+Retries times
	if err != nil && !oversize && observable {
		run.Eval(1)
		for i, rs := range perSvc {
			if len(rs) == 0 || len(rs) >= 1+c.Retries {
				continue
			}
			if last := rs[len(rs)-1].Outcome; c11IsRetryable(last) {
				bad("C11:U2:transient-failure-not-retried:"+c11Class(last), fmt.Sprintf("Put failed although service %d answered %q (transient) to request #%d of the %d allowed and was not asked again", i, last, len(rs), 1+c.Retries))
				break
			}
		}
	}

	// ---- replica accounting over the answers given
	sum200, sumAtReturn := 0, 0
	issued := map[string]bool{}
	for _, r := range log {
		if c11Is200(r.Outcome) && r.BodyRead {
			sum200 += c11Rep(r.Outcome)
			issued[r.Locator] = true
		}
	}
	for _, r := range logAtReturn {
		if c11Is200(r.Outcome) && r.BodyRead {
			sumAtReturn += c11Rep(r.Outcome)
		}
	}

	if err == nil {
		// ---- U3
		run.Eval(1)
		run.Count("put_ok", 1)
		if sumAtReturn < c.Wanted {
			bad("C11:U3:success-without-enough-confirmed-replicas", fmt.Sprintf("Put returned err=nil, wanted %d replicas, but the 200 answers given so far confirm only %d", c.Wanted, sumAtReturn))
		} else if rep > sumAtReturn {
			bad("C11:U3:success-count-exceeds-confirmed", fmt.Sprintf("Put returned %d replicas, the 200 answers given confirm only %d", rep, sumAtReturn))
		} else if rep < c.Wanted {
			bad("C11:U3:success-with-count-below-wanted", fmt.Sprintf("Put returned err=nil with replicas=%d < wanted %d", rep, c.Wanted))
		}
		if !issued[loc] {
			sig := "C11:U3:locator-not-issued-by-a-200-answer"
			if loc == "" {
				sig = "C11:U3:empty-locator-on-success"
			} else if strings.Contains(loc, "dec0y") {
				sig = "C11:U3:locator-taken-from-a-refusal"
			}
			bad(sig, fmt.Sprintf("Put succeeded with locator %q, which no service issued in a 200 answer for %s+%d", loc, useHash, len(data)))
		} else if !strings.HasPrefix(loc, fmt.Sprintf("%s+%d+", useHash, len(data))) {
			bad("C11:U3:locator-for-other-hash-or-size", fmt.Sprintf("locator %q is not for %s+%d", loc, useHash, len(data)))
		}
		// ---- U7 (not judged when hash-blind services acknowledged the
		// mismatching body over the real transport: then the services did
		// confirm the replicas, which is all the statement speaks about)
		if wrongHash && c.Real && c.HashBlind {
			run.Count("wronghash_puthr_succeeded_against_hash_blind_services(real transport, non-deciding)", 1)
		} else if wrongHash || oversize {
			bad("C11:U7:"+c.API+"-succeeded", fmt.Sprintf("%s returned err=nil (data md5 %s, given hash %s, declared size beyond BLOCKSIZE=%v)", c.API, trueHash, useHash, oversize))
		}
	} else {
		// ---- U4
		run.Eval(1)
		run.Count("put_failed", 1)
		if observable && rep != sum200 {
			bad("C11:U4:failure-count-differs-from-confirmed", fmt.Sprintf("Put failed and reported %d replicas stored; the 200 answers given confirm %d", rep, sum200))
		}
		if oversize && len(log) > 0 {
			run.Count("oversize_put_sent_requests", 1)
		}
	}
	if wrongHash || oversize {
		run.Eval(1)
		run.Count("u7_"+c.API, 1)
	}

	// ---- U5
	if !wrongHash && !oversize {
		acc := 0
		for _, s := range c.Svcs {
			if s.RO {
				continue
			}
			all := true
			for k := 0; k <= c.Retries; k++ {
				if !c11Is200(s.outcome(k)) {
					all = false
					break
				}
			}
			if all {
				acc++
			}
		}
		if acc >= c.Wanted {
			run.Eval(1)
			run.Count("u5_precondition_held", 1)
			if acc < nW {
				run.Count("u5_precondition_held_with_failing_others", 1)
			}
			if err != nil {
				bad("C11:U5:put-fails-although-enough-services-accept", fmt.Sprintf("%d writable services answer 200 on every attempt, wanted %d, but Put failed: %v", acc, c.Wanted, err))
			}
		}
	}

	// ---- U6: every upload received completely carries exactly the block
	run.Eval(1)
	for _, r := range log {
		if r.Method != "PUT" {
			bad("C11:U6:unexpected-method", fmt.Sprintf("request #%d is %s, not PUT", r.Seq, r.Method))
			break
		}
		if r.PathHash != useHash {
			bad("C11:U6:upload-addressed-to-other-hash", fmt.Sprintf("request #%d PUT /%s, block hash is %s", r.Seq, r.PathHash, useHash))
			break
		}
		if !r.BodyRead {
			continue
		}
		run.Count("upload_bodies_md5_checked", 1)
		if int64(r.BodyLen) != r.CLen {
			bad("C11:U6:body-length-differs-from-content-length", fmt.Sprintf("request #%d declared Content-Length %d and delivered %d bytes", r.Seq, r.CLen, r.BodyLen))
			break
		}
		if wrongHash {
			continue
		}
		if r.BodyLen != len(data) {
			bad("C11:U6:incomplete-upload", fmt.Sprintf("request #%d delivered %d bytes of a %d byte block", r.Seq, r.BodyLen, len(data)))
			break
		}
		if r.BodyMD5 != useHash {
			bad("C11:U6:upload-body-hash-mismatch", fmt.Sprintf("request #%d delivered a body with md5 %s for block %s", r.Seq, r.BodyMD5, useHash))
			break
		}
	}

	// ---- evidence
	run.Count("puts", 1)
	run.Count("requests_received", len(log))
	fired := map[string]bool{}
	nontrivial := wrongHash || oversize
	maxAtt := 0
	for _, r := range log {
		o := r.Outcome
		run.Count("answer:"+c11Base(o), 1)
		if strings.HasPrefix(o, "slow:") {
			run.Count("answer:slow", 1)
		}
		if strings.HasPrefix(o, "late:") {
			run.Count("answer:late", 1)
		}
		if r.Attempt == 0 {
			fired[c11Base(o)] = true
		}
		if c11Base(o) != "200r1" {
			nontrivial = true
		}
		if r.Attempt > maxAtt {
			maxAtt = r.Attempt
		}
	}
	if c.Real {
		run.Count("puts_real_transport", 1)
	}
	nRO := len(c.Svcs) - nW
	if nRO > 0 {
		run.Count("puts_with_readonly_services", 1)
	}
	if nontrivial {
		var fl []string
		for o := range fired {
			fl = append(fl, o)
		}
		sort.Strings(fl)
		res := "ok"
		if err != nil {
			res = "fail"
		}
		pre := ""
		if sh != nil {
			pre = fmt.Sprintf("refreshed-list(%s,step%d%s),", sh.mode, len(c.History), c.RefreshStyle)
		}
		if c.DefaultClient {
			earlier := map[string]bool{}
			for _, h := range c.History {
				if strings.HasSuffix(h, fmt.Sprintf("(api_insecure=%v)", c.Insecure)) {
					earlier[strings.SplitN(h, "(", 2)[0]] = true
				}
			}
			var el []string
			for k := range earlier {
				el = append(el, k)
			}
			sort.Strings(el)
			pre = fmt.Sprintf("default-http-client(%s,insecure=%v,earlier-in-process=%s),", c.Kind, c.Insecure, strings.Join(el, "|"))
		}
		run.Feature(pre + fmt.Sprintf("w%d,ro%d,%s,want%d,retr%d,%s,%s,first=%s,maxattempt=%d", nW, nRO, c11Types(c), c.Wanted, c.Retries, c.API, res, strings.Join(fl, "|"), maxAtt))
	} else {
		run.Trivial()
	}
}

func c11Class(o string) string {
	b := c11Base(o)
	if strings.HasPrefix(b, "200") {
		return "200"
	}
	return b
}

func c11Types(c *c11Case) string {
	d, p := 0, 0
	for _, s := range c.Svcs {
		if s.RO {
			continue
		}
		if s.Type == "disk" {
			d++
		} else {
			p++
		}
	}
	switch {
	case p == 0:
		return "alldisk"
	case d == 0:
		return "allproxy"
	}
	return "mixed"
}

// ---------------------------------------------------------------- enumeration

// c11Scripts returns every per-service script for retry limit R that a
// client obeying U2 can distinguish: j transient failures (j<=R) followed by a
// final answer, or R+1 transient failures. (Attempts after a final answer are
// never requested by such a client; if one is requested anyway the last entry
// is repeated and U2 reports it.)
func c11Scripts(R int) [][]string {
	var out [][]string
	var rec func(prefix []string)
	rec = func(prefix []string) {
		for _, t := range c11Terminal {
			out = append(out, append(append([]string(nil), prefix...), t))
		}
		for _, r := range c11Retryable {
			p := append(append([]string(nil), prefix...), r)
			if len(p) == R+1 {
				out = append(out, p)
			} else {
				rec(p)
			}
		}
	}
	rec(nil)
	return out
}

type c11Group struct {
	nsvc, R, wanted int
	variant         string // proxy | disk | disk-slow0 | disk-slow1
	size            int
	start           int
}

// c11Groups lists the groups of the <=2-services sub-space. A group is
// enumerated completely (enum=true) or only sampled, depending on the tier:
//
//	quick:    1 service: retry limit 0..3; 2 services: retry limit 0..1
//	thorough: 1 service: retry limit 0..3; 2 services: retry limit 0..2
//
// the other groups (2 services with higher retry limits) are sampled.
func c11Groups(thorough bool) (enum []c11Group, enumTotal int, sampled []c11Group, scripts map[int][][]string) {
	scripts = map[int][][]string{}
	for R := 0; R <= 3; R++ {
		scripts[R] = c11Scripts(R)
		L := len(scripts[R])
		for nsvc := 1; nsvc <= 2; nsvc++ {
			for wanted := 1; wanted <= 3; wanted++ {
				variants := []string{"proxy", "disk"}
				if nsvc == 2 && wanted >= 2 {
					// two disk services are written concurrently:
					// force both completion orders as well
					variants = append(variants, "disk-slow0", "disk-slow1")
				}
				for _, v := range variants {
					size := L
					if nsvc == 2 {
						size = L * L
					}
					g := c11Group{nsvc: nsvc, R: R, wanted: wanted, variant: v, size: size}
					full := nsvc == 1 || R <= 1
					if thorough {
						full = nsvc == 1 || R <= 2
					}
					if full {
						g.start = enumTotal
						enumTotal += size
						enum = append(enum, g)
					} else {
						sampled = append(sampled, g)
					}
				}
			}
		}
	}
	return
}

func c11EnumCase(g c11Group, off int, scripts map[int][][]string, rng *verifkit.Rand, mode string) *c11Case {
	L := len(scripts[g.R])
	c := &c11Case{Mode: mode, Wanted: g.wanted, Retries: g.R, EnumIdx: fmt.Sprintf("n=%d,R=%d,want=%d,%s,offset=%d", g.nsvc, g.R, g.wanted, g.variant, off)}
	typ := "disk"
	if g.variant == "proxy" {
		typ = "proxy"
	}
	idx := []int{off % L, off / L}
	for s := 0; s < g.nsvc; s++ {
		sc := append([]string(nil), scripts[g.R][idx[s]]...)
		if g.variant == fmt.Sprintf("disk-slow%d", s) {
			sc[0] = "slow:" + sc[0]
		}
		c.Svcs = append(c.Svcs, c11Svc{UUID: c11UUID(rng), Type: typ, Script: sc})
	}
	// a read-only bystander in half of the cases (never to be contacted)
	if rng.Bool() {
		ro := c11Svc{UUID: c11UUID(rng), Type: rng.PickStr("disk", "proxy"), RO: true, Script: []string{"200r2"}}
		pos := rng.Intn(len(c.Svcs) + 1)
		c.Svcs = append(c.Svcs[:pos], append([]c11Svc{ro}, c.Svcs[pos:]...)...)
	}
	c.Size = c11PickSize(rng, true)
	c.DataSeed = rng.Uint64()
	c11PickAPI(rng, c)
	c.Decoy = rng.Bool()
	c11Finish(c)
	return c
}

func c11UUID(rng *verifkit.Rand) string {
	return "zzzzz-bi6l4-" + rng.String(15, "0123456789abcdefghijklmnopqrstuvwxyz")
}

func c11PickSize(rng *verifkit.Rand, small bool) int {
	if small {
		return rng.PickInt(0, 1, 2, 3, 17, 64, 100)
	}
	switch {
	case rng.Chance(1, 3):
		return rng.PickInt(0, 1, 2, 255, 256, 4095, 4096, 4097, 65535, 65536, 65537)
	case rng.Chance(1, 250):
		return rng.Range(1<<20-1, 1<<20+1)
	default:
		return rng.Range(0, 5000)
	}
}

func c11PickAPI(rng *verifkit.Rand, c *c11Case) {
	switch rng.Intn(4) {
	case 0:
		c.API = "PutB"
	case 1:
		c.API = "PutHB"
	default:
		c.API = "PutHR"
		c.Reader = rng.PickStr("bytes", "bytes", "onebyte", "dataerr", "half")
		if c.Size > 8192 && c.Reader == "onebyte" {
			c.Reader = "half"
		}
		if c.Size == 0 {
			// PutHR with dataBytes=0 allocates (and clears) a BLOCKSIZE
			// buffer: exercised once, in the boundary stream
			c.Size = 1 + rng.Intn(64)
		}
	}
}

func c11Finish(c *c11Case) {
	c.Hash = verifkit.MD5Hex(c11Data(c))
}

func TestVerifC11(t *testing.T) {
	run := verifkit.Start(t, "C11")
	defer run.Finish()
	// two Ps: uploads can really run in parallel, while goroutine hand-offs
	// stay cheap when the machine is oversubscribed by the other batches
	defer runtime.GOMAXPROCS(runtime.GOMAXPROCS(2))
	env := &c11Env{run: run, pool: c11NewPool(7)}
	defer env.pool.Close()

	// ---- exhaustive sub-space: <=2 writable services
	groups, total, sampled, scripts := c11Groups(run.Thorough())
	run.Cases("enum", total, func(i int, rng *verifkit.Rand) {
		gi := sort.Search(len(groups), func(k int) bool { return groups[k].start+groups[k].size > i })
		g := groups[gi]
		c := c11EnumCase(g, i-g.start, scripts, rng, "enum")
		run.Input(c, false)
		env.exec(c)
		run.Count("exhaustive_assignments_executed", 1)
		if i%997 == 0 {
			run.Sample(c)
		}
	})
	if run.BatchK() == 0 && !run.Replaying() {
		run.Count("exhaustive_assignments_total", total)
		sub := "1 writable service: retry limit 0..3; 2 writable services: retry limit 0..1"
		if run.Thorough() {
			sub = "1 writable service: retry limit 0..3; 2 writable services: retry limit 0..2"
		}
		run.Note(fmt.Sprintf("exhaustive:true ONLY for this sub-space: {%s} x {wanted 1..3} x {all-proxy (sequential), all-disk (concurrent), and for 2 services with wanted>=2 all-disk with service 0 / service 1 forced to answer last} x every per-service outcome script over {200 rep 1, 200 rep 2, 200 no header, 400, 403, 503 | 408, 429, 500, 502, connection error}, scripts being enumerated up to the attempts a U2-obeying client can observe (j<=R transient failures then a final answer, or R+1 transient failures): %d assignments, split over the batches. Block content, uuids (hence probe order), API (PutB/PutHB/PutHR) and a read-only bystander are drawn per seed. The remaining 2-service groups are sampled (stream enum-sample), everything else is random (stream random).", sub, total))
	}

	// ---- the 2-service groups that are not enumerated in this tier: uniform sample
	if len(sampled) > 0 {
		run.Cases("enum-sample", run.N(40000, 400000), func(i int, rng *verifkit.Rand) {
			g := sampled[rng.Intn(len(sampled))]
			off := int(rng.Uint64() % uint64(g.size))
			c := c11EnumCase(g, off, scripts, rng, "enum-sample")
			run.Input(c, false)
			env.exec(c)
			run.Count("sampled_two_service_assignments", 1)
		})
	}

	// ---- random beyond
	nrand := run.N(60000, 1000000)
	all := append(append([]string{}, c11Terminal...), c11Retryable...)
	all = append(all, "dial")
	run.Cases("random", nrand, func(i int, rng *verifkit.Rand) {
		c := &c11Case{Mode: "random", Wanted: rng.Range(1, 3), Retries: rng.Range(0, 3)}
		nW := rng.Range(1, 5)
		nRO := 0
		if rng.Chance(1, 2) {
			nRO = rng.Range(1, 2)
		}
		allDisk := rng.Chance(1, 2)
		allProxy := !allDisk && rng.Chance(1, 2)
		mask := rng.Perm(nW + nRO)
		for s := 0; s < nW+nRO; s++ {
			sv := c11Svc{UUID: c11UUID(rng), RO: mask[s] >= nW}
			switch {
			case allDisk:
				sv.Type = "disk"
			case allProxy:
				sv.Type = "proxy"
			default:
				sv.Type = rng.PickStr("disk", "proxy")
			}
			if sv.RO && rng.Bool() {
				sv.Type = rng.PickStr("disk", "proxy")
			}
			mode := rng.Intn(6)
			for k := 0; k <= c.Retries; k++ {
				var o string
				switch mode {
				case 0, 1: // accepts on every attempt
					o = rng.PickStr("200r1", "200r1", "200r2", "200nh")
				case 2: // transient failures, maybe recovering
					if rng.Chance(1, 4) {
						o = rng.PickStr("200r1", "200r2", "200nh", "403", "503")
					} else {
						o = rng.PickStr("408", "429", "500", "502", "conn", "dial")
					}
				default:
					o = all[rng.Intn(len(all))]
				}
				if o != "dial" && rng.Chance(1, 8) {
					o = "slow:" + o
				}
				sv.Script = append(sv.Script, o)
			}
			c.Svcs = append(c.Svcs, sv)
		}
		c.Size = c11PickSize(rng, false)
		c.DataSeed = rng.Uint64()
		c11PickAPI(rng, c)
		c.Decoy = rng.Bool()
		c.Real = rng.Chance(1, 12)
		if c.Real && c.Size > 70000 {
			c.Size = rng.Range(0, 70000)
		}
		c11Finish(c)
		if c.API == "PutHR" && rng.Chance(1, 6) {
			// wrong hash: the md5 of other data, or one digit off
			c.API = "PutHR-wronghash"
			if c.Size == 0 {
				c.Size = 1 + rng.Intn(100)
			}
			c.HashBlind = c.Real && rng.Bool()
			if rng.Bool() {
				c.Hash = verifkit.MD5Hex(rng.Bytes(8))
			} else {
				h := []byte(verifkit.MD5Hex(c11Data(c)))
				p := rng.Intn(32)
				if h[p] == '0' {
					h[p] = '1'
				} else {
					h[p] = '0'
				}
				c.Hash = string(h)
			}
		} else if c.API == "PutHR" && rng.Chance(1, 25) {
			c.API = "PutHR-oversize"
			c.Size = rng.PickInt(0, 1, 1000)
		}
		run.Input(c, false)
		env.exec(c)
		if i < 6 {
			run.Sample(c)
		}
	})

	// ---- multi-step cases on ONE KeepClient: a services list is loaded (and
	// maybe used), then a refreshed list with the same uuids and addresses but
	// other read_only / service_type flags (or, for contrast, the same flags
	// or one service less), then a Put; every Put is judged (U1-U6) against
	// the list that was loaded LAST.
	run.Cases("refresh", run.N(8000, 160000), func(i int, rng *verifkit.Rand) {
		nsvc := rng.Range(2, 5)
		mode := rng.PickStr("json", "api")
		uuids := make([]string, nsvc)
		types := make([]string, nsvc)
		ro := make([]bool, nsvc)
		for s := 0; s < nsvc; s++ {
			uuids[s] = c11UUID(rng)
			types[s] = rng.PickStr("disk", "disk", "proxy")
			ro[s] = rng.Chance(1, 3)
		}
		fix := func() {
			any := false
			for _, r := range ro {
				any = any || !r
			}
			if !any {
				ro[rng.Intn(len(ro))] = false
			}
		}
		fix()
		sh := &c11Shared{mode: mode}
		arv := &arvadosclient.ArvadosClient{Scheme: "http", ApiToken: "veriftoken", Client: http.DefaultClient}
		if mode == "api" {
			arv.ApiServer = fmt.Sprintf("c11-api-%d-%d-%d.invalid:443", run.Seed(), run.BatchK(), i)
			arv.Client = &http.Client{Transport: c11RT(func(r *http.Request) (*http.Response, error) {
				st, body := 404, `{"errors":["not found"]}`
				if r.URL.Path == "/arvados/v1/keep_services/accessible" {
					st, body = 200, sh.apiFetch()
				}
				return &http.Response{StatusCode: st, Status: fmt.Sprintf("%d %s", st, http.StatusText(st)), Proto: "HTTP/1.1", ProtoMajor: 1, ProtoMinor: 1, Header: http.Header{"Content-Type": {"application/json"}}, Body: io.NopCloser(strings.NewReader(body)), Request: r}, nil
			})}
		}
		sh.kc = &KeepClient{Arvados: arv, Want_replicas: 2}
		nsteps := rng.PickInt(2, 2, 2, 3)
		var history []string
		changes := ""
		for step := 0; step < nsteps; step++ {
			if step > 0 {
				kind := rng.PickStr("flip-ro", "flip-ro", "flip-ro", "flip-ro", "flip-type", "both", "same", "drop-one")
				if kind == "drop-one" && len(uuids) < 3 {
					kind = "flip-ro"
				}
				switch kind {
				case "flip-ro", "both":
					for k := rng.Range(1, 2); k > 0; k-- {
						j := rng.Intn(len(ro))
						ro[j] = !ro[j]
					}
					fix()
				}
				switch kind {
				case "flip-type", "both":
					j := rng.Intn(len(types))
					if types[j] == "disk" {
						types[j] = "proxy"
					} else {
						types[j] = "disk"
					}
				case "drop-one":
					uuids, types, ro = uuids[:len(uuids)-1], types[:len(types)-1], ro[:len(ro)-1]
					fix()
				}
				changes += "," + kind
			}
			c := &c11Case{Mode: "refresh-" + mode, Wanted: rng.Range(1, 3), Retries: rng.Range(0, 2), History: append([]string(nil), history...)}
			for s := range uuids {
				sv := c11Svc{UUID: uuids[s], Type: types[s], RO: ro[s]}
				if sv.RO {
					// would gladly confirm two replicas if it were asked
					sv.Script = []string{"200r2"}
				} else {
					m := rng.Intn(4)
					for k := 0; k <= c.Retries; k++ {
						switch m {
						case 0, 1:
							sv.Script = append(sv.Script, rng.PickStr("200r1", "200r1", "200nh", "200r2"))
						case 2:
							sv.Script = append(sv.Script, rng.PickStr("500", "502", "408", "429", "conn", "200r1"))
						default:
							sv.Script = append(sv.Script, rng.PickStr("403", "503", "400", "500", "200r1", "slow:200r1"))
						}
					}
				}
				c.Svcs = append(c.Svcs, sv)
			}
			c.Size = c11PickSize(rng, true)
			c.DataSeed = rng.Uint64()
			c11PickAPI(rng, c)
			c.Decoy = rng.Bool()
			c11Finish(c)
			if step < nsteps-1 && rng.Chance(1, 3) {
				c.API = "none"
			}
			if mode == "api" && step > 0 && rng.Chance(1, 8) {
				// the API server is slow: the call caused by the refresh
				// request is still in flight when the Put (or a second
				// refresh request, then the Put) comes
				c.RefreshStyle = "put-during-fetch"
				c.RefreshVia = []string{rng.PickStr("kc", "pkg")}
				if rng.Chance(2, 3) {
					c.RefreshStyle = "second-request-during-fetch"
					c.RefreshVia = append(c.RefreshVia, rng.PickStr("kc", "pkg"))
				}
				run.Count("refresh_steps_"+c.RefreshStyle, 1)
			}
			run.Input(c, false)
			env.execOn(c, sh)
			desc := fmt.Sprintf("list%d{", step)
			for s := range uuids {
				desc += fmt.Sprintf("%s:%s:ro=%v ", uuids[s][12:17], types[s], ro[s])
			}
			history = append(history, desc+"} put="+c.API)
			if c.API != "none" {
				run.Count("puts_after_services_list_refresh_step_"+strconv.Itoa(step), 1)
			}
		}
		run.Count("refresh_sequences", 1)
		if n := atomic.LoadInt64(&sh.stray); n > 0 {
			run.Count("refresh_stray_requests_of_finished_steps", int(n))
		}
		run.Count("refresh_sequences_"+mode, 1)
		for _, k := range strings.Split(strings.TrimPrefix(changes, ","), ",") {
			run.Count("refresh_change_"+k, 1)
		}
		if n := atomic.LoadInt64(&sh.gateWatchdog); n > 0 {
			run.Count("refresh_api_call_released_by_watchdog(non-deciding)", int(n))
		}
		if mode == "api" {
			sh.mu.Lock()
			if sh.fetches < nsteps {
				run.Count("refresh_api_fewer_fetches_than_lists", 1)
			}
			run.Count("refresh_api_keep_services_fetches", sh.fetches)
			sh.mu.Unlock()
		}
	})

	// ---- KeepClients that use the package's process-wide default http client
	// (HTTPClient == nil), one after the other in this process: disk-only,
	// pure proxy (services list or KeepServiceURIs), mixed; ApiInsecure
	// on/off. Real loopback services; a service of a pure proxy client may
	// answer 200 "late": after c11LateMs, which is 2.5x the request timeout
	// configured for disk services and 1/120 of the one for proxies. The
	// timeouts are the package variables, set here before the first default
	// client of this process is made. Every Put is judged with U1-U6 unless it
	// took longer than 3/4 of the shortest timeout that applies to its client.
	oldD, oldP := DefaultRequestTimeout, DefaultProxyRequestTimeout
	DefaultRequestTimeout, DefaultProxyRequestTimeout = c11DiskRequestTimeout, c11ProxyRequestTimeout
	var defaultUsers []string
	run.Cases("shared-http-client", run.N(64, 1600), func(i int, rng *verifkit.Rand) {
		nclients := rng.PickInt(2, 2, 3)
		insecure := rng.Bool()
		for j := 0; j < nclients; j++ {
			if j > 0 && rng.Chance(1, 4) {
				insecure = !insecure
			}
			kind := rng.PickStr("disk", "disk", "proxy", "proxy", "uris", "mixed")
			c := &c11Case{Mode: "shared-http-client", Kind: kind, Real: true, DefaultClient: true, Insecure: insecure, URIs: kind == "uris",
				Wanted: rng.Range(1, 2), Retries: rng.Range(0, 1), LateMs: c11LateMs, History: append([]string(nil), defaultUsers...)}
			nW := rng.Range(1, 3)
			nRO := 0
			if kind != "uris" && rng.Chance(1, 3) {
				nRO = 1
			}
			if kind == "mixed" && nW+nRO < 2 {
				nW = 2
			}
			late := -1
			if (kind == "proxy" || kind == "uris") && rng.Bool() {
				late = rng.Intn(nW)
			}
			mask := rng.Perm(nW + nRO)
			w := 0
			for s := 0; s < nW+nRO; s++ {
				sv := c11Svc{UUID: c11UUID(rng), RO: mask[s] >= nW}
				switch kind {
				case "disk":
					sv.Type = "disk"
				case "mixed":
					sv.Type = []string{"disk", "proxy"}[(s+i)%2]
				default:
					sv.Type = "proxy"
				}
				if kind == "uris" {
					// what discoverServices calls the i-th URI
					sv.UUID = fmt.Sprintf("00000-bi6l4-%015d", s)
				}
				switch {
				case sv.RO:
					sv.Script = []string{"200r2"}
				case w == late:
					sv.Script = []string{"late:" + rng.PickStr("200r1", "200r2", "200nh")}
				default:
					accept := rng.Chance(2, 3)
					for k := 0; k <= c.Retries; k++ {
						if accept {
							sv.Script = append(sv.Script, rng.PickStr("200r1", "200r1", "200r2", "200nh"))
						} else {
							sv.Script = append(sv.Script, rng.PickStr("500", "503", "403", "conn", "200r1"))
						}
					}
				}
				if !sv.RO {
					w++
				}
				c.Svcs = append(c.Svcs, sv)
			}
			c.Size = c11PickSize(rng, true)
			c.DataSeed = rng.Uint64()
			c11PickAPI(rng, c)
			c.Decoy = rng.Bool()
			c11Finish(c)
			run.Input(c, false)
			env.exec(c)
			// (the first user of each kind is what matters: the package
			// makes its default clients on first use)
			u, seen := fmt.Sprintf("%s(api_insecure=%v)", kind, insecure), false
			for _, h := range defaultUsers {
				seen = seen || h == u
			}
			if !seen {
				defaultUsers = append(defaultUsers, u)
			}
			run.Count("default_client_puts_"+kind, 1)
		}
		run.Count("default_client_sequences", 1)
	})
	DefaultRequestTimeout, DefaultProxyRequestTimeout = oldD, oldP

	// ---- boundary: PutHR of the empty block (dataBytes=0); thorough: a block
	// of exactly BLOCKSIZE is not oversize
	run.Cases("boundary", run.N(1, 2), func(i int, rng *verifkit.Rand) {
		c := &c11Case{Mode: "boundary", API: "PutHR", Reader: "bytes", Wanted: 2, Retries: 1, Size: 0, DataSeed: rng.Uint64()}
		if i == 1 {
			c.Size = BLOCKSIZE
		}
		c.Svcs = []c11Svc{
			{UUID: c11UUID(rng), Type: "disk", Script: []string{"200r1"}},
			{UUID: c11UUID(rng), Type: "disk", Script: []string{"500", "500"}},
			{UUID: c11UUID(rng), Type: "disk", Script: []string{"200r1"}},
		}
		data := verifkit.NewRand(c.DataSeed).Bytes(c.Size)
		env.bigOnce = data
		c.Hash = verifkit.MD5Hex(data)
		run.Input(c, false)
		env.exec(c)
		env.bigOnce = nil
		run.Count(fmt.Sprintf("boundary_puts_size_%d", c.Size), 1)
	})

	if n := atomic.LoadInt64(&env.pool.stray); n > 0 {
		run.Count("stray_requests_after_case_end", int(n))
	}
}
