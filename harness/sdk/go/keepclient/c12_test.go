//go:build verif

package keepclient

// C12 (client part) — readers and writers probe Keep services in one
// rendezvous order. See /verif/DESIGN.md §5 C12. The balancer part lives in
// harness/services/keep-balance/c12_test.go.
//
// Observed: the order in which requests arrive at fake services (in-process
// HTTPClient) for a read that misses everywhere (Get/Ask, every service
// answers 404, Retries 0) and for a write that is refused everywhere (PutB,
// wanted 1, every service answers 403). Reference: services sorted by
// descending MD5hex(hash + last 15 characters of the 27-character uuid),
// computed here with crypto/md5 - root_sorter.go is never called by the oracle.

import (
	"bytes"
	"crypto/md5"
	"encoding/json"
	"errors"
	"fmt"
	"io"
	"net/http"
	"net/http/httptest"
	"sort"
	"strings"
	"sync"
	"testing"

	"git.arvados.org/arvados.git/internal/verifkit"
	"git.arvados.org/arvados.git/sdk/go/arvadosclient"
)

type c12Svc struct {
	UUID string `json:"uuid"`
	RO   bool   `json:"ro,omitempty"`
	Type string `json:"type"`
}

type c12Case struct {
	Svcs     []c12Svc          `json:"svcs"`
	Load     string            `json:"load"` // json (LoadKeepServicesFromJSON) | roots (SetServiceRoots)
	DataSeed uint64            `json:"data_seed"`
	Size     int               `json:"size"`
	Hash     string            `json:"hash"`
	Hints    []string          `json:"hints,omitempty"`    // in order of appearance, without '+'
	Filler   []string          `json:"filler,omitempty"`   // other hints mixed in (+A.., +R..)
	Gateways map[string]string `json:"gateways,omitempty"` // extra gateway uuid -> url (roots mode)
	Locator  string            `json:"locator"`
	ReadVia  string            `json:"read_via"` // Get | Ask
	Change   string            `json:"change"`   // remove:<i> | add:<uuid> | none
	K        int               `json:"k"`        // replicas for the write-then-read agreement check
}

// ---------------------------------------------------------------- reference

func c12MD5Hex(s string) string { return fmt.Sprintf("%x", md5.Sum([]byte(s))) }

// c12Weight: the reference weight is defined for 27-character uuids only.
func c12Weight(hash, uuid string) (string, bool) {
	if len(uuid) != 27 {
		return "", false
	}
	return c12MD5Hex(hash + uuid[len(uuid)-15:]), true
}

// c12RefOrder sorts 27-character uuids by descending weight (ties in input order).
func c12RefOrder(hash string, uuids []string) []string {
	out := append([]string(nil), uuids...)
	sort.SliceStable(out, func(i, j int) bool {
		wi, _ := c12Weight(hash, out[i])
		wj, _ := c12Weight(hash, out[j])
		return wi > wj
	})
	return out
}

// c12SelfTest validates the reference against the vector published in the
// Arvados SDK tests (16 services zzzzz-bi6l4-%015x, hashes md5("%064x" % h)).
func c12SelfTest() error {
	expected := []string{"3eab2d5fc9681074", "097dba52e648f1c3", "c5b4e023f8a7d691", "9d81c02e76a3bf54"}
	var uuids []string
	for i := 0; i < 16; i++ {
		uuids = append(uuids, fmt.Sprintf("zzzzz-bi6l4-%015x", i))
	}
	for h, exp := range expected {
		hash := c12MD5Hex(fmt.Sprintf("%064x", h))
		got := ""
		for _, u := range c12RefOrder(hash, uuids) {
			got += u[len(u)-1:]
		}
		if got != exp {
			return fmt.Errorf("reference order for published vector %d is %s, published %s", h, got, exp)
		}
	}
	return nil
}

// c12JudgeOrder checks an observed probe order (uuids) against the service
// set: it must be a permutation, and the 27-character uuids in it must appear
// in non-increasing reference weight (equal weights: either order).
func c12JudgeOrder(hash string, observed, set []string) (sig, detail string) {
	if len(observed) != len(set) {
		return "not-a-permutation", fmt.Sprintf("%d requests for %d services: observed %v, services %v", len(observed), len(set), observed, set)
	}
	seen := map[string]int{}
	for _, u := range observed {
		seen[u]++
	}
	for _, u := range set {
		if seen[u] != 1 {
			return "not-a-permutation", fmt.Sprintf("service %s was asked %d times: observed %v", u, seen[u], observed)
		}
	}
	prevW, prevU := "", ""
	for _, u := range observed {
		w, ok := c12Weight(hash, u)
		if !ok {
			continue
		}
		if prevU != "" && w > prevW {
			return "differs-from-reference", fmt.Sprintf("%s (weight %s) was asked before %s (weight %s); observed %v, reference %v", prevU, prevW, u, w, observed, c12RefOrder(hash, c12Only27(set)))
		}
		prevW, prevU = w, u
	}
	return "", ""
}

func c12Only27(set []string) []string {
	var out []string
	for _, u := range set {
		if len(u) == 27 {
			out = append(out, u)
		}
	}
	return out
}

// c12SameModuloTies: a and b equal position by position, except that two
// services of equal reference weight may be swapped.
func c12SameModuloTies(hash string, a, b []string) bool {
	if len(a) != len(b) {
		return false
	}
	for i := range a {
		if a[i] == b[i] {
			continue
		}
		wa, oka := c12Weight(hash, a[i])
		wb, okb := c12Weight(hash, b[i])
		if !oka || !okb || wa != wb {
			return false
		}
	}
	return true
}

func c12Restrict(order []string, keep map[string]bool) []string {
	var out []string
	for _, u := range order {
		if keep[u] {
			out = append(out, u)
		}
	}
	return out
}

// ---------------------------------------------------------------- recording transport

type c12Rec struct {
	mu     sync.Mutex
	seq    []string // "METHOD host"
	answer func(method, host string) (status int, body []byte)
}

func (t *c12Rec) Do(req *http.Request) (*http.Response, error) {
	if req.Body != nil {
		io.Copy(io.Discard, req.Body)
		req.Body.Close()
	}
	t.mu.Lock()
	t.seq = append(t.seq, req.Method+" "+req.URL.Scheme+"://"+req.URL.Host)
	status, body := t.answer(req.Method, req.URL.Scheme+"://"+req.URL.Host)
	t.mu.Unlock()
	rep := "1"
	if status == 2002 { // 200 confirming two replicas
		status, rep = 200, "2"
	}
	if status == 0 {
		return nil, errors.New("connection refused (verif)")
	}
	h := http.Header{}
	if status == 200 && req.Method == "PUT" {
		h.Set(XKeepReplicasStored, rep)
	}
	var rb io.ReadCloser = io.NopCloser(bytes.NewReader(body))
	if req.Method == "HEAD" {
		rb = io.NopCloser(bytes.NewReader(nil))
	}
	return &http.Response{
		Status: fmt.Sprintf("%d %s", status, http.StatusText(status)), StatusCode: status,
		Proto: "HTTP/1.1", ProtoMajor: 1, ProtoMinor: 1,
		Header: h, Body: rb, ContentLength: int64(len(body)), Request: req,
	}, nil
}

func (t *c12Rec) take() []string {
	t.mu.Lock()
	defer t.mu.Unlock()
	s := t.seq
	t.seq = nil
	return s
}

// ---------------------------------------------------------------- driving the client

func c12URL(uuid string, idx map[string]int) string {
	return fmt.Sprintf("http://c12-s%d.invalid:25107", idx[uuid])
}

// c12Client builds a KeepClient for the given services. order: in which
// order the services are listed / inserted (must not matter).
func c12Client(c *c12Case, svcs []c12Svc, order []int, idx map[string]int, rec *c12Rec) (*KeepClient, error) {
	kc := &KeepClient{
		Arvados:       &arvadosclient.ArvadosClient{ApiToken: "veriftoken", Client: http.DefaultClient},
		Want_replicas: 1,
		Retries:       0,
		HTTPClient:    rec,
		RequestID:     "c12",
	}
	if c.Load == "json" {
		type item struct {
			UUID string `json:"uuid"`
			Host string `json:"service_host"`
			Port int    `json:"service_port"`
			SSL  bool   `json:"service_ssl_flag"`
			Type string `json:"service_type"`
			RO   bool   `json:"read_only"`
		}
		var items []item
		for _, i := range order {
			s := svcs[i]
			items = append(items, item{UUID: s.UUID, Host: fmt.Sprintf("c12-s%d.invalid", idx[s.UUID]), Port: 25107, Type: s.Type, RO: s.RO})
		}
		b, _ := json.Marshal(map[string]interface{}{"items": items})
		return kc, kc.LoadKeepServicesFromJSON(string(b))
	}
	locals, writables, gws := map[string]string{}, map[string]string{}, map[string]string{}
	for _, i := range order {
		s := svcs[i]
		locals[s.UUID] = c12URL(s.UUID, idx)
		if !s.RO {
			writables[s.UUID] = c12URL(s.UUID, idx)
		}
	}
	for u, url := range c.Gateways {
		gws[u] = url
	}
	kc.SetServiceRoots(locals, writables, gws)
	return kc, nil
}

func c12Identity(n int) []int {
	p := make([]int, n)
	for i := range p {
		p[i] = i
	}
	return p
}

func c12Reverse(n int) []int {
	p := make([]int, n)
	for i := range p {
		p[i] = n - 1 - i
	}
	return p
}

func TestVerifC12(t *testing.T) {
	run := verifkit.Start(t, "C12")
	defer run.Finish()
	if err := c12SelfTest(); err != nil {
		run.Inconclusive("C12: the harness' reference order does not reproduce the published probe-order vector: " + err.Error())
		return
	}
	run.Count("reference_selftest_published_vectors_ok", 4)

	const alnum = "0123456789abcdefghijklmnopqrstuvwxyz"
	n := run.N(16000, 320000)
	run.Cases("sets", n, func(i int, rng *verifkit.Rand) {
		// ---------------- generate
		c := &c12Case{Load: rng.PickStr("json", "roots"), ReadVia: rng.PickStr("Get", "Get", "Ask"), Change: "none"}
		var nsvc int
		switch {
		case rng.Chance(1, 10):
			nsvc = rng.PickInt(1, 2, 31, 32)
		case rng.Chance(1, 2):
			nsvc = rng.Range(1, 8)
		default:
			nsvc = rng.Range(1, 32)
		}
		class := rng.PickStr("all27", "all27", "all27", "mixed", "non27")
		ties := class == "all27" && nsvc >= 2 && rng.Chance(1, 5)
		used := map[string]bool{}
		newUUID := func(force27 bool) string {
			for {
				var u string
				if class == "all27" || force27 || (class == "mixed" && rng.Bool()) {
					u = rng.String(5, alnum) + "-" + rng.PickStr("bi6l4", "bi6l4", "bi6l4", rng.String(5, alnum)) + "-" + rng.String(15, alnum)
				} else {
					l := rng.PickInt(1, 5, 14, 15, 16, 26, 28, 29, 40, rng.Range(1, 45))
					if l == 27 {
						l = 26
					}
					u = rng.String(l, alnum+"-")
				}
				if !used[u] {
					used[u] = true
					return u
				}
			}
		}
		for s := 0; s < nsvc; s++ {
			sv := c12Svc{UUID: newUUID(false), Type: rng.PickStr("disk", "disk", "proxy")}
			if ties && s > 0 && rng.Chance(1, 3) {
				// same last 15 characters as an earlier service (another cluster prefix): equal weight
				o := c.Svcs[rng.Intn(s)].UUID
				for {
					u := rng.String(5, alnum) + "-bi6l4-" + o[12:]
					if !used[u] {
						used[u] = true
						sv.UUID = u
						break
					}
				}
			}
			sv.RO = rng.Chance(1, 6)
			c.Svcs = append(c.Svcs, sv)
		}
		nW := 0
		for _, s := range c.Svcs {
			if !s.RO {
				nW++
			}
		}
		if nW == 0 {
			c.Svcs[rng.Intn(nsvc)].RO = false
			nW = 1
		}
		c.Size = rng.Range(1, 64)
		c.DataSeed = rng.Uint64()
		data := verifkit.NewRand(c.DataSeed).Bytes(c.Size)
		c.Hash = verifkit.MD5Hex(data)
		if c.Hash == "d41d8cd98f00b204e9800998ecf8427e" {
			return
		}
		// hints
		nh := 0
		if rng.Chance(1, 2) {
			nh = rng.Range(1, 3)
		}
		type hintInfo struct {
			kind string
			url  string // "" = not usable
		}
		var hinfo []hintInfo
		if c.Load == "roots" {
			c.Gateways = map[string]string{}
		}
		usedHint := map[string]bool{}
		for h := 0; h < nh; h++ {
			switch rng.Intn(3) {
			case 0:
				cl := rng.String(5, alnum)
				if usedHint[cl] {
					continue
				}
				usedHint[cl] = true
				c.Hints = append(c.Hints, "K@"+cl)
				hinfo = append(hinfo, hintInfo{"cluster", "https://keep." + cl + ".arvadosapi.com"})
			case 1:
				if c.Load == "roots" {
					u := "zzzzz-bi6l4-" + rng.String(15, alnum)
					if used[u] {
						continue
					}
					used[u] = true
					url := fmt.Sprintf("http://c12-gw%d.invalid:25107", len(c.Gateways))
					c.Gateways[u] = url
					c.Hints = append(c.Hints, "K@"+u)
					hinfo = append(hinfo, hintInfo{"gateway", url})
				} else {
					// every listed service is a gateway too; pick a 27-character one
					var cands []string
					for _, s := range c.Svcs {
						if len(s.UUID) == 27 && !usedHint[s.UUID] {
							cands = append(cands, s.UUID)
						}
					}
					if len(cands) == 0 {
						continue
					}
					u := cands[rng.Intn(len(cands))]
					usedHint[u] = true
					c.Hints = append(c.Hints, "K@"+u)
					hinfo = append(hinfo, hintInfo{"gateway-local", "uuid:" + u})
				}
			default:
				u := "zzzzz-bi6l4-" + rng.String(15, alnum)
				if used[u] {
					continue
				}
				used[u] = true
				c.Hints = append(c.Hints, "K@"+u)
				hinfo = append(hinfo, hintInfo{"unknown-gateway", ""})
			}
		}
		// locator: hash+size, then hints and filler hints in a random interleaving
		parts := append([]string(nil), c.Hints...)
		if rng.Bool() {
			c.Filler = append(c.Filler, "A"+rng.Hex(40)+"@"+rng.Hex(8))
		}
		if rng.Chance(1, 4) {
			c.Filler = append(c.Filler, "Rzzzzz-"+rng.Hex(40)+"@"+rng.Hex(8))
		}
		for _, f := range c.Filler {
			pos := rng.Intn(len(parts) + 1)
			parts = append(parts[:pos], append([]string{f}, parts[pos:]...)...)
		}
		c.Locator = fmt.Sprintf("%s+%d", c.Hash, c.Size)
		if len(parts) > 0 {
			c.Locator += "+" + strings.Join(parts, "+")
		}
		if nsvc >= 2 && rng.Bool() {
			c.Change = fmt.Sprintf("remove:%d", rng.Intn(nsvc))
		} else {
			c.Change = "add:" + newUUID(class == "all27")
		}
		c.K = rng.Range(1, nW)
		if c.K > 4 {
			c.K = rng.Range(1, 4)
		}
		run.Input(c, false)

		// ---------------- bookkeeping
		idx := map[string]int{}
		byURL := map[string]string{}
		var all, writable []string
		for k, s := range c.Svcs {
			idx[s.UUID] = k
			byURL[c12URL(s.UUID, idx)] = s.UUID
			all = append(all, s.UUID)
			if !s.RO {
				writable = append(writable, s.UUID)
			}
		}
		bad := func(sig, detail string) {
			run.Violation(sig, fmt.Sprintf("%s\nhash %s locator %s load=%s", detail, c.Hash, c.Locator, c.Load), c)
		}
		uuidClass := class
		if class == "mixed" {
			if len(c12Only27(all)) == len(all) {
				uuidClass = "all27"
			} else if len(c12Only27(all)) == 0 {
				uuidClass = "non27"
			}
		}

		// resolve the hint URLs
		var hintURLs []string
		hinted := map[string]bool{} // urls of usable hints
		for _, h := range hinfo {
			u := h.url
			if strings.HasPrefix(u, "uuid:") {
				u = c12URL(strings.TrimPrefix(u, "uuid:"), idx)
			}
			if u != "" {
				hintURLs = append(hintURLs, u)
				hinted[u] = true
			}
		}

		rec := &c12Rec{}
		miss := func(method, url string) (int, []byte) {
			if method == "PUT" {
				return 403, []byte("Forbidden\n")
			}
			return 404, []byte("Not found\n")
		}
		rec.answer = miss

		// read: returns the raw request sequence as urls
		read := func(kc *KeepClient, locator string) []string {
			rec.take()
			var err error
			if c.ReadVia == "Ask" {
				_, _, err = kc.Ask(locator)
			} else {
				var r io.ReadCloser
				r, _, _, err = kc.Get(locator)
				if r != nil {
					io.Copy(io.Discard, r)
					r.Close()
				}
			}
			_ = err
			var urls []string
			wantMethod := "GET"
			if c.ReadVia == "Ask" {
				wantMethod = "HEAD"
			}
			for _, s := range rec.take() {
				f := strings.SplitN(s, " ", 2)
				if f[0] != wantMethod {
					bad("C12:R:unexpected-method", fmt.Sprintf("read via %s produced request %q", c.ReadVia, s))
				}
				urls = append(urls, f[1])
			}
			return urls
		}
		write := func(kc *KeepClient) []string {
			rec.take()
			kc.PutB(data)
			var urls []string
			for _, s := range rec.take() {
				f := strings.SplitN(s, " ", 2)
				urls = append(urls, f[1])
			}
			return urls
		}
		// split a read sequence into (local services asked, in order) after
		// checking the hint clause
		localPart := func(urls []string, withHints bool, label string) ([]string, bool) {
			var order []string
			firstNonHinted := -1
			firstSeen := map[string]int{}
			for k, u := range urls {
				if _, ok := firstSeen[u]; !ok {
					firstSeen[u] = k
				}
				if id, ok := byURL[u]; ok {
					if withHints && hinted[u] {
						continue // a hinted local service: position in the tail is not judged
					}
					if firstNonHinted < 0 {
						firstNonHinted = k
					}
					order = append(order, id)
				} else if !(withHints && hinted[u]) {
					bad("C12:"+label+":request-to-host-outside-service-set", fmt.Sprintf("request to %s, which is neither a listed service nor a usable hint; sequence %v", u, urls))
					return nil, false
				}
			}
			if withHints {
				run.Eval(1)
				for _, hu := range hintURLs {
					k, ok := firstSeen[hu]
					if !ok {
						bad("C12:H1:usable-hint-not-tried", fmt.Sprintf("hinted service %s was never asked; hints %v; sequence %v", hu, c.Hints, urls))
						return nil, false
					}
					if firstNonHinted >= 0 && k > firstNonHinted {
						bad("C12:H1:hint-tried-after-rendezvous-order", fmt.Sprintf("hinted service %s was first asked at position %d, after the un-hinted local service at position %d; hints %v; sequence %v", hu, k, firstNonHinted, c.Hints, urls))
						return nil, false
					}
				}
				// order of appearance among the hints: recorded, not judged
				// (the statement only says "before that order")
				inOrder := true
				last := -1
				for _, hu := range hintURLs {
					if firstSeen[hu] < last {
						inOrder = false
					}
					last = firstSeen[hu]
				}
				if len(hintURLs) >= 2 {
					if inOrder {
						run.Count("hints_tried_in_order_of_appearance", 1)
					} else {
						run.Count("hints_tried_in_other_order(non-deciding)", 1)
					}
				}
			}
			return order, true
		}
		unhinted := func(set []string) []string {
			var out []string
			for _, u := range set {
				if !hinted[c12URL(u, idx)] {
					out = append(out, u)
				}
			}
			return out
		}

		// ---------------- A: read order
		kc, err := c12Client(c, c.Svcs, c12Identity(nsvc), idx, rec)
		if err != nil {
			run.Inconclusive("C12: cannot load services: " + err.Error())
			return
		}
		urls := read(kc, c.Locator)
		readOrder, ok := localPart(urls, true, "R")
		if !ok {
			return
		}
		run.Eval(1)
		run.Count("read_orders_judged", 1)
		if sig, d := c12JudgeOrder(c.Hash, readOrder, unhinted(all)); sig != "" {
			bad("C12:R:read-order-"+sig+":"+uuidClass, "read probe order: "+d)
			return
		}
		// the plain locator (no hints) gives the full order
		fullRead := readOrder
		if len(hintURLs) > 0 {
			u2 := read(kc, fmt.Sprintf("%s+%d", c.Hash, c.Size))
			fullRead, ok = localPart(u2, false, "R")
			if !ok {
				return
			}
			run.Eval(1)
			if sig, d := c12JudgeOrder(c.Hash, fullRead, all); sig != "" {
				bad("C12:R:read-order-"+sig+":"+uuidClass, "read probe order (locator without hints): "+d)
				return
			}
			keep := map[string]bool{}
			for _, u := range readOrder {
				keep[u] = true
			}
			if !c12SameModuloTies(c.Hash, c12Restrict(fullRead, keep), readOrder) {
				bad("C12:H2:hints-change-relative-order-of-local-services", fmt.Sprintf("with hints %v, without %v", readOrder, fullRead))
				return
			}
		}

		// ---------------- B: write order (refused everywhere)
		wurls := write(kc)
		var writeOrder []string
		for _, u := range wurls {
			id, ok := byURL[u]
			if !ok {
				bad("C12:W:request-to-host-outside-service-set", fmt.Sprintf("write request to %s; sequence %v", u, wurls))
				return
			}
			writeOrder = append(writeOrder, id)
		}
		run.Eval(1)
		run.Count("write_orders_judged", 1)
		if sig, d := c12JudgeOrder(c.Hash, writeOrder, writable); sig != "" {
			bad("C12:W:write-order-"+sig+":"+uuidClass, "write probe order: "+d)
			return
		}
		// readers and writers share the order: the write order is the read
		// order restricted to the writable services
		run.Eval(1)
		wset := map[string]bool{}
		for _, u := range writable {
			wset[u] = true
		}
		if !c12SameModuloTies(c.Hash, c12Restrict(fullRead, wset), writeOrder) {
			bad("C12:RW:read-and-write-order-differ:"+uuidClass, fmt.Sprintf("read order restricted to writable services %v, write order %v", c12Restrict(fullRead, wset), writeOrder))
			return
		}

		// ---------------- C: depends on nothing else (listing order, second client, repetition)
		kc2, err := c12Client(c, c.Svcs, c12Reverse(nsvc), idx, rec)
		if err == nil {
			run.Eval(2)
			r2, ok := localPart(read(kc2, fmt.Sprintf("%s+%d+Afiller@00000000", c.Hash, c.Size)), false, "D")
			if ok && !c12SameModuloTies(c.Hash, r2, fullRead) {
				bad("C12:D:read-order-not-deterministic:"+uuidClass, fmt.Sprintf("same services listed in reverse order: %v, before %v", r2, fullRead))
				return
			}
			var w2 []string
			for _, u := range write(kc2) {
				w2 = append(w2, byURL[u])
			}
			if !c12SameModuloTies(c.Hash, w2, writeOrder) {
				bad("C12:D:write-order-not-deterministic:"+uuidClass, fmt.Sprintf("same services listed in reverse order: %v, before %v", w2, writeOrder))
				return
			}
		}

		// ---------------- D: membership change
		svcs2 := append([]c12Svc(nil), c.Svcs...)
		if strings.HasPrefix(c.Change, "remove:") {
			var k int
			fmt.Sscanf(c.Change, "remove:%d", &k)
			svcs2 = append(svcs2[:k:k], svcs2[k+1:]...)
		} else {
			u := strings.TrimPrefix(c.Change, "add:")
			svcs2 = append(svcs2, c12Svc{UUID: u, Type: "disk"})
			idx[u] = len(c.Svcs)
			byURL[c12URL(u, idx)] = u
		}
		kc3, err := c12Client(c, svcs2, c12Identity(len(svcs2)), idx, rec)
		if err == nil {
			var all3, writable3 []string
			common := map[string]bool{}
			for _, s := range svcs2 {
				all3 = append(all3, s.UUID)
				if !s.RO {
					writable3 = append(writable3, s.UUID)
				}
			}
			in1 := map[string]bool{}
			for _, u := range all {
				in1[u] = true
			}
			for _, u := range all3 {
				if in1[u] {
					common[u] = true
				}
			}
			r3, ok := localPart(read(kc3, fmt.Sprintf("%s+%d", c.Hash, c.Size)), false, "M")
			if !ok {
				return
			}
			run.Eval(2)
			run.Count("membership_changes_judged", 1)
			if sig, d := c12JudgeOrder(c.Hash, r3, all3); sig != "" {
				bad("C12:M:read-order-after-change-"+sig+":"+uuidClass, d)
				return
			}
			if !c12SameModuloTies(c.Hash, c12Restrict(r3, common), c12Restrict(fullRead, common)) {
				bad("C12:M:membership-change-reorders-remaining-services:"+uuidClass+":"+strings.SplitN(c.Change, ":", 2)[0], fmt.Sprintf("change %s: before %v, after %v (restricted to the common services)", c.Change, c12Restrict(fullRead, common), c12Restrict(r3, common)))
				return
			}
			var w3 []string
			for _, u := range write(kc3) {
				w3 = append(w3, byURL[u])
			}
			run.Eval(1)
			wcommon := map[string]bool{}
			for _, u := range writable3 {
				if common[u] {
					wcommon[u] = true
				}
			}
			if !c12SameModuloTies(c.Hash, c12Restrict(w3, wcommon), c12Restrict(writeOrder, wcommon)) {
				bad("C12:M:membership-change-reorders-remaining-services:write:"+uuidClass, fmt.Sprintf("change %s: write order before %v, after %v", c.Change, c12Restrict(writeOrder, wcommon), c12Restrict(w3, wcommon)))
				return
			}
		}

		// ---------------- E: a block written with k replicas is found at the
		// first writable position a reader tries
		holders := map[string]bool{}
		rec.answer = func(method, url string) (int, []byte) {
			if method == "PUT" {
				holders[byURL[url]] = true
				return 200, []byte(fmt.Sprintf("%s+%d\n", c.Hash, c.Size))
			}
			if holders[byURL[url]] {
				return 200, data
			}
			return 404, []byte("Not found\n")
		}
		kc.Want_replicas = c.K
		rec.take()
		_, rep, perr := kc.PutB(data)
		rec.take()
		rec.mu.Lock()
		nh2 := len(holders)
		rec.mu.Unlock()
		if perr == nil && rep >= c.K {
			run.Eval(1)
			run.Count("write_then_read_agreements_judged", 1)
			urls := read(kc, fmt.Sprintf("%s+%d", c.Hash, c.Size))
			hit := -1
			for k, u := range urls {
				if holders[byURL[u]] {
					hit = k
					break
				}
			}
			if hit < 0 {
				bad("C12:E:written-block-not-found", fmt.Sprintf("block written to %d services was not found by a read; read sequence %v", nh2, urls))
			} else {
				for _, u := range urls[:hit] {
					tied := false
					wu, oku := c12Weight(c.Hash, byURL[u])
					for h := range holders {
						if wh, okh := c12Weight(c.Hash, h); oku && okh && wh == wu {
							tied = true
						}
					}
					if wset[byURL[u]] && !tied {
						bad("C12:E:reader-tries-writable-non-holder-before-holder:"+uuidClass, fmt.Sprintf("written with %d replicas to %v; reader asked writable service %s (no copy) before reaching a holder; sequence %v", c.K, holders, byURL[u], urls))
						break
					}
				}
			}
		}
		rec.answer = miss

		// ---------------- evidence
		run.Count("sets", 1)
		run.Count("sets_"+uuidClass, 1)
		if ties {
			run.Count("sets_with_equal_weight_services", 1)
		}
		for _, h := range hinfo {
			run.Count("hint_"+h.kind, 1)
		}
		nb := "n1"
		switch {
		case nsvc >= 17:
			nb = "n17-32"
		case nsvc >= 5:
			nb = "n5-16"
		case nsvc >= 2:
			nb = "n2-4"
		}
		if nsvc == 1 && len(hinfo) == 0 {
			run.Trivial()
		} else {
			var hk []string
			for _, h := range hinfo {
				hk = append(hk, h.kind)
			}
			sort.Strings(hk)
			ro := "noro"
			if nW < nsvc {
				ro = "ro"
			}
			run.Feature(fmt.Sprintf("%s,%s,ties=%v,%s,%s,%s,hints=%s,%s", nb, uuidClass, ties, ro, c.Load, c.ReadVia, strings.Join(hk, "+"), strings.SplitN(c.Change, ":", 2)[0]))
		}
		if i < 4 {
			run.Sample(c)
		}
	})
	c12SmallWrites(run)
	c12Reload(run) // before "lazy": uses the package-level RefreshServiceDiscovery(), which must not meet API stubs that are gone
	c12Lazy(run)
	c12ReadRetries(run)
}

// ================================================================ small service sets: write order
//
// Stream "small-writes": 1-3 writable services and Want_replicas >= their
// number (the case in which "every server gets an upload anyway" looks
// plausible). Whenever the client uploads one server at a time (a non-disk
// service among the writable ones, roots given through SetServiceRoots or
// KeepServiceURIs) the arrival order is exact, and it stops early when a server
// confirms two replicas; judged: every round of requests is a prefix of the
// reference order (27-character uuids), is a prefix of the read order observed
// on the same client, and is the same for three independently built clients.

type c12wCase struct {
	Svcs     []c12Svc `json:"svcs"`
	Mode     string   `json:"mode"`   // json | roots | uris
	Answer   string   `json:"answer"` // 403 | 500 | rep1 | rep2
	Wanted   int      `json:"wanted"`
	Retries  int      `json:"retries"`
	DataSeed uint64   `json:"data_seed"`
	Size     int      `json:"size"`
	Hash     string   `json:"hash"`
	API      string   `json:"api"`
}

func c12URIUUID(i int) string { return fmt.Sprintf("00000-bi6l4-%015d", i) }

// c12wClient builds a client for the case; order = listing/insertion order.
// Returns the client and url -> uuid.
func c12wClient(c *c12wCase, order []int, rec *c12Rec) (*KeepClient, map[string]string, error) {
	kc := &KeepClient{
		Arvados:       &arvadosclient.ArvadosClient{ApiToken: "veriftoken", Client: http.DefaultClient},
		Want_replicas: c.Wanted,
		Retries:       c.Retries,
		HTTPClient:    rec,
		RequestID:     "c12w",
	}
	byURL := map[string]string{}
	url := func(i int) string { return fmt.Sprintf("http://c12w-s%d.invalid:25107", i) }
	switch c.Mode {
	case "uris":
		// lazily discovered from KeepServiceURIs: the uuids are synthetic
		// and follow the position in the list, so the list order is fixed
		for i := range c.Svcs {
			kc.Arvados.KeepServiceURIs = append(kc.Arvados.KeepServiceURIs, url(i))
			byURL[url(i)] = c12URIUUID(i)
		}
		return kc, byURL, nil
	case "roots":
		locals, writables := map[string]string{}, map[string]string{}
		for _, i := range order {
			s := c.Svcs[i]
			locals[s.UUID] = url(i)
			byURL[url(i)] = s.UUID
			if !s.RO {
				writables[s.UUID] = url(i)
			}
		}
		kc.SetServiceRoots(locals, writables, nil)
		return kc, byURL, nil
	}
	type item struct {
		UUID string `json:"uuid"`
		Host string `json:"service_host"`
		Port int    `json:"service_port"`
		SSL  bool   `json:"service_ssl_flag"`
		Type string `json:"service_type"`
		RO   bool   `json:"read_only"`
	}
	var items []item
	for _, i := range order {
		s := c.Svcs[i]
		items = append(items, item{UUID: s.UUID, Host: fmt.Sprintf("c12w-s%d.invalid", i), Port: 25107, Type: s.Type, RO: s.RO})
		byURL[url(i)] = s.UUID
	}
	b, _ := json.Marshal(map[string]interface{}{"items": items})
	return kc, byURL, kc.LoadKeepServicesFromJSON(string(b))
}

func c12SmallWrites(run *verifkit.Run) {
	const alnum = "0123456789abcdefghijklmnopqrstuvwxyz"
	run.Cases("small-writes", run.N(6000, 120000), func(i int, rng *verifkit.Rand) {
		c := &c12wCase{Mode: rng.PickStr("json", "json", "roots", "uris"), Answer: rng.PickStr("403", "500", "rep1", "rep2", "rep2"), API: rng.PickStr("PutB", "PutHB")}
		nW := rng.PickInt(1, 2, 2, 2, 3, 3)
		class := rng.PickStr("all27", "all27", "all27", "non27", "mixed")
		if c.Mode == "uris" {
			class = "all27"
		}
		used := map[string]bool{}
		typeMode := rng.PickStr("proxy", "proxy", "mixed", "disk")
		nRO := 0
		if c.Mode != "uris" && rng.Chance(1, 4) {
			nRO = 1
		}
		for s := 0; s < nW+nRO; s++ {
			var u string
			for {
				if class == "all27" || (class == "mixed" && rng.Bool()) {
					u = rng.String(5, alnum) + "-bi6l4-" + rng.String(15, alnum)
				} else {
					l := rng.PickInt(5, 15, 26, 28, 40, rng.Range(1, 45))
					if l == 27 {
						l = 26
					}
					u = rng.String(l, alnum+"-")
				}
				if !used[u] {
					used[u] = true
					break
				}
			}
			sv := c12Svc{UUID: u, Type: "proxy"}
			switch typeMode {
			case "disk":
				sv.Type = "disk"
			case "mixed":
				sv.Type = rng.PickStr("disk", "proxy", "gateway:x")
			}
			c.Svcs = append(c.Svcs, sv)
		}
		if nRO == 1 {
			c.Svcs[rng.Intn(len(c.Svcs))].RO = true
		}
		if c.Mode == "uris" {
			for k := range c.Svcs {
				c.Svcs[k].UUID = c12URIUUID(k)
				c.Svcs[k].RO = false
			}
			nW = len(c.Svcs)
		}
		var writable, all []string
		for _, s := range c.Svcs {
			all = append(all, s.UUID)
			if !s.RO {
				writable = append(writable, s.UUID)
			}
		}
		nW = len(writable)
		c.Wanted = nW + rng.PickInt(0, 0, 0, 1)
		if rng.Chance(1, 8) && nW > 1 {
			c.Wanted = nW - 1 // contrast: fewer wanted than services
		}
		if c.Answer == "500" {
			c.Retries = rng.Range(1, 2)
		}
		c.Size = rng.Range(1, 64)
		c.DataSeed = rng.Uint64()
		data := verifkit.NewRand(c.DataSeed).Bytes(c.Size)
		c.Hash = verifkit.MD5Hex(data)
		run.Input(c, false)

		// uploads are one at a time unless every writable service is a
		// disk listed through the keep_services records
		sequential := c.Mode != "json" || c.Wanted == 1
		if c.Mode == "json" {
			for _, s := range c.Svcs {
				if !s.RO && s.Type != "disk" {
					sequential = true
				}
			}
		}
		all27 := len(c12Only27(all)) == len(all)
		uuidClass := "all27"
		if !all27 {
			uuidClass = "non27-or-mixed"
		}
		bad := func(sig, detail string) {
			run.Violation(sig, fmt.Sprintf("%s\nblock %s, mode %s, answer %s, wanted %d, retries %d", detail, c.Hash, c.Mode, c.Answer, c.Wanted, c.Retries), c)
		}

		rec := &c12Rec{}
		rec.answer = func(method, url string) (int, []byte) {
			if method != "PUT" {
				return 404, []byte("Not found\n")
			}
			switch c.Answer {
			case "500":
				return 500, []byte("fail\n")
			case "rep1":
				return 200, []byte(fmt.Sprintf("%s+%d\n", c.Hash, c.Size))
			case "rep2":
				return 2002, []byte(fmt.Sprintf("%s+%d\n", c.Hash, c.Size))
			}
			return 403, []byte("Forbidden\n")
		}
		var seqs [][]string
		var readOrder []string
		for rep := 0; rep < 3; rep++ {
			order := c12Identity(len(c.Svcs))
			if rep == 1 {
				order = c12Reverse(len(c.Svcs))
			} else if rep == 2 {
				order = rng.Perm(len(c.Svcs))
			}
			kc, byURL, err := c12wClient(c, order, rec)
			if err != nil {
				run.Inconclusive("C12: cannot load services: " + err.Error())
				return
			}
			rec.take()
			if c.API == "PutB" {
				kc.PutB(data)
			} else {
				kc.PutHB(c.Hash, data)
			}
			var seq []string
			for _, s := range rec.take() {
				f := strings.SplitN(s, " ", 2)
				u, ok := byURL[f[1]]
				if !ok || f[0] != "PUT" {
					bad("C12:W:request-to-host-outside-service-set", fmt.Sprintf("write produced request %q", s))
					return
				}
				seq = append(seq, u)
			}
			seqs = append(seqs, seq)
			if rep == 0 {
				// the read order seen by the very same client
				r, _, _, _ := kc.Get(fmt.Sprintf("%s+%d", c.Hash, c.Size))
				if r != nil {
					r.Close()
				}
				for _, s := range rec.take() {
					f := strings.SplitN(s, " ", 2)
					if u, ok := byURL[f[1]]; ok {
						readOrder = append(readOrder, u)
					}
				}
			}
		}
		run.Count("small_write_cases", 1)
		if !sequential {
			run.Count("small_write_cases_concurrent_uploads(order not observable)", 1)
			run.Trivial()
			return
		}
		wset := map[string]bool{}
		for _, u := range writable {
			wset[u] = true
		}
		readW := c12Restrict(readOrder, wset)
		// split into rounds: a round ends when a service would repeat
		rounds := func(seq []string) [][]string {
			var out [][]string
			var cur []string
			seen := map[string]bool{}
			for _, u := range seq {
				if seen[u] {
					out = append(out, cur)
					cur, seen = nil, map[string]bool{}
				}
				seen[u] = true
				cur = append(cur, u)
			}
			if len(cur) > 0 {
				out = append(out, cur)
			}
			return out
		}
		for rep, seq := range seqs {
			for _, round := range rounds(seq) {
				run.Eval(1)
				run.Count("small_write_rounds_judged", 1)
				for _, u := range round {
					if !wset[u] {
						bad("C12:W:small-set:write-order-not-a-permutation", fmt.Sprintf("request to %s, which is not a writable service; sequence %v", u, seq))
						return
					}
				}
				// reference: non-increasing weights, and nothing skipped
				prevW := ""
				minW := ""
				inRound := map[string]bool{}
				for k, u := range round {
					inRound[u] = true
					w, ok := c12Weight(c.Hash, u)
					if !ok {
						continue
					}
					if k > 0 && prevW != "" && w > prevW {
						bad("C12:W:small-set:write-order-differs-from-reference:"+c.Mode, fmt.Sprintf("client %d asked %v; reference order of the writable services %v", rep, round, c12RefOrder(c.Hash, c12Only27(writable))))
						return
					}
					prevW = w
					if minW == "" || w < minW {
						minW = w
					}
				}
				if all27 {
					for _, u := range writable {
						if w, _ := c12Weight(c.Hash, u); !inRound[u] && w > minW {
							bad("C12:W:small-set:first-contacted-server-not-first-in-reference-order:"+c.Mode, fmt.Sprintf("client %d asked %v and skipped %s, which ranks higher; reference order of the writable services %v", rep, round, u, c12RefOrder(c.Hash, writable)))
							return
						}
					}
				}
				// readers and writers share the order
				if len(readW) == len(writable) && len(round) <= len(readW) && !c12SameModuloTies(c.Hash, round, readW[:len(round)]) {
					bad("C12:RW:small-set:write-order-is-not-a-prefix-of-read-order:"+uuidClass+":"+c.Mode, fmt.Sprintf("client %d wrote to %v; the same client reads in the order %v", rep, round, readW))
					return
				}
			}
			if rep > 0 {
				run.Eval(1)
				if !c12SameModuloTies(c.Hash, seq, seqs[0]) {
					bad("C12:D:small-set:write-order-not-deterministic:"+uuidClass+":"+c.Mode, fmt.Sprintf("the same write by independently built clients: %v vs %v", seqs[0], seq))
					return
				}
			}
		}
		if len(seqs[0]) < nW {
			run.Count("small_write_cases_stopped_early", 1)
		}
		if len(seqs[0]) > nW {
			run.Count("small_write_cases_with_retry_rounds", 1)
		}
		if nW == 1 {
			run.Trivial()
		} else {
			run.Feature(fmt.Sprintf("small-writes,w%d,ro%d,%s,%s,types=%s,%s,wanted%+d,retr%d", nW, len(all)-nW, uuidClass, c.Mode, typeMode, c.Answer, c.Wanted-nW, c.Retries))
		}
		if i < 2 {
			run.Sample(c)
		}
	})
}

// ================================================================ lazily discovering clients
//
// Stream "lazy": a FRESH KeepClient per case that has not discovered its
// services yet - built with New() or as a struct literal, the services coming
// from a stub API server's keep_services/accessible list (in-process transport,
// sometimes a real httptest server) or from KeepServiceURIs - performs a lookup
// of a hinted locator as its very first operation. Judged: usable hints are
// tried before the rendezvous order on that first lookup, the un-hinted
// services follow the reference order, and the same lookup repeated on the
// same client gives the same sequence.

type c12lCase struct {
	Svcs     []c12Svc `json:"svcs"`
	Source   string   `json:"source"` // api | api-httptest | uris
	Ctor     string   `json:"ctor"`   // New | literal
	Via      string   `json:"via"`    // Get | Ask
	Hash     string   `json:"hash"`
	Size     int      `json:"size"`
	Hints    []string `json:"hints"`
	Locator  string   `json:"locator"`
	FirstOp  string   `json:"first_op"` // hinted-lookup | write-then-lookup
}

type c12RT func(*http.Request) (*http.Response, error)

func (f c12RT) RoundTrip(r *http.Request) (*http.Response, error) { return f(r) }

func c12APIAnswer(path, list string) (int, string) {
	switch path {
	case "/arvados/v1/keep_services/accessible":
		return 200, list
	case "/discovery/v1/apis/arvados/v1/rest":
		return 200, `{"defaultCollectionReplication":2}`
	}
	return 404, `{"errors":["not found"]}`
}

func c12Lazy(run *verifkit.Run) {
	const alnum = "0123456789abcdefghijklmnopqrstuvwxyz"
	var apiServers []*httptest.Server
	defer func() {
		for _, s := range apiServers {
			s.Close()
		}
	}()
	run.Cases("lazy", run.N(3000, 60000), func(i int, rng *verifkit.Rand) {
		c := &c12lCase{Source: rng.PickStr("api", "api", "api", "uris", "uris"), Ctor: rng.PickStr("New", "literal"), Via: rng.PickStr("Get", "Get", "Ask"), FirstOp: "hinted-lookup"}
		if c.Source == "api" && rng.Chance(1, 40) {
			c.Source = "api-httptest"
		}
		if rng.Chance(1, 6) {
			c.FirstOp = "write-then-lookup"
		}
		nsvc := rng.Range(2, 12)
		used := map[string]bool{}
		for s := 0; s < nsvc; s++ {
			u := c12URIUUID(s)
			if c.Source != "uris" {
				for {
					u = rng.String(5, alnum) + "-bi6l4-" + rng.String(15, alnum)
					if !used[u] {
						used[u] = true
						break
					}
				}
			}
			c.Svcs = append(c.Svcs, c12Svc{UUID: u, Type: rng.PickStr("disk", "disk", "proxy", "gateway:remote")})
		}
		c.Hash = rng.Hex(32)
		c.Size = rng.Range(1, 1<<20)
		// hints: at least one known gateway in most cases
		hinted := map[string]bool{}   // url
		var hintURLs []string
		url := func(k int) string { return fmt.Sprintf("http://c12l-s%d.invalid:25107", k) }
		nh := rng.Range(1, 3)
		for h := 0; h < nh; h++ {
			switch {
			case h == 0 && !rng.Chance(1, 8), rng.Chance(1, 3):
				k := rng.Intn(nsvc)
				if hinted[url(k)] {
					continue
				}
				hinted[url(k)] = true
				hintURLs = append(hintURLs, url(k))
				c.Hints = append(c.Hints, "K@"+c.Svcs[k].UUID)
			case rng.Bool():
				cl := rng.String(5, alnum)
				u := "https://keep." + cl + ".arvadosapi.com"
				if hinted[u] {
					continue
				}
				hinted[u] = true
				hintURLs = append(hintURLs, u)
				c.Hints = append(c.Hints, "K@"+cl)
			default:
				c.Hints = append(c.Hints, "K@zzzzz-bi6l4-"+rng.String(15, alnum))
			}
		}
		parts := append([]string(nil), c.Hints...)
		if rng.Bool() {
			pos := rng.Intn(len(parts) + 1)
			parts = append(parts[:pos], append([]string{"A" + rng.Hex(40) + "@" + rng.Hex(8)}, parts[pos:]...)...)
		}
		c.Locator = fmt.Sprintf("%s+%d+%s", c.Hash, c.Size, strings.Join(parts, "+"))
		run.Input(c, false)

		byURL := map[string]string{}
		var all []string
		type item struct {
			UUID string `json:"uuid"`
			Host string `json:"service_host"`
			Port int    `json:"service_port"`
			SSL  bool   `json:"service_ssl_flag"`
			Type string `json:"service_type"`
			RO   bool   `json:"read_only"`
		}
		var items []item
		for k, s := range c.Svcs {
			byURL[url(k)] = s.UUID
			all = append(all, s.UUID)
			items = append(items, item{UUID: s.UUID, Host: fmt.Sprintf("c12l-s%d.invalid", k), Port: 25107, Type: s.Type})
		}
		lb, _ := json.Marshal(map[string]interface{}{"kind": "arvados#keepServiceList", "items": items})
		list := string(lb)
		apiCalls := 0
		var apiMu sync.Mutex

		arv := &arvadosclient.ArvadosClient{Scheme: "http", ApiToken: "veriftoken"}
		switch c.Source {
		case "uris":
			arv.ApiServer = "c12l-unused.invalid:443"
			arv.Client = &http.Client{Transport: c12RT(func(r *http.Request) (*http.Response, error) {
				st, body := c12APIAnswer(r.URL.Path, list)
				return &http.Response{StatusCode: st, Status: fmt.Sprintf("%d %s", st, http.StatusText(st)), Proto: "HTTP/1.1", ProtoMajor: 1, ProtoMinor: 1, Header: http.Header{"Content-Type": {"application/json"}}, Body: io.NopCloser(strings.NewReader(body)), Request: r}, nil
			})}
			for k := range c.Svcs {
				arv.KeepServiceURIs = append(arv.KeepServiceURIs, url(k))
			}
		case "api-httptest":
			srv := httptest.NewServer(http.HandlerFunc(func(w http.ResponseWriter, r *http.Request) {
				apiMu.Lock()
				apiCalls++
				apiMu.Unlock()
				st, body := c12APIAnswer(r.URL.Path, list)
				w.Header().Set("Content-Type", "application/json")
				w.WriteHeader(st)
				io.WriteString(w, body)
			}))
			apiServers = append(apiServers, srv) // stays up: the discovery cache keeps polling it
			arv.ApiServer = strings.TrimPrefix(srv.URL, "http://")
			arv.Client = &http.Client{}
		default:
			// the discovery cache is keyed by API host: one host per case
			arv.ApiServer = fmt.Sprintf("c12l-api-%d-%d-%d.invalid:443", run.Seed(), run.BatchK(), i)
			arv.Client = &http.Client{Transport: c12RT(func(r *http.Request) (*http.Response, error) {
				apiMu.Lock()
				apiCalls++
				apiMu.Unlock()
				st, body := c12APIAnswer(r.URL.Path, list)
				return &http.Response{StatusCode: st, Status: fmt.Sprintf("%d %s", st, http.StatusText(st)), Proto: "HTTP/1.1", ProtoMajor: 1, ProtoMinor: 1, Header: http.Header{"Content-Type": {"application/json"}}, Body: io.NopCloser(strings.NewReader(body)), Request: r}, nil
			})}
		}
		rec := &c12Rec{}
		rec.answer = func(method, url string) (int, []byte) {
			if method == "PUT" {
				return 403, []byte("Forbidden\n")
			}
			return 404, []byte("Not found\n")
		}
		var kc *KeepClient
		if c.Ctor == "New" {
			kc = New(arv)
		} else {
			kc = &KeepClient{Arvados: arv, Want_replicas: 2}
		}
		kc.Retries = 0
		kc.HTTPClient = rec
		kc.RequestID = "c12l"

		bad := func(sig, detail string) {
			run.Violation(sig, fmt.Sprintf("%s\nlocator %s, services from %s, client built with %s, first operation %s via %s", detail, c.Locator, c.Source, c.Ctor, c.FirstOp, c.Via), c)
		}
		lookup := func() []string {
			rec.take()
			if c.Via == "Ask" {
				kc.Ask(c.Locator)
			} else {
				r, _, _, _ := kc.Get(c.Locator)
				if r != nil {
					r.Close()
				}
			}
			var urls []string
			for _, s := range rec.take() {
				urls = append(urls, strings.SplitN(s, " ", 2)[1])
			}
			return urls
		}
		if c.FirstOp == "write-then-lookup" {
			kc.PutB([]byte("c12l"))
			rec.take()
		}
		first := lookup()
		second := lookup()

		judge := func(label string, urls []string) bool {
			firstSeen := map[string]int{}
			firstNonHinted := -1
			var order []string
			for k, u := range urls {
				if _, ok := firstSeen[u]; !ok {
					firstSeen[u] = k
				}
				if hinted[u] {
					continue
				}
				id, ok := byURL[u]
				if !ok {
					bad("C12:R:request-to-host-outside-service-set", fmt.Sprintf("%s lookup: request to %s; sequence %v", label, u, urls))
					return false
				}
				if firstNonHinted < 0 {
					firstNonHinted = k
				}
				order = append(order, id)
			}
			run.Eval(2)
			for _, hu := range hintURLs {
				k, ok := firstSeen[hu]
				if !ok {
					bad("C12:H1:usable-hint-not-tried:"+label+"-lookup-of-lazy-client", fmt.Sprintf("hinted service %s was never asked; sequence %v", hu, urls))
					return false
				}
				if firstNonHinted >= 0 && k > firstNonHinted {
					bad("C12:H1:hint-tried-after-rendezvous-order:"+label+"-lookup-of-lazy-client", fmt.Sprintf("hinted service %s was first asked at position %d, after an un-hinted service at position %d; hints %v; sequence %v", hu, k, firstNonHinted, c.Hints, urls))
					return false
				}
			}
			var unh []string
			for k, u := range all {
				if !hinted[url(k)] {
					unh = append(unh, u)
				}
			}
			if sig, d := c12JudgeOrder(c.Hash, order, unh); sig != "" {
				bad("C12:R:read-order-"+sig+":"+label+"-lookup-of-lazy-client", d)
				return false
			}
			return true
		}
		if len(first) == 0 {
			run.Inconclusive(fmt.Sprintf("C12 lazy: the first lookup produced no request (service discovery failed?) source=%s", c.Source))
			return
		}
		if !judge("first", first) || !judge("second", second) {
			return
		}
		run.Eval(1)
		same := len(first) == len(second)
		for k := 0; same && k < len(first); k++ {
			if first[k] != second[k] {
				a, oka := c12Weight(c.Hash, byURL[first[k]])
				b, okb := c12Weight(c.Hash, byURL[second[k]])
				same = oka && okb && a == b
			}
		}
		if !same {
			bad("C12:D:same-lookup-twice-on-one-client-differs", fmt.Sprintf("first %v, second %v", first, second))
			return
		}
		run.Count("lazy_clients", 1)
		run.Count("lazy_clients_"+c.Source, 1)
		run.Count("lazy_first_op_"+c.FirstOp, 1)
		if c.Source != "uris" {
			apiMu.Lock()
			if apiCalls == 0 {
				run.Count("lazy_api_never_called", 1)
			} else {
				run.Count("lazy_api_keep_services_fetches_observed", 1)
			}
			apiMu.Unlock()
		}
		kinds := map[string]bool{}
		for _, h := range c.Hints {
			switch len(h) {
			case 7:
				kinds["cluster"] = true
			default:
				if hinted[func() string {
					for k, s := range c.Svcs {
						if "K@"+s.UUID == h {
							return url(k)
						}
					}
					return ""
				}()] {
					kinds["gateway"] = true
				} else {
					kinds["unknown-gateway"] = true
				}
			}
		}
		var kl []string
		for k := range kinds {
			kl = append(kl, k)
			run.Count("lazy_hint_"+k, 1)
		}
		sort.Strings(kl)
		run.Feature(fmt.Sprintf("lazy,%s,%s,%s,%s,hints=%s,n%d", c.Source, c.Ctor, c.Via, c.FirstOp, strings.Join(kl, "+"), (nsvc+3)/4))
		if i < 2 {
			run.Sample(c)
		}
	})
}

// ================================================================ read order in retry rounds
//
// Stream "read-retries": Retries 1-3 and services that fail transiently
// (connection error, 408, 429, 5xx) round after round before one finally
// answers or all give up. The probe sequence is recorded per round (round of a
// request = number of earlier requests to the same host; no host is listed
// twice in this stream) and EVERY round is judged: usable hints before
// un-hinted services, un-hinted services in non-increasing reference weight,
// each retry round a subsequence of the round before, nobody asked again who
// did not fail transiently.

type c12rCase struct {
	Svcs     []c12Svc          `json:"svcs"`
	Load     string            `json:"load"`
	Hash     string            `json:"hash"`
	Size     int               `json:"size"`
	DataSeed uint64            `json:"data_seed"`
	Hints    []string          `json:"hints,omitempty"`
	Gateways map[string]string `json:"gateways,omitempty"`
	Locator  string            `json:"locator"`
	Via      string            `json:"via"`
	Retries  int               `json:"retries"`
	// Script: host url -> status per round (0 = connection error, 200 = has the block)
	Script map[string][]int `json:"script"`
}

type c12rRec struct {
	mu     sync.Mutex
	c      *c12rCase
	data   []byte
	nreq   map[string]int
	rounds [][]string
	extra  []string
}

func (t *c12rRec) Do(req *http.Request) (*http.Response, error) {
	if req.Body != nil {
		io.Copy(io.Discard, req.Body)
		req.Body.Close()
	}
	host := req.URL.Scheme + "://" + req.URL.Host
	t.mu.Lock()
	k := t.nreq[host]
	t.nreq[host]++
	for len(t.rounds) <= k {
		t.rounds = append(t.rounds, nil)
	}
	t.rounds[k] = append(t.rounds[k], host)
	sc, ok := t.c.Script[host]
	status := 404
	if !ok {
		t.extra = append(t.extra, host)
	} else if k < len(sc) {
		status = sc[k]
	} else {
		status = sc[len(sc)-1]
	}
	t.mu.Unlock()
	if status == 0 {
		return nil, errors.New("connection reset by peer (verif)")
	}
	body := []byte("nope\n")
	if status == 200 {
		body = t.data
	}
	var rb io.ReadCloser = io.NopCloser(bytes.NewReader(body))
	if req.Method == "HEAD" {
		rb = io.NopCloser(bytes.NewReader(nil))
	}
	return &http.Response{
		Status: fmt.Sprintf("%d %s", status, http.StatusText(status)), StatusCode: status,
		Proto: "HTTP/1.1", ProtoMajor: 1, ProtoMinor: 1,
		Header: http.Header{}, Body: rb, ContentLength: int64(len(body)), Request: req,
	}, nil
}

func c12ReadRetries(run *verifkit.Run) {
	const alnum = "0123456789abcdefghijklmnopqrstuvwxyz"
	transient := []int{0, 0, 408, 429, 500, 502, 503, 504}
	run.Cases("read-retries", run.N(5000, 100000), func(i int, rng *verifkit.Rand) {
		c := &c12rCase{Load: rng.PickStr("json", "roots"), Via: rng.PickStr("Get", "Get", "Ask"), Retries: rng.Range(1, 3), Script: map[string][]int{}}
		nsvc := rng.Range(8, 16)
		if rng.Chance(1, 6) {
			nsvc = rng.Range(3, 7)
		}
		class := rng.PickStr("all27", "all27", "all27", "mixed", "non27")
		used := map[string]bool{}
		for s := 0; s < nsvc; s++ {
			var u string
			for {
				if class == "all27" || (class == "mixed" && rng.Bool()) {
					u = rng.String(5, alnum) + "-bi6l4-" + rng.String(15, alnum)
				} else {
					l := rng.PickInt(5, 15, 26, 28, 40, rng.Range(1, 45))
					if l == 27 {
						l = 26
					}
					u = rng.String(l, alnum+"-")
				}
				if !used[u] {
					used[u] = true
					break
				}
			}
			c.Svcs = append(c.Svcs, c12Svc{UUID: u, Type: rng.PickStr("disk", "disk", "proxy"), RO: rng.Chance(1, 6)})
		}
		c.Size = rng.Range(1, 64)
		c.DataSeed = rng.Uint64()
		data := verifkit.NewRand(c.DataSeed).Bytes(c.Size)
		c.Hash = verifkit.MD5Hex(data)
		idx := map[string]int{}
		byURL := map[string]string{}
		var all []string
		for k, s := range c.Svcs {
			idx[s.UUID] = k
			byURL[c12URL(s.UUID, idx)] = s.UUID
			all = append(all, s.UUID)
		}
		// hints (never naming a local service: no host is listed twice)
		var hintURLs []string
		hinted := map[string]bool{}
		if c.Load == "roots" {
			c.Gateways = map[string]string{}
		}
		nh := 0
		if rng.Chance(2, 3) {
			nh = rng.Range(1, 3)
		}
		for h := 0; h < nh; h++ {
			switch {
			case c.Load == "roots" && rng.Bool():
				u := "zzzzz-bi6l4-" + rng.String(15, alnum)
				if used[u] {
					continue
				}
				used[u] = true
				url := fmt.Sprintf("http://c12-gw%d.invalid:25107", len(c.Gateways))
				c.Gateways[u] = url
				c.Hints = append(c.Hints, "K@"+u)
				hintURLs = append(hintURLs, url)
				hinted[url] = true
			case rng.Chance(1, 4):
				c.Hints = append(c.Hints, "K@zzzzz-bi6l4-"+rng.String(15, alnum)) // unknown gateway
			default:
				cl := rng.String(5, alnum)
				url := "https://keep." + cl + ".arvadosapi.com"
				if hinted[url] {
					continue
				}
				c.Hints = append(c.Hints, "K@"+cl)
				hintURLs = append(hintURLs, url)
				hinted[url] = true
			}
		}
		parts := append([]string(nil), c.Hints...)
		if rng.Bool() {
			pos := rng.Intn(len(parts) + 1)
			parts = append(parts[:pos], append([]string{"A" + rng.Hex(40) + "@" + rng.Hex(8)}, parts[pos:]...)...)
		}
		c.Locator = fmt.Sprintf("%s+%d", c.Hash, c.Size)
		if len(parts) > 0 {
			c.Locator += "+" + strings.Join(parts, "+")
		}
		// scripts: most hosts fail transiently round after round; maybe one
		// finally has the block
		hosts := append([]string(nil), hintURLs...)
		for _, u := range all {
			hosts = append(hosts, c12URL(u, idx))
		}
		pFail := rng.PickInt(5, 7, 9, 10) // out of 10
		for _, h := range hosts {
			var sc []int
			for r := 0; r <= c.Retries; r++ {
				if rng.Intn(10) < pFail {
					sc = append(sc, transient[rng.Intn(len(transient))])
				} else {
					sc = append(sc, rng.PickInt(404, 404, 403))
					break
				}
			}
			c.Script[h] = sc
		}
		ended := "gave-up"
		if rng.Chance(1, 2) {
			h := hosts[rng.Intn(len(hosts))]
			r := rng.Intn(c.Retries + 1)
			sc := c.Script[h]
			for len(sc) <= r {
				sc = append(sc, transient[rng.Intn(len(transient))])
			}
			for k := 0; k < r; k++ {
				if sc[k] == 404 || sc[k] == 403 {
					sc[k] = transient[rng.Intn(len(transient))]
				}
			}
			sc[r] = 200
			c.Script[h] = sc[:r+1]
			ended = "found"
		}
		run.Input(c, false)

		rec := &c12rRec{c: c, data: data, nreq: map[string]int{}}
		kc := &KeepClient{
			Arvados:       &arvadosclient.ArvadosClient{ApiToken: "veriftoken", Client: http.DefaultClient},
			Want_replicas: 1, Retries: c.Retries, HTTPClient: rec, RequestID: "c12r",
		}
		if c.Load == "json" {
			type item struct {
				UUID string `json:"uuid"`
				Host string `json:"service_host"`
				Port int    `json:"service_port"`
				SSL  bool   `json:"service_ssl_flag"`
				Type string `json:"service_type"`
				RO   bool   `json:"read_only"`
			}
			var items []item
			for _, k := range rng.Perm(nsvc) {
				sv := c.Svcs[k]
				items = append(items, item{UUID: sv.UUID, Host: fmt.Sprintf("c12-s%d.invalid", k), Port: 25107, Type: sv.Type, RO: sv.RO})
			}
			b, _ := json.Marshal(map[string]interface{}{"items": items})
			if err := kc.LoadKeepServicesFromJSON(string(b)); err != nil {
				run.Inconclusive("C12: cannot load services: " + err.Error())
				return
			}
		} else {
			locals, writables := map[string]string{}, map[string]string{}
			for _, sv := range c.Svcs {
				locals[sv.UUID] = c12URL(sv.UUID, idx)
				if !sv.RO {
					writables[sv.UUID] = c12URL(sv.UUID, idx)
				}
			}
			kc.SetServiceRoots(locals, writables, c.Gateways)
		}
		if c.Via == "Ask" {
			kc.Ask(c.Locator)
		} else {
			r, _, _, _ := kc.Get(c.Locator)
			if r != nil {
				io.Copy(io.Discard, r)
				r.Close()
			}
		}
		rec.mu.Lock()
		rounds := rec.rounds
		extra := rec.extra
		rec.mu.Unlock()

		bad := func(sig, detail string) {
			run.Violation(sig, fmt.Sprintf("%s\nlocator %s, Retries %d, probe sequence per round %v", detail, c.Locator, c.Retries, rounds), c)
		}
		if len(extra) > 0 {
			bad("C12:R:request-to-host-outside-service-set", fmt.Sprintf("requests to %v", extra))
			return
		}
		if len(rounds) > 1+c.Retries {
			bad("C12:RR:more-rounds-than-1+retries", fmt.Sprintf("%d rounds", len(rounds)))
			return
		}
		multi := 0
		for r, seq := range rounds {
			run.Eval(3)
			run.Count("read_retry_rounds_judged", 1)
			if r > 0 && len(seq) >= 2 {
				multi++
			}
			label := "first-round"
			if r > 0 {
				label = "retry-round"
			}
			// hints before un-hinted services; un-hinted in reference order
			seenLocal := ""
			prevW, prevU := "", ""
			dup := map[string]bool{}
			for _, h := range seq {
				if dup[h] {
					bad("C12:RR:host-asked-twice-in-one-round:"+label, fmt.Sprintf("round %d: %s", r, h))
					return
				}
				dup[h] = true
				if hinted[h] {
					if seenLocal != "" {
						bad("C12:H1:hint-tried-after-rendezvous-order:"+label, fmt.Sprintf("round %d: hinted service %s is asked after the un-hinted service %s", r, h, seenLocal))
						return
					}
					continue
				}
				u := byURL[h]
				seenLocal = u
				if w, ok := c12Weight(c.Hash, u); ok {
					if prevU != "" && w > prevW {
						bad("C12:R:read-order-differs-from-reference:"+label, fmt.Sprintf("round %d: %s (weight %s) is asked before %s (weight %s); reference order of all services %v", r, prevU, prevW, u, w, c12RefOrder(c.Hash, c12Only27(all))))
						return
					}
					prevW, prevU = w, u
				}
			}
			if r == 0 {
				continue
			}
			// retry set and relative order of the round before
			prev := rounds[r-1]
			pos := map[string]int{}
			for k, h := range prev {
				pos[h] = k
			}
			last := -1
			for _, h := range seq {
				k, ok := pos[h]
				if !ok {
					bad("C12:RR:service-outside-the-retry-set-asked", fmt.Sprintf("round %d asks %s, which was not asked in round %d", r, h, r-1))
					return
				}
				sc := c.Script[h]
				k1 := r - 1
				if k1 >= len(sc) {
					k1 = len(sc) - 1
				}
				if st := sc[k1]; !(st == 0 || st == 408 || st == 429 || st >= 500) {
					bad("C12:RR:service-outside-the-retry-set-asked", fmt.Sprintf("round %d asks %s again although it answered %d in round %d", r, h, st, r-1))
					return
				}
				if k < last {
					bad("C12:RR:retry-round-reorders-the-remaining-services", fmt.Sprintf("round %d order %v is not a subsequence of round %d order %v", r, seq, r-1, prev))
					return
				}
				last = k
			}
		}
		run.Count("read_retry_cases", 1)
		run.Count("read_retry_cases_"+ended, 1)
		if multi > 0 {
			run.Count("read_retry_cases_with_a_retry_round_of_2+_services", 1)
			run.Count("read_retry_rounds_of_2+_services", multi)
		}
		nb := "n3-7"
		if nsvc >= 8 {
			nb = "n8-16"
		}
		hk := "nohints"
		if len(hintURLs) > 0 {
			hk = fmt.Sprintf("hints%d", len(hintURLs))
		}
		if len(rounds) <= 1 {
			run.Trivial()
		} else {
			run.Feature(fmt.Sprintf("read-retries,%s,%s,%s,%s,retr%d,rounds%d,%s,%s", nb, class, c.Load, c.Via, c.Retries, len(rounds), hk, ended))
		}
		if i < 2 {
			run.Sample(c)
		}
	})
}
