//go:build verif

package keepclient

// C12 (client part), stream "reload" — the probe order is a function of the
// CURRENT service set and the block hash, "and depends on nothing else": not
// on the service lists the same KeepClient was given before.
//
// One long-lived KeepClient per case is given a sequence of 2-5 service lists
// (LoadKeepServicesFromJSON / SetServiceRoots in any mix, or service discovery
// against a stub keep_services/accessible API whose answer changes, followed by
// kc.RefreshServiceDiscovery() or the package-level RefreshServiceDiscovery()).
// Each list is derived from the one before: every/some services re-registered
// (same endpoint, new uuid), uuids swapped between endpoints, a subset, a
// superset, service type flips, read-only flips, endpoints moved (same uuids),
// the same list in another order, the same list again, or a wholly new list.
// After EVERY load the client performs a hinted read, an un-hinted read and a
// refused write; the arrival order at the fake services is judged against the
// reference order of the list that is current at that moment (url -> uuid as
// registered in that list), and compared with a freshly built client that has
// only ever seen that list.

import (
	"encoding/json"
	"fmt"
	"io"
	"net/http"
	"sort"
	"strings"
	"sync"

	"git.arvados.org/arvados.git/internal/verifkit"
	"git.arvados.org/arvados.git/sdk/go/arvadosclient"
)

type c12xItem struct {
	UUID string `json:"uuid"`
	Host int    `json:"host"`
	Port int    `json:"port"`
	SSL  bool   `json:"ssl,omitempty"`
	Type string `json:"type"`
	RO   bool   `json:"ro,omitempty"`
}

func (it c12xItem) url() string {
	scheme := "http"
	if it.SSL {
		scheme = "https"
	}
	return fmt.Sprintf("%s://c12x-h%d.invalid:%d", scheme, it.Host, it.Port)
}

type c12xStep struct {
	Change  string     `json:"change"` // initial | reregistered-all | reregistered-some | uuids-swapped | subset | superset | type-flip | ro-flip | endpoints-moved | relisted | unchanged | replaced
	Via     string     `json:"via"`    // json | roots | api | api-client-refresh | api-global-refresh
	Items   []c12xItem `json:"items"`  // in listing order
	Hints   []string   `json:"hints,omitempty"`
	HintK   []string   `json:"hint_kinds,omitempty"`
	Locator string     `json:"locator"`
}

type c12xCase struct {
	Mode     string     `json:"mode"` // explicit | api
	Ctor     string     `json:"ctor"` // New | literal | MakeKeepClient
	ReadVia  string     `json:"read_via"`
	Class    string     `json:"uuid_class"`
	DataSeed uint64     `json:"data_seed"`
	Size     int        `json:"size"`
	Hash     string     `json:"hash"`
	Steps    []c12xStep `json:"steps"`
}

func c12xJSON(items []c12xItem) string {
	type item struct {
		UUID string `json:"uuid"`
		Host string `json:"service_host"`
		Port int    `json:"service_port"`
		SSL  bool   `json:"service_ssl_flag"`
		Type string `json:"service_type"`
		RO   bool   `json:"read_only"`
	}
	out := []item{}
	for _, it := range items {
		out = append(out, item{UUID: it.UUID, Host: fmt.Sprintf("c12x-h%d.invalid", it.Host), Port: it.Port, SSL: it.SSL, Type: it.Type, RO: it.RO})
	}
	b, _ := json.Marshal(map[string]interface{}{"kind": "arvados#keepServiceList", "items_available": len(out), "items": out})
	return string(b)
}

func c12xRoots(items []c12xItem) (locals, writables, gateways map[string]string) {
	locals, writables, gateways = map[string]string{}, map[string]string{}, map[string]string{}
	for _, it := range items {
		locals[it.UUID] = it.url()
		gateways[it.UUID] = it.url()
		if !it.RO {
			writables[it.UUID] = it.url()
		}
	}
	return
}

// c12xSplitRead checks the hint clause of one read sequence (urls in arrival
// order) and returns the un-hinted listed services in the order asked.
func c12xSplitRead(urls []string, byURL map[string]string, hintURLs []string) (order []string, sig, detail string) {
	hinted := map[string]bool{}
	for _, h := range hintURLs {
		hinted[h] = true
	}
	firstSeen := map[string]int{}
	firstNonHinted := -1
	for k, u := range urls {
		if _, ok := firstSeen[u]; !ok {
			firstSeen[u] = k
		}
		if hinted[u] {
			continue
		}
		id, ok := byURL[u]
		if !ok {
			return nil, "request-to-host-outside-current-service-set", fmt.Sprintf("request to %s, which is neither a service of the current list nor a usable hint; sequence %v", u, urls)
		}
		if firstNonHinted < 0 {
			firstNonHinted = k
		}
		order = append(order, id)
	}
	for _, hu := range hintURLs {
		k, ok := firstSeen[hu]
		if !ok {
			return nil, "usable-hint-not-tried", fmt.Sprintf("hinted service %s (registered in the current list) was never asked; sequence %v", hu, urls)
		}
		if firstNonHinted >= 0 && k > firstNonHinted {
			return nil, "hint-tried-after-rendezvous-order", fmt.Sprintf("hinted service %s was first asked at position %d, after the un-hinted service at position %d; sequence %v", hu, k, firstNonHinted, urls)
		}
	}
	return order, "", ""
}

func c12Reload(run *verifkit.Run) {
	const alnum = "0123456789abcdefghijklmnopqrstuvwxyz"
	run.Cases("reload", run.N(4000, 80000), func(i int, rng *verifkit.Rand) {
		c := &c12xCase{Mode: rng.PickStr("explicit", "explicit", "api"), Ctor: rng.PickStr("New", "literal"), ReadVia: rng.PickStr("Get", "Get", "Ask")}
		c.Class = rng.PickStr("all27", "all27", "all27", "all27", "mixed", "non27")
		if c.Mode == "api" && rng.Chance(1, 4) {
			c.Ctor = "MakeKeepClient" // discovers the first list right away
		}
		used := map[string]bool{}
		newUUID := func() string {
			for {
				var u string
				if c.Class == "all27" || (c.Class == "mixed" && rng.Bool()) {
					u = rng.PickStr("zzzzz", "zzzzz", rng.String(5, alnum)) + "-bi6l4-" + rng.String(15, alnum)
				} else {
					l := rng.PickInt(5, 15, 26, 28, 40, rng.Range(1, 45))
					if l == 27 {
						l = 26
					}
					u = rng.String(l, alnum+"-")
				}
				if !used[u] {
					used[u] = true
					return u
				}
			}
		}
		nextHost := 0
		newItem := func() c12xItem {
			it := c12xItem{UUID: newUUID(), Host: nextHost, Port: rng.PickInt(25107, 25107, 25107, 443, 8080), SSL: rng.Chance(1, 6), Type: rng.PickStr("disk", "disk", "disk", "proxy"), RO: rng.Chance(1, 6)}
			nextHost++
			return it
		}
		newList := func() []c12xItem {
			n := rng.Range(2, 8)
			switch {
			case rng.Chance(1, 12):
				n = rng.PickInt(1, 31, 32)
			case rng.Chance(1, 4):
				n = rng.Range(9, 20)
			}
			var l []c12xItem
			for k := 0; k < n; k++ {
				l = append(l, newItem())
			}
			return l
		}
		fixWritable := func(l []c12xItem) {
			for _, it := range l {
				if !it.RO {
					return
				}
			}
			l[rng.Intn(len(l))].RO = false
		}
		someOf := func(n int) []int { // a non-empty random subset of 0..n-1
			p := rng.Perm(n)
			return p[:rng.Range(1, n)]
		}
		someNotAll := func(n int) []int { // a non-empty proper subset of 0..n-1 (n >= 2)
			p := rng.Perm(n)
			return p[:rng.Range(1, n-1)]
		}
		derive := func(prev []c12xItem) (string, []c12xItem) {
			l := append([]c12xItem(nil), prev...)
			n := len(l)
			for {
				switch rng.PickStr("reregistered-all", "reregistered-all", "reregistered-some", "uuids-swapped", "uuids-swapped", "subset", "superset", "type-flip", "ro-flip", "endpoints-moved", "relisted", "unchanged", "replaced") {
				case "reregistered-all":
					for k := range l {
						l[k].UUID = newUUID()
					}
					return "reregistered-all", l
				case "reregistered-some":
					if n < 2 {
						continue
					}
					for _, k := range someNotAll(n) {
						l[k].UUID = newUUID()
					}
					return "reregistered-some", l
				case "uuids-swapped":
					if n < 2 {
						continue
					}
					if rng.Bool() || n == 2 {
						a := rng.Intn(n)
						b := (a + 1 + rng.Intn(n-1)) % n
						l[a].UUID, l[b].UUID = l[b].UUID, l[a].UUID
					} else {
						r := rng.Range(1, n-1) // rotation: every endpoint gets another uuid
						for k := range l {
							l[k].UUID = prev[(k+r)%n].UUID
						}
					}
					return "uuids-swapped", l
				case "subset":
					if n < 2 {
						continue
					}
					drop := map[int]bool{}
					for _, k := range someNotAll(n) {
						drop[k] = true
					}
					l = l[:0:0]
					for k, it := range prev {
						if !drop[k] {
							l = append(l, it)
						}
					}
					fixWritable(l)
					return "subset", l
				case "superset":
					if n >= 32 {
						continue
					}
					for k := rng.Range(1, 3); k > 0 && len(l) < 32; k-- {
						pos := rng.Intn(len(l) + 1)
						l = append(l[:pos:pos], append([]c12xItem{newItem()}, l[pos:]...)...)
					}
					return "superset", l
				case "type-flip":
					for _, k := range someOf(n) {
						if l[k].Type == "disk" {
							l[k].Type = rng.PickStr("proxy", "proxy", "gateway:x")
						} else {
							l[k].Type = "disk"
						}
					}
					return "type-flip", l
				case "ro-flip":
					for _, k := range someOf(n) {
						l[k].RO = !l[k].RO
					}
					fixWritable(l)
					same := true
					for k := range l {
						same = same && l[k].RO == prev[k].RO
					}
					if same {
						copy(l, prev)
						continue
					}
					return "ro-flip", l
				case "endpoints-moved":
					for _, k := range someOf(n) {
						switch rng.Intn(3) {
						case 0:
							l[k].Host = nextHost
							nextHost++
						case 1:
							l[k].Port++
						default:
							l[k].SSL = !l[k].SSL
						}
					}
					return "endpoints-moved", l
				case "relisted":
					if n < 2 {
						continue
					}
					p := rng.Perm(n)
					ident := true
					for k := range p {
						l[k] = prev[p[k]]
						ident = ident && p[k] == k
					}
					if ident {
						l[0], l[1] = l[1], l[0]
					}
					return "relisted", l
				case "unchanged":
					return "unchanged", l
				default:
					return "replaced", newList()
				}
			}
		}

		c.Size = rng.Range(1, 64)
		c.DataSeed = rng.Uint64()
		data := verifkit.NewRand(c.DataSeed).Bytes(c.Size)
		c.Hash = verifkit.MD5Hex(data)
		plain := fmt.Sprintf("%s+%d", c.Hash, c.Size)

		// ---------------- generate the sequence of lists
		nsteps := rng.Range(2, 5)
		explicit := c.Mode == "explicit"
		former := []string{} // 27-character uuids of earlier lists
		for s := 0; s < nsteps; s++ {
			st := c12xStep{}
			if s == 0 {
				st.Change, st.Items = "initial", newList()
				fixWritable(st.Items)
			} else {
				st.Change, st.Items = derive(c.Steps[s-1].Items)
				if st.Change != "relisted" && st.Change != "unchanged" && len(st.Items) >= 2 && rng.Chance(1, 4) {
					// the listing order is not part of the service set
					p := rng.Perm(len(st.Items))
					l := make([]c12xItem, len(p))
					for k := range p {
						l[k] = st.Items[p[k]]
					}
					st.Items = l
				}
			}
			switch {
			case explicit:
				st.Via = rng.PickStr("json", "json", "json", "roots")
			case s == 0:
				st.Via = "api"
			case s >= 2 && rng.Chance(1, 6):
				// a discovering client is switched to an explicit list
				explicit = true
				st.Via = rng.PickStr("json", "roots")
			default:
				st.Via = rng.PickStr("api-client-refresh", "api-client-refresh", "api-global-refresh")
			}
			// hints for the hinted lookup of this step
			cur := map[string]bool{}
			var cur27 []string
			for _, it := range st.Items {
				cur[it.UUID] = true
				if len(it.UUID) == 27 {
					cur27 = append(cur27, it.UUID)
				}
			}
			seenHint := map[string]bool{}
			for h, nh := 0, rng.Range(1, 3); h < nh; h++ {
				var hint, kind string
				switch rng.Intn(6) {
				case 0, 1, 2:
					if len(cur27) == 0 {
						continue
					}
					hint, kind = cur27[rng.Intn(len(cur27))], "current-uuid"
				case 3:
					var cands []string
					for _, u := range former {
						if !cur[u] {
							cands = append(cands, u)
						}
					}
					if len(cands) == 0 {
						continue
					}
					hint, kind = cands[rng.Intn(len(cands))], "former-uuid"
				case 4:
					hint, kind = rng.String(5, alnum), "cluster"
				default:
					hint, kind = "zzzzz-bi6l4-"+rng.String(15, alnum), "unknown-uuid"
					if used[hint] {
						continue
					}
					used[hint] = true
				}
				if seenHint[hint] {
					continue
				}
				seenHint[hint] = true
				st.Hints = append(st.Hints, "K@"+hint)
				st.HintK = append(st.HintK, kind)
			}
			parts := append([]string(nil), st.Hints...)
			if rng.Bool() {
				pos := rng.Intn(len(parts) + 1)
				parts = append(parts[:pos:pos], append([]string{"A" + rng.Hex(40) + "@" + rng.Hex(8)}, parts[pos:]...)...)
			}
			st.Locator = plain
			if len(parts) > 0 {
				st.Locator += "+" + strings.Join(parts, "+")
			}
			for _, u := range cur27 {
				former = append(former, u)
			}
			c.Steps = append(c.Steps, st)
		}
		run.Input(c, false)

		// ---------------- the long-lived client
		rec := &c12Rec{}
		rec.answer = func(method, url string) (int, []byte) {
			if method == "PUT" {
				return 403, []byte("Forbidden\n")
			}
			return 404, []byte("Not found\n")
		}
		var apiMu sync.Mutex
		apiList := c12xJSON(c.Steps[0].Items)
		apiStep, apiServed := 0, -1
		arv := &arvadosclient.ArvadosClient{Scheme: "http", ApiToken: "veriftoken"}
		// the discovery cache is keyed by API host: one host per case
		arv.ApiServer = fmt.Sprintf("c12x-api-%d-%d-%d.invalid:443", run.Seed(), run.BatchK(), i)
		arv.Client = &http.Client{Transport: c12RT(func(r *http.Request) (*http.Response, error) {
			apiMu.Lock()
			list := apiList
			if r.URL.Path == "/arvados/v1/keep_services/accessible" {
				apiServed = apiStep
			}
			apiMu.Unlock()
			st, body := c12APIAnswer(r.URL.Path, list)
			return &http.Response{StatusCode: st, Status: fmt.Sprintf("%d %s", st, http.StatusText(st)), Proto: "HTTP/1.1", ProtoMajor: 1, ProtoMinor: 1, Header: http.Header{"Content-Type": {"application/json"}}, Body: io.NopCloser(strings.NewReader(body)), Request: r}, nil
		})}
		var kc *KeepClient
		switch c.Ctor {
		case "New":
			kc = New(arv)
		case "MakeKeepClient":
			var err error
			if kc, err = MakeKeepClient(arv); err != nil {
				run.Inconclusive("C12 reload: MakeKeepClient: " + err.Error())
				return
			}
		default:
			kc = &KeepClient{Arvados: arv}
		}
		kc.Want_replicas = 1
		kc.Retries = 0
		kc.HTTPClient = rec
		kc.RequestID = "c12x"

		doRead := func(k *KeepClient, locator string) []string {
			rec.take()
			if c.ReadVia == "Ask" {
				k.Ask(locator)
			} else {
				r, _, _, _ := k.Get(locator)
				if r != nil {
					io.Copy(io.Discard, r)
					r.Close()
				}
			}
			var urls []string
			for _, s := range rec.take() {
				urls = append(urls, strings.SplitN(s, " ", 2)[1])
			}
			return urls
		}
		doWrite := func(k *KeepClient) []string {
			rec.take()
			k.PutB(data)
			var urls []string
			for _, s := range rec.take() {
				urls = append(urls, strings.SplitN(s, " ", 2)[1])
			}
			return urls
		}

		kinds := map[string]bool{}
		for s := range c.Steps {
			st := &c.Steps[s]
			history := func() string {
				var h []string
				for k := 0; k <= s; k++ {
					h = append(h, c.Steps[k].Change+"/"+c.Steps[k].Via)
				}
				return strings.Join(h, " -> ")
			}
			bad := func(symptom, detail string) {
				run.Violation("C12:L:reload:"+symptom+":"+st.Change,
					fmt.Sprintf("%s\nlong-lived client, load %d of %d (loads so far: %s), block %s, locator %s, read via %s\ncurrent list: %s", detail, s+1, len(c.Steps), history(), c.Hash, st.Locator, c.ReadVia, c12xJSON(st.Items)), c)
			}
			// ---- load
			switch st.Via {
			case "json":
				if err := kc.LoadKeepServicesFromJSON(c12xJSON(st.Items)); err != nil {
					run.Inconclusive("C12 reload: cannot load services: " + err.Error())
					return
				}
			case "roots":
				kc.SetServiceRoots(c12xRoots(st.Items))
			default:
				apiMu.Lock()
				apiList, apiStep = c12xJSON(st.Items), s
				apiMu.Unlock()
				switch st.Via {
				case "api-client-refresh":
					kc.RefreshServiceDiscovery()
				case "api-global-refresh":
					RefreshServiceDiscovery()
				}
			}
			// ---- the current service set
			byURL := map[string]string{}
			var all, writable []string
			for _, it := range st.Items {
				byURL[it.url()] = it.UUID
				all = append(all, it.UUID)
				if !it.RO {
					writable = append(writable, it.UUID)
				}
			}
			uuidClass := "all27"
			if n27 := len(c12Only27(all)); n27 == 0 {
				uuidClass = "non27"
			} else if n27 < len(all) {
				uuidClass = "mixed"
			}
			var hintURLs []string
			hintedUUID := map[string]bool{}
			for k, h := range st.Hints {
				switch st.HintK[k] {
				case "cluster":
					hintURLs = append(hintURLs, "https://keep."+h[2:]+".arvadosapi.com")
				case "current-uuid":
					for _, it := range st.Items {
						if it.UUID == h[2:] {
							hintURLs = append(hintURLs, it.url())
							hintedUUID[it.UUID] = true
						}
					}
				}
			}
			var unhinted []string
			for _, u := range all {
				if !hintedUUID[u] {
					unhinted = append(unhinted, u)
				}
			}

			// ---- A: hinted read
			urls := doRead(kc, st.Locator)
			if strings.HasPrefix(st.Via, "api") {
				apiMu.Lock()
				served := apiServed
				apiMu.Unlock()
				if served != s {
					run.Inconclusive(fmt.Sprintf("C12 reload: service discovery did not fetch the current list before the lookup (load %d via %s, last list served %d)", s, st.Via, served))
					return
				}
			}
			run.Eval(2)
			order, sig, d := c12xSplitRead(urls, byURL, hintURLs)
			if sig != "" {
				bad(sig, "hinted read: "+d)
				return
			}
			if sig, d := c12JudgeOrder(c.Hash, order, unhinted); sig != "" {
				bad("read-order-"+sig, "hinted read, un-hinted services: "+d)
				return
			}
			// ---- B: un-hinted read
			run.Eval(1)
			full, sig, d := c12xSplitRead(doRead(kc, plain), byURL, nil)
			if sig != "" {
				bad(sig, "read: "+d)
				return
			}
			if sig, d := c12JudgeOrder(c.Hash, full, all); sig != "" {
				bad("read-order-"+sig, "read probe order: "+d)
				return
			}
			// ---- C: refused write
			run.Eval(2)
			var worder []string
			wurls := doWrite(kc)
			for _, u := range wurls {
				id, ok := byURL[u]
				if !ok {
					bad("write-request-to-host-outside-current-service-set", fmt.Sprintf("write request to %s; sequence %v", u, wurls))
					return
				}
				worder = append(worder, id)
			}
			if sig, d := c12JudgeOrder(c.Hash, worder, writable); sig != "" {
				bad("write-order-"+sig, "write probe order: "+d)
				return
			}
			wset := map[string]bool{}
			for _, u := range writable {
				wset[u] = true
			}
			if !c12SameModuloTies(c.Hash, c12Restrict(full, wset), worder) {
				bad("read-and-write-order-differ", fmt.Sprintf("read order restricted to the writable services %v, write order %v", c12Restrict(full, wset), worder))
				return
			}
			// ---- D: a client that has only ever seen the current list
			run.Eval(2)
			fresh := &KeepClient{Arvados: &arvadosclient.ArvadosClient{ApiToken: "veriftoken", Client: http.DefaultClient}, Want_replicas: 1, HTTPClient: rec, RequestID: "c12x-fresh"}
			if s%2 == 0 {
				fresh.SetServiceRoots(c12xRoots(st.Items))
			} else if err := fresh.LoadKeepServicesFromJSON(c12xJSON(st.Items)); err != nil {
				run.Inconclusive("C12 reload: cannot load services: " + err.Error())
				return
			}
			ffull, sig, _ := c12xSplitRead(doRead(fresh, plain), byURL, nil)
			if sig == "" && !c12SameModuloTies(c.Hash, ffull, full) {
				bad("read-order-differs-from-fresh-client:"+uuidClass, fmt.Sprintf("long-lived client %v, client built from the current list only %v", full, ffull))
				return
			}
			var fw []string
			for _, u := range doWrite(fresh) {
				fw = append(fw, byURL[u])
			}
			if !c12SameModuloTies(c.Hash, fw, worder) {
				bad("write-order-differs-from-fresh-client:"+uuidClass, fmt.Sprintf("long-lived client %v, client built from the current list only %v", worder, fw))
				return
			}

			run.Count("reload_loads_judged", 1)
			if s > 0 {
				run.Count("reload_reloads_judged", 1)
				run.Count("reload_change_"+st.Change, 1)
				kinds[st.Change] = true
			}
			run.Count("reload_via_"+st.Via, 1)
			for _, k := range st.HintK {
				run.Count("reload_hint_"+k, 1)
			}
		}
		run.Count("reload_cases", 1)
		var kl []string
		for k := range kinds {
			kl = append(kl, k)
		}
		sort.Strings(kl)
		last := c.Steps[len(c.Steps)-1]
		nb := "n1-4"
		if n := len(last.Items); n >= 17 {
			nb = "n17-32"
		} else if n >= 5 {
			nb = "n5-16"
		}
		run.Feature(fmt.Sprintf("reload,%s,%s,%s,%s,steps%d,last=%s/%s,%s", c.Mode, c.Ctor, c.Class, c.ReadVia, len(c.Steps), last.Change, last.Via, nb))
		if i < 3 {
			run.Sample(c)
		}
	})
}
