//go:build verif

package keepclient

// C03 — Keep client and collection reads never deliver bytes that mismatch the
// locator. See /verif/DESIGN.md §5 C03.
//
// Real code driven: KeepClient.Get (HashCheckingReader Read/WriteTo/Close),
// KeepClient.ReadAt (BlockCache), KeepClient.CollectionFileReader →
// arvados collection filesystem File.Read/Seek (storedSegment.ReadAt), against
// real loopback HTTP servers whose k-th answer per (block, service) comes from
// a generated script.
//
// Oracle (independent of the code under test): the block bytes the harness
// generated itself, a byte-array model of each file of the manifest, and the
// log of what every fake service actually put on the wire.
//
//  R1 a read that reports success (nil, or io.EOF exactly at the true end)
//     delivered exactly block[off:off+n]; a stream that ended with io.EOF / a
//     nil WriteTo / nil Close delivered exactly (a prefix of, if closed early)
//     the block.
//  R2 if the 200 response the read consumed was bad (framed content ≠ block,
//     or cut short), the read ends with a non-nil non-EOF error.
//  R3 a cache entry without error equals the block; after any sequence of
//     misbehaviour, reads with all services behaving succeed with the right
//     bytes (a bad response / an error was not kept in the cache).
//
// Stream "rw": the collection filesystem a file is read from is writable.
// 2-3 handles are open on one file of one filesystem; some of them overwrite
// or append (Seek+Write in several calls) while the others keep reading. The
// harness keeps a byte-array model of the file and of which byte positions
// are still backed by a Keep block; R1/R2 are applied to exactly those bytes
// (what a read returns for bytes that were written through the filesystem is
// not the subject of C03 and is only counted).

import (
	"bytes"
	"encoding/json"
	"fmt"
	"io"
	"io/ioutil"
	"log"
	"net"
	"net/http"
	"net/http/httptest"
	"net/url"
	"os"
	"os/exec"
	"sort"
	"strconv"
	"strings"
	"sync"
	"testing"

	"git.arvados.org/arvados.git/internal/verifkit"
	"git.arvados.org/arvados.git/sdk/go/arvados"
	"git.arvados.org/arvados.git/sdk/go/arvadosclient"
)

// ------------------------------------------------------------------ case

// c03Step is one scripted answer of one service for one block.
type c03Step struct {
	K string `json:"k"`
	P []int  `json:"p,omitempty"`
}

type c03Block struct {
	Seed uint64 `json:"seed"`
	Size int    `json:"size"`
	Hint bool   `json:"hint"`
	// Pattern: content is a random 8 KiB chunk repeated (large blocks are
	// too expensive to draw byte by byte under the race detector)
	Pattern bool `json:"pattern,omitempty"`
}

func c03BlockData(bs c03Block) []byte {
	if !bs.Pattern {
		return verifkit.NewRand(bs.Seed).Bytes(bs.Size)
	}
	chunk := verifkit.NewRand(bs.Seed).Bytes(8192)
	return append([]byte(nil), bytes.Repeat(chunk, bs.Size/8192+1)[:bs.Size]...)
}

type c03FileOp struct {
	Op     string `json:"op"` // read | seek
	N      int    `json:"n,omitempty"`
	Off    int64  `json:"off,omitempty"`
	Whence int    `json:"whence,omitempty"`
}

type c03Reader struct {
	Kind  string      `json:"kind"` // get-read get-copy get-writeto get-readall get-early readat file
	Blk   int         `json:"blk,omitempty"`
	RSeed uint64      `json:"rseed,omitempty"`
	Limit *int        `json:"limit,omitempty"` // get-early: stop after exactly this many bytes, then Close
	Off   int         `json:"off,omitempty"`
	Len   int         `json:"len,omitempty"`
	File  string      `json:"file,omitempty"`
	Ops   []c03FileOp `json:"ops,omitempty"`
	RW    *c03RWSpec  `json:"rw,omitempty"` // kind rw: interleaved operations of several handles on File
}

// c03RWOp is one operation of handle H. seek: Off is the absolute target
// (-1: the current end of the file), expressed relative to Whence at run
// time. write: N bytes drawn from WSeed at the handle's position.
type c03RWOp struct {
	H      int    `json:"h"`
	Op     string `json:"op"` // read | seek | write
	N      int    `json:"n,omitempty"`
	Off    int64  `json:"off,omitempty"`
	Whence int    `json:"whence,omitempty"`
	WSeed  uint64 `json:"wseed,omitempty"`
}

type c03RWSpec struct {
	Writable []bool    `json:"writable"` // per handle: opened O_RDWR, else O_RDONLY
	Ops      []c03RWOp `json:"ops"`
}

type c03Round struct {
	Scripts    [][][]c03Step `json:"scripts"` // [block][service][k]
	Tail       [][]c03Step   `json:"tail"`    // [block][service] answer once the script is used up
	Readers    []c03Reader   `json:"readers"`
	Concurrent bool          `json:"concurrent,omitempty"`
	Clear      bool          `json:"clear_cache_before,omitempty"`
	ClearMid   bool          `json:"clear_cache_concurrently,omitempty"`
}

type c03FileSpec struct {
	Name string   `json:"name"`
	Segs [][2]int `json:"segs"` // (pos,len) in the stream
}

type c03Case struct {
	Mode      string        `json:"mode"` // stream | readat | file | conc
	NSvc      int           `json:"nsvc"`
	Retries   int           `json:"retries"`
	MaxBlocks int           `json:"max_blocks"`
	JSONRoots bool          `json:"roots_from_json"`
	// NoHintCache: hint-less locators are read through the BlockCache too.
	// The code under test then allocates a 64 MiB buffer per fetch, so this
	// is confined to the small dedicated stream "nohint-cache".
	NoHintCache bool `json:"nohint_cache,omitempty"`
	Blocks    []c03Block    `json:"blocks"`
	Files     []c03FileSpec `json:"files,omitempty"`
	Manifest  string        `json:"manifest,omitempty"`
	Rounds    []c03Round    `json:"rounds"`
}

// ------------------------------------------------------------------ wire

const (
	c03Std = iota
	c03Chunked
	c03Raw
)

type c03Wire struct {
	status int
	mode   int
	head   string // raw: everything before the body
	body   []byte // std/chunked: body; raw: bytes following head
	pieces int
	tail   int // junk bytes streamed after body (never materialised)
	rst    bool
	is200  bool // a 200 response whose header certainly reaches the client
	good   bool // framed content == block and complete
	class  string
}

// c03Junk is what over-long tails are made of.
var c03Junk = verifkit.NewRand(0xc03c03).Bytes(65536)

// c03WriteTail streams n junk bytes; it stops at the first write error (the
// client is entitled to hang up on an over-long answer).
func c03WriteTail(w io.Writer, n int) {
	for n > 0 {
		k := len(c03Junk)
		if k > n {
			k = n
		}
		if _, err := w.Write(c03Junk[:k]); err != nil {
			return
		}
		n -= k
	}
}

func c03Head(cl int64, extra string) string {
	h := "HTTP/1.1 200 OK\r\nContent-Type: application/octet-stream\r\nConnection: close\r\n"
	if cl >= 0 {
		h += "Content-Length: " + strconv.FormatInt(cl, 10) + "\r\n"
	}
	return h + extra + "\r\n"
}

func c03ChunkEnc(b []byte, pieces int, terminate bool) []byte {
	var out bytes.Buffer
	if pieces < 1 {
		pieces = 1
	}
	per := len(b)/pieces + 1
	for len(b) > 0 {
		n := per
		if n > len(b) {
			n = len(b)
		}
		fmt.Fprintf(&out, "%x\r\n", n)
		out.Write(b[:n])
		out.WriteString("\r\n")
		b = b[n:]
	}
	if terminate {
		out.WriteString("0\r\n\r\n")
	}
	return out.Bytes()
}

func c03P(st c03Step, i, def int) int {
	if i < len(st.P) {
		return st.P[i]
	}
	return def
}

func c03Clamp(v, lo, hi int) int {
	if v > hi {
		v = hi
	}
	if v < lo {
		v = lo
	}
	return v
}

// c03Mutate returns the body for a body-variant: 0 intact, 1 flipped bit(s),
// 2 truncated, 3 extended.
func c03Flip(blk []byte, bits []int) []byte {
	b := append([]byte(nil), blk...)
	for _, bit := range bits {
		if len(b) == 0 {
			break
		}
		bit = c03Clamp(bit, 0, len(b)*8-1)
		b[bit/8] ^= 1 << uint(bit%8)
	}
	return b
}

func c03Short(blk []byte, variant, k, pos int) []byte {
	n := len(blk)
	k = c03Clamp(k, 1, n)
	switch variant {
	case 1: // suffix
		return append([]byte(nil), blk[k:]...)
	case 2: // cut from the middle
		pos = c03Clamp(pos, 0, n-k)
		return append(append([]byte(nil), blk[:pos]...), blk[pos+k:]...)
	}
	return append([]byte(nil), blk[:n-k]...)
}

func c03Long(blk []byte, variant, k, seed int) []byte {
	if k < 1 {
		k = 1
	}
	extra := verifkit.NewRand(uint64(seed)).Bytes(k)
	switch variant {
	case 1:
		return append(extra, blk...)
	case 2:
		if len(blk) > 0 {
			return append(append([]byte(nil), blk...), blk...)
		}
	case 3: // all-zero padding
		return append(append([]byte(nil), blk...), make([]byte, k)...)
	}
	return append(append([]byte(nil), blk...), extra...)
}

// c03Resolve turns a scripted step into what goes on the wire. Every kind
// that cannot apply to this block (e.g. flipping a bit of an empty block)
// degrades to an over-long body, which is always possible.
func c03Resolve(st c03Step, blk []byte) c03Wire {
	n := len(blk)
	w := c03Wire{status: 200, mode: c03Std, class: st.K, is200: true}
	needBytes := func() bool {
		if n == 0 {
			w.class = "long"
			w.body = c03Long(blk, 0, 3, 7)
			return false
		}
		return true
	}
	switch st.K {
	case "ok":
		w.body, w.good = blk, true
	case "flip":
		if needBytes() {
			w.body = c03Flip(blk, st.P)
		}
	case "short":
		if needBytes() {
			w.body = c03Short(blk, c03P(st, 0, 0), c03P(st, 1, 1), c03P(st, 2, 0))
		}
	case "long":
		w.body = c03Long(blk, c03P(st, 0, 0), c03P(st, 1, 1), c03P(st, 2, 1))
	case "bigtail":
		// the block-sized head (intact, bit-flipped, or other bytes of the
		// same size) followed by a junk tail large enough to matter to
		// whoever has to drain it. P = framing, head variant, tail, bit
		switch c03P(st, 1, 0) {
		case 1:
			w.body = c03Flip(blk, []int{c03P(st, 3, 0)})
		case 2:
			w.body = verifkit.NewRand(uint64(c03P(st, 3, 0)) + 99).Bytes(n)
			if n > 0 {
				w.body[0] = blk[0] ^ 0x10
			}
		default:
			w.body = blk
		}
		w.tail = c03P(st, 2, 1)
		if w.tail < 1 {
			w.tail = 1
		}
		switch c03P(st, 0, 0) {
		case 0:
			w.mode, w.pieces = c03Chunked, 1
		case 1:
			w.mode, w.head = c03Raw, c03Head(-1, "")
		}
	case "declong": // declared length longer than what is sent, then close
		sent := c03Clamp(c03P(st, 1, n), 0, n)
		decl := c03P(st, 0, n)
		if decl <= sent {
			decl = sent + 1
		}
		w.mode, w.head, w.body = c03Raw, c03Head(int64(decl), ""), blk[:sent]
	case "declhuge": // declared length beyond the maximum block size
		w.mode, w.head, w.body = c03Raw, c03Head(int64(BLOCKSIZE)+int64(c03P(st, 0, 1)), ""), blk
	case "clmis": // Content-Length smaller than the body that follows
		if needBytes() {
			k := c03Clamp(c03P(st, 0, 1), 1, n)
			w.mode, w.head, w.body = c03Raw, c03Head(int64(n-k), ""), blk
		}
	case "chunked-ok":
		w.mode, w.body, w.good, w.pieces = c03Chunked, blk, true, c03P(st, 0, 1)
	case "chunked-flip":
		if needBytes() {
			w.mode, w.body, w.pieces = c03Chunked, c03Flip(blk, st.P), 2
		}
	case "chunked-short":
		if needBytes() {
			w.mode, w.body, w.pieces = c03Chunked, c03Short(blk, c03P(st, 0, 0), c03P(st, 1, 1), c03P(st, 2, 0)), 2
		}
	case "chunked-long":
		w.mode, w.body, w.pieces = c03Chunked, c03Long(blk, c03P(st, 0, 0), c03P(st, 1, 1), c03P(st, 2, 1)), 2
	case "chunked-cut": // chunked body without terminating chunk, then close
		sent := c03Clamp(c03P(st, 0, n), 0, n)
		w.mode, w.head = c03Raw, c03Head(-1, "Transfer-Encoding: chunked\r\n")
		w.body = c03ChunkEnc(blk[:sent], 2, false)
	case "eof-ok": // no length, body delimited by connection close
		w.mode, w.head, w.body, w.good = c03Raw, c03Head(-1, ""), blk, true
	case "eof-short":
		if needBytes() {
			w.mode, w.head = c03Raw, c03Head(-1, "")
			w.body = c03Short(blk, 0, c03P(st, 0, 1), 0)
		}
	case "404":
		w.status, w.body, w.is200 = 404, []byte("not found\n"), false
	case "status":
		w.status, w.body, w.is200 = c03P(st, 0, 500), []byte("scripted failure\n"), false
		w.class = strconv.Itoa(w.status)
	case "reset":
		// what the client perceives is not determined (RST may overtake
		// data), so this never counts as "a 200 response was consumed"
		w.mode, w.is200, w.rst = c03Raw, false, true
		stage := c03Clamp(c03P(st, 0, 0), 0, 2)
		if stage == 2 && n == 0 {
			stage = 1 // a complete header for an empty block would be a complete, good response
		}
		switch stage {
		case 0:
			w.rst = c03P(st, 1, 0) == 1
		case 1:
			w.head = "HTTP/1.1 200 O"
		default:
			// strictly fewer bytes than declared: whatever the client gets to
			// see before the reset, it is never a complete response
			w.head, w.body = c03Head(int64(n), ""), blk[:c03Clamp(c03P(st, 1, 0), 0, n-1)]
		}
		w.class = "reset" + strconv.Itoa(stage)
	default:
		w.status, w.body, w.is200 = 500, []byte("unknown step\n"), false
	}
	return w
}

// ------------------------------------------------------------------ servers

type c03Served struct {
	svc   int
	class string
	is200 bool
	good  bool
}

type c03Live struct {
	data    []byte
	scripts [][]c03Step // per pool server
	pos     []int
	tail    []c03Step
	log     []c03Served
}

type c03Pool struct {
	mu      sync.Mutex
	srv     []*httptest.Server
	blocks  map[string]*c03Live
	unknown int
	client  *http.Client
	tr      *http.Transport
}

func c03NewPool(n int) *c03Pool {
	p := &c03Pool{blocks: map[string]*c03Live{}}
	for i := 0; i < n; i++ {
		i := i
		s := httptest.NewUnstartedServer(http.HandlerFunc(func(w http.ResponseWriter, r *http.Request) { p.serve(i, w, r) }))
		s.Config.ErrorLog = log.New(ioutil.Discard, "", 0)
		s.Start()
		p.srv = append(p.srv, s)
	}
	p.tr = &http.Transport{MaxIdleConns: 64, MaxIdleConnsPerHost: 16}
	p.client = &http.Client{Transport: p.tr}
	return p
}

func (p *c03Pool) Close() {
	p.tr.CloseIdleConnections()
	for _, s := range p.srv {
		s.CloseClientConnections()
		s.Close()
	}
}

func (p *c03Pool) serve(svc int, w http.ResponseWriter, r *http.Request) {
	path := strings.TrimPrefix(r.URL.Path, "/")
	hash := path
	if len(hash) > 32 {
		hash = hash[:32]
	}
	p.mu.Lock()
	live := p.blocks[hash]
	if live == nil || r.Method != "GET" {
		p.unknown++
		p.mu.Unlock()
		http.Error(w, "unknown block", 404)
		return
	}
	var st c03Step
	if k := live.pos[svc]; k < len(live.scripts[svc]) {
		st = live.scripts[svc][k]
		live.pos[svc]++
	} else {
		st = live.tail[svc]
	}
	wire := c03Resolve(st, live.data)
	live.log = append(live.log, c03Served{svc: svc, class: wire.class, is200: wire.is200, good: wire.good})
	p.mu.Unlock()

	switch wire.mode {
	case c03Std:
		w.Header().Set("Content-Length", strconv.Itoa(len(wire.body)+wire.tail))
		w.WriteHeader(wire.status)
		if _, err := w.Write(wire.body); err == nil {
			c03WriteTail(w, wire.tail)
		}
	case c03Chunked:
		w.WriteHeader(wire.status)
		fl := w.(http.Flusher)
		fl.Flush()
		b := wire.body
		pieces := wire.pieces
		if pieces < 1 {
			pieces = 1
		}
		per := len(b)/pieces + 1
		for len(b) > 0 {
			n := per
			if n > len(b) {
				n = len(b)
			}
			w.Write(b[:n])
			fl.Flush()
			b = b[n:]
		}
		c03WriteTail(w, wire.tail)
	case c03Raw:
		conn, _, err := w.(http.Hijacker).Hijack()
		if err != nil {
			return
		}
		if len(wire.head)+len(wire.body) > 0 {
			if _, err := conn.Write(append([]byte(wire.head), wire.body...)); err == nil {
				c03WriteTail(conn, wire.tail)
			}
		}
		if wire.rst {
			if tc, ok := conn.(*net.TCPConn); ok {
				tc.SetLinger(0)
			}
		}
		conn.Close()
	}
}

// install registers the blocks of a round; mark returns the current log
// lengths; since returns what was served after a mark.
func (p *c03Pool) install(hashes []string, data [][]byte, scripts [][][]c03Step, tail [][]c03Step, svcMap []int, keepLog bool) {
	p.mu.Lock()
	defer p.mu.Unlock()
	for b, h := range hashes {
		live := p.blocks[h]
		if live == nil || !keepLog {
			live = &c03Live{data: data[b]}
			p.blocks[h] = live
		}
		live.scripts = make([][]c03Step, len(p.srv))
		live.pos = make([]int, len(p.srv))
		live.tail = make([]c03Step, len(p.srv))
		for s := range p.srv {
			live.tail[s] = c03Step{K: "404"}
		}
		for j, s := range svcMap {
			if scripts != nil {
				live.scripts[s] = scripts[b][j]
			}
			if tail != nil {
				live.tail[s] = tail[b][j]
			} else {
				live.tail[s] = c03Step{K: "ok"}
			}
		}
	}
}

func (p *c03Pool) forget(hashes []string) {
	p.mu.Lock()
	for _, h := range hashes {
		delete(p.blocks, h)
	}
	p.mu.Unlock()
}

func (p *c03Pool) mark(hashes []string) []int {
	p.mu.Lock()
	defer p.mu.Unlock()
	m := make([]int, len(hashes))
	for i, h := range hashes {
		if l := p.blocks[h]; l != nil {
			m[i] = len(l.log)
		}
	}
	return m
}

func (p *c03Pool) since(hashes []string, m []int) [][]c03Served {
	p.mu.Lock()
	defer p.mu.Unlock()
	out := make([][]c03Served, len(hashes))
	for i, h := range hashes {
		if l := p.blocks[h]; l != nil && m[i] <= len(l.log) {
			out[i] = append([]c03Served(nil), l.log[m[i]:]...)
		}
	}
	return out
}

// ------------------------------------------------------------------ generator

var c03BadKinds = []string{"flip", "flip", "short", "short", "long", "declong", "clmis", "chunked-flip", "chunked-short", "chunked-long", "chunked-cut", "eof-short"}
var c03ErrKinds = []string{"404", "404", "status", "status", "status", "reset", "reset"}
var c03Statuses = []int{408, 429, 500, 502, 503}

// c03BigTails: sizes of what is left unread when a reader that stops at the
// block size calls Close: around io.Copy's 32 KiB buffer, around 1 MiB, and
// several MiB.
var c03BigTails = []int{32767, 32768, 32769, 1<<20 - 1, 1 << 20, 1<<20 + 1, 1<<20 + 32768, 2 << 20, 3 << 20}

func c03GenStep(rng *verifkit.Rand, size int, okPct int) c03Step {
	r := rng.Intn(100)
	var k string
	switch {
	case r < okPct:
		k = rng.PickStr("ok", "ok", "ok", "chunked-ok", "eof-ok")
	case r < okPct+(100-okPct)*55/100:
		k = c03BadKinds[rng.Intn(len(c03BadKinds))]
	default:
		k = c03ErrKinds[rng.Intn(len(c03ErrKinds))]
	}
	if k != "ok" && k != "chunked-ok" && k != "eof-ok" && rng.Chance(1, 40) {
		k = "bigtail"
	}
	st := c03Step{K: k}
	pos := func() int { // a byte position biased to the edges
		if size <= 1 {
			return 0
		}
		switch rng.Intn(5) {
		case 0:
			return 0
		case 1:
			return size - 1
		case 2:
			return rng.Intn(c03Clamp(size, 1, 16))
		}
		return rng.Intn(size)
	}
	cut := func() int { // number of bytes to drop, 1..size
		if size <= 1 {
			return 1
		}
		switch rng.Intn(4) {
		case 0:
			return 1
		case 1:
			return size
		}
		return rng.Range(1, size)
	}
	switch k {
	case "flip", "chunked-flip":
		nb := rng.Range(1, 3)
		seen := map[int]bool{}
		for len(st.P) < nb {
			bit := pos()*8 + rng.Intn(8)
			if !seen[bit] {
				seen[bit] = true
				st.P = append(st.P, bit)
			} else if size <= 1 {
				break
			}
		}
	case "short", "chunked-short":
		k := cut()
		st.P = []int{rng.Intn(3), k, rng.Intn(c03Clamp(size-k+1, 1, 1<<30))}
	case "long", "chunked-long":
		st.P = []int{rng.Intn(4), rng.PickInt(1, 1, 2, 17, 4095, 4096, 4097, 32767, 32768, 32769, 40000, 65537), rng.Intn(1 << 20)}
	case "bigtail":
		st.P = []int{rng.PickInt(0, 0, 1, 1, 2), rng.PickInt(0, 1, 1, 2), c03BigTails[rng.Intn(len(c03BigTails))], pos()*8 + rng.Intn(8)}
	case "declong":
		switch rng.Intn(3) {
		case 0: // right length declared, body cut in flight
			st.P = []int{size, size - cut()}
		case 1: // whole block sent, more declared
			st.P = []int{size + rng.PickInt(1, 2, 1000), size}
		default:
			sent := size - cut()
			st.P = []int{sent + rng.Range(1, size+5), sent}
		}
	case "clmis":
		st.P = []int{cut()}
	case "chunked-ok":
		st.P = []int{rng.Range(1, 3)}
	case "chunked-cut":
		st.P = []int{rng.PickInt(size, size, size-1, pos())}
	case "eof-short":
		st.P = []int{cut()}
	case "status":
		st.P = []int{c03Statuses[rng.Intn(len(c03Statuses))]}
	case "reset":
		st.P = []int{rng.Intn(3), rng.PickInt(0, 1, pos())}
	}
	return st
}

// c03GenSize: under the race detector every byte of fresh memory is
// expensive on this machine (shadow page faults), so blocks are small with
// the buffer boundaries of the code paths (bufio 4 KiB, io.Copy 32 KiB)
// over-represented; the thorough tier adds a few large ones.
func c03GenSize(rng *verifkit.Rand, small, thorough bool) int {
	r := rng.Intn(100)
	switch {
	case small:
		if r < 15 {
			return rng.Range(1, 3)
		}
		if r < 88 {
			return rng.Range(4, 3000)
		}
		if r < 96 {
			return rng.PickInt(4095, 4096, 4097)
		}
		return rng.PickInt(32767, 32768, 32769)
	case r < 4:
		return 0
	case r < 14:
		return rng.Range(1, 3)
	case r < 70:
		return rng.Range(4, 3000)
	case r < 84:
		return rng.PickInt(4095, 4096, 4097)
	case r < 92:
		return rng.PickInt(32767, 32768, 32769)
	case r < 95:
		return rng.PickInt(65535, 65536, 65537)
	case r < 98 || !thorough:
		return rng.Range(3000, 40000)
	}
	return rng.Range(40000, 300000)
}

func c03GenScripts(rng *verifkit.Rand, c *c03Case, okPct int) ([][][]c03Step, [][]c03Step) {
	scripts := make([][][]c03Step, len(c.Blocks))
	tail := make([][]c03Step, len(c.Blocks))
	for b := range c.Blocks {
		size := c.Blocks[b].Size
		scripts[b] = make([][]c03Step, c.NSvc)
		tail[b] = make([]c03Step, c.NSvc)
		for s := 0; s < c.NSvc; s++ {
			l := rng.Range(0, c.Retries+2)
			for k := 0; k < l; k++ {
				scripts[b][s] = append(scripts[b][s], c03GenStep(rng, size, okPct))
			}
			tail[b][s] = c03GenStep(rng, size, okPct+20)
		}
	}
	return scripts, tail
}

func c03GenStreamReader(rng *verifkit.Rand, blk int) c03Reader {
	return c03Reader{Kind: rng.PickStr("get-read", "get-read", "get-copy", "get-writeto", "get-readall", "get-early", "get-early"), Blk: blk, RSeed: rng.Uint64()}
}

func c03GenReadAt(rng *verifkit.Rand, blk, size int) c03Reader {
	rd := c03Reader{Kind: "readat", Blk: blk}
	switch rng.Intn(10) {
	case 0:
		rd.Off, rd.Len = 0, size
	case 1:
		rd.Off, rd.Len = size, rng.Range(0, 10)
	case 2:
		rd.Off, rd.Len = size+rng.Range(1, 3), rng.Range(0, 10) // beyond the end
	case 3:
		rd.Off = rng.Range(0, size)
		rd.Len = size - rd.Off + rng.Range(0, 100) // reaches past the end
	case 4:
		rd.Off, rd.Len = c03Clamp(size-1, 0, size), 1
	default:
		rd.Off = rng.Range(0, size)
		rd.Len = rng.Range(0, size-rd.Off)
	}
	return rd
}

func c03GenFileReader(rng *verifkit.Rand, f c03FileSpec, nops int) c03Reader {
	flen := 0
	for _, s := range f.Segs {
		flen += s[1]
	}
	rd := c03Reader{Kind: "file", File: f.Name}
	for i := 0; i < nops; i++ {
		if rng.Chance(1, 3) {
			op := c03FileOp{Op: "seek", Whence: rng.Intn(3)}
			target := int64(rng.Range(0, flen))
			if rng.Chance(1, 4) {
				target = int64(rng.PickInt(0, flen, flen-1, 1))
				if target < 0 {
					target = 0
				}
			}
			op.Off = target // resolved relative to whence at run time
			rd.Ops = append(rd.Ops, op)
		} else {
			n := rng.Range(1, flen/2+10)
			if rng.Chance(1, 6) {
				n = rng.PickInt(0, 1, flen, flen+100)
			}
			rd.Ops = append(rd.Ops, c03FileOp{Op: "read", N: n})
		}
	}
	return rd
}

func c03Generate(rng *verifkit.Rand, nohintCache, thorough bool) c03Case {
	c := c03Case{NSvc: rng.Range(1, 4), Retries: rng.Range(0, 3), MaxBlocks: rng.PickInt(0, 1, 2, 4), JSONRoots: rng.Bool(), NoHintCache: nohintCache}
	r := rng.Intn(100)
	switch {
	case nohintCache && (r < 70 || !thorough):
		c.Mode = "readat"
	case nohintCache:
		c.Mode = "conc"
	case r < 35:
		c.Mode = "stream"
	case r < 58:
		c.Mode = "readat"
	case r < 78:
		c.Mode = "file"
	default:
		c.Mode = "conc"
	}
	okPct := rng.PickInt(15, 30, 30, 50, 70)
	nblk := 1
	withFiles := !nohintCache && (c.Mode == "file" || (c.Mode == "conc" && rng.Bool()))
	if withFiles {
		nblk = rng.Range(1, 3)
	}
	for b := 0; b < nblk; b++ {
		blk := c03Block{Seed: rng.Uint64(), Size: c03GenSize(rng, withFiles, thorough), Hint: true}
		if nohintCache {
			blk.Hint = false
			if blk.Size > 70000 {
				blk.Size = rng.Range(1, 5000)
			}
		} else if c.Mode == "stream" {
			blk.Hint = rng.Chance(1, 2)
		}
		c.Blocks = append(c.Blocks, blk)
	}
	if withFiles {
		total := 0
		for _, b := range c.Blocks {
			total += b.Size
		}
		nf := rng.Range(1, 2)
		for f := 0; f < nf; f++ {
			fs := c03FileSpec{Name: fmt.Sprintf("f%d", f)}
			nseg := rng.Range(1, 3)
			for s := 0; s < nseg; s++ {
				pos := rng.Intn(total)
				l := rng.Range(1, total-pos)
				if rng.Chance(1, 3) {
					pos, l = 0, total
				}
				fs.Segs = append(fs.Segs, [2]int{pos, l})
			}
			c.Files = append(c.Files, fs)
		}
	}
	nr := rng.Range(1, 3)
	if c.Mode == "conc" {
		nr = rng.Range(2, 4)
	}
	if nohintCache {
		nr = 1 // every fetch costs a 64 MiB allocation
	}
	for ri := 0; ri < nr; ri++ {
		var rd c03Round
		rd.Scripts, rd.Tail = c03GenScripts(rng, &c, okPct)
		rd.Clear = ri > 0 && rng.Chance(1, 3)
		switch c.Mode {
		case "stream":
			for k, n := 0, rng.Range(1, 2); k < n; k++ {
				rd.Readers = append(rd.Readers, c03GenStreamReader(rng, 0))
			}
			if rng.Chance(1, 6) && c.Blocks[0].Hint {
				rd.Readers = append(rd.Readers, c03GenReadAt(rng, 0, c.Blocks[0].Size))
			}
		case "readat":
			nrd := rng.Range(1, 3)
			if nohintCache {
				nrd = rng.Range(1, 2)
			}
			for k := 0; k < nrd; k++ {
				if rng.Chance(1, 6) {
					rd.Readers = append(rd.Readers, c03GenStreamReader(rng, 0))
				} else {
					rd.Readers = append(rd.Readers, c03GenReadAt(rng, 0, c.Blocks[0].Size))
				}
			}
		case "file":
			f := c.Files[rng.Intn(len(c.Files))]
			rd.Readers = append(rd.Readers, c03GenFileReader(rng, f, rng.Range(3, 10)))
			if rng.Chance(1, 4) {
				b := rng.Intn(len(c.Blocks))
				rd.Readers = append(rd.Readers, c03GenReadAt(rng, b, c.Blocks[b].Size))
			}
		case "conc":
			rd.Concurrent = true
			rd.ClearMid = rng.Chance(1, 8)
			nrd := rng.Range(2, 8)
			if nohintCache {
				nrd = rng.Range(2, 4)
			}
			for k := 0; k < nrd; k++ {
				b := rng.Intn(len(c.Blocks))
				x := rng.Intn(10)
				switch {
				case withFiles && x < 5:
					rd.Readers = append(rd.Readers, c03GenFileReader(rng, c.Files[rng.Intn(len(c.Files))], rng.Range(2, 6)))
				case x < 8:
					rd.Readers = append(rd.Readers, c03GenReadAt(rng, b, c.Blocks[b].Size))
				default:
					rd.Readers = append(rd.Readers, c03GenStreamReader(rng, b))
				}
			}
		}
		c.Rounds = append(c.Rounds, rd)
	}
	return c
}

// c03GenerateRW: one file of 1-3 segments over 1-3 small blocks, 2-3 handles
// (handle 0 always writable), 6-40 interleaved operations. Writers mostly do
// runs of small consecutive writes (so that a region is overwritten in
// several Write calls and most of the file stays backed by Keep); readers
// mostly do small sequential reads with an occasional Seek. Services
// misbehave as in the main stream, but rarely.
func c03GenerateRW(rng *verifkit.Rand, thorough bool) c03Case {
	c := c03Case{Mode: "rw", NSvc: rng.Range(1, 3), Retries: rng.Range(0, 2), MaxBlocks: rng.PickInt(0, 1, 2, 4), JSONRoots: rng.Bool()}
	nblk := rng.Range(1, 3)
	total := 0
	for b := 0; b < nblk; b++ {
		var size int
		switch r := rng.Intn(100); {
		case r < 10:
			size = rng.Range(1, 8)
		case r < 65:
			size = rng.Range(8, 200)
		case r < 95 || !thorough:
			size = rng.Range(200, 3000)
		default:
			size = rng.PickInt(4095, 4096, 4097, 32768)
		}
		total += size
		c.Blocks = append(c.Blocks, c03Block{Seed: rng.Uint64(), Size: size, Hint: true})
	}
	fs := c03FileSpec{Name: "f0"}
	flen := 0
	for s, nseg := 0, rng.Range(1, 3); s < nseg; s++ {
		pos := rng.Intn(total)
		l := rng.Range(1, total-pos)
		if rng.Chance(1, 3) {
			pos, l = 0, total
		}
		fs.Segs = append(fs.Segs, [2]int{pos, l})
		flen += l
	}
	c.Files = []c03FileSpec{fs}
	var rd c03Round
	rd.Scripts, rd.Tail = c03GenScripts(rng, &c, rng.PickInt(60, 80, 100, 100))

	spec := &c03RWSpec{}
	nh := rng.Range(2, 3)
	for h := 0; h < nh; h++ {
		spec.Writable = append(spec.Writable, h == 0 || rng.Chance(1, 3))
	}
	target := func() int64 {
		if rng.Chance(1, 5) {
			return int64(rng.PickInt(0, flen, flen-1, 1, -1))
		}
		return int64(rng.Range(0, flen))
	}
	// most handles start somewhere inside the file
	for h := 0; h < nh; h++ {
		if rng.Chance(3, 4) {
			spec.Ops = append(spec.Ops, c03RWOp{H: h, Op: "seek", Off: int64(rng.Range(0, flen)), Whence: io.SeekStart})
		}
	}
	for i, nops := 0, rng.Range(6, 40); i < nops; i++ {
		h := rng.Intn(nh)
		r := rng.Intn(100)
		wr, sk := 0, 15 // percentages of write and seek; the rest is read
		if spec.Writable[h] {
			wr, sk = 60, 12
		}
		switch {
		case r < wr:
			n := rng.PickInt(1, 1, 2, 3, rng.Range(1, 16), rng.Range(1, flen/8+1), rng.Range(1, flen/2+1))
			spec.Ops = append(spec.Ops, c03RWOp{H: h, Op: "write", N: n, WSeed: rng.Uint64()})
		case r < wr+sk:
			spec.Ops = append(spec.Ops, c03RWOp{H: h, Op: "seek", Off: target(), Whence: rng.Intn(3)})
		default:
			n := rng.PickInt(1, 2, 4, rng.Range(1, 64), rng.Range(1, 64), rng.Range(1, flen/2+10), flen+100, 0)
			spec.Ops = append(spec.Ops, c03RWOp{H: h, Op: "read", N: n})
		}
	}
	rd.Readers = []c03Reader{{Kind: "rw", File: "f0", RW: spec}}
	c.Rounds = []c03Round{rd}
	return c
}

// ------------------------------------------------------------------ execution

// c03Res is what one reader operation observably did.
type c03Res struct {
	reader  string
	blk     int    // block the bytes belong to (-1: none delivered / unknown)
	off     int    // offset in the reference (block or file) of the first delivered byte
	got     []byte // bytes delivered
	ref     []byte // reference the bytes are compared with (block or file content)
	success bool   // the read reported success
	atEnd   bool   // success was signalled by io.EOF / end of stream: got must reach len(ref)
	partial bool   // stream closed before its end: bad-response ⇒ error is not demanded
	err     error
	detail  string
	served  []c03Served // serial mode: what the services answered during this operation
}

// c03Tally are the harness's own totals, used for the "observed nothing"
// guards at the end of a batch.
type c03Tally struct {
	cases, bad200, errs, succ, hits, healed, conc int
	rwCases, rwStale                              int
}

type c03Env struct {
	run    *verifkit.Run
	tally  *c03Tally
	pool   *c03Pool
	c      *c03Case
	kc     *KeepClient
	data   [][]byte
	hashes []string
	locs   []string
	files  map[string][]byte // reference content of every file
	fblk   map[string][]uint8
	coll   map[string]interface{}
	rwSeen map[string]bool // rw mode: reader situations in which Keep-backed bytes were delivered
}

func c03NewKC(pool *c03Pool, c *c03Case, svcMap []int) (*KeepClient, error) {
	arv := &arvadosclient.ArvadosClient{Scheme: "http", ApiServer: "verif.invalid", ApiToken: "c03token", ApiInsecure: true}
	kc := &KeepClient{Arvados: arv, Want_replicas: 1, Retries: c.Retries, BlockCache: &BlockCache{MaxBlocks: c.MaxBlocks}, HTTPClient: pool.client}
	if c.JSONRoots {
		var items []string
		for j, s := range svcMap {
			u, _ := url.Parse(pool.srv[s].URL)
			host, port, _ := net.SplitHostPort(u.Host)
			items = append(items, fmt.Sprintf(`{"uuid":"zzzzz-bi6l4-%015d","service_host":%q,"service_port":%s,"service_ssl_flag":false,"service_type":"disk","read_only":false}`, j, host, port))
		}
		if err := kc.LoadKeepServicesFromJSON(`{"items":[` + strings.Join(items, ",") + `]}`); err != nil {
			return nil, err
		}
	} else {
		roots := map[string]string{}
		for j, s := range svcMap {
			roots[fmt.Sprintf("zzzzz-bi6l4-%015d", j)] = pool.srv[s].URL
		}
		kc.SetServiceRoots(roots, roots, nil)
	}
	return kc, nil
}

// c03CapBuf keeps what a stream delivers up to a little more than the block
// size and only counts the rest: an answer may be over-long by megabytes.
type c03CapBuf struct {
	b     []byte
	keep  int
	total int64
}

func (c *c03CapBuf) Write(p []byte) (int, error) {
	c.total += int64(len(p))
	if room := c.keep - len(c.b); room > 0 {
		if room > len(p) {
			room = len(p)
		}
		c.b = append(c.b, p[:room]...)
	}
	return len(p), nil
}

func (c *c03CapBuf) result(res *c03Res, err error) {
	res.got, res.err, res.success, res.atEnd = c.b, err, err == nil, true
	if c.total > int64(len(c.b)) {
		res.detail = fmt.Sprintf("delivered %d bytes, the block has %d", c.total, len(res.ref))
	}
}

func (e *c03Env) doStream(rd c03Reader) (res c03Res) {
	res = c03Res{reader: rd.Kind, blk: rd.Blk, ref: e.data[rd.Blk]}
	size := len(res.ref)
	rng := verifkit.NewRand(rd.RSeed)
	rdr, _, _, err := e.kc.Get(e.locs[rd.Blk])
	if err != nil {
		res.err = err
		return
	}
	if rdr == nil {
		res.err = fmt.Errorf("harness: Get returned nil reader and nil error")
		res.detail = "nil-reader"
		return
	}
	switch rd.Kind {
	case "get-copy":
		buf := &c03CapBuf{keep: size + 65536}
		_, err := io.Copy(buf, rdr)
		buf.result(&res, err)
		rdr.Close()
	case "get-writeto":
		wt, ok := rdr.(io.WriterTo)
		if !ok {
			rdr.Close()
			res.err = fmt.Errorf("harness: reader has no WriteTo")
			return
		}
		buf := &c03CapBuf{keep: size + 65536}
		_, err := wt.WriteTo(buf)
		buf.result(&res, err)
		rdr.Close()
	case "get-readall":
		// what ioutil.ReadAll does (Read until EOF), without keeping megabytes
		buf := &c03CapBuf{keep: size + 65536}
		_, err := io.Copy(buf, struct{ io.Reader }{rdr})
		buf.result(&res, err)
		rdr.Close()
	default: // get-read, get-early
		limit := -1
		if rd.Kind == "get-early" && rd.Limit != nil {
			limit = c03Clamp(*rd.Limit, 0, size)
		} else if rd.Kind == "get-early" {
			switch rng.Intn(4) {
			case 0:
				limit = size // everything, but EOF never seen: the BlockCache pattern
			case 1:
				limit = rng.Range(0, c03Clamp(size, 0, 40))
			default:
				limit = rng.Range(0, size)
			}
		}
		maxChunk := rng.PickInt(1, 7, 512, 4096, 32768, size+1, 2*size+100)
		if maxChunk < size/400 {
			maxChunk = size / 400 // bound the number of Read calls
		}
		buf := make([]byte, maxChunk)
		res.got = make([]byte, 0, size+16)
		idle := 0
		over := int64(0)
		for {
			if limit >= 0 && len(res.got) >= limit {
				break
			}
			n := rng.Range(1, maxChunk)
			if rng.Chance(1, 20) {
				n = 0
			}
			if limit >= 0 && n > limit-len(res.got) {
				n = limit - len(res.got)
			}
			p := buf[:n]
			m, err := rdr.Read(p)
			if room := size + 65536 - len(res.got); room >= m {
				res.got = append(res.got, p[:m]...)
			} else {
				res.got = append(res.got, p[:room]...)
				over += int64(m - room)
			}
			if err == io.EOF {
				res.success, res.atEnd = true, true
				break
			}
			if err != nil {
				res.err = err
				break
			}
			if m == 0 {
				idle++
				if idle > 10000 {
					res.err = fmt.Errorf("harness: no progress")
					res.detail = "no-progress"
					break
				}
			}
		}
		if over > 0 {
			res.detail = fmt.Sprintf("delivered %d bytes, the block has %d", int64(len(res.got))+over, size)
		}
		cerr := rdr.Close()
		if res.err == nil && !res.atEnd {
			// closed early: the stream "ends" with Close
			res.partial = true
			res.err, res.success = cerr, cerr == nil
		}
	}
	return
}

func (e *c03Env) doReadAt(rd c03Reader) (res c03Res) {
	res = c03Res{reader: "readat", blk: rd.Blk, ref: e.data[rd.Blk], off: rd.Off}
	p := make([]byte, rd.Len)
	n, err := e.kc.ReadAt(e.locs[rd.Blk], p, rd.Off)
	res.err, res.success = err, err == nil
	if err == io.EOF {
		// "EOF at the block's true end" is the only EOF that is a success
		res.success, res.atEnd = true, true
	}
	if n < 0 || n > len(p) {
		res.detail = fmt.Sprintf("n=%d out of range for len(p)=%d", n, len(p))
		if res.success {
			res.got = []byte("?")
		}
		return
	}
	res.got = p[:n]
	return
}

// doFile runs one file reader; every Read/Seek yields its own result.
func (e *c03Env) doFile(rd c03Reader, each func(c03Res) bool) {
	ref := e.files[rd.File]
	f, err := e.kc.CollectionFileReader(e.coll, rd.File)
	if err != nil {
		each(c03Res{reader: "file", blk: -1, err: err, detail: "open-failed"})
		return
	}
	defer f.Close()
	pos := int64(0)
	for _, op := range rd.Ops {
		if op.Op == "seek" {
			// op.Off is the absolute target; express it relative to whence
			var off int64
			switch op.Whence {
			case io.SeekStart:
				off = op.Off
			case io.SeekCurrent:
				off = op.Off - pos
			case io.SeekEnd:
				off = op.Off - int64(len(ref))
			}
			np, err := f.Seek(off, op.Whence)
			if err != nil || np != op.Off {
				each(c03Res{reader: "file-seek", blk: -1, err: err, detail: fmt.Sprintf("seek(%d,%d) from %d returned (%d,%v), want %d", off, op.Whence, pos, np, err, op.Off)})
				return
			}
			pos = np
			continue
		}
		p := make([]byte, op.N)
		n, err := f.Read(p)
		res := c03Res{reader: "file", blk: -1, ref: ref, off: int(pos), err: err}
		if n < 0 || n > len(p) {
			res.detail = fmt.Sprintf("n=%d out of range for len(p)=%d", n, len(p))
			res.success, res.got = true, []byte("?")
			each(res)
			return
		}
		res.got = p[:n]
		if n > 0 && int(pos) < len(ref) {
			res.blk = int(e.fblk[rd.File][pos])
		}
		switch err {
		case nil:
			res.success = true
		case io.EOF:
			res.success, res.atEnd = true, true
		}
		cont := each(res)
		if !cont {
			return
		}
		if res.success {
			pos += int64(n)
		} else {
			// position after a failed read is unspecified: re-seek
			np, err := f.Seek(pos, io.SeekStart)
			if err != nil || np != pos {
				return
			}
		}
	}
}

// doRW runs the interleaved operations of several handles opened on one
// file of ONE collection filesystem. The model is a byte array plus, per
// byte, whether it is still the content of a Keep block (positions written
// through the filesystem are not). Every Read yields a result whose
// reference equals the model at the Keep-backed positions and what was
// delivered elsewhere, so that the verdict is about Keep-backed bytes only.
func (e *c03Env) doRW(rd c03Reader, each func(c03Res) bool) {
	spec := rd.RW
	run := e.run
	cfs, err := (&arvados.Collection{ManifestText: e.c.Manifest}).FileSystem(nil, e.kc)
	if err != nil {
		each(c03Res{reader: "file", blk: -1, err: err, detail: "open-failed"})
		return
	}
	content := append([]byte(nil), e.files[rd.File]...)
	fblk := append([]uint8(nil), e.fblk[rd.File]...)
	keep := make([]bool, len(content))
	for i := range keep {
		keep[i] = true
	}
	nh := len(spec.Writable)
	fh := make([]arvados.File, nh)
	for h := range fh {
		flag := os.O_RDONLY
		if spec.Writable[h] {
			flag = os.O_RDWR
		}
		f, err := cfs.OpenFile(rd.File, flag, 0)
		if err != nil {
			each(c03Res{reader: "file", blk: -1, err: err, detail: "open-failed"})
			return
		}
		defer f.Close()
		fh[h] = f
	}
	pos := make([]int64, nh)
	ownWrote := make([]bool, nh)
	otherWrote := make([]bool, nh)     // another handle wrote to the file at some point
	otherSinceMove := make([]bool, nh) // ... since this handle was last positioned explicitly (open / Seek that moved it)
	readSinceMove := make([]bool, nh)  // this handle has read or written since it was last positioned explicitly
	wroteAny := false
	e.tally.rwCases++
	run.Count("rw_cases", 1)

	// readKeep reads through handle f at model position p and judges
	judgeRead := func(reader string, p int64, got []byte, err error) bool {
		res := c03Res{reader: reader, blk: -1, off: int(p), err: err, got: got}
		switch err {
		case nil:
			res.success = true
		case io.EOF:
			res.success, res.atEnd = true, true
		}
		ref := content
		nkeep, nmem, memdiff := 0, 0, 0
		end := int(p) + len(got)
		if end > len(content) {
			end = len(content)
		}
		for i := int(p); i < end; i++ {
			if keep[i] {
				if nkeep == 0 {
					res.blk = int(fblk[i])
				}
				nkeep++
				continue
			}
			if nmem == 0 {
				ref = append([]byte(nil), content...)
			}
			nmem++
			if ref[i] != got[i-int(p)] {
				memdiff++
				ref[i] = got[i-int(p)] // not C03's business
			}
		}
		res.ref = ref
		if res.atEnd && int(p)+len(got) < len(content) {
			rest := false
			for i := int(p) + len(got); i < len(content) && !rest; i++ {
				rest = keep[i]
			}
			if !rest {
				// early end of data in front of written bytes only: not C03's business
				res.atEnd = false
				run.Count("rw_eof_before_written_bytes_only", 1)
			}
		}
		if res.success {
			run.Count("rw_keep_bytes_delivered", nkeep)
			run.Count("rw_written_bytes_delivered", nmem)
			if memdiff > 0 {
				run.Count("rw_written_bytes_differ_from_model(not judged)", memdiff)
			}
			if nkeep > 0 {
				e.rwSeen[reader] = true
			}
		}
		return each(res)
	}

	for _, op := range spec.Ops {
		h := op.H
		f := fh[h]
		switch op.Op {
		case "seek":
			target := op.Off
			if target < 0 || target > int64(len(content)) {
				target = int64(len(content))
			}
			var off int64
			switch op.Whence {
			case io.SeekStart:
				off = target
			case io.SeekCurrent:
				off = target - pos[h]
			case io.SeekEnd:
				off = target - int64(len(content))
			}
			np, err := f.Seek(off, op.Whence)
			if err != nil || np != target {
				each(c03Res{reader: "file-seek", blk: -1, err: err, detail: fmt.Sprintf("rw: handle %d seek(%d,%d) from %d returned (%d,%v), want %d (model size %d)", h, off, op.Whence, pos[h], np, err, target, len(content))})
				return
			}
			if np != pos[h] {
				otherSinceMove[h], readSinceMove[h] = false, false
			}
			pos[h] = np
			run.Count("rw_seeks", 1)
		case "write":
			data := verifkit.NewRand(op.WSeed).Bytes(op.N)
			n, err := f.Write(data)
			if err != nil || n != len(data) {
				run.Inconclusive(fmt.Sprintf("C03 rw: Write of %d bytes at %d through a writable handle returned (%d, %v)", len(data), pos[h], n, err))
				return
			}
			p := int(pos[h])
			for len(content) < p+n {
				content = append(content, 0)
				keep = append(keep, false)
				fblk = append(fblk, 0)
			}
			copy(content[p:], data)
			for i := p; i < p+n; i++ {
				keep[i] = false
			}
			pos[h] += int64(n)
			ownWrote[h], readSinceMove[h], wroteAny = true, true, true
			for o := range otherWrote {
				if o != h {
					otherWrote[o], otherSinceMove[o] = true, true
				}
			}
			run.Count("rw_writes", 1)
		default: // read
			reader := "file"
			switch {
			case otherSinceMove[h] && readSinceMove[h]:
				// the handle goes on reading where it was while
				// somebody else has changed the file in between
				reader = "file+other-handle-wrote-since-positioned"
				e.tally.rwStale++
				run.Count("rw_reads_continuing_after_other_handle_wrote", 1)
			case otherWrote[h]:
				reader = "file+other-handle-wrote"
			case ownWrote[h]:
				reader = "file+own-write"
			}
			buf := make([]byte, op.N)
			n, err := f.Read(buf)
			if n < 0 || n > len(buf) {
				each(c03Res{reader: reader, blk: -1, off: int(pos[h]), ref: content, err: err, success: true, got: []byte("?"),
					detail: fmt.Sprintf("n=%d out of range for len(p)=%d", n, len(buf))})
				return
			}
			if !judgeRead(reader, pos[h], buf[:n], err) {
				return
			}
			if err == nil || err == io.EOF {
				pos[h] += int64(n)
				readSinceMove[h] = true
			} else {
				// position after a failed read is unspecified: re-seek
				np, err := f.Seek(pos[h], io.SeekStart)
				if err != nil || np != pos[h] {
					return
				}
			}
		}
	}
	// a fresh handle on the same filesystem reads the whole file
	f, err := cfs.OpenFile(rd.File, os.O_RDONLY, 0)
	if err != nil {
		each(c03Res{reader: "file", blk: -1, err: err, detail: "open-failed"})
		return
	}
	defer f.Close()
	reader := "file"
	if wroteAny {
		reader = "file+other-handle-wrote"
	}
	p := int64(0)
	buf := make([]byte, len(content)+16)
	for k := 0; k < 1000; k++ {
		n, err := f.Read(buf)
		if n < 0 || n > len(buf) || !judgeRead(reader, p, buf[:n], err) {
			return
		}
		if err != nil {
			// EOF, or an error: scripted misbehaviour may make this read fail
			return
		}
		p += int64(n)
	}
}

func c03ErrClass(err error) string {
	if err == nil {
		return "nil"
	}
	s := err.Error()
	switch {
	case err == BadChecksum:
		return "BadChecksum"
	case err == io.ErrUnexpectedEOF || strings.Contains(s, "unexpected EOF"):
		return "UnexpectedEOF"
	case err == BlockNotFound:
		return "BlockNotFound"
	case strings.Contains(s, "no size hint, no Content-Length"):
		return "NoLength"
	case strings.Contains(s, "size hint"):
		return "SizeHintMismatch"
	case strings.Contains(s, "failed: ["):
		return "AllFailed"
	case strings.Contains(s, "reset by peer"), strings.Contains(s, "EOF"):
		return "ConnError"
	}
	return "other"
}

// c03SigReader / c03SigClass coarsen reader kind and response class to what
// can be necessary for a root cause: which checking path delivered the bytes,
// and in which way the response was wrong. The exact kinds go in the detail.
func c03SigReader(r string) string {
	switch r {
	case "get-read", "get-readall":
		return "stream-read"
	case "get-copy", "get-writeto":
		return "stream-writeto"
	case "get-early":
		return "stream-closed-early"
	}
	return r
}

func c03SigClass(c string) string {
	switch c {
	case "flip", "chunked-flip":
		return "same-length-wrong-content"
	case "short", "long", "clmis", "chunked-short", "chunked-long", "eof-short":
		return "wrong-length-complete-framing"
	case "bigtail":
		return "block-sized-head-then-big-tail"
	case "declong", "declhuge", "chunked-cut":
		return "cut-before-declared-end"
	case "ok", "chunked-ok", "eof-ok":
		return "good-response"
	case "reset0", "reset1", "reset2":
		return "reset"
	}
	return c
}

// judge applies R1/R2 to one result. class is the class of the 200 response
// consumed by the operation ("" if none / not attributable).
func (e *c03Env) judge(res c03Res, class string, bad200 bool) {
	run := e.run
	run.Eval(1)
	run.Count("read_"+res.reader, 1)
	if strings.HasPrefix(res.reader, "file-seek") {
		// Seek results are outside C03; without a position nothing can be judged
		run.Inconclusive("C03: File.Seek did not land where the model expects: " + res.detail)
		return
	}
	if class == "" {
		class = "unattributed"
	}
	if !res.success {
		run.Count("outcome_error", 1)
		run.Count("err_"+c03ErrClass(res.err), 1)
		e.tally.errs++
		return
	}
	run.Count("outcome_success", 1)
	e.tally.succ++
	if res.partial {
		run.Count("outcome_success_closed_early", 1)
	}
	// R1
	wrong := ""
	switch {
	case res.detail != "":
		wrong = res.detail
	case res.off > len(res.ref) && len(res.got) > 0:
		wrong = fmt.Sprintf("delivered %d bytes at offset %d beyond the end (%d)", len(res.got), res.off, len(res.ref))
	case res.off <= len(res.ref) && res.off+len(res.got) > len(res.ref):
		wrong = fmt.Sprintf("delivered %d bytes at offset %d, only %d exist", len(res.got), res.off, len(res.ref)-res.off)
	case res.off <= len(res.ref) && !bytes.Equal(res.got, res.ref[res.off:res.off+len(res.got)]):
		d := 0
		for d < len(res.got) && res.got[d] == res.ref[res.off+d] {
			d++
		}
		wrong = fmt.Sprintf("delivered %d bytes at offset %d that differ from the block/file content at byte %d", len(res.got), res.off, res.off+d)
	case res.atEnd && res.off <= len(res.ref) && res.off+len(res.got) != len(res.ref):
		wrong = fmt.Sprintf("end of data signalled after %d of %d bytes", res.off+len(res.got), len(res.ref))
		if strings.HasPrefix(res.reader, "file") {
			run.Violation("C03:R1:"+res.reader+":eof-before-true-end:"+c03SigClass(class), fmt.Sprintf("File.Read: %s (err=%v); response consumed: %s", wrong, res.err, class), e.c)
			return
		}
	}
	if wrong != "" {
		run.Violation("C03:R1:"+c03SigReader(res.reader)+":success-with-wrong-bytes:"+c03SigClass(class),
			fmt.Sprintf("%s reported success (err=%v, closed early=%v) but %s; response consumed: %s", res.reader, res.err, res.partial, wrong, class), e.c)
		return
	}
	// R2
	if bad200 {
		if res.partial {
			run.Count("closed_early_nil_on_bad_response", 1)
			return
		}
		run.Violation("C03:R2:"+c03SigReader(res.reader)+":bad-response-read-succeeded:"+c03SigClass(class),
			fmt.Sprintf("%s reported success (err=%v, %d bytes at %d) although the 200 response it consumed was bad (%s)", res.reader, res.err, len(res.got), res.off, class), e.c)
	}
}

// inspectCache is the direct form of R3: an entry that would be served
// (fetched, no error) must equal the block. Returns per block whether a
// good entry is present.
func (e *c03Env) inspectCache(lastClass []string) []bool {
	c := e.kc.BlockCache
	have := make([]bool, len(e.hashes))
	type badEnt struct {
		blk  int
		n    int
		diff int
	}
	var bad []badEnt
	c.mtx.Lock()
	for b, h := range e.hashes {
		ent, ok := c.cache[h]
		if !ok {
			continue
		}
		select {
		case <-ent.fetched:
		default:
			continue
		}
		if ent.err != nil {
			continue
		}
		if bytes.Equal(ent.data, e.data[b]) {
			have[b] = true
			continue
		}
		d := 0
		for d < len(ent.data) && d < len(e.data[b]) && ent.data[d] == e.data[b][d] {
			d++
		}
		bad = append(bad, badEnt{b, len(ent.data), d})
	}
	c.mtx.Unlock()
	e.run.Eval(1)
	e.run.Count("cache_inspections", 1)
	for _, x := range bad {
		cl := "unattributed"
		if lastClass != nil && lastClass[x.blk] != "" {
			cl = lastClass[x.blk]
		}
		e.run.Violation("C03:R3:cache-entry-differs-from-block:"+c03SigClass(cl),
			fmt.Sprintf("BlockCache holds an error-free entry for block %d of %d bytes (true size %d), first difference at byte %d; last 200 response for it: %s", x.blk, x.n, len(e.data[x.blk]), x.diff, cl), e.c)
	}
	return have
}

// attribute looks at what was served during a serial operation.
func c03Attribute(served [][]c03Served) (class string, bad200 bool, n200 int, any bool) {
	for _, l := range served {
		for _, s := range l {
			any = true
			if s.is200 {
				n200++
				class = s.class
				if !s.good {
					bad200 = true
				}
			}
		}
	}
	return
}

func c03Execute(run *verifkit.Run, pool *c03Pool, c *c03Case, tally *c03Tally) {
	tally.cases++
	e := &c03Env{run: run, tally: tally, pool: pool, c: c, files: map[string][]byte{}, fblk: map[string][]uint8{}, rwSeen: map[string]bool{}}
	// blocks
	var stream []byte
	var sblk []uint8
	var mtoks []string
	for b, bs := range c.Blocks {
		d := c03BlockData(bs)
		h := verifkit.MD5Hex(d)
		e.data = append(e.data, d)
		e.hashes = append(e.hashes, h)
		loc := h
		if bs.Hint {
			loc = fmt.Sprintf("%s+%d", h, bs.Size)
		}
		if verifkit.NewRand(bs.Seed^0x5151).Chance(1, 3) {
			if !bs.Hint {
				loc += "+Afakesignature@ffffffff" // not a size: first hint is not numeric
			} else {
				loc += "+A0123456789abcdef0123456789abcdef01234567@ffffffff"
			}
		}
		e.locs = append(e.locs, loc)
		if len(c.Files) > 0 {
			stream = append(stream, d...)
			sblk = append(sblk, bytes.Repeat([]byte{uint8(b)}, len(d))...)
		}
		mtoks = append(mtoks, fmt.Sprintf("%s+%d", h, bs.Size))
	}
	if len(c.Files) > 0 {
		m := ". " + strings.Join(mtoks, " ")
		for _, f := range c.Files {
			for _, s := range f.Segs {
				m += fmt.Sprintf(" %d:%d:%s", s[0], s[1], f.Name)
				e.files[f.Name] = append(e.files[f.Name], stream[s[0]:s[0]+s[1]]...)
				e.fblk[f.Name] = append(e.fblk[f.Name], sblk[s[0]:s[0]+s[1]]...)
			}
		}
		c.Manifest = m + "\n"
		e.coll = map[string]interface{}{"manifest_text": c.Manifest}
	}
	// services used by this case: a subset of the pool
	svcMap := verifkit.NewRand(c.Blocks[0].Seed ^ 0xabcdef).Perm(len(pool.srv))[:c.NSvc]
	kc, err := c03NewKC(pool, c, svcMap)
	if err != nil {
		run.Inconclusive("C03: cannot build KeepClient: " + err.Error())
		return
	}
	e.kc = kc
	defer pool.forget(e.hashes)
	defer kc.BlockCache.Clear()

	classesSeen := map[string]bool{}
	outcomes := map[string]bool{}
	anyBadServed := false
	lastClass := make([]string, len(e.hashes))
	note := func(served [][]c03Served) {
		for b, l := range served {
			for _, s := range l {
				run.Count("served_"+s.class, 1)
				classesSeen[s.class] = true
				if s.is200 {
					lastClass[b] = s.class
					if s.good {
						run.Count("good200_served", 1)
					} else {
						run.Count("bad200_served", 1)
						e.tally.bad200++
					}
				}
				if !s.good {
					anyBadServed = true
				}
			}
		}
	}

	for ri := range c.Rounds {
		rd := &c.Rounds[ri]
		pool.install(e.hashes, e.data, rd.Scripts, rd.Tail, svcMap, ri > 0)
		if rd.Clear {
			kc.ClearBlockCache()
			run.Count("cache_clears", 1)
		}
		if !rd.Concurrent {
			// serial readers: what the services answered during one
			// operation is attributable to that operation
			m := pool.mark(e.hashes)
			after := func(res c03Res) bool {
				served := pool.since(e.hashes, m)
				note(served)
				class, bad200, n200, any := c03Attribute(served)
				if n200 > 1 {
					// cannot happen if one operation does one fetch; do not guess
					run.Count("multi200_in_one_op", 1)
					run.Note(fmt.Sprintf("more than one 200 response within one serial %s operation", res.reader))
					class, bad200 = "", false
				}
				if res.success && !any && (res.reader == "readat" || strings.HasPrefix(res.reader, "file")) && res.blk >= 0 && len(res.got) > 0 {
					run.Count("cache_hits", 1)
					e.tally.hits++
				}
				if res.success {
					outcomes["ok"] = true
				} else {
					outcomes["err"] = true
				}
				e.judge(res, class, bad200)
				e.inspectCache(lastClass)
				m = pool.mark(e.hashes)
				return true
			}
			for _, r := range rd.Readers {
				switch r.Kind {
				case "readat":
					after(e.doReadAt(r))
				case "file":
					e.doFile(r, after)
				case "rw":
					e.doRW(r, after)
				default:
					after(e.doStream(r))
				}
			}
			continue
		}
		// ---- concurrent round
		haveGood := e.inspectCache(lastClass)
		m := pool.mark(e.hashes)
		results := make([][]c03Res, len(rd.Readers))
		var wg sync.WaitGroup
		start := make(chan struct{})
		for i := range rd.Readers {
			wg.Add(1)
			go func(i int) {
				defer wg.Done()
				r := rd.Readers[i]
				<-start
				switch r.Kind {
				case "readat":
					results[i] = append(results[i], e.doReadAt(r))
				case "file":
					e.doFile(r, func(res c03Res) bool { results[i] = append(results[i], res); return true })
				default:
					results[i] = append(results[i], e.doStream(r))
				}
			}(i)
		}
		if rd.ClearMid {
			wg.Add(1)
			go func() {
				defer wg.Done()
				<-start
				kc.ClearBlockCache()
			}()
		}
		close(start)
		wg.Wait()
		run.Count("concurrent_rounds", 1)
		e.tally.conc++
		run.CountMax("max_concurrent_readers", len(rd.Readers))
		served := pool.since(e.hashes, m)
		note(served)
		good200 := make([]int, len(e.hashes))
		n200 := make([]int, len(e.hashes))
		for b, l := range served {
			for _, s := range l {
				if s.is200 {
					n200[b]++
					if s.good {
						good200[b]++
					}
				}
			}
		}
		succ := make([]int, len(e.hashes))
		for _, rl := range results {
			for _, res := range rl {
				// round-level R2: success although nothing good was available
				bad := false
				if res.success && res.blk >= 0 && len(res.ref) > 0 && (len(res.got) > 0 || res.reader != "file") &&
					!haveGood[res.blk] && good200[res.blk] == 0 && n200[res.blk] > 0 {
					bad = true
				}
				if res.success && res.blk >= 0 {
					succ[res.blk]++
				}
				if res.success {
					outcomes["ok"] = true
				} else {
					outcomes["err"] = true
				}
				e.judge(res, "concurrent", bad)
			}
		}
		for b := range e.hashes {
			if succ[b] > good200[b] && len(e.data[b]) > 0 {
				run.Count("cache_hits", succ[b]-good200[b])
				e.tally.hits += succ[b] - good200[b]
			}
		}
		e.inspectCache(lastClass)
	}

	// ---- R3: every service behaves; reads must now succeed with the block
	pool.tr.CloseIdleConnections()
	pool.install(e.hashes, e.data, nil, nil, svcMap, true)
	healMark := pool.mark(e.hashes)
	for b := range e.hashes {
		for _, r := range []c03Reader{
			{Kind: "readat", Blk: b, Off: 0, Len: len(e.data[b])},
			{Kind: "get-readall", Blk: b},
		} {
			if r.Kind == "readat" && !c.Blocks[b].Hint && !c.NoHintCache {
				continue
			}
			var res c03Res
			if r.Kind == "readat" {
				res = e.doReadAt(r)
			} else {
				res = e.doStream(r)
			}
			run.Eval(1)
			run.Count("healed_reads", 1)
			e.tally.healed++
			if !res.success {
				run.Violation("C03:R3:healed-read-failed:"+c03SigReader(r.Kind),
					fmt.Sprintf("with every service answering correctly, %s of block %d failed: %v (last 200 response before: %q)", r.Kind, b, res.err, lastClass[b]), c)
			} else if !bytes.Equal(res.got, e.data[b]) {
				run.Violation("C03:R3:healed-read-wrong-bytes:"+c03SigReader(r.Kind),
					fmt.Sprintf("with every service answering correctly, %s of block %d delivered %d bytes ≠ block (%d bytes); last 200 response before: %q", r.Kind, b, len(res.got), len(e.data[b]), lastClass[b]), c)
			}
		}
	}
	for _, f := range c.Files {
		fh, err := kc.CollectionFileReader(e.coll, f.Name)
		var got []byte
		if err == nil {
			got, err = ioutil.ReadAll(fh)
			fh.Close()
		}
		run.Eval(1)
		run.Count("healed_reads", 1)
		if err != nil {
			run.Violation("C03:R3:healed-read-failed:file", fmt.Sprintf("with every service answering correctly, reading file %s failed: %v", f.Name, err), c)
		} else if !bytes.Equal(got, e.files[f.Name]) {
			run.Violation("C03:R3:healed-read-wrong-bytes:file", fmt.Sprintf("with every service answering correctly, file %s read as %d bytes ≠ content (%d bytes)", f.Name, len(got), len(e.files[f.Name])), c)
		}
	}
	e.inspectCache(lastClass)
	for _, l := range pool.since(e.hashes, healMark) {
		run.Count("served_during_heal", len(l))
	}

	// ---- feature tuple
	if c.Mode == "rw" {
		// non-trivial: Keep-backed bytes were delivered through a handle
		// after another handle had written to the file
		var seen []string
		for k := range e.rwSeen {
			seen = append(seen, strings.TrimPrefix(k, "file"))
		}
		sort.Strings(seen)
		if !e.rwSeen["file+other-handle-wrote-since-positioned"] && !e.rwSeen["file+other-handle-wrote"] {
			run.Trivial()
			return
		}
		var oc []string
		for k := range outcomes {
			oc = append(oc, k)
		}
		sort.Strings(oc)
		bad := "all-good"
		if anyBadServed {
			bad = "misbehaving-service"
		}
		run.Feature(fmt.Sprintf("rw|%dh|%dseg|%s|%s|%s", len(c.Rounds[0].Readers[0].RW.Writable), len(c.Files[0].Segs), strings.Join(seen, ","), bad, strings.Join(oc, ",")))
		return
	}
	if !anyBadServed {
		run.Trivial()
		return
	}
	var cl []string
	for k := range classesSeen {
		cl = append(cl, k)
	}
	sort.Strings(cl)
	var oc []string
	for k := range outcomes {
		oc = append(oc, k)
	}
	sort.Strings(oc)
	hint := "hint"
	if !c.Blocks[0].Hint {
		hint = "nohint"
	}
	run.Feature(fmt.Sprintf("%s|%s|%s|%s", c.Mode, hint, strings.Join(cl, ","), strings.Join(oc, ",")))
}

// ------------------------------------------------------------------ drain grid

// The readers that stop at the block size (BlockCache.Get: ReadFull then
// Close; a stream consumer doing the same; a consumer that gives up after a
// few bytes) leave the verdict on the response to Close, which has to get
// through whatever is still unread. Stream "drain" enumerates completely:
// unread remainder (c03DrainTails) × head of the answer (intact | bit flipped
// in its first byte) × framing without length (chunked | until close) ×
// reader (cached ReadAt | File.Read | Get+ReadFull(size)+Close |
// Get+read 16 bytes+Close | Get read to the end).
var c03DrainReaders = []string{"readat", "file", "stop-at-size", "stop-early", "to-the-end"}

func c03DrainTails(thorough bool) []int {
	t := append([]int(nil), c03BigTails...)
	t = append(t, 1, 4096, 65536, 1<<20+65536)
	if thorough {
		t = append(t, 4<<20+1, 8<<20, 16<<20)
	}
	return t
}

func c03DrainCount(thorough bool) int {
	return len(c03DrainTails(thorough)) * 2 * 2 * len(c03DrainReaders)
}

func c03DrainCase(i int, thorough bool) c03Case {
	tails := c03DrainTails(thorough)
	reader := c03DrainReaders[i%len(c03DrainReaders)]
	i /= len(c03DrainReaders)
	framing := i % 2
	i /= 2
	head := i % 2
	i /= 2
	tail := tails[i%len(tails)]
	size := []int{19000, 1000, 4097, 40000}[(i+framing+2*head)%4]
	c := c03Case{Mode: "drain", NSvc: 1, Retries: 0, MaxBlocks: 1,
		Blocks: []c03Block{{Seed: 0xd4a1 + uint64(i)*7919 + uint64(framing)*3 + uint64(head), Size: size, Hint: true}},
		Files:  []c03FileSpec{{Name: "f0", Segs: [][2]int{{0, size}}}}}
	var rd c03Reader
	sixteen, all := 16, size
	switch reader {
	case "readat":
		rd = c03Reader{Kind: "readat", Off: 0, Len: size}
	case "file":
		rd = c03Reader{Kind: "file", File: "f0", Ops: []c03FileOp{{Op: "read", N: size}}}
	case "stop-at-size":
		rd = c03Reader{Kind: "get-early", Limit: &all, RSeed: uint64(i)}
	case "stop-early":
		rd = c03Reader{Kind: "get-early", Limit: &sixteen, RSeed: uint64(i)}
	default:
		rd = c03Reader{Kind: "get-read", RSeed: uint64(i)}
	}
	st := c03Step{K: "bigtail", P: []int{framing, head, tail, 3}}
	c.Rounds = []c03Round{{Scripts: [][][]c03Step{{{st}}}, Tail: [][]c03Step{{{K: "404"}}}, Readers: []c03Reader{rd}}}
	return c
}

// Stream "bigblock": the same Close path when what is left unread is the
// legitimate rest of a large block (Content-Length present and equal to the
// size hint) whose first byte is corrupt, and the consumer gives up early.
// Remainders: just above / exactly / below 1 MiB, and a few bytes.
func c03BigBlockCount(thorough bool) int {
	if thorough {
		return 16
	}
	return 4
}

func c03BigBlockCase(i int) c03Case {
	size := 1<<20 + 70000
	if i >= 8 {
		size = 5<<19 + 1234 // 2.5 MiB
	}
	lim := []int{16, size - (1<<20 + 1), size - (1 << 20), size - 5}[i%4]
	kind := "flip"
	if i%8 >= 4 {
		kind = "chunked-flip"
	}
	c := c03Case{Mode: "bigblock", NSvc: 1, Retries: 0, MaxBlocks: 1,
		Blocks: []c03Block{{Seed: 0xb16b + uint64(i), Size: size, Hint: true, Pattern: true}}}
	c.Rounds = []c03Round{{Scripts: [][][]c03Step{{{{K: kind, P: []int{5}}}}}, Tail: [][]c03Step{{{K: "404"}}},
		Readers: []c03Reader{{Kind: "get-early", Limit: &lim, RSeed: uint64(i) + 1}}}}
	return c
}

// ------------------------------------------------------------------ oversize probe

// A hint-less locator read through the cache lets the service choose the
// buffer size. The scenario runs in a child process because the failure mode
// it looks for is a panic on a goroutine of the code under test.
func c03OversizeCase(extra int, mode string) c03Case {
	st := c03Step{K: "declhuge", P: []int{extra}}
	return c03Case{Mode: mode, NSvc: 1, Retries: 0, MaxBlocks: 1, NoHintCache: mode == "readat",
		Blocks: []c03Block{{Seed: 0xc03 + uint64(extra), Size: 100, Hint: false}},
		Rounds: []c03Round{{Scripts: [][][]c03Step{{{st}}}, Tail: [][]c03Step{{{K: "ok"}}},
			Readers: []c03Reader{{Kind: map[string]string{"readat": "readat", "stream": "get-readall"}[mode], Blk: 0, Off: 0, Len: 100, RSeed: 1}}}}}
}

func c03RunChild(t *testing.T) {
	var c c03Case
	if err := json.Unmarshal([]byte(os.Getenv("VERIF_C03_CHILD")), &c); err != nil {
		fmt.Println("C03CHILD bad input", err)
		return
	}
	pool := c03NewPool(4)
	defer pool.Close()
	run := verifkit.Start(t, "C03child")
	c03Execute(run, pool, &c, &c03Tally{})
	fmt.Println("C03CHILD done")
}

// ------------------------------------------------------------------ entry

func TestVerifC03(t *testing.T) {
	if os.Getenv("VERIF_C03_CHILD") != "" {
		c03RunChild(t)
		return
	}
	run := verifkit.Start(t, "C03")
	defer run.Finish()
	pool := c03NewPool(4)
	defer pool.Close()

	var tally c03Tally
	n := run.N(5000, 100000)
	run.Cases("main", n, func(i int, rng *verifkit.Rand) {
		c := c03Generate(rng, false, run.Thorough())
		run.Input(&c, true)
		c03Execute(run, pool, &c, &tally)
		if i < 3 {
			run.Sample(&c)
		}
		if i%500 == 0 {
			run.Checkpoint()
		}
	})
	run.Cases("nohint-cache", run.N(8, 200), func(i int, rng *verifkit.Rand) {
		c := c03Generate(rng, true, run.Thorough())
		run.Input(&c, true)
		c03Execute(run, pool, &c, &tally)
		run.Count("nohint_cache_cases", 1)
		if i < 1 {
			run.Sample(&c)
		}
	})

	// several handles on one file of a writable collection filesystem
	run.Cases("rw", run.N(480, 12000), func(i int, rng *verifkit.Rand) {
		c := c03GenerateRW(rng, run.Thorough())
		run.Input(&c, true)
		c03Execute(run, pool, &c, &tally)
		if i < 2 {
			run.Sample(&c)
		}
	})
	if !run.Replaying() && tally.rwCases >= 20 && tally.rwStale == 0 {
		run.Inconclusive(fmt.Sprintf("C03: %d rw cases but no handle ever went on reading after another handle had written", tally.rwCases))
	}

	run.Cases("drain", c03DrainCount(run.Thorough()), func(i int, rng *verifkit.Rand) {
		c := c03DrainCase(i, run.Thorough())
		run.Input(&c, true)
		c03Execute(run, pool, &c, &tally)
		run.Count("drain_grid_cases", 1)
		if i == 2 {
			run.Sample(&c)
		}
	})
	if run.BatchK() == 0 && !run.Replaying() {
		run.Note(fmt.Sprintf("stream drain is exhaustive over %d remainders x 2 heads x 2 framings x %d readers", len(c03DrainTails(run.Thorough())), len(c03DrainReaders)))
	}
	run.Cases("bigblock", c03BigBlockCount(run.Thorough()), func(i int, rng *verifkit.Rand) {
		c := c03BigBlockCase(i)
		run.Input(&c, true)
		c03Execute(run, pool, &c, &tally)
		run.Count("bigblock_cases", 1)
	})

	// Content-Length beyond the maximum block size, no size hint
	extras := []int{1, 1 << 20, 1 << 30}
	modes := []string{"readat", "stream"}
	run.Cases("oversize", len(extras)*len(modes), func(i int, rng *verifkit.Rand) {
		c := c03OversizeCase(extras[i%len(extras)], modes[i/len(extras)])
		run.Input(&c, true)
		b, _ := json.Marshal(&c)
		cmd := exec.Command(os.Args[0], "-test.run", "^TestVerifC03$", "-test.count", "1", "-test.v")
		cmd.Env = append(os.Environ(), "VERIF_C03_CHILD="+string(b), "VERIF_OUT=", "VERIF_BATCH=", "VERIF_ONLY=", "VERIF_RESUME=")
		out, err := cmd.CombinedOutput()
		run.Eval(1)
		run.Count("oversize_children", 1)
		s := string(out)
		switch {
		case strings.Contains(s, "C03CHILD done") && err == nil:
			if strings.Contains(s, "VERIF-VIOLATION") {
				for _, l := range strings.Split(s, "\n") {
					if j := strings.Index(l, "VERIF-VIOLATION "); j >= 0 {
						rest := l[j+len("VERIF-VIOLATION "):]
						sig := rest
						if k := strings.Index(rest, ": "); k >= 0 {
							sig = rest[:k]
						}
						run.Violation(sig+":content-length-exceeds-blocksize", rest, &c)
					}
				}
			}
			run.Feature("oversize|" + c.Mode + "|survived")
		case strings.Contains(s, "panic:") || strings.Contains(s, "fatal error:"):
			head := ""
			for _, l := range strings.Split(s, "\n") {
				if strings.HasPrefix(l, "panic:") || strings.HasPrefix(l, "fatal error:") {
					head = l
					break
				}
			}
			where := "other"
			if strings.Contains(s, "keepclient.(*BlockCache).Get") {
				where = "BlockCache.Get"
			}
			what := "other"
			if strings.Contains(head, "makeslice") {
				what = "makeslice"
			}
			run.Feature("oversize|" + c.Mode + "|crash")
			run.Violation("C03:crash:"+c.Mode+":no-size-hint:content-length-exceeds-blocksize:"+what+":"+where,
				fmt.Sprintf("a 200 response declaring Content-Length %d for a hint-less locator read through %s kills the process instead of ending the read with an error: %s\n%s", int64(BLOCKSIZE)+int64(extras[i%len(extras)]), c.Mode, head, c03Tail(s, 2500)), &c)
		default:
			run.Inconclusive(fmt.Sprintf("C03 oversize child ended unexpectedly: %v\n%s", err, c03Tail(s, 1500)))
		}
	})

	// a monitor that saw nothing decides nothing
	if !run.Replaying() && tally.cases >= 100 {
		for name, v := range map[string]int{"bad 200 responses served": tally.bad200, "reads that ended with an error": tally.errs,
			"successful reads": tally.succ, "cache hits": tally.hits, "healed reads": tally.healed, "concurrent rounds": tally.conc} {
			if v == 0 {
				run.Inconclusive(fmt.Sprintf("C03: %d cases but no %s were observed", tally.cases, name))
			}
		}
	}
}

func c03Tail(s string, n int) string {
	if i := strings.Index(s, "panic:"); i >= 0 {
		s = s[i:]
	}
	if len(s) > n {
		s = s[:n]
	}
	return s
}
