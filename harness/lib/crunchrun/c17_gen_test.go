//go:build verif

package crunchrun

// C17 — case model and generator. See /verif/DESIGN.md §5 C17.
//
// A case is a structural description (nodes, links with symbolic targets,
// collections as streams/blocks/tokens). c17Finalize turns it into concrete
// text (link targets, manifest text). Keeping the structure allows the
// attribution step to "neutralize" one input feature at a time (rename,
// drop zero-length blocks, clean link targets) and re-run the case.

import (
	"crypto/md5"
	"fmt"
	"sort"
	"strconv"
	"strings"

	"git.arvados.org/arvados.git/internal/verifkit"
)

type c17Knobs struct {
	Lookalike bool   `json:"backslash_escape_lookalike_names"`
	ZeroBlk   string `json:"zero_length_block"` // "", leading, interior, trailing
	AbsStyle  bool   `json:"noncanonical_link_targets"`
	Bad       string `json:"bad_link"` // "" or kind of the deliberately bad link(s)
}

type c17Link struct {
	To       string `json:"to"` // node | mount | secret | raw
	Node     int    `json:"node,omitempty"`
	Mount    int    `json:"mount,omitempty"`
	Inner    string `json:"-"` // path below the mount point, "" = mount root
	Secret   int    `json:"secret,omitempty"`
	Abs      bool   `json:"abs"`
	Style    string `json:"style,omitempty"` // "", dot, dslash, updown, trail
	StylePos int    `json:"style_pos,omitempty"`
	Raw      string `json:"-"`
	Class    string `json:"class"`
	Text     string `json:"-"`
}

type c17Node struct {
	ID     int      `json:"id"`
	Parent int      `json:"parent"`
	Name   string   `json:"-"`
	Kind   string   `json:"kind"` // dir file link mount secret
	Depth  int      `json:"depth"`
	Size   int      `json:"size,omitempty"`
	Seed   uint64   `json:"seed,omitempty"`
	Link   *c17Link `json:"link,omitempty"`
	Ref    int      `json:"ref,omitempty"`
}

type c17Blk struct {
	Size int
	Seed uint64
}

type c17Tok struct {
	Name     string
	Pos, Len int
}

type c17Stream struct {
	Name   string // "." or "./a/b", unescaped
	Blocks []c17Blk
	Toks   []c17Tok
}

type c17Coll struct {
	Streams []c17Stream
	// computed by finalize
	text  string
	pdh   string
	files map[string][]byte // reference reading, computed from the structure
	locs  map[string]bool   // locator tokens of the manifest
	hashs map[string]bool
	blks  map[string][]byte // hash -> content
}

type c17Mount struct {
	Ctr       string // container path of the mount point
	Node      int    // node id of the placeholder inside the output dir, -1 if outside it
	Coll      int
	PathStyle int    // how Mount.Path is spelled
	Sub       string // canonical sub-path mounted ("" = whole collection)
	SubIsFile bool
}

type c17Secret struct {
	Ctr     string
	Node    int
	Kind    string
	Content string
}

type c17Case struct {
	BlockSize int         `json:"block_size"`
	CtrOut    string      `json:"ctr_output_dir"`
	Knobs     c17Knobs    `json:"knobs"`
	Nodes     []*c17Node  `json:"-"`
	Colls     []*c17Coll  `json:"-"`
	Mounts    []c17Mount  `json:"-"`
	Secrets   []c17Secret `json:"-"`
	// human-readable, byte-faithful rendering (Go-quoted strings)
	Listing  []string `json:"tree"`
	MountsQ  []string `json:"mounts"`
	SecretsQ []string `json:"secret_mounts"`
	Neutral  []string `json:"neutralized,omitempty"`
}

func c17Split(p string) []string {
	var out []string
	for _, s := range strings.Split(p, "/") {
		if s != "" {
			out = append(out, s)
		}
	}
	return out
}

func (c *c17Case) relComps(id int) []string {
	var rev []string
	for id > 0 {
		rev = append(rev, c.Nodes[id].Name)
		id = c.Nodes[id].Parent
	}
	out := make([]string, len(rev))
	for i := range rev {
		out[i] = rev[len(rev)-1-i]
	}
	return out
}

func (c *c17Case) relPath(id int) string { return strings.Join(c.relComps(id), "/") }

func (c *c17Case) ctrComps(id int) []string {
	return append(c17Split(c.CtrOut), c.relComps(id)...)
}

func (c *c17Case) children(id int) []int {
	var out []int
	for _, n := range c.Nodes {
		if n.ID != 0 && n.Parent == id {
			out = append(out, n.ID)
		}
	}
	return out
}

// ---------------------------------------------------------------- names

var c17LookRe = func(s string) bool {
	for i := 0; i+1 < len(s); i++ {
		if s[i] != '\\' {
			continue
		}
		if s[i+1] == '\\' {
			return true
		}
		if i+3 < len(s) && c17Digit(s[i+1]) && c17Digit(s[i+2]) && c17Digit(s[i+3]) {
			return true
		}
	}
	return false
}

func c17Digit(b byte) bool { return b >= '0' && b <= '9' }

func c17GenName(rng *verifkit.Rand, lookalike bool, used map[string]bool) string {
	const plain = "abcdefghijklmnopqrstuvwxyz0123456789_-."
	for try := 0; ; try++ {
		var sb strings.Builder
		n := rng.Range(1, 6)
		for i := 0; i < n; i++ {
			switch r := rng.Intn(100); {
			case r < 62 || try > 20:
				sb.WriteByte(plain[rng.Intn(len(plain))])
			case r < 70:
				sb.WriteByte(' ')
			case r < 76:
				sb.WriteByte(':')
			case r < 83:
				// a benign backslash: followed by a letter
				sb.WriteString(`\` + string(plain[rng.Intn(26)]))
			case r < 90:
				sb.WriteString(rng.PickStr("é", "日", "ß", "Ж", "\xff", "\xc3", "\x80"))
			case r < 93:
				sb.WriteString(rng.PickStr("\t", "#", "+", "%", "*", "'", "\"", "\x7f"))
			default:
				if lookalike {
					sb.WriteString(rng.PickStr(`\\`, `\040`, `\134`, `\101`, `\\x`, `\0123`, `\072`))
				} else {
					sb.WriteByte(plain[rng.Intn(len(plain))])
				}
			}
		}
		s := sb.String()
		if rng.Chance(1, 40) {
			s = ".keep"
		}
		if s == "." || s == ".." || used[s] {
			continue
		}
		if !lookalike && c17LookRe(s) {
			continue
		}
		used[s] = true
		return s
	}
}

// ---------------------------------------------------------------- collections

func c17GenColl(rng *verifkit.Rand, kn c17Knobs) *c17Coll {
	co := &c17Coll{}
	files := map[string]bool{}
	dirs := map[string]bool{".": true}
	var pool []c17Blk
	nstreams := rng.Range(1, 3)
	zeroLeft := kn.ZeroBlk
	usedNames := map[string]bool{}
	var snames []string
	for s := 0; s < nstreams; s++ {
		var st c17Stream
		// stream name
		for try := 0; ; try++ {
			switch {
			case s == 0 && rng.Chance(7, 10):
				st.Name = "."
			case len(snames) > 0 && snames[len(snames)-1] != "." && rng.Chance(1, 3):
				// a sibling whose name merely starts with the same characters
				// (./run and ./run2): extracting one must not drag in the other
				st.Name = snames[rng.Intn(len(snames))]
				if st.Name == "." {
					st.Name = snames[len(snames)-1]
				}
				st.Name += rng.PickStr("2", "-old", "x", ".bak", "_")
			case len(snames) > 0 && rng.Chance(1, 4):
				st.Name = snames[rng.Intn(len(snames))] // repeated stream, or extend one below
				if rng.Bool() {
					st.Name += "/" + c17GenName(rng, kn.Lookalike, map[string]bool{})
				}
			default:
				st.Name = "."
				for k := rng.Range(1, 2); k > 0; k-- {
					st.Name += "/" + c17GenName(rng, kn.Lookalike, map[string]bool{})
				}
			}
			// the stream (and its ancestors) must not be files
			ok := true
			p := ""
			for _, comp := range strings.Split(st.Name, "/") {
				if p == "" {
					p = comp
				} else {
					p += "/" + comp
				}
				if files[p] {
					ok = false
				}
			}
			if ok || try > 10 {
				if !ok {
					st.Name = "."
				}
				break
			}
		}
		p := ""
		for _, comp := range strings.Split(st.Name, "/") {
			if p == "" {
				p = comp
			} else {
				p += "/" + comp
			}
			dirs[p] = true
		}
		snames = append(snames, st.Name)
		// blocks
		nb := rng.Range(1, 4)
		for b := 0; b < nb; b++ {
			if len(pool) > 0 && rng.Chance(1, 7) {
				st.Blocks = append(st.Blocks, pool[rng.Intn(len(pool))])
				continue
			}
			blk := c17Blk{Size: rng.PickInt(1, 2, 3, 5, 8, 13, 20, 20), Seed: rng.Uint64()}
			st.Blocks = append(st.Blocks, blk)
			pool = append(pool, blk)
		}
		if zeroLeft != "" {
			z := c17Blk{Size: 0}
			switch zeroLeft {
			case "leading":
				st.Blocks = append([]c17Blk{z}, st.Blocks...)
			case "trailing":
				st.Blocks = append(st.Blocks, z)
			default:
				if len(st.Blocks) < 2 {
					st.Blocks = append(st.Blocks, c17Blk{Size: rng.PickInt(1, 3, 8), Seed: rng.Uint64()})
				}
				at := rng.Range(1, len(st.Blocks)-1)
				st.Blocks = append(st.Blocks[:at], append([]c17Blk{z}, st.Blocks[at:]...)...)
			}
			if rng.Bool() {
				zeroLeft = ""
			}
		}
		total := 0
		var bounds []int
		for _, b := range st.Blocks {
			bounds = append(bounds, total)
			total += b.Size
		}
		bounds = append(bounds, total)
		// tokens
		nt := rng.Range(1, 4)
		var own []string
		for t := 0; t < nt; t++ {
			var tk c17Tok
			for try := 0; ; try++ {
				if len(own) > 0 && rng.Chance(1, 7) {
					tk.Name = own[rng.Intn(len(own))]
				} else {
					tk.Name = c17GenName(rng, kn.Lookalike, usedNames)
					if rng.Chance(1, 12) {
						tk.Name = c17GenName(rng, kn.Lookalike, map[string]bool{}) + "/" + tk.Name
					}
				}
				full := st.Name + "/" + tk.Name
				ok := !dirs[full]
				// ancestors introduced by a multi-component name must not be files
				parts := strings.Split(full, "/")
				for k := 1; k < len(parts); k++ {
					if files[strings.Join(parts[:k], "/")] {
						ok = false
					}
				}
				if ok {
					for k := 1; k < len(parts); k++ {
						dirs[strings.Join(parts[:k], "/")] = true
					}
					files[full] = true
					break
				}
				if try > 20 {
					tk.Name = fmt.Sprintf("zz%d_%d", s, t)
				}
			}
			own = append(own, tk.Name)
			switch rng.Intn(5) {
			case 0:
				tk.Pos = bounds[rng.Intn(len(bounds))]
				tk.Len = 0
			case 1, 2:
				a, b := bounds[rng.Intn(len(bounds))], bounds[rng.Intn(len(bounds))]
				if a > b {
					a, b = b, a
				}
				tk.Pos, tk.Len = a, b-a
			default:
				tk.Pos = rng.Range(0, total)
				tk.Len = rng.Range(0, total-tk.Pos)
			}
			st.Toks = append(st.Toks, tk)
		}
		co.Streams = append(co.Streams, st)
	}
	return co
}

// c17EscCanon is the published canonical escaping: octal escapes for
// whitespace/control bytes and for the backslash itself.
func c17EscCanon(s string) string {
	var sb strings.Builder
	for i := 0; i < len(s); i++ {
		b := s[i]
		if b <= 0x20 || b == '\\' {
			fmt.Fprintf(&sb, "\\%03o", b)
		} else {
			sb.WriteByte(b)
		}
	}
	return sb.String()
}

func c17BlkBytes(b c17Blk) []byte { return verifkit.NewRand(b.Seed ^ 0xc17).Bytes(b.Size) }

func (co *c17Coll) finalize() {
	co.files = map[string][]byte{}
	co.locs = map[string]bool{}
	co.hashs = map[string]bool{}
	co.blks = map[string][]byte{}
	var sb strings.Builder
	for _, st := range co.Streams {
		sb.WriteString(c17EscCanon(st.Name))
		var data []byte
		for _, b := range st.Blocks {
			bb := c17BlkBytes(b)
			h := fmt.Sprintf("%x", md5.Sum(bb))
			loc := fmt.Sprintf("%s+%d+Amnt%s@7fffffff", h, b.Size, h[:8])
			co.locs[loc] = true
			co.hashs[h] = true
			co.blks[h] = bb
			sb.WriteString(" " + loc)
			data = append(data, bb...)
		}
		for _, t := range st.Toks {
			fmt.Fprintf(&sb, " %d:%d:%s", t.Pos, t.Len, c17EscCanon(t.Name))
			p := strings.TrimPrefix(strings.TrimPrefix(st.Name+"/"+t.Name, "."), "/")
			co.files[p] = append(co.files[p], data[t.Pos:t.Pos+t.Len]...)
			if co.files[p] == nil {
				co.files[p] = []byte{}
			}
		}
		sb.WriteString("\n")
	}
	co.text = sb.String()
	co.pdh = fmt.Sprintf("%x+%d", md5.Sum([]byte(co.text)), len(co.text))
}

// collDirs lists the directories implied by the collection's files.
func (co *c17Coll) collDirs() map[string]bool {
	d := map[string]bool{"": true}
	for p := range co.files {
		parts := strings.Split(p, "/")
		for k := 1; k < len(parts); k++ {
			d[strings.Join(parts[:k], "/")] = true
		}
	}
	return d
}

// ---------------------------------------------------------------- tree

func c17Generate(rng *verifkit.Rand) *c17Case {
	c := &c17Case{}
	c.BlockSize = rng.PickInt(8, 16, 16, 37, 64, 64, 1<<26)
	c.CtrOut = rng.PickStr("/ctr/outdir", "/out", "/var/spool/cwl", "/ctr/outdir", "/a b/out")
	c.Knobs.Lookalike = rng.Chance(1, 12)
	if rng.Chance(1, 25) {
		c.Knobs.ZeroBlk = rng.PickStr("interior", "interior", "leading", "trailing")
	}
	c.Knobs.AbsStyle = rng.Chance(1, 25)
	bad := rng.Chance(3, 20)
	c.Nodes = []*c17Node{{ID: 0, Parent: -1, Kind: "dir"}}
	used := map[int]map[string]bool{0: {}}

	addNode := func(parent int, kind string) *c17Node {
		n := &c17Node{ID: len(c.Nodes), Parent: parent, Kind: kind, Depth: c.Nodes[parent].Depth + 1}
		n.Name = c17GenName(rng, c.Knobs.Lookalike, used[parent])
		c.Nodes = append(c.Nodes, n)
		if kind == "dir" {
			used[n.ID] = map[string]bool{}
		}
		return n
	}
	pickDir := func(maxDepth int) int {
		var ds []int
		for _, n := range c.Nodes {
			if n.Kind == "dir" && n.Depth <= maxDepth {
				ds = append(ds, n.ID)
			}
		}
		// bias toward deeper directories so that depth 4 is reached
		if len(ds) > 1 && rng.Bool() {
			return ds[len(ds)/2+rng.Intn(len(ds)-len(ds)/2)]
		}
		return ds[rng.Intn(len(ds))]
	}
	fileSize := func() int {
		B := c.BlockSize
		if B > 1000 {
			return rng.PickInt(0, 1, 7, 100, 200, rng.Range(0, 300))
		}
		return rng.PickInt(0, 0, 1, B-1, B, B+1, 2*B, 2*B+1, 3*B+rng.Intn(B), rng.Range(0, 4*B), rng.Range(0, B))
	}

	total := rng.PickInt(0, 1, 2, 3, 4, 6, 8, 10, 14, 20, 28, 34)
	nLinks := 0
	if total > 0 {
		nLinks = rng.Range(0, (total+1)/2)
		if rng.Chance(1, 5) {
			nLinks = 0
		}
	}
	nMounts := rng.PickInt(0, 0, 1, 1, 1, 2)
	nSecrets := rng.PickInt(0, 0, 0, 1, 1, 2)
	budget := total - nLinks
	// dirs and files
	for i := 0; i < budget; i++ {
		if rng.Intn(100) < 38 {
			addNode(pickDir(3), "dir")
		} else {
			n := addNode(pickDir(3), "file")
			n.Size, n.Seed = fileSize(), rng.Uint64()
		}
	}
	// collections and mounts
	for m := 0; m < nMounts; m++ {
		var ci int
		if m == 1 && rng.Chance(1, 4) {
			ci = c.Mounts[0].Coll
		} else {
			c.Colls = append(c.Colls, c17GenColl(rng, c.Knobs))
			ci = len(c.Colls) - 1
		}
		c.Colls[ci].finalize()
		mt := c17Mount{Coll: ci, Node: -1}
		if rng.Chance(1, 4) {
			// mount a sub-path
			var cands []string
			for d := range c.Colls[ci].collDirs() {
				if d != "" {
					cands = append(cands, d)
				}
			}
			isFile := len(cands) == 0 || rng.Chance(1, 3)
			if isFile {
				cands = cands[:0]
				for f := range c.Colls[ci].files {
					cands = append(cands, f)
				}
			}
			sort.Strings(cands)
			mt.Sub, mt.SubIsFile = cands[rng.Intn(len(cands))], isFile
			mt.PathStyle = rng.Intn(3)
		}
		if rng.Chance(11, 20) {
			n := addNode(pickDir(3), "mount")
			n.Ref = m
			mt.Node = n.ID
		} else {
			mt.Ctr = rng.PickStr("/mnt/c", "/keep/by_id/x", "/m") + strconv.Itoa(m)
			if rng.Chance(1, 8) {
				// shares a textual prefix with the output dir
				mt.Ctr = c.CtrOut + "2/c" + strconv.Itoa(m)
			}
		}
		c.Mounts = append(c.Mounts, mt)
	}
	for s := 0; s < nSecrets; s++ {
		sc := c17Secret{Node: -1, Kind: rng.PickStr("json", "text"), Content: "SECRET-" + rng.Hex(12)}
		if rng.Bool() {
			n := addNode(pickDir(3), "secret")
			n.Ref = s
			sc.Node = n.ID
		} else {
			sc.Ctr = rng.PickStr("/secrets/s", "/etc/secret_", "/run/s") + strconv.Itoa(s) + "." + sc.Kind
		}
		c.Secrets = append(c.Secrets, sc)
	}
	c.fillCtr()

	// ---- links
	linkStyle := func(l *c17Link, targetIsRealDir bool) {
		if !c.Knobs.AbsStyle || !rng.Chance(2, 3) {
			return
		}
		l.Style = rng.PickStr("dot", "dslash", "updown", "updown", "trail")
		if l.Style == "trail" && !targetIsRealDir {
			l.Style = "dot"
		}
		l.StylePos = rng.Intn(8)
	}
	extNeed := map[int]bool{}
	for i, m := range c.Mounts {
		if m.Node < 0 {
			extNeed[i] = true
		}
	}
	secNeed := map[int]bool{}
	for i, s := range c.Secrets {
		if s.Node < 0 {
			secNeed[i] = true
		}
	}
	if nLinks < len(extNeed)+len(secNeed) && total > 0 {
		nLinks = len(extNeed) + len(secNeed)
	}
	for i := 0; i < nLinks; i++ {
		n := addNode(pickDir(3), "link")
		for try := 0; try < 6; try++ {
			l := &c17Link{Abs: rng.Chance(2, 5)}
			n.Link = l
			pickMount := -1
			for m := range extNeed {
				if pickMount < 0 || m < pickMount {
					pickMount = m
				}
			}
			pickSecret := -1
			if pickMount < 0 {
				for s := range secNeed {
					if pickSecret < 0 || s < pickSecret {
						pickSecret = s
					}
				}
			}
			r := rng.Intn(100)
			switch {
			case pickMount >= 0 || (r < 30 && len(c.Mounts) > 0):
				m := pickMount
				if m < 0 {
					m = rng.Intn(len(c.Mounts))
				}
				c.genMountLink(rng, l, m)
				linkStyle(l, false)
			case pickSecret >= 0 || (r >= 30 && r < 36 && len(c.Secrets) > 0):
				s := pickSecret
				if s < 0 {
					s = rng.Intn(len(c.Secrets))
				}
				l.To, l.Secret, l.Class = "secret", s, "secret"
			default:
				var cands []int
				want := "file"
				if r >= 62 && r < 84 {
					want = "dir"
				} else if r >= 84 {
					want = "link"
				}
				for _, o := range c.Nodes {
					if o.ID != 0 && o.ID != n.ID && o.Kind == want && (want != "link" || o.Link != nil) {
						cands = append(cands, o.ID)
					}
				}
				if len(cands) == 0 {
					for _, o := range c.Nodes {
						if o.ID != 0 && o.ID != n.ID && (o.Kind == "file" || o.Kind == "dir") {
							cands = append(cands, o.ID)
						}
					}
				}
				if len(cands) == 0 {
					// nothing to point at: make it a file instead
					n.Kind, n.Link = "file", nil
					n.Size, n.Seed = fileSize(), rng.Uint64()
					break
				}
				l.To, l.Node = "node", cands[rng.Intn(len(cands))]
				l.Class = map[string]string{"file": "file", "dir": "dir", "link": "chain"}[c.Nodes[l.Node].Kind]
				linkStyle(l, c.Nodes[l.Node].Kind == "dir")
			}
			if n.Link == nil {
				break
			}
			if ok := c.genCheck(); ok {
				if l.To == "mount" {
					delete(extNeed, l.Mount)
				}
				if l.To == "secret" {
					delete(secNeed, l.Secret)
				}
				break
			}
			if try == 5 {
				n.Kind, n.Link = "file", nil
				n.Size, n.Seed = fileSize(), rng.Uint64()
			}
		}
	}
	// occasionally a long chain link -> link -> ... -> file|dir (up to 6 hops)
	if total > 0 && rng.Chance(1, 12) {
		var ends []int
		for _, o := range c.Nodes {
			if o.ID != 0 && (o.Kind == "file" || o.Kind == "dir") {
				ends = append(ends, o.ID)
			}
		}
		if len(ends) > 0 {
			prev := ends[rng.Intn(len(ends))]
			cls := "chain"
			for k := rng.Range(3, 6); k > 0 && len(c.Nodes)-1 < 38; k-- {
				n := addNode(pickDir(3), "link")
				n.Link = &c17Link{To: "node", Node: prev, Abs: rng.Chance(1, 3), Class: cls}
				if !c.genCheck() {
					// would exceed the hop/size budget or close a cycle: make it a file
					n.Kind, n.Link = "file", nil
					n.Size, n.Seed = fileSize(), rng.Uint64()
					break
				}
				prev = n.ID
			}
		}
	}
	if bad {
		c.genBad(rng)
	}
	c.finalize()
	return c
}

func (c *c17Case) fillCtr() {
	for i := range c.Mounts {
		if c.Mounts[i].Node >= 0 {
			c.Mounts[i].Ctr = "/" + strings.Join(c.ctrComps(c.Mounts[i].Node), "/")
		}
	}
	for i := range c.Secrets {
		if c.Secrets[i].Node >= 0 {
			c.Secrets[i].Ctr = "/" + strings.Join(c.ctrComps(c.Secrets[i].Node), "/")
		}
	}
}

// view returns the files visible below mount m (after applying its sub-path),
// keyed by path relative to the mount point ("" = the mount point itself when
// a single file is mounted).
func (c *c17Case) view(m int) map[string][]byte {
	mt := c.Mounts[m]
	co := c.Colls[mt.Coll]
	out := map[string][]byte{}
	for p, b := range co.files {
		switch {
		case mt.Sub == "":
			out[p] = b
		case mt.SubIsFile && p == mt.Sub:
			out[""] = b
		case !mt.SubIsFile && strings.HasPrefix(p, mt.Sub+"/"):
			out[p[len(mt.Sub)+1:]] = b
		}
	}
	return out
}

func (c *c17Case) genMountLink(rng *verifkit.Rand, l *c17Link, m int) {
	l.To, l.Mount = "mount", m
	v := c.view(m)
	if _, single := v[""]; single {
		l.Inner, l.Class = "", "mount-file"
		return
	}
	var files, dirs []string
	ds := map[string]bool{}
	for p := range v {
		files = append(files, p)
		parts := strings.Split(p, "/")
		for k := 1; k < len(parts); k++ {
			ds[strings.Join(parts[:k], "/")] = true
		}
	}
	for d := range ds {
		dirs = append(dirs, d)
	}
	sort.Strings(files)
	sort.Strings(dirs)
	switch r := rng.Intn(10); {
	case r < 5 || (r < 8 && len(dirs) == 0):
		l.Inner, l.Class = files[rng.Intn(len(files))], "mount-file"
	case r < 8:
		l.Inner, l.Class = dirs[rng.Intn(len(dirs))], "mount-dir"
	default:
		l.Inner, l.Class = "", "mount-root"
	}
}

// genCheck mirrors the expansion on the in-memory structure, only to keep
// generated "good" links acyclic, within a small hop budget and of bounded
// expanded size. (The oracle's resolver is separate and works on the disk.)
func (c *c17Case) genCheck() bool {
	emitted := 0
	var walk func(dir int, stack map[int]bool, hops int) bool
	chain := func(id int) (final int, n int, ok bool) {
		for n = 0; n < 20; n++ {
			nd := c.Nodes[id]
			if nd.Kind != "link" || nd.Link == nil || nd.Link.To != "node" {
				return id, n, true
			}
			id = nd.Link.Node
		}
		return 0, n, false
	}
	walk = func(dir int, stack map[int]bool, hops int) bool {
		for _, ch := range c.children(dir) {
			emitted++
			if emitted > 300 {
				return false
			}
			nd := c.Nodes[ch]
			switch nd.Kind {
			case "dir":
				stack[ch] = true
				if !walk(ch, stack, hops) {
					return false
				}
				delete(stack, ch)
			case "link":
				if nd.Link == nil {
					continue
				}
				fin, n, ok := chain(ch)
				if !ok || hops+n > 6 {
					return false
				}
				if c.Nodes[fin].Kind == "link" && c.Nodes[fin].Link != nil && c.Nodes[fin].Link.To == "mount" {
					emitted += 6
				}
				if c.Nodes[fin].Kind == "dir" {
					if stack[fin] {
						return false
					}
					stack[fin] = true
					if !walk(fin, stack, hops+n) {
						return false
					}
					delete(stack, fin)
				}
			}
		}
		return true
	}
	return walk(0, map[int]bool{0: true}, 0)
}

func (c *c17Case) genBad(rng *verifkit.Rand) {
	used := map[string]bool{}
	for _, id := range c.children(0) {
		used[c.Nodes[id].Name] = true
	}
	add := func(parent int) *c17Node {
		u := map[string]bool{}
		for _, id := range c.children(parent) {
			u[c.Nodes[id].Name] = true
		}
		n := &c17Node{ID: len(c.Nodes), Parent: parent, Kind: "link", Depth: c.Nodes[parent].Depth + 1, Link: &c17Link{}}
		n.Name = c17GenName(rng, c.Knobs.Lookalike, u)
		c.Nodes = append(c.Nodes, n)
		return n
	}
	var dirs []int
	for _, n := range c.Nodes {
		if n.Kind == "dir" && n.Depth <= 3 {
			dirs = append(dirs, n.ID)
		}
	}
	where := dirs[rng.Intn(len(dirs))]
	kinds := []string{"outside-abs", "outside-abs", "outside-rel", "outside-hostpath", "outside-mount-ancestor", "outside-prefix-sibling",
		"cycle-self", "cycle-pair", "cycle-ancestor", "cycle-root", "cycle-mutual-dirs", "cycle-dot"}
	kind := kinds[rng.Intn(len(kinds))]
	c.Knobs.Bad = kind
	switch kind {
	case "outside-abs":
		n := add(where)
		n.Link = &c17Link{To: "raw", Raw: rng.PickStr("/etc/passwd", "/", "/tmp", "/nonexistent/x", "/usr", "/proc/self/environ"), Class: kind}
	case "outside-rel":
		n := add(where)
		ups := c.Nodes[where].Depth + rng.Range(1, len(c17Split(c.CtrOut))+1)
		n.Link = &c17Link{To: "raw", Raw: strings.Repeat("../", ups) + rng.PickStr("x", "etc/passwd", ""), Class: kind}
		if strings.HasSuffix(n.Link.Raw, "/") {
			n.Link.Raw = strings.TrimSuffix(n.Link.Raw, "/")
		}
	case "outside-hostpath":
		n := add(where)
		n.Link = &c17Link{To: "raw", Raw: "{HOST}" + rng.PickStr("", "/.", "/x"), Class: kind}
		// make sure {HOST}/x exists on the host: it then "works" for a resolver that forgets the container namespace
	case "outside-mount-ancestor":
		n := add(where)
		raw := "/mnt"
		for _, m := range c.Mounts {
			if m.Node < 0 {
				cs := c17Split(m.Ctr)
				raw = "/" + strings.Join(cs[:len(cs)-1], "/")
			}
		}
		if raw == "/" || strings.HasPrefix(c.CtrOut+"/", raw+"/") {
			raw = "/mnt"
		}
		n.Link = &c17Link{To: "raw", Raw: raw, Class: kind}
	case "outside-prefix-sibling":
		n := add(where)
		n.Link = &c17Link{To: "raw", Raw: c.CtrOut + rng.PickStr("x", "-old/f", ".bak"), Class: kind}
	case "cycle-self":
		n := add(where)
		n.Link = &c17Link{To: "node", Node: n.ID, Abs: rng.Bool(), Class: kind}
	case "cycle-pair":
		a := add(where)
		b := add(dirs[rng.Intn(len(dirs))])
		a.Link = &c17Link{To: "node", Node: b.ID, Abs: rng.Bool(), Class: kind}
		b.Link = &c17Link{To: "node", Node: a.ID, Abs: rng.Bool(), Class: kind}
	case "cycle-ancestor":
		n := add(where)
		anc := where
		for k := rng.Intn(3); k > 0 && anc > 0; k-- {
			anc = c.Nodes[anc].Parent
		}
		n.Link = &c17Link{To: "node", Node: anc, Abs: rng.Bool(), Class: kind}
	case "cycle-root":
		n := add(where)
		n.Link = &c17Link{To: "node", Node: 0, Abs: rng.Bool(), Class: kind}
	case "cycle-dot":
		n := add(where)
		n.Link = &c17Link{To: "raw", Raw: rng.PickStr(".", "./", "..", "./."), Class: kind}
		if n.Link.Raw == ".." && where == 0 {
			n.Link.Raw = "."
		}
	case "cycle-mutual-dirs":
		if len(dirs) < 2 {
			n := add(where)
			n.Link = &c17Link{To: "node", Node: 0, Class: "cycle-root"}
			c.Knobs.Bad = "cycle-root"
			return
		}
		p := rng.Perm(len(dirs))
		a, b := dirs[p[0]], dirs[p[1]]
		la, lb := add(a), add(b)
		la.Link = &c17Link{To: "node", Node: b, Abs: rng.Bool(), Class: kind}
		lb.Link = &c17Link{To: "node", Node: a, Abs: rng.Bool(), Class: kind}
	}
}

// ---------------------------------------------------------------- finalize

func c17Styled(comps []string, style string, pos int, lastIsLeaf bool) []string {
	if style == "" || style == "trail" || len(comps) == 0 {
		return comps
	}
	out := append([]string(nil), comps...)
	switch style {
	case "dot", "dslash":
		// never after a leaf: "file/." is ENOTDIR for the kernel
		slots := len(out) + 1
		if lastIsLeaf {
			slots = len(out)
		}
		p := pos % slots
		ins := "."
		if style == "dslash" {
			ins = ""
			if p == 0 {
				if slots < 2 {
					return out
				}
				p = 1
			}
		}
		out = append(out[:p], append([]string{ins}, out[p:]...)...)
	case "updown":
		// X/../X where X is an intermediate (hence real directory) component
		n := len(out)
		if lastIsLeaf {
			n--
		}
		if n <= 0 {
			return out
		}
		p := pos % n
		if out[p] == ".." {
			return out
		}
		x := out[p]
		out = append(out[:p+1], append([]string{"..", x}, out[p+1:]...)...)
	}
	return out
}

func (c *c17Case) linkText(n *c17Node) string {
	l := n.Link
	var target []string
	leaf := true
	switch l.To {
	case "raw":
		return l.Raw
	case "node":
		target = c.ctrComps(l.Node)
		leaf = c.Nodes[l.Node].Kind != "dir"
	case "mount":
		target = append(c17Split(c.Mounts[l.Mount].Ctr), c17Split(l.Inner)...)
		leaf = true // never insert X/.. on the last component
	case "secret":
		target = c17Split(c.Secrets[l.Secret].Ctr)
	}
	var txt string
	if l.Abs {
		st := c17Styled(target, l.Style, l.StylePos, leaf)
		txt = "/" + strings.Join(st, "/")
		if len(st) > 0 && st[0] == "" {
			txt = "/" + strings.Join(st[1:], "/")
		}
	} else {
		from := c.ctrComps(n.Parent)
		k := 0
		for k < len(from) && k < len(target) && from[k] == target[k] {
			k++
		}
		var rel []string
		for i := k; i < len(from); i++ {
			rel = append(rel, "..")
		}
		rest := c17Styled(append([]string(nil), target[k:]...), l.Style, l.StylePos, leaf)
		rel = append(rel, rest...)
		txt = strings.Join(rel, "/")
		if txt == "" {
			txt = "."
		}
		if strings.HasPrefix(txt, "/") {
			txt = "." + txt
		}
	}
	if l.Style == "trail" && !strings.HasSuffix(txt, "/") {
		txt += "/"
	}
	return txt
}

func (m c17Mount) pathSpelling() string {
	if m.Sub == "" {
		return ""
	}
	return []string{"/", "", "./"}[m.PathStyle%3] + m.Sub
}

func (c *c17Case) finalize() {
	for _, co := range c.Colls {
		co.finalize()
	}
	c.fillCtr()
	c.Listing, c.MountsQ, c.SecretsQ = nil, nil, nil
	for _, n := range c.Nodes[1:] {
		p := strconv.Quote(c.relPath(n.ID))
		switch n.Kind {
		case "dir":
			c.Listing = append(c.Listing, "D "+p)
		case "file":
			c.Listing = append(c.Listing, fmt.Sprintf("F %s size=%d", p, n.Size))
		case "link":
			n.Link.Text = c.linkText(n)
			c.Listing = append(c.Listing, fmt.Sprintf("L %s -> %s [%s]", p, strconv.Quote(n.Link.Text), n.Link.Class))
		case "mount":
			c.Listing = append(c.Listing, fmt.Sprintf("M %s (mount point of mount #%d)", p, n.Ref))
		case "secret":
			c.Listing = append(c.Listing, fmt.Sprintf("S %s (secret mount #%d)", p, n.Ref))
		}
	}
	for i, m := range c.Mounts {
		c.MountsQ = append(c.MountsQ, fmt.Sprintf("#%d at %s path=%q pdh=%s manifest=%s", i, strconv.Quote(m.Ctr), m.pathSpelling(), c.Colls[m.Coll].pdh, strconv.Quote(c.Colls[m.Coll].text)))
	}
	for i, s := range c.Secrets {
		c.SecretsQ = append(c.SecretsQ, fmt.Sprintf("#%d at %s kind=%s", i, strconv.Quote(s.Ctr), s.Kind))
	}
}

// ---------------------------------------------------------------- neutralizers

func (c *c17Case) clone() *c17Case {
	d := *c
	d.Nodes = nil
	for _, n := range c.Nodes {
		nn := *n
		if n.Link != nil {
			l := *n.Link
			nn.Link = &l
		}
		d.Nodes = append(d.Nodes, &nn)
	}
	d.Colls = nil
	for _, co := range c.Colls {
		nc := &c17Coll{}
		for _, st := range co.Streams {
			ns := c17Stream{Name: st.Name}
			ns.Blocks = append(ns.Blocks, st.Blocks...)
			ns.Toks = append(ns.Toks, st.Toks...)
			nc.Streams = append(nc.Streams, ns)
		}
		d.Colls = append(d.Colls, nc)
	}
	d.Mounts = append([]c17Mount(nil), c.Mounts...)
	d.Secrets = append([]c17Secret(nil), c.Secrets...)
	d.Neutral = append([]string(nil), c.Neutral...)
	return &d
}

// c17Neutralize returns a copy of the case with one input feature removed.
func c17Neutralize(c *c17Case, what string) *c17Case {
	d := c.clone()
	d.Neutral = append(d.Neutral, what)
	ren := func(s string) string { return strings.ReplaceAll(s, `\`, "%5C") }
	switch what {
	case "backslash":
		for _, n := range d.Nodes {
			n.Name = ren(n.Name)
			if n.Link != nil {
				n.Link.Inner = ren(n.Link.Inner)
			}
		}
		for _, co := range d.Colls {
			for si := range co.Streams {
				co.Streams[si].Name = ren(co.Streams[si].Name)
				for ti := range co.Streams[si].Toks {
					co.Streams[si].Toks[ti].Name = ren(co.Streams[si].Toks[ti].Name)
				}
			}
		}
		for i := range d.Mounts {
			d.Mounts[i].Sub = ren(d.Mounts[i].Sub)
		}
	case "zeroblk":
		for _, co := range d.Colls {
			for si := range co.Streams {
				var nb []c17Blk
				for _, b := range co.Streams[si].Blocks {
					if b.Size > 0 {
						nb = append(nb, b)
					}
				}
				if len(nb) == 0 {
					nb = co.Streams[si].Blocks[:1]
				}
				co.Streams[si].Blocks = nb
			}
		}
	case "absstyle":
		for _, n := range d.Nodes {
			if n.Link != nil && n.Link.Abs {
				n.Link.Style = ""
			}
		}
	case "style":
		for _, n := range d.Nodes {
			if n.Link != nil {
				n.Link.Style = ""
			}
		}
	}
	d.finalize()
	return d
}

func (c *c17Case) hasBackslashLookalike() bool {
	for _, n := range c.Nodes {
		if c17LookRe(n.Name) {
			return true
		}
	}
	for _, co := range c.Colls {
		for _, st := range co.Streams {
			if c17LookRe(st.Name) {
				return true
			}
			for _, t := range st.Toks {
				if c17LookRe(t.Name) {
					return true
				}
			}
		}
	}
	return false
}

// zeroBlkRisk tells whether some mounted manifest has a zero-length block in
// a stream with more than one block (the input class on which
// manifest.firstBlock is predicted to fail — in a goroutine).
func (c *c17Case) zeroBlkRisk() string {
	pos := ""
	for _, m := range c.Mounts {
		for _, st := range c.Colls[m.Coll].Streams {
			if len(st.Blocks) < 2 {
				continue
			}
			for i, b := range st.Blocks {
				if b.Size != 0 {
					continue
				}
				switch {
				case i == 0:
					pos = "leading"
				case i == len(st.Blocks)-1:
					if pos == "" {
						pos = "trailing"
					}
				default:
					if pos != "leading" {
						pos = "interior"
					}
				}
			}
		}
	}
	return pos
}

func (c *c17Case) hasStyle(absOnly bool) bool {
	for _, n := range c.Nodes {
		if n.Link != nil && n.Link.Style != "" && (n.Link.Abs || !absOnly) {
			return true
		}
	}
	return false
}
