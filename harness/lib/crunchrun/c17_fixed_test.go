//go:build verif

package crunchrun

// C17 — a small stream of hand-written cases: upstream's own copier test
// trees (as sanity checks of the oracle) and minimal witnesses of the root
// causes the generated stream has found, so that they are exercised at every
// seed.

type c17Builder struct{ c *c17Case }

func c17Build(ctrOut string, blockSize int) *c17Builder {
	return &c17Builder{c: &c17Case{CtrOut: ctrOut, BlockSize: blockSize, Nodes: []*c17Node{{ID: 0, Parent: -1, Kind: "dir"}}}}
}

func (b *c17Builder) add(parent int, name, kind string) *c17Node {
	n := &c17Node{ID: len(b.c.Nodes), Parent: parent, Name: name, Kind: kind, Depth: b.c.Nodes[parent].Depth + 1}
	b.c.Nodes = append(b.c.Nodes, n)
	return n
}
func (b *c17Builder) dir(parent int, name string) int { return b.add(parent, name, "dir").ID }
func (b *c17Builder) file(parent int, name string, size int) int {
	n := b.add(parent, name, "file")
	n.Size, n.Seed = size, uint64(n.ID)*7919+1
	return n.ID
}
func (b *c17Builder) link(parent int, name string, l c17Link) int {
	n := b.add(parent, name, "link")
	n.Link = &l
	return n.ID
}
func (b *c17Builder) coll(streams ...c17Stream) int {
	b.c.Colls = append(b.c.Colls, &c17Coll{Streams: streams})
	b.c.Colls[len(b.c.Colls)-1].finalize()
	return len(b.c.Colls) - 1
}
func (b *c17Builder) mountAt(parent int, name string, coll int) int {
	n := b.add(parent, name, "mount")
	n.Ref = len(b.c.Mounts)
	b.c.Mounts = append(b.c.Mounts, c17Mount{Node: n.ID, Coll: coll})
	return n.Ref
}
func (b *c17Builder) mountExt(ctr string, coll int) int {
	b.c.Mounts = append(b.c.Mounts, c17Mount{Node: -1, Ctr: ctr, Coll: coll})
	return len(b.c.Mounts) - 1
}
func (b *c17Builder) secretAt(parent int, name string) int {
	n := b.add(parent, name, "secret")
	n.Ref = len(b.c.Secrets)
	b.c.Secrets = append(b.c.Secrets, c17Secret{Node: n.ID, Kind: "json", Content: "SECRET-fixed-0123456789"})
	return n.Ref
}
func (b *c17Builder) done() *c17Case { b.c.finalize(); return b.c }

func c17Blocks(sizes ...int) []c17Blk {
	var out []c17Blk
	for i, s := range sizes {
		out = append(out, c17Blk{Size: s, Seed: uint64(1000 + i)})
	}
	return out
}

const c17NFixed = 9

func c17FixedCase(i int) *c17Case {
	foo := func() c17Stream {
		return c17Stream{Name: ".", Blocks: c17Blocks(3), Toks: []c17Tok{{Name: "foo", Pos: 0, Len: 3}}}
	}
	switch i {
	case 0: // upstream TestSymlink
		b := c17Build("/ctr/outdir", 1<<26)
		d1 := b.dir(0, "dir1")
		d2 := b.dir(d1, "dir2")
		d3 := b.dir(d2, "dir3")
		f := b.file(d1, "file", 4)
		b.link(0, "l_abs_file", c17Link{To: "node", Node: f, Abs: true, Class: "file"})
		b.link(0, "l_abs_dir2", c17Link{To: "node", Node: d2, Abs: true, Class: "dir"})
		lrf := b.link(d2, "l_rel_file", c17Link{To: "node", Node: f, Class: "file"})
		b.link(0, "l_rel_file", c17Link{To: "node", Node: f, Class: "file"})
		ml := b.dir(0, "morelinks")
		b.link(ml, "l_rel_dir2", c17Link{To: "node", Node: d2, Class: "dir"})
		b.link(0, "l_rel_dir3", c17Link{To: "node", Node: d3, Class: "dir"})
		b.link(ml, "l_rel_l_rel_file", c17Link{To: "node", Node: lrf, Class: "chain"})
		return b.done()
	case 1: // upstream TestSymlinkToMountedCollection (read-only part) + TestSymlinkToSecret + TestSecretInOutputDir
		b := c17Build("/ctr/outdir", 1<<26)
		m := b.mountExt("/mnt", b.coll(foo()))
		b.link(0, "l_dir", c17Link{To: "mount", Mount: m, Inner: "", Class: "mount-root"})
		b.link(0, "l_file", c17Link{To: "mount", Mount: m, Inner: "foo", Abs: true, Class: "mount-file"})
		b.c.Secrets = append(b.c.Secrets, c17Secret{Node: -1, Ctr: "/secret_text", Kind: "text", Content: "SECRET-xyzzy-0123456789"})
		b.link(0, "symlink", c17Link{To: "secret", Secret: 0, Abs: true, Class: "secret"})
		b.secretAt(0, "secret_text")
		return b.done()
	case 2: // upstream TestSymlinkCycle
		b := c17Build("/ctr/outdir", 1<<26)
		d1, d2 := b.dir(0, "dir1"), b.dir(0, "dir2")
		b.link(d1, "l_dir2", c17Link{To: "node", Node: d2, Class: "cycle-mutual-dirs"})
		b.link(d2, "l_dir1", c17Link{To: "node", Node: d1, Class: "cycle-mutual-dirs"})
		return b.done()
	case 3: // upstream TestSymlinkTargetNotMounted
		b := c17Build("/ctr/outdir", 1<<26)
		b.link(0, "symlink", c17Link{To: "raw", Raw: "../boop", Class: "outside-rel"})
		return b.done()
	case 4: // witness: zero-length block between two data blocks of a mounted manifest
		b := c17Build("/ctr/outdir", 1<<26)
		b.mountAt(0, "mnt", b.coll(c17Stream{Name: ".", Blocks: c17Blocks(3, 0, 3), Toks: []c17Tok{{Name: "f", Pos: 3, Len: 3}}}))
		return b.done()
	case 5: // witness: mounted file whose name contains a backslash followed by three octal digits
		b := c17Build("/ctr/outdir", 1<<26)
		b.mountAt(0, "mnt", b.coll(c17Stream{Name: ".", Blocks: c17Blocks(3), Toks: []c17Tok{{Name: `a\040b`, Pos: 0, Len: 3}}}))
		return b.done()
	case 6: // witness: absolute link with "/./" into a collection mounted below the output path
		b := c17Build("/ctr/outdir", 1<<26)
		m := b.mountAt(0, "mnt", b.coll(foo()))
		b.link(0, "l", c17Link{To: "mount", Mount: m, Inner: "foo", Abs: true, Style: "dot", StylePos: 2, Class: "mount-file"})
		return b.done()
	case 7: // witness: absolute link with "//" to a single-file mount: host placeholder copied instead
		b := c17Build("/ctr/outdir", 1<<26)
		co := b.coll(foo())
		n := b.add(0, "mnt", "mount")
		n.Ref = 0
		b.c.Mounts = append(b.c.Mounts, c17Mount{Node: n.ID, Coll: co, Sub: "foo", SubIsFile: true})
		b.link(0, "l", c17Link{To: "mount", Mount: 0, Inner: "", Abs: true, Style: "dslash", StylePos: 2, Class: "mount-file"})
		return b.done()
	case 8: // witness: absolute link with "/./" to a directory that holds a secret mount
		b := c17Build("/ctr/outdir", 1<<26)
		d := b.dir(0, "d")
		b.file(d, "plain", 5)
		b.secretAt(d, "secret.json")
		b.link(0, "l", c17Link{To: "node", Node: d, Abs: true, Style: "dot", StylePos: 2, Class: "dir"})
		return b.done()
	}
	return nil
}
