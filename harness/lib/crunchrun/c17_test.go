//go:build verif

package crunchrun

// C17 — a container's saved output is exactly what it left in its output
// directory. See /verif/DESIGN.md §5 C17 and c17_gen_test.go / c17_ref_test.go.
//
// Oracle clauses (each is one "evaluation" when checked):
//   E1 links that lead outside every mount, or form a cycle  ⇒ Copy() returns an error
//   E2 otherwise Copy() succeeds and its manifest loads into a collection filesystem
//   E3 same set of files, same bytes (read back through the collection fs over the same fake Keep)
//   E4 same set of directories; an empty source directory may be represented by a
//      directory that is empty or holds only a zero-length ".keep"
//   E5 secret mount content appears nowhere in the output
//   E6 files that come from a mounted collection reference only locator tokens of that
//      collection's manifest; no PutB of a mounted block; total PutB bytes ≤ bytes of host files
// Not judged (counted as unspecified): dangling links, link targets through symlinked
// directories, more than 8 nested links.

import (
	"bytes"
	"fmt"
	"io/ioutil"
	"os"
	"os/exec"
	"path/filepath"
	"regexp"
	"runtime/debug"
	"sort"
	"strconv"
	"strings"
	"testing"

	"git.arvados.org/arvados.git/internal/verifkit"
	"git.arvados.org/arvados.git/sdk/go/arvados"
)

type c17Disc struct {
	Class  string
	Path   string
	Detail string
}

type c17Outcome struct {
	Crashed   bool
	CrashCls  string
	CrashText string
	CopyErr   string
	CopyOK    bool
	Manifest  string
	Ref       *c17RefResult
	Discs     []c17Disc
	Stats     map[string]int
	Evals     int
	SetupErr  string
}

var c17Seq int

// c17RunCopy drives the real copier on a materialized case.
func c17RunCopy(c *c17Case, host string) (string, error, *c17Keep) {
	keep := c17NewKeep()
	arv := &c17Arv{colls: map[string]string{}}
	for _, co := range c.Colls {
		for h, b := range co.blks {
			keep.blocks[h] = b
		}
		arv.colls[co.pdh] = co.text
	}
	mounts := map[string]arvados.Mount{c.CtrOut: {Kind: "tmp"}}
	for _, m := range c.Mounts {
		mounts[m.Ctr] = arvados.Mount{Kind: "collection", PortableDataHash: c.Colls[m.Coll].pdh, Path: m.pathSpelling()}
	}
	secrets := map[string]arvados.Mount{}
	for _, s := range c.Secrets {
		secrets[s.Ctr] = arvados.Mount{Kind: s.Kind, Content: s.Content}
	}
	old := arvados.VerifSetMaxBlockSize(c.BlockSize)
	defer arvados.VerifSetMaxBlockSize(old)
	cp := &copier{
		client:        &arvados.Client{},
		arvClient:     arv,
		keepClient:    keep,
		hostOutputDir: host,
		ctrOutputDir:  c.CtrOut,
		binds:         []string{host + ":" + c.CtrOut},
		mounts:        mounts,
		secretMounts:  secrets,
		logger:        &c17Logger{},
	}
	txt, err := cp.Copy()
	return txt, err, keep
}

func c17ErrClass(e string) string {
	switch {
	case strings.Contains(e, "not in any mount"):
		return "not-in-any-mount"
	case strings.Contains(e, "too many symlinks"):
		return "too-many-symlinks"
	case strings.Contains(e, "lstat"):
		return "lstat"
	case strings.Contains(e, "unsupported mount"):
		return "unsupported-mount"
	case strings.Contains(e, "Unsupported file type"):
		return "unsupported-file-type"
	case strings.Contains(e, "error making directory"):
		return "mkdir"
	case strings.Contains(e, "error copying file"):
		return "copy-file"
	case strings.Contains(e, "Collection.FileSystem"):
		return "load-extracted-manifest"
	}
	return "other"
}

// c17Eval materializes the case, runs the copier in this process and
// compares the result with the reference.
func c17Eval(c *c17Case, base string) *c17Outcome {
	out := &c17Outcome{Stats: map[string]int{}}
	c17Seq++
	dir := filepath.Join(base, fmt.Sprintf("c%d", c17Seq))
	defer os.RemoveAll(dir)
	host, err := c17Materialize(c, dir)
	if err != nil {
		out.SetupErr = err.Error()
		return out
	}
	ref := c17Reference(c, host)
	out.Ref = ref
	txt, cerr, keep := c17RunCopy(c, host)
	out.Manifest = txt
	disc := func(class, path, detail string) {
		out.Discs = append(out.Discs, c17Disc{class, path, detail})
	}
	if cerr != nil {
		out.CopyErr = cerr.Error()
	} else {
		out.CopyOK = true
	}
	if len(ref.Unspec) > 0 {
		out.Stats["unspecified_cases"]++
		return out
	}
	// E1
	if len(ref.Fails) > 0 {
		out.Evals++
		if cerr == nil {
			cls := "outside-link-not-rejected"
			if strings.HasPrefix(ref.Fails[0], "cycle") {
				cls = "cycle-not-rejected"
			}
			disc(cls, "", fmt.Sprintf("Copy() succeeded although %s; manifest %q", ref.Fails[0], txt))
		} else {
			out.Stats["failed_as_expected"]++
		}
		return out
	}
	// E2
	out.Evals++
	if cerr != nil {
		disc("copy-failed:"+c17ErrClass(cerr.Error()), "", "Copy() failed on a tree without bad links: "+cerr.Error())
		return out
	}
	fs, err := (&arvados.Collection{ManifestText: txt}).FileSystem(&arvados.Client{}, keep)
	if err != nil {
		disc("output-manifest-unreadable", "", fmt.Sprintf("collection filesystem rejects the output manifest: %v; manifest %q", err, txt))
		return out
	}
	files, dirs, err := c17WalkFS(fs)
	if err != nil {
		disc("output-unreadable", "", fmt.Sprintf("reading the output collection back: %v; manifest %q", err, txt))
		return out
	}
	origin := func(e c17Exp) string {
		if e.Origin >= 0 {
			return "mount-origin"
		}
		return "host-origin"
	}
	// E3
	var hostBytes int64
	for p, e := range ref.Files {
		out.Evals++
		if e.Origin < 0 {
			hostBytes += int64(len(e.Data))
		}
		got, ok := files[p]
		switch {
		case !ok && dirs[p]:
			disc("file-became-dir:"+origin(e), p, fmt.Sprintf("%q (%s, %d bytes) is a directory in the output", p, e.Src, len(e.Data)))
		case !ok:
			disc("missing-file:"+origin(e), p, fmt.Sprintf("%q (%s, %d bytes) is missing from the output", p, e.Src, len(e.Data)))
		case !bytes.Equal(got, e.Data):
			kind := "differs"
			if len(got) < len(e.Data) && bytes.Equal(got, e.Data[:len(got)]) {
				kind = "truncated"
			} else if len(got) > len(e.Data) && bytes.Equal(got[:len(e.Data)], e.Data) {
				kind = "extended"
			}
			disc("wrong-bytes:"+kind+":"+origin(e), p, fmt.Sprintf("%q (%s): output has %d bytes md5 %s, source has %d bytes md5 %s", p, e.Src, len(got), verifkit.MD5Hex(got), len(e.Data), verifkit.MD5Hex(e.Data)))
		default:
			out.Stats["files_equal"]++
			out.Stats["bytes_equal"] += len(got)
		}
	}
	hasChild := func(d string) bool {
		for p := range ref.Files {
			if strings.HasPrefix(p, d+"/") {
				return true
			}
		}
		for p := range ref.Dirs {
			if strings.HasPrefix(p, d+"/") {
				return true
			}
		}
		return false
	}
	for p, got := range files {
		if _, ok := ref.Files[p]; ok {
			continue
		}
		out.Evals++
		parent := ""
		if i := strings.LastIndex(p, "/"); i >= 0 {
			parent = p[:i]
		}
		if (p == parent+"/.keep") && len(got) == 0 && ref.Dirs[parent] && !hasChild(parent) {
			out.Stats["keep_placeholders"]++
			continue
		}
		disc("extra-file", p, fmt.Sprintf("output has %q (%d bytes) which the output directory does not have", p, len(got)))
	}
	// E4
	for d := range ref.Dirs {
		out.Evals++
		if !dirs[d] {
			if _, isFile := files[d]; isFile {
				disc("dir-became-file", d, fmt.Sprintf("directory %q is a file in the output", d))
			} else if !hasChild(d) {
				disc("missing-empty-dir", d, fmt.Sprintf("empty directory %q is missing from the output", d))
			} else {
				disc("missing-dir", d, fmt.Sprintf("directory %q is missing from the output", d))
			}
		} else if !hasChild(d) {
			out.Stats["empty_dirs_preserved"]++
		}
	}
	for d := range dirs {
		if !ref.Dirs[d] {
			out.Evals++
			disc("extra-dir", d, fmt.Sprintf("output has directory %q which the output directory does not have", d))
		}
	}
	// E5
	for _, s := range c.Secrets {
		out.Evals++
		for p, got := range files {
			if bytes.Contains(got, []byte(s.Content)) {
				disc("secret-leaked", p, fmt.Sprintf("output file %q contains the content of the secret mount at %q", p, s.Ctr))
			}
		}
		if strings.Contains(txt, s.Content) {
			disc("secret-leaked", "", "manifest text contains the secret")
		}
	}
	// E6
	parsed, _, perr := c17ParseManifest(txt)
	if perr != nil {
		disc("output-manifest-not-in-published-format", "", fmt.Sprintf("%v; manifest %q", perr, txt))
	} else {
		for p, e := range ref.Files {
			if e.Origin < 0 || len(e.Data) == 0 {
				continue
			}
			segs, ok := parsed[p]
			if !ok {
				continue // name trouble, reported by E3
			}
			out.Evals++
			out.Stats["by_reference_files_checked"]++
			locs := c.Colls[c.Mounts[e.Origin].Coll].locs
			for _, sg := range segs {
				if !locs[sg.Loc] {
					disc("not-by-reference", p, fmt.Sprintf("%q (%s) references %s, which is not a locator of the mounted collection's manifest", p, e.Src, sg.Loc))
					break
				}
			}
		}
	}
	out.Evals++
	out.Stats["putb_calls"] += keep.putCalls
	out.Stats["putb_bytes"] += int(keep.putBytes)
	if keep.putBytes > hostBytes {
		disc("excess-putb", "", fmt.Sprintf("%d bytes were written to Keep but the host files in the output amount to %d bytes", keep.putBytes, hostBytes))
	}
	for _, co := range c.Colls {
		for h := range co.hashs {
			// tiny blocks can coincide with packed host data by chance
			if len(co.blks[h]) >= 6 && keep.putHash[h] {
				disc("mounted-block-rewritten", "", "block "+h+" of a mounted collection was written to Keep again")
			}
		}
	}
	return out
}

// primary class of a set of discrepancies
func c17Primary(out *c17Outcome) (string, bool) {
	if out.Crashed {
		return out.CrashCls, true
	}
	prio := []string{"secret-leaked", "outside-link-not-rejected", "cycle-not-rejected", "copy-failed", "output-manifest-unreadable", "output-unreadable",
		"output-manifest-not-in-published-format", "name-changed", "wrong-bytes", "missing-file", "file-became-dir", "dir-became-file", "missing-dir", "missing-empty-dir",
		"extra-file", "extra-dir", "not-by-reference", "mounted-block-rewritten", "excess-putb"}
	// name-changed: every missing path reappears under its once-more-unescaped name
	extra := map[string]bool{}
	var missing []c17Disc
	for _, d := range out.Discs {
		if strings.HasPrefix(d.Class, "extra-") {
			extra[d.Path] = true
		}
		if strings.HasPrefix(d.Class, "missing-") {
			missing = append(missing, d)
		}
	}
	if len(missing) > 0 {
		all := true
		for _, d := range missing {
			u := c17UnescLenient(d.Path)
			if u == d.Path || !(extra[u] || c17HasPathPrefix(extra, u)) {
				all = false
			}
		}
		if all {
			return "name-changed", strings.Contains(missing[0].Class, "mount-origin")
		}
	}
	for _, p := range prio {
		for _, d := range out.Discs {
			if d.Class == p || strings.HasPrefix(d.Class, p+":") {
				return d.Class, strings.Contains(d.Class, "mount-origin")
			}
		}
	}
	if len(out.Discs) > 0 {
		return out.Discs[0].Class, false
	}
	return "", false
}

func c17HasPathPrefix(set map[string]bool, p string) bool {
	for e := range set {
		if strings.HasPrefix(e, p+"/") || strings.HasPrefix(p, e+"/") {
			return true
		}
	}
	return false
}

// ---------------------------------------------------------------- child process (crash isolation)

var c17PanicRe = regexp.MustCompile(`(?m)^(panic: .*|fatal error: .*)$`)

// c17ChildProbe runs only Copy() of case (stream,i)+neutralizers in a child
// process, because manifest.Extract runs part of its work in goroutines where
// a panic is process-fatal.
func c17ChildProbe(stream string, i int, neutral []string) (crashed bool, cls, text string) {
	cmd := exec.Command(os.Args[0], "-test.run", "^TestVerifC17$", "-test.count", "1", "-test.v")
	var env []string
	for _, e := range os.Environ() {
		if strings.HasPrefix(e, "VERIF_OUT=") || strings.HasPrefix(e, "VERIF_BATCH=") || strings.HasPrefix(e, "VERIF_ONLY=") || strings.HasPrefix(e, "VERIF_RESUME=") || strings.HasPrefix(e, "GOTRACEBACK=") {
			continue
		}
		env = append(env, e)
	}
	env = append(env, fmt.Sprintf("VERIF_C17_CHILD=%s:%d:%s", stream, i, strings.Join(neutral, ",")))
	cmd.Env = env
	b, err := cmd.CombinedOutput()
	s := string(b)
	if strings.Contains(s, "C17CHILD-DONE") {
		return false, "", ""
	}
	head := c17PanicRe.FindString(s)
	if head == "" {
		return true, "crash:child-died-without-panic", fmt.Sprintf("child exited with %v:\n%s", err, s)
	}
	cls = "crash:other"
	if strings.Contains(head, "extends past end of stream") {
		cls = "crash:manifest-firstBlock"
	}
	if j := strings.Index(s, head); j >= 0 {
		s = s[j:]
	}
	if len(s) > 2500 {
		s = s[:2500]
	}
	return true, cls, s
}

func c17ChildMain(t *testing.T, spec string, seed uint64) {
	parts := strings.SplitN(spec, ":", 3)
	if len(parts) != 3 {
		t.Fatalf("bad VERIF_C17_CHILD %q", spec)
	}
	i, _ := strconv.Atoi(parts[1])
	c := c17CaseFor(seed, parts[0], i)
	for _, n := range strings.Split(parts[2], ",") {
		if n != "" {
			c = c17Neutralize(c, n)
		}
	}
	dir, err := ioutil.TempDir("", fmt.Sprintf("verif-c17-child-%d-", os.Getppid()))
	if err != nil {
		t.Fatal(err)
	}
	defer os.RemoveAll(dir)
	host, err := c17Materialize(c, dir)
	if err != nil {
		fmt.Println("C17CHILD-DONE setup error", err)
		return
	}
	// a panic in a goroutine kills this process; the temp dir is then
	// removed by the parent, see c17SweepChildDirs.
	_, cerr, _ := c17RunCopy(c, host)
	fmt.Println("C17CHILD-DONE", cerr)
}

// ---------------------------------------------------------------- attribution

type c17Runner struct {
	run    *verifkit.Run
	base   string
	stream string
	idx    int
}

// evalSafe = child probe first when the case is in the crash-risk class.
func (r *c17Runner) evalSafe(c *c17Case) *c17Outcome {
	if c.zeroBlkRisk() != "" {
		r.run.Count("child_probes", 1)
		crashed, cls, text := c17ChildProbe(r.stream, r.idx, c.Neutral)
		if crashed {
			c17SweepChildDirs()
			return &c17Outcome{Crashed: true, CrashCls: cls, CrashText: text, Stats: map[string]int{}, Evals: 1}
		}
	}
	return c17Eval(c, r.base)
}

func c17SweepChildDirs() {
	// directories left by this process's dead children (children run one at a time)
	m, _ := filepath.Glob(filepath.Join(os.TempDir(), fmt.Sprintf("verif-c17-child-%d-*", os.Getpid())))
	for _, d := range m {
		os.RemoveAll(d)
	}
}

func c17Clean(o *c17Outcome) bool { return !o.Crashed && len(o.Discs) == 0 && o.SetupErr == "" }

// attribute finds, for each root cause present, which input feature is
// necessary for it: the case is re-run with one feature neutralized at a
// time; a neutralizer that makes the current primary discrepancy class
// disappear names the feature, is kept applied, and the search continues with
// what is left. Returns one signature per root cause found.
func (r *c17Runner) attribute(c *c17Case, out *c17Outcome) []string {
	var sigs []string
	cur, curOut := c, out
	for round := 0; round < 4 && !c17Clean(curOut); round++ {
		class, mountOrigin := c17Primary(curOut)
		type cand struct{ neut, feat string }
		var cands []cand
		if z := cur.zeroBlkRisk(); z != "" {
			cands = append(cands, cand{"zeroblk", z + "-zero-length-block"})
		}
		if cur.hasBackslashLookalike() {
			f := "path-with-backslash"
			if len(cur.Mounts) > 0 && (mountOrigin || class == "name-changed") {
				f = "mount-path-with-backslash"
			}
			cands = append(cands, cand{"backslash", f})
		}
		if cur.hasStyle(true) {
			cands = append(cands, cand{"absstyle", "abs-link-target-not-clean"})
		} else if cur.hasStyle(false) {
			cands = append(cands, cand{"style", "link-target-not-clean"})
		}
		found := false
		for _, cd := range cands {
			r.run.Count("attribution_reruns", 1)
			nc := c17Neutralize(cur, cd.neut)
			no := r.evalSafe(nc)
			if no.SetupErr != "" {
				continue
			}
			ncls, _ := c17Primary(no)
			if c17Clean(no) || c17Top(ncls) != c17Top(class) {
				sigs = append(sigs, "C17:"+class+":"+cd.feat)
				cur, curOut, found = nc, no, true
				break
			}
		}
		if !found {
			sigs = append(sigs, "C17:"+class)
			break
		}
	}
	return sigs
}

// c17Top is the discrepancy class without its qualifiers.
func c17Top(class string) string {
	if strings.HasPrefix(class, "crash:") {
		return class
	}
	return strings.SplitN(class, ":", 2)[0]
}

// ---------------------------------------------------------------- entry point

func c17CaseFor(seed uint64, stream string, i int) *c17Case {
	if stream == "fixed" {
		return c17FixedCase(i)
	}
	return c17Generate(verifkit.CaseRand(seed, stream, i))
}

func c17Feature(c *c17Case, ref *c17RefResult) string {
	n := len(c.Nodes) - 1
	sz := "0"
	switch {
	case n >= 16:
		sz = "16+"
	case n >= 6:
		sz = "6-15"
	case n >= 1:
		sz = "1-5"
	}
	depth := 0
	cls := map[string]bool{}
	for _, nd := range c.Nodes {
		if nd.Depth > depth {
			depth = nd.Depth
		}
		if nd.Link != nil {
			k := nd.Link.Class
			if nd.Link.Abs {
				k += "@"
			}
			cls[k] = true
		}
	}
	var ls []string
	for k := range cls {
		ls = append(ls, k)
	}
	sort.Strings(ls)
	m := ""
	for _, mt := range c.Mounts {
		k := "e"
		if mt.Node >= 0 {
			k = "i"
		}
		if mt.Sub != "" {
			k += "s"
			if mt.SubIsFile {
				k += "f"
			}
		}
		m += k + "."
	}
	s := ""
	for _, sc := range c.Secrets {
		if sc.Node >= 0 {
			s += "i"
		} else {
			s += "e"
		}
	}
	exp := "ok"
	if ref != nil {
		if len(ref.Unspec) > 0 {
			exp = "unspecified"
		} else if len(ref.Fails) > 0 {
			exp = "fail-" + strings.SplitN(ref.Fails[0], ":", 2)[0]
		}
	}
	kn := ""
	if c.Knobs.Lookalike {
		kn += "L"
	}
	if c.Knobs.ZeroBlk != "" {
		kn += "Z"
	}
	if c.Knobs.AbsStyle {
		kn += "A"
	}
	return fmt.Sprintf("n=%s,d=%d,B=%d,m=%s,s=%s,links=%s,exp=%s,k=%s", sz, depth, c.BlockSize, m, s, strings.Join(ls, "+"), exp, kn)
}

func TestVerifC17(t *testing.T) {
	// "links that form cycles make the copy fail instead of being followed
	// forever": unbounded recursion must end as a (process-fatal, attributed)
	// stack overflow after 48 MiB of stack, not after the default 1 GB per
	// child process.
	debug.SetMaxStack(48 << 20)
	run := verifkit.Start(t, "C17")
	if spec := os.Getenv("VERIF_C17_CHILD"); spec != "" {
		c17ChildMain(t, spec, run.Seed())
		return
	}
	defer run.Finish()
	base, err := ioutil.TempDir("", "verif-c17-")
	if err != nil {
		t.Fatal(err)
	}
	defer os.RemoveAll(base)

	n := run.N(1000, 40000)
	const stream = "main"
	tally := map[string]int{}
	ncases := 0
	doCase := func(stream string, i int, c *c17Case) {
		// persisted before every copy: a runaway recursion (stack overflow, see
		// SetMaxStack in TestVerifC17) or a panic on another goroutine kills the
		// process, and the driver attributes the crash to this input
		run.Input(c, true)
		r := &c17Runner{run: run, base: base, stream: stream, idx: i}
		out := r.evalSafe(c)
		if out.SetupErr != "" {
			run.Inconclusive("cannot materialize case: " + out.SetupErr)
			return
		}
		run.Eval(out.Evals)
		ncases++
		for k, v := range out.Stats {
			run.Count(k, v)
			tally[k] += v
		}
		if out.CopyOK {
			tally["copy_succeeded"]++
		}
		// ---- evidence
		run.Count("trees", 1)
		for _, nd := range c.Nodes[1:] {
			run.Count("entries_"+nd.Kind, 1)
			if nd.Link != nil {
				run.Count("link_"+nd.Link.Class, 1)
				if nd.Link.Abs {
					run.Count("links_absolute", 1)
				} else if nd.Link.To != "raw" {
					run.Count("links_relative", 1)
				}
				if nd.Link.Style != "" {
					run.Count("links_noncanonical_target", 1)
				}
			}
			if nd.Depth == 4 {
				run.Count("entries_at_depth_4", 1)
			}
		}
		run.CountMax("max_entries", len(c.Nodes)-1)
		for _, m := range c.Mounts {
			if m.Node >= 0 {
				run.Count("mounts_below_output_path", 1)
			} else {
				run.Count("mounts_elsewhere", 1)
			}
			if m.Sub != "" {
				run.Count("mounts_of_subpath", 1)
			}
		}
		for _, s := range c.Secrets {
			if s.Node >= 0 {
				run.Count("secret_mounts_below_output_path", 1)
			} else {
				run.Count("secret_mounts_elsewhere", 1)
			}
		}
		if c.Knobs.Lookalike {
			run.Count("cases_with_backslash_lookalike_names", 1)
		}
		if z := c.zeroBlkRisk(); z != "" {
			run.Count("cases_with_"+z+"_zero_length_block", 1)
		}
		if out.Ref != nil {
			ref := out.Ref
			if len(ref.Fails) > 0 {
				run.Count("expected_failures", 1)
				run.Count("expected_failure_"+strings.SplitN(ref.Fails[0], ":", 2)[0], 1)
			}
			for k, v := range ref.LinksByKind {
				run.Count("resolved_links_"+k, v)
			}
			run.Count("secret_paths_omitted_by_reference", ref.SecretOmit)
			run.CountMax("max_nested_links", ref.MaxHops)
			mo := 0
			for _, e := range ref.Files {
				if e.Origin >= 0 {
					mo++
				}
			}
			run.Count("expected_files_from_mounts", mo)
			run.Count("expected_files_from_host", len(ref.Files)-mo)
			for _, u := range ref.Unspec {
				run.Count("unspecified:"+strings.SplitN(u, ":", 2)[0], 1)
			}
		}
		if out.CopyOK {
			run.Count("copy_succeeded", 1)
		} else if !out.Crashed {
			run.Count("copy_failed", 1)
		}
		if len(c.Nodes) == 1 && len(c.Mounts) == 0 {
			run.Trivial()
		} else {
			run.Feature(c17Feature(c, out.Ref))
		}
		if stream == "main" && i < 4 {
			run.Sample(c)
		}
		// ---- verdict
		if !c17Clean(out) {
			sigs := r.attribute(c, out)
			var sb strings.Builder
			if out.Crashed {
				sb.WriteString("Copy() killed the process (observed in an isolated child process):\n" + out.CrashText)
			}
			if pc, _ := c17Primary(out); pc != "" {
				sort.SliceStable(out.Discs, func(a, b int) bool {
					return c17Top(out.Discs[a].Class) == c17Top(pc) && c17Top(out.Discs[b].Class) != c17Top(pc)
				})
			}
			for k, d := range out.Discs {
				if k < 8 {
					sb.WriteString(d.Detail + "\n")
				}
			}
			if len(out.Discs) > 8 {
				fmt.Fprintf(&sb, "… %d discrepancies in total\n", len(out.Discs))
			}
			if out.Manifest != "" {
				fmt.Fprintf(&sb, "output manifest: %q\n", out.Manifest)
			}
			for k, sig := range sigs {
				d := sb.String()
				if k > 0 {
					d = "(further root cause in the same case, seen after neutralizing the input feature of " + sigs[k-1] + ")\n" + d
				}
				run.Violation(sig, d, c)
			}
		}
	}
	run.Cases("fixed", c17NFixed, func(i int, rng *verifkit.Rand) { doCase("fixed", i, c17FixedCase(i)) })
	run.Cases(stream, n, func(i int, rng *verifkit.Rand) { doCase(stream, i, c17Generate(rng)) })
	if !run.Replaying() && ncases >= 100 {
		// a batch that saw none of these decided nothing about the respective clause
		for _, k := range []string{"copy_succeeded", "failed_as_expected", "files_equal", "by_reference_files_checked", "keep_placeholders"} {
			if tally[k] == 0 {
				run.Inconclusive(fmt.Sprintf("batch %d/%d: counter %s is zero after %d cases", run.BatchK(), run.BatchN(), k, ncases))
			}
		}
	}
}
