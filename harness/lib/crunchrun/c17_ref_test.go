//go:build verif

package crunchrun

// C17 — stubs (fake Keep, API client), materialization of a case on the host
// filesystem, and the reference resolver (the oracle's own reading of "what
// the container left in its output directory").

import (
	"crypto/md5"
	"errors"
	"fmt"
	"io"
	"io/ioutil"
	"os"
	"path/filepath"
	"regexp"
	"sort"
	"strconv"
	"strings"
	"sync"

	"git.arvados.org/arvados.git/sdk/go/arvados"
	"git.arvados.org/arvados.git/sdk/go/arvadosclient"
	"git.arvados.org/arvados.git/sdk/go/manifest"
)

// ---------------------------------------------------------------- stubs

type c17Keep struct {
	mu       sync.Mutex
	blocks   map[string][]byte
	putCalls int
	putBytes int64
	putHash  map[string]bool
	reads    int
}

func c17NewKeep() *c17Keep {
	return &c17Keep{blocks: map[string][]byte{}, putHash: map[string]bool{}}
}

func (k *c17Keep) PutB(buf []byte) (string, int, error) {
	h := fmt.Sprintf("%x", md5.Sum(buf))
	k.mu.Lock()
	defer k.mu.Unlock()
	k.blocks[h] = append([]byte(nil), buf...)
	k.putCalls++
	k.putBytes += int64(len(buf))
	k.putHash[h] = true
	return fmt.Sprintf("%s+%d+Aputb%s@7fffffff", h, len(buf), h[:8]), 1, nil
}

func (k *c17Keep) ReadAt(locator string, p []byte, off int) (int, error) {
	if len(locator) < 32 {
		return 0, os.ErrNotExist
	}
	k.mu.Lock()
	buf, ok := k.blocks[locator[:32]]
	k.reads++
	k.mu.Unlock()
	if !ok {
		return 0, os.ErrNotExist
	}
	if off > len(buf) {
		return 0, io.EOF
	}
	return copy(p, buf[off:]), nil
}

func (k *c17Keep) ManifestFileReader(m manifest.Manifest, filename string) (arvados.File, error) {
	return nil, errors.New("c17Keep: ManifestFileReader not expected")
}
func (k *c17Keep) LocalLocator(locator string) (string, error) { return locator, nil }
func (k *c17Keep) ClearBlockCache()                            {}

type c17Arv struct {
	colls map[string]string
	gets  int
}

func (a *c17Arv) Get(resourceType string, uuid string, parameters arvadosclient.Dict, output interface{}) error {
	if resourceType != "collections" {
		return fmt.Errorf("c17Arv: unexpected Get(%q)", resourceType)
	}
	txt, ok := a.colls[uuid]
	if !ok {
		return fmt.Errorf("c17Arv: no such collection %q", uuid)
	}
	a.gets++
	output.(*arvados.Collection).ManifestText = txt
	output.(*arvados.Collection).PortableDataHash = uuid
	return nil
}
func (a *c17Arv) Create(string, arvadosclient.Dict, interface{}) error {
	return errors.New("c17Arv: unexpected Create")
}
func (a *c17Arv) Update(string, string, arvadosclient.Dict, interface{}) error {
	return errors.New("c17Arv: unexpected Update")
}
func (a *c17Arv) Call(method, resourceType, uuid, action string, parameters arvadosclient.Dict, output interface{}) error {
	return errors.New("c17Arv: unexpected Call")
}
func (a *c17Arv) CallRaw(method string, resourceType string, uuid string, action string, parameters arvadosclient.Dict) (io.ReadCloser, error) {
	return nil, errors.New("c17Arv: unexpected CallRaw")
}
func (a *c17Arv) Discovery(key string) (interface{}, error) {
	return nil, errors.New("c17Arv: unexpected Discovery")
}

type c17Logger struct{ n int }

func (l *c17Logger) Printf(string, ...interface{}) { l.n++ }

// ---------------------------------------------------------------- materialize

// c17Materialize creates the host output directory of the case below dir and
// returns its path.
func c17Materialize(c *c17Case, dir string) (string, error) {
	host := filepath.Join(dir, "out")
	if err := os.MkdirAll(host, 0755); err != nil {
		return "", err
	}
	for _, n := range c.Nodes[1:] {
		p := filepath.Join(host, filepath.FromSlash(c.relPath(n.ID)))
		var err error
		switch n.Kind {
		case "dir":
			err = os.Mkdir(p, 0755)
		case "file":
			err = ioutil.WriteFile(p, c17FileBytes(n), 0644)
		case "link":
			err = os.Symlink(strings.ReplaceAll(n.Link.Text, "{HOST}", host), p)
		case "mount":
			if _, single := c.view(n.Ref)[""]; single {
				err = ioutil.WriteFile(p, nil, 0644)
			} else {
				err = os.Mkdir(p, 0755)
			}
		case "secret":
			err = ioutil.WriteFile(p, []byte(c.Secrets[n.Ref].Content), 0444)
		}
		if err != nil {
			return "", err
		}
	}
	return host, nil
}

func c17FileBytes(n *c17Node) []byte {
	b := make([]byte, n.Size)
	s := n.Seed | 1
	for i := range b {
		s ^= s << 13
		s ^= s >> 7
		s ^= s << 17
		b[i] = byte(s >> 24)
	}
	return b
}

// ---------------------------------------------------------------- reference resolver

type c17Exp struct {
	Data   []byte
	Origin int    // -1 host, else mount index
	Src    string // where it came from (for messages)
}

type c17RefResult struct {
	Files       map[string]c17Exp
	Dirs        map[string]bool // includes every directory except the root
	Fails       []string        // reasons why Copy must fail ("cycle: …", "outside: …")
	Unspec      []string        // reasons why the case is not judged
	SecretOmit  int
	LinksByKind map[string]int
	MaxHops     int
}

type c17Ref struct {
	c       *c17Case
	host    string
	ctrOut  []string
	views   []map[string][]byte
	vdirs   []map[string]bool
	res     *c17RefResult
	secrets map[string]int
	synth   map[string]bool
}

type c17Obj struct {
	Kind  string // hostfile hostdir collfile colldir secret outside missing synth eloop special
	Canon []string
	Mount int
	Inner string
	Hops  int // final-component symlinks followed
	Inter int // intermediate-component symlinks followed
}

func c17NewRef(c *c17Case, host string) *c17Ref {
	r := &c17Ref{c: c, host: host, ctrOut: c17Split(c.CtrOut), secrets: map[string]int{}, synth: map[string]bool{"/": true}}
	addAnc := func(p string) {
		cs := c17Split(p)
		for k := 1; k < len(cs); k++ {
			r.synth["/"+strings.Join(cs[:k], "/")] = true
		}
	}
	addAnc(c.CtrOut)
	for i, m := range c.Mounts {
		v := c.view(i)
		r.views = append(r.views, v)
		d := map[string]bool{}
		if _, single := v[""]; !single {
			d[""] = true
			for p := range v {
				parts := strings.Split(p, "/")
				for k := 1; k < len(parts); k++ {
					d[strings.Join(parts[:k], "/")] = true
				}
			}
		}
		r.vdirs = append(r.vdirs, d)
		addAnc(m.Ctr)
	}
	for i, s := range c.Secrets {
		r.secrets[s.Ctr] = i
		addAnc(s.Ctr)
	}
	r.res = &c17RefResult{Files: map[string]c17Exp{}, Dirs: map[string]bool{}, LinksByKind: map[string]int{}}
	return r
}

func c17HasPrefix(p, prefix []string) bool {
	if len(p) < len(prefix) {
		return false
	}
	for i := range prefix {
		if p[i] != prefix[i] {
			return false
		}
	}
	return true
}

// classify says what lives at a canonical container path.
func (r *c17Ref) classify(canon []string) c17Obj {
	p := "/" + strings.Join(canon, "/")
	o := c17Obj{Canon: append([]string(nil), canon...)}
	if _, ok := r.secrets[p]; ok {
		o.Kind = "secret"
		return o
	}
	best := -1
	for i, m := range r.c.Mounts {
		mc := c17Split(m.Ctr)
		if c17HasPrefix(canon, mc) && (best < 0 || len(mc) > len(c17Split(r.c.Mounts[best].Ctr))) {
			best = i
		}
	}
	if best >= 0 {
		inner := strings.Join(canon[len(c17Split(r.c.Mounts[best].Ctr)):], "/")
		o.Mount, o.Inner = best, inner
		if _, ok := r.views[best][inner]; ok {
			o.Kind = "collfile"
		} else if r.vdirs[best][inner] {
			o.Kind = "colldir"
		} else {
			o.Kind = "missing"
		}
		return o
	}
	if c17HasPrefix(canon, r.ctrOut) {
		fi, err := os.Lstat(r.hostPath(canon))
		switch {
		case err != nil:
			o.Kind = "missing"
		case fi.Mode()&os.ModeSymlink != 0:
			o.Kind = "hostlink"
		case fi.IsDir():
			o.Kind = "hostdir"
		case fi.Mode().IsRegular():
			o.Kind = "hostfile"
		default:
			o.Kind = "special"
		}
		return o
	}
	if r.synth[p] {
		o.Kind = "synth"
		return o
	}
	o.Kind = "outside"
	return o
}

func (r *c17Ref) hostPath(canon []string) string {
	return filepath.Join(append([]string{r.host}, canon[len(r.ctrOut):]...)...)
}

// walk resolves rest starting at the canonical directory cur, the way the
// container's kernel would (component by component, ".." = parent of the
// resolved directory, symlinks followed).
func (r *c17Ref) walk(cur []string, rest []string, budget *int, o *c17Obj) c17Obj {
	cur = append([]string(nil), cur...)
	for i := 0; i < len(rest); i++ {
		comp := rest[i]
		if comp == "" || comp == "." {
			// "x/." and "x/" demand that x is a directory
			switch r.classify(cur).Kind {
			case "hostdir", "colldir", "synth", "outside":
			default:
				return c17Obj{Kind: "missing", Canon: cur, Hops: o.Hops, Inter: o.Inter}
			}
			continue
		}
		if comp == ".." {
			if len(cur) > 0 {
				cur = cur[:len(cur)-1]
			}
			continue
		}
		here := r.classify(cur)
		switch here.Kind {
		case "hostdir", "colldir", "synth":
		case "outside":
			here.Hops, here.Inter = o.Hops, o.Inter
			return here
		default:
			return c17Obj{Kind: "missing", Canon: cur, Hops: o.Hops, Inter: o.Inter}
		}
		next := append(append([]string(nil), cur...), comp)
		k := r.classify(next)
		if k.Kind == "hostlink" {
			*budget--
			if *budget < 0 {
				return c17Obj{Kind: "eloop", Canon: next, Hops: o.Hops, Inter: o.Inter}
			}
			final := true
			for _, x := range rest[i+1:] {
				if x != "" && x != "." {
					final = false
				}
			}
			if final {
				o.Hops++
			} else {
				o.Inter++
			}
			t, err := os.Readlink(r.hostPath(next))
			if err != nil {
				return c17Obj{Kind: "missing", Canon: next}
			}
			start := cur
			if strings.HasPrefix(t, "/") {
				start = nil
			}
			nrest := append(strings.Split(t, "/"), rest[i+1:]...)
			return r.walk(start, nrest, budget, o)
		}
		cur = next
	}
	k := r.classify(cur)
	k.Hops, k.Inter = o.Hops, o.Inter
	return k
}

func (r *c17Ref) fail(s string) {
	if len(r.res.Fails) < 20 {
		r.res.Fails = append(r.res.Fails, s)
	}
}

func (r *c17Ref) unspec(s string) {
	if len(r.res.Unspec) < 20 {
		r.res.Unspec = append(r.res.Unspec, s)
	}
}

func c17Join(a, b string) string {
	if a == "" {
		return b
	}
	if b == "" {
		return a
	}
	return a + "/" + b
}

func (r *c17Ref) addDir(dest string) {
	if dest != "" {
		r.res.Dirs[dest] = true
	}
}

func (r *c17Ref) expandColl(m int, inner, dest string) {
	v := r.views[m]
	if b, ok := v[inner]; ok {
		r.res.Files[dest] = c17Exp{Data: b, Origin: m, Src: fmt.Sprintf("mount#%d:%q", m, inner)}
		return
	}
	r.addDir(dest)
	for p, b := range v {
		var rel string
		if inner == "" {
			rel = p
		} else if strings.HasPrefix(p, inner+"/") {
			rel = p[len(inner)+1:]
		} else {
			continue
		}
		full := c17Join(dest, rel)
		r.res.Files[full] = c17Exp{Data: b, Origin: m, Src: fmt.Sprintf("mount#%d:%q", m, p)}
		parts := strings.Split(rel, "/")
		for k := 1; k < len(parts); k++ {
			r.addDir(c17Join(dest, strings.Join(parts[:k], "/")))
		}
	}
}

func (r *c17Ref) expandHostDir(canon []string, dest string, stack map[string]bool, hops int) {
	if len(r.res.Files)+len(r.res.Dirs) > 5000 {
		r.unspec("expansion too large")
		return
	}
	r.addDir(dest)
	f, err := os.Open(r.hostPath(canon))
	if err != nil {
		r.unspec("cannot open " + r.hostPath(canon))
		return
	}
	names, _ := f.Readdirnames(-1)
	f.Close()
	sort.Strings(names)
	for _, name := range names {
		child := append(append([]string(nil), canon...), name)
		cdest := c17Join(dest, name)
		k := r.classify(child)
		switch k.Kind {
		case "secret":
			r.res.SecretOmit++
		case "collfile", "colldir":
			// a mount point: the container sees the collection here
			r.expandColl(k.Mount, k.Inner, cdest)
		case "hostfile":
			b, err := ioutil.ReadFile(r.hostPath(child))
			if err != nil {
				r.unspec("cannot read " + r.hostPath(child))
				continue
			}
			r.res.Files[cdest] = c17Exp{Data: b, Origin: -1, Src: "host:" + strconv.Quote(strings.Join(child, "/"))}
		case "hostdir":
			key := strings.Join(child, "/")
			stack[key] = true
			r.expandHostDir(child, cdest, stack, hops)
			delete(stack, key)
		case "hostlink":
			r.expandLink(child, cdest, stack, hops)
		default:
			r.unspec("unexpected " + k.Kind + " at " + strings.Join(child, "/"))
		}
	}
}

func (r *c17Ref) expandLink(link []string, dest string, stack map[string]bool, hops int) {
	budget := 40
	o := &c17Obj{}
	// resolving the link itself = walking [its name] from its parent directory
	obj := r.walk(link[:len(link)-1], []string{link[len(link)-1]}, &budget, o)
	hops += obj.Hops
	if obj.Kind != "eloop" && hops > r.res.MaxHops {
		r.res.MaxHops = hops
	}
	lp := strconv.Quote(strings.Join(link, "/"))
	if obj.Inter > 0 {
		r.unspec("link target passes through a symlinked directory: " + lp)
	}
	switch obj.Kind {
	case "eloop":
		r.res.LinksByKind["cycle"]++
		r.fail("cycle: symlink loop at " + lp)
	case "outside":
		r.res.LinksByKind["outside"]++
		r.fail("outside: " + lp + " leads to /" + strings.Join(obj.Canon, "/") + " which is in no mount")
	case "synth":
		r.res.LinksByKind["outside"]++
		r.fail("outside: " + lp + " leads to /" + strings.Join(obj.Canon, "/") + " which is above the mounts, in no mount")
	case "secret":
		r.res.LinksByKind["to-secret"]++
		r.res.SecretOmit++
	case "missing", "special", "hostlink":
		r.unspec("dangling or unsupported link target: " + lp + " (" + obj.Kind + ")")
	case "collfile", "colldir":
		r.res.LinksByKind["to-"+obj.Kind]++
		r.expandColl(obj.Mount, obj.Inner, dest)
	case "hostfile":
		r.res.LinksByKind["to-hostfile"]++
		b, err := ioutil.ReadFile(r.hostPath(obj.Canon))
		if err != nil {
			r.unspec("cannot read " + r.hostPath(obj.Canon))
			return
		}
		r.res.Files[dest] = c17Exp{Data: b, Origin: -1, Src: "host:" + strconv.Quote(strings.Join(obj.Canon, "/")) + " via link"}
	case "hostdir":
		key := strings.Join(obj.Canon, "/")
		if stack[key] {
			r.res.LinksByKind["cycle"]++
			r.fail("cycle: " + lp + " leads to /" + key + " which contains it")
			return
		}
		r.res.LinksByKind["to-hostdir"]++
		if hops > 8 {
			r.unspec("more than 8 nested symlinks")
			return
		}
		stack[key] = true
		r.expandHostDir(obj.Canon, dest, stack, hops)
		delete(stack, key)
	}
}

// c17Reference computes what the output collection must contain.
func c17Reference(c *c17Case, host string) *c17RefResult {
	r := c17NewRef(c, host)
	root := strings.Join(r.ctrOut, "/")
	r.expandHostDir(r.ctrOut, "", map[string]bool{root: true}, 0)
	return r.res
}

// ---------------------------------------------------------------- reading the output

type c17Seg struct {
	Loc      string
	Off, Len int
}

var c17LocRe = regexp.MustCompile(`^[0-9a-f]{32}\+([0-9]+)(\+\S+)?$`)
var c17OctRe = regexp.MustCompile(`\\[0-7]{3}`)

func c17UnescPublished(s string) string {
	return c17OctRe.ReplaceAllStringFunc(s, func(m string) string {
		v, _ := strconv.ParseUint(m[1:], 8, 16)
		return string([]byte{byte(v)})
	})
}

// c17UnescLenient additionally reads `\\` as a backslash (what both Go
// loaders do). Used only to classify a discrepancy as "name changed".
func c17UnescLenient(s string) string {
	re := regexp.MustCompile(`\\([0-7]{3}|\\)`)
	return re.ReplaceAllStringFunc(s, func(m string) string {
		if m == `\\` {
			return `\`
		}
		v, _ := strconv.ParseUint(m[1:], 8, 16)
		return string([]byte{byte(v)})
	})
}

// c17ParseManifest is the oracle's own tokenizer of the published format; it
// is used to find out which block locators each output file references.
func c17ParseManifest(txt string) (map[string][]c17Seg, []string, error) {
	files := map[string][]c17Seg{}
	var locs []string
	if txt == "" {
		return files, nil, nil
	}
	if !strings.HasSuffix(txt, "\n") {
		return nil, nil, errors.New("no trailing newline")
	}
	for ln, line := range strings.Split(strings.TrimSuffix(txt, "\n"), "\n") {
		toks := strings.Split(line, " ")
		stream := c17UnescPublished(toks[0])
		if stream != "." && !strings.HasPrefix(stream, "./") {
			return nil, nil, fmt.Errorf("line %d: bad stream name %q", ln+1, stream)
		}
		type blk struct {
			loc       string
			pos, size int
		}
		var blks []blk
		pos := 0
		i := 1
		for ; i < len(toks); i++ {
			m := c17LocRe.FindStringSubmatch(toks[i])
			if m == nil {
				break
			}
			sz, _ := strconv.Atoi(m[1])
			blks = append(blks, blk{toks[i], pos, sz})
			locs = append(locs, toks[i])
			pos += sz
		}
		if len(blks) == 0 || i == len(toks) {
			return nil, nil, fmt.Errorf("line %d: no locators or no file tokens", ln+1)
		}
		for ; i < len(toks); i++ {
			parts := strings.SplitN(toks[i], ":", 3)
			if len(parts) != 3 {
				return nil, nil, fmt.Errorf("line %d: bad file token %q", ln+1, toks[i])
			}
			fp, e1 := strconv.Atoi(parts[0])
			fl, e2 := strconv.Atoi(parts[1])
			if e1 != nil || e2 != nil || fp < 0 || fl < 0 || fp+fl > pos {
				return nil, nil, fmt.Errorf("line %d: bad range in %q", ln+1, toks[i])
			}
			name := strings.TrimPrefix(strings.TrimPrefix(stream+"/"+c17UnescPublished(parts[2]), "."), "/")
			if _, ok := files[name]; !ok {
				files[name] = nil
			}
			for _, b := range blks {
				if b.size == 0 || b.pos+b.size <= fp || b.pos >= fp+fl {
					continue
				}
				s := c17Seg{Loc: b.loc}
				if fp > b.pos {
					s.Off = fp - b.pos
				}
				end := b.size
				if fp+fl < b.pos+b.size {
					end = fp + fl - b.pos
				}
				s.Len = end - s.Off
				files[name] = append(files[name], s)
			}
		}
	}
	return files, locs, nil
}

// c17WalkFS reads a whole collection filesystem.
func c17WalkFS(fs arvados.CollectionFileSystem) (map[string][]byte, map[string]bool, error) {
	files := map[string][]byte{}
	dirs := map[string]bool{}
	var walk func(p string) error
	walk = func(p string) error {
		d, err := fs.Open("/" + p)
		if err != nil {
			return fmt.Errorf("open dir %q: %v", p, err)
		}
		fis, err := d.Readdir(-1)
		d.Close()
		if err != nil {
			return fmt.Errorf("readdir %q: %v", p, err)
		}
		for _, fi := range fis {
			cp := c17Join(p, fi.Name())
			if fi.IsDir() {
				dirs[cp] = true
				if err := walk(cp); err != nil {
					return err
				}
				continue
			}
			f, err := fs.Open("/" + cp)
			if err != nil {
				return fmt.Errorf("open %q: %v", cp, err)
			}
			b, err := ioutil.ReadAll(f)
			f.Close()
			if err != nil {
				return fmt.Errorf("read %q: %v", cp, err)
			}
			if int64(len(b)) != fi.Size() {
				return fmt.Errorf("file %q: Readdir says %d bytes, read %d", cp, fi.Size(), len(b))
			}
			files[cp] = b
		}
		return nil
	}
	return files, dirs, walk("")
}
